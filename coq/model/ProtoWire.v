(* C12 — protobuf wire codec for the message shapes tink-go uses (proto3, no
   maps / oneofs / packed scalars): varint, tag = field<<3|wiretype,
   length-delimited; a schema type; the canonical encoder (what
   proto.Marshal{Deterministic} emits: known fields in field-number order,
   default values omitted); a total decoder following
   google.golang.org/protobuf/internal/impl/decode.go (non-minimal varints
   accepted, 10-byte limit, unknown fields and wire-type mismatches skipped,
   groups skipped as unknown, last scalar wins, message fields merge,
   repeated fields append, strings must be valid UTF-8).  No proofs here. *)
From Coq Require Import List NArith Bool.
From Tink Require Import Bytes.
Import ListNotations.
Open Scope N_scope.

(* ------------------------------------------------------------------ *)
(* varint                                                              *)
(* ------------------------------------------------------------------ *)
Fixpoint venc (fuel : nat) (x : N) : bytes :=
  match fuel with
  | O => []
  | S f => if x <? 128 then [x] else (x mod 128 + 128) :: venc f (x / 128)
  end.
(* ten groups of seven bits cover every uint64 *)
Definition varint_enc (x : N) : bytes := venc 10 x.

Fixpoint vdec (fuel : nat) (b : bytes) : option (N * bytes) :=
  match fuel, b with
  | S f, x :: t =>
      if x <? 128 then Some (x, t)
      else match vdec f t with
           | Some (v, r) => Some ((x - 128) + 128 * v, r)
           | None => None
           end
  | _, _ => None
  end.
Definition two64 : N := 18446744073709551616.
(* protowire.ConsumeVarint: at most 10 bytes, the value must fit 64 bits
   (tenth byte 0 or 1); non-minimal encodings are accepted *)
Definition varint_dec (b : bytes) : option (N * bytes) :=
  match vdec 10 b with
  | Some (v, r) => if v <? two64 then Some (v, r) else None
  | None => None
  end.

(* ------------------------------------------------------------------ *)
(* raw fields: the wire without a schema                               *)
(* ------------------------------------------------------------------ *)
Inductive raw := RVar (v : N) | RLen (p : bytes) | RSkip.
Definition rfield := (N * raw)%type.

Definition max_field : N := 536870911.  (* 2^29 - 1 *)

Definition ser_one (f : rfield) : bytes :=
  match f with
  | (num, RVar v) => varint_enc (num * 8) ++ varint_enc v
  | (num, RLen p) => varint_enc (num * 8 + 2) ++ varint_enc (N.of_nat (length p)) ++ p
  | (_, RSkip) => []
  end.
Definition ser (fs : list rfield) : bytes := concat (map ser_one fs).

Definition take_n (n : nat) (b : bytes) : option (bytes * bytes) :=
  if Nat.leb n (length b) then Some (firstn n b, skipn n b) else None.

(* a length prefix: compared as a number first, so that an absurd length never
   becomes a unary nat *)
Definition take_len (l : N) (b : bytes) : option (bytes * bytes) :=
  if l <=? N.of_nat (length b) then take_n (N.to_nat l) b else None.

Definition parse_tag (b : bytes) : option (N * N * bytes) :=
  match varint_dec b with
  | Some (t, r) =>
      let num := t / 8 in
      if (1 <=? num) && (num <=? max_field) then Some (num, t mod 8, r) else None
  | None => None
  end.

(* inside a skipped group protowire.ConsumeTag only asks for a field number in [1, 2^31-1]
   (DecodeTag); the 2^29-1 bound of parse_tag is the message-level one (impl.unmarshal) *)
Definition max_int32 : N := 2147483647.
Definition parse_tag_g (b : bytes) : option (N * N * bytes) :=
  match varint_dec b with
  | Some (t, r) =>
      let num := t / 8 in
      if (1 <=? num) && (num <=? max_int32) then Some (num, t mod 8, r) else None
  | None => None
  end.

(* protowire.DefaultRecursionLimit: consumeFieldValueD starts a top-level group with depth 10000,
   every nested group costs one, a group reached with depth < 0 is an error: 10001 nested groups
   are skipped, 10002 are refused *)
Definition group_depth : nat := N.to_nat 10000.

(* protowire.ConsumeFieldValue for a group: skip fields until the matching
   end-group tag; nested groups recurse.  [fuel] bounds the number of tags, [d] is the number of
   further nesting levels allowed below this group. *)
Fixpoint skip_group (fuel : nat) (d : nat) (gnum : N) (b : bytes) : option bytes :=
  match fuel with
  | O => None
  | S f =>
      match parse_tag_g b with
      | None => None
      | Some (num, wt, r) =>
          if wt =? 4 then (if num =? gnum then Some r else None)
          else if wt =? 0 then
            match varint_dec r with Some (_, r') => skip_group f d gnum r' | None => None end
          else if wt =? 1 then
            match take_n 8 r with Some (_, r') => skip_group f d gnum r' | None => None end
          else if wt =? 5 then
            match take_n 4 r with Some (_, r') => skip_group f d gnum r' | None => None end
          else if wt =? 2 then
            match varint_dec r with
            | Some (l, r') =>
                match take_len l r' with Some (_, r'') => skip_group f d gnum r'' | None => None end
            | None => None
            end
          else if wt =? 3 then
            match d with
            | O => None
            | S d' =>
              match skip_group f d' num r with Some r' => skip_group f d gnum r' | None => None end
            end
          else None
      end
  end.

Definition parse_one (b : bytes) : option (rfield * bytes) :=
  match parse_tag b with
  | None => None
  | Some (num, wt, r) =>
      if wt =? 0 then
        match varint_dec r with Some (v, r') => Some ((num, RVar v), r') | None => None end
      else if wt =? 2 then
        match varint_dec r with
        | Some (l, r') =>
            match take_len l r' with Some (p, r'') => Some ((num, RLen p), r'') | None => None end
        | None => None
        end
      else if wt =? 1 then
        match take_n 8 r with Some (_, r') => Some ((num, RSkip), r') | None => None end
      else if wt =? 5 then
        match take_n 4 r with Some (_, r') => Some ((num, RSkip), r') | None => None end
      else if wt =? 3 then
        match skip_group (length r) group_depth num r with Some r' => Some ((num, RSkip), r') | None => None end
      else None  (* a stray end-group, or reserved wire types 6 and 7 *)
  end.

Fixpoint parse_raw (fuel : nat) (b : bytes) : option (list rfield) :=
  match b with
  | [] => Some []
  | _ =>
      match fuel with
      | O => None
      | S f =>
          match parse_one b with
          | Some (x, r) =>
              match parse_raw f r with Some xs => Some (x :: xs) | None => None end
          | None => None
          end
      end
  end.
Definition parse (b : bytes) : option (list rfield) := parse_raw (length b) b.

(* ------------------------------------------------------------------ *)
(* schema and values                                                   *)
(* ------------------------------------------------------------------ *)
Inductive fty :=
| TU32 | TU64 | TI32 | TI64 | TEnum | TBool | TBytes | TString
| TMsg (s : schema) | TRep (s : schema)
with schema :=
| SNil | SCons (num : N) (t : fty) (rest : schema).

Inductive val :=
| VInt (n : N)                    (* scalars; int32/int64/enum as 64-bit two's complement *)
| VBytes (b : bytes)              (* bytes and strings *)
| VMsg (m : option (list val))    (* singular message field: presence *)
| VRep (ms : list (list val)).    (* repeated message field *)
Definition msg := list val.

Fixpoint nums (s : schema) : list N :=
  match s with SNil => [] | SCons n _ r => n :: nums r end.

(* ------------------------------------------------------------------ *)
(* UTF-8 validity as unicode/utf8.Valid decides it                      *)
(* ------------------------------------------------------------------ *)
Definition inr (lo hi x : N) : bool := (lo <=? x) && (x <=? hi).
Fixpoint utf8_valid (b : bytes) : bool :=
  match b with
  | [] => true
  | x :: t =>
      if x <? 128 then utf8_valid t
      else if x <? 194 then false
      else if x <? 224 then
        match t with c1 :: t1 => inr 128 191 c1 && utf8_valid t1 | _ => false end
      else if x <? 240 then
        match t with
        | c1 :: c2 :: t2 =>
            inr (if x =? 224 then 160 else 128) (if x =? 237 then 159 else 191) c1
            && inr 128 191 c2 && utf8_valid t2
        | _ => false
        end
      else if x <? 245 then
        match t with
        | c1 :: c2 :: c3 :: t3 =>
            inr (if x =? 240 then 144 else 128) (if x =? 244 then 143 else 191) c1
            && inr 128 191 c2 && inr 128 191 c3 && utf8_valid t3
        | _ => false
        end
      else false
  end.

(* ------------------------------------------------------------------ *)
(* encoder: message -> raw fields -> bytes                             *)
(* ------------------------------------------------------------------ *)
Definition is_scalar (t : fty) : bool :=
  match t with TU32 | TU64 | TI32 | TI64 | TEnum | TBool => true | _ => false end.

Fixpoint raw_val (t : fty) (num : N) (v : val) : list rfield :=
  match t, v with
  | TMsg s, VMsg (Some m) => [(num, RLen (ser (raw_fields s m)))]
  | TMsg _, _ => []
  | TRep s, VRep ms => map (fun m => (num, RLen (ser (raw_fields s m)))) ms
  | TRep _, _ => []
  | (TBytes | TString), VBytes b => match b with [] => [] | _ => [(num, RLen b)] end
  | (TBytes | TString), _ => []
  | _, VInt n => if n =? 0 then [] else [(num, RVar n)]
  | _, _ => []
  end
with raw_fields (s : schema) (m : msg) : list rfield :=
  match s, m with
  | SCons num t s', v :: m' => raw_val t num v ++ raw_fields s' m'
  | _, _ => []
  end.

Definition encode (s : schema) (m : msg) : bytes := ser (raw_fields s m).

(* ------------------------------------------------------------------ *)
(* decoder: bytes -> raw fields -> message                             *)
(* ------------------------------------------------------------------ *)
Definition two32 : N := 4294967296.
Definition two31 : N := 2147483648.
Definition two63 : N := 9223372036854775808.
(* Go: int32(v) then sign-extended to 64 bits when written back *)
Definition sext32 (v : N) : N :=
  let w := v mod two32 in if w <? two31 then w else w + (two64 - two32).

Definition norm_scalar (t : fty) (v : N) : N :=
  match t with
  | TU32 => v mod two32
  | TI32 | TEnum => sext32 v
  | TBool => if v =? 0 then 0 else 1
  | _ => v mod two64
  end.

(* varint occurrences / length-delimited occurrences of field [num], in wire order *)
Fixpoint vars_of (num : N) (rs : list rfield) : list N :=
  match rs with
  | [] => []
  | (n, RVar v) :: r => if n =? num then v :: vars_of num r else vars_of num r
  | _ :: r => vars_of num r
  end.
Fixpoint lens_of (num : N) (rs : list rfield) : list bytes :=
  match rs with
  | [] => []
  | (n, RLen p) :: r => if n =? num then p :: lens_of num r else lens_of num r
  | _ :: r => lens_of num r
  end.

Fixpoint parse_all (ps : list bytes) : option (list (list rfield)) :=
  match ps with
  | [] => Some []
  | p :: r =>
      match parse p, parse_all r with
      | Some x, Some xs => Some (x :: xs)
      | _, _ => None
      end
  end.

Fixpoint all_some {A} (l : list (option A)) : option (list A) :=
  match l with
  | [] => Some []
  | Some x :: r => match all_some r with Some xs => Some (x :: xs) | None => None end
  | None :: _ => None
  end.

(* [vs] / [ps]: the varint / length-delimited occurrences of the field, in wire order *)
Fixpoint dec_val (t : fty) (vs : list N) (ps : list bytes) : option val :=
  match t with
  | TMsg s =>
      match ps with
      | [] => Some (VMsg None)
      | _ =>
          match parse_all ps with
          | Some rss =>
              match dec_fields s (concat rss) with
              | Some m => Some (VMsg (Some m))
              | None => None
              end
          | None => None
          end
      end
  | TRep s =>
      match parse_all ps with
      | Some rss =>
          match all_some (map (dec_fields s) rss) with
          | Some ms => Some (VRep ms)
          | None => None
          end
      | None => None
      end
  | TBytes => Some (VBytes (last ps []))
  | TString => if forallb utf8_valid ps then Some (VBytes (last ps [])) else None
  | _ => Some (VInt (norm_scalar t (last vs 0)))
  end
with dec_fields (s : schema) (rs : list rfield) : option msg :=
  match s with
  | SNil => Some []
  | SCons num t s' =>
      match dec_val t (vars_of num rs) (lens_of num rs), dec_fields s' rs with
      | Some v, Some m => Some (v :: m)
      | _, _ => None
      end
  end.

Definition decode (s : schema) (b : bytes) : option msg :=
  match parse b with
  | Some rs => dec_fields s rs
  | None => None
  end.

(* ------------------------------------------------------------------ *)
(* well-formedness (the domain of the round-trip theorems)             *)
(* ------------------------------------------------------------------ *)
Definition scalar_ok (t : fty) (n : N) : bool :=
  match t with
  | TU32 => n <? two32
  | TU64 | TI64 => n <? two64
  | TI32 | TEnum => (n <? two31) || ((two64 - two31 <=? n) && (n <? two64))
  | TBool => n <? 2
  | _ => false
  end.

Fixpoint wf_val (t : fty) (v : val) : bool :=
  match t, v with
  | TMsg s, VMsg None => true
  | TMsg s, VMsg (Some m) => wf_msg s m
  | TRep s, VRep ms => forallb (wf_msg s) ms
  | TBytes, VBytes _ => true
  | TString, VBytes b => utf8_valid b
  | (TMsg _ | TRep _ | TBytes | TString), _ => false
  | _, VInt n => scalar_ok t n
  | _, _ => false
  end
with wf_msg (s : schema) (m : msg) : bool :=
  match s, m with
  | SNil, [] => true
  | SCons _ t s', v :: m' => wf_val t v && wf_msg s' m'
  | _, _ => false
  end.

Fixpoint nodupb (l : list N) : bool :=
  match l with [] => true | x :: r => negb (existsb (N.eqb x) r) && nodupb r end.

(* field numbers valid and pairwise distinct, at every level *)
Fixpoint wf_fty (t : fty) : bool :=
  match t with
  | TMsg s | TRep s => wf_schema s
  | _ => true
  end
with wf_schema (s : schema) : bool :=
  match s with
  | SNil => true
  | SCons num t s' =>
      (1 <=? num) && (num <=? max_field) && negb (existsb (N.eqb num) (nums s'))
      && wf_fty t && wf_schema s'
  end.

(* ------------------------------------------------------------------ *)
(* field access used by the serialisation models                       *)
(* ------------------------------------------------------------------ *)
Fixpoint get_field (s : schema) (m : msg) (num : N) : option (fty * val) :=
  match s, m with
  | SCons n t s', v :: m' => if n =? num then Some (t, v) else get_field s' m' num
  | _, _ => None
  end.
Fixpoint set_field (s : schema) (m : msg) (num : N) (v' : val) : msg :=
  match s, m with
  | SCons n t s', v :: m' => if n =? num then v' :: m' else v :: set_field s' m' num v'
  | _, _ => m
  end.
(* the all-defaults message of a schema *)
Definition default_val (t : fty) : val :=
  match t with
  | TMsg _ => VMsg None
  | TRep _ => VRep []
  | TBytes | TString => VBytes []
  | _ => VInt 0
  end.
Fixpoint default_msg (s : schema) : msg :=
  match s with SNil => [] | SCons _ t s' => default_val t :: default_msg s' end.
