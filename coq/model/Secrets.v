(* C13 — executable model of the paths on which key material may leave a
   keyset handle, on top of model/Untrusted.v (which holds the keyset message,
   the handle entries and hasSecrets because the no-secrets readers need it).

   Go                                                model
   keyset/handle.go hasSecrets                       Untrusted.has_secrets / secret_material
   NewHandleWithNoSecrets / ReadWithNoSecrets        Untrusted.handle_no_secrets / read_no_secrets
   entriesToProtoKeyset (SerializeKey per entry)     proto_of_handle (out_material, Untrusted.shown_prefix)
   Handle.WriteWithNoSecrets                         write_no_secrets
   entriesToKeysetInfo, Handle.KeysetInfo/String     info_of_handle (String = text_of_info of it)
   getKeysetInfo (beside the ciphertext)             info_of_keyset
   proto.Marshal of Keyset / EncryptedKeyset         ser_keyset / ser_encrypted_binary
   encrypt + BinaryWriter.WriteEncrypted             write_encrypted_binary (keyset_info dropped)
   encrypt + JSONWriter.WriteEncrypted               encrypted_form = (ciphertext, info)
   decrypt + newKeysetHandleFromProto                Untrusted.read_encrypted
   No proofs here: proofs/SecretsProofs.v. *)
From Coq Require Import String Ascii List NArith Bool.
From Tink Require Import Bytes UntrustedConsts Untrusted.
Import ListNotations.
Open Scope list_scope.
Open Scope N_scope.

(* what a key object serialises to: Untrusted.out_material (the no-secrets
   import needs it as well since /repo b141c20) *)

(* entryToProtoKey: the prefix type is the one the key's serializer writes
   (Untrusted.shown_prefix: LEGACY comes back as CRUNCHY for the AEAD, DAEAD and
   ECIES types, the streaming AEAD keys are always written as RAW) *)
Definition proto_key_of_entry (e : entry) : pkey :=
  mkPK (Some (mkKD (eurl e) (evalue e) (out_material e))) (estatus e) (eid e) (shown_prefix e).

(* the loop of entriesToProtoKeyset / entriesToKeysetInfo: the id of the last
   entry flagged primary *)
Definition primary_id (h : handle) : N :=
  fold_left (fun acc e => if eprim e then eid e else acc) h 0.

(* entriesToProtoKeyset *)
Definition proto_of_handle (h : handle) : keyset :=
  mkKS (primary_id h) (map (fun e => Some (proto_key_of_entry e)) h).

(* ---- KeysetInfo: metadata only ---- *)
Record key_info := mkKI { ki_url : bytes; ki_status : N; ki_id : N; ki_prefix : N }.
Record keyset_info := mkInfo { i_primary : N; i_keys : list key_info }.

(* entriesToKeysetInfo (Handle.KeysetInfo; Handle.String is its text form) *)
Definition info_of_handle (h : handle) : keyset_info :=
  mkInfo (primary_id h)
         (map (fun e => mkKI (eurl e) (estatus e) (eid e) (shown_prefix e)) h).

(* getKeysetInfo / getKeyInfo on a Keyset message *)
Definition key_info_of (k : option pkey) : key_info :=
  match k with
  | Some k => mkKI (match k_data k with Some kd => kd_url kd | None => [] end)
                   (k_status k) (k_id k) (k_prefix k)
  | None => mkKI [] 0 0 0
  end.
Definition info_of_keyset (ks : keyset) : keyset_info :=
  mkInfo (ks_primary ks) (map key_info_of (ks_keys ks)).

(* the projection of a keyset the property allows outputs to depend on *)
Definition metadata (ks : keyset) : keyset_info := info_of_keyset ks.

(* ---- proto.Marshal (deterministic: fields in number order, proto3 defaults omitted) ---- *)
Fixpoint enc_varint_aux (fuel : nat) (v : N) : bytes :=
  match fuel with
  | O => []
  | S f => if v <? 128 then [v] else (v mod 128 + 128) :: enc_varint_aux f (v / 128)
  end.
Definition enc_varint (v : N) : bytes := enc_varint_aux 10 v.
Definition enc_tag (num wt : N) : bytes := enc_varint (num * 8 + wt).
Definition enc_var_field (num v : N) : bytes :=
  if v =? 0 then [] else enc_tag num 0 ++ enc_varint v.
Definition enc_len_field (num : N) (b : bytes) : bytes :=
  enc_tag num 2 ++ enc_varint (blen b) ++ b.
Definition enc_bytes_field (num : N) (b : bytes) : bytes :=
  match b with [] => [] | _ => enc_len_field num b end.

Definition ser_keydata (kd : keydata) : bytes :=
  enc_bytes_field 1 (kd_url kd) ++ enc_bytes_field 2 (kd_value kd) ++ enc_var_field 3 (kd_mat kd).
Definition ser_key (k : pkey) : bytes :=
  (match k_data k with Some kd => enc_len_field 1 (ser_keydata kd) | None => [] end)
  ++ enc_var_field 2 (k_status k) ++ enc_var_field 3 (k_id k) ++ enc_var_field 4 (k_prefix k).
Definition ser_keyset (ks : keyset) : bytes :=
  enc_var_field 1 (ks_primary ks)
  ++ flat_map (fun k => match k with Some k => enc_len_field 2 (ser_key k) | None => enc_len_field 2 [] end)
              (ks_keys ks).

(* ---- Handle.WriteWithNoSecrets ---- *)
Definition write_no_secrets (h : handle) : outcome bytes :=
  match h with
  | [] => Err                                    (* entriesToProtoKeyset: "entries is empty" *)
  | _ => let ks := proto_of_handle h in
         if has_secrets ks then Err else Ok (ser_keyset ks)
  end.

(* ---- insecurecleartextkeyset.Write through the binary writer ---- *)
Definition write_cleartext_binary (h : handle) : outcome bytes :=
  match h with
  | [] => Err
  | _ => Ok (ser_keyset (proto_of_handle h))
  end.

(* ---- Handle.WriteWithAssociatedData ---- *)
Section Encrypted.
(* the key-encryption AEAD's Encrypt, with its randomness made explicit *)
Variable kek_enc : bytes -> bytes -> bytes -> bytes.      (* iv, plaintext, associated data *)

Definition encrypted_ct (h : handle) (iv ad : bytes) : bytes :=
  kek_enc iv (ser_keyset (proto_of_handle h)) ad.

(* encrypt: EncryptedKeyset{encrypted_keyset, keyset_info} *)
Definition encrypted_form (h : handle) (iv ad : bytes) : bytes * keyset_info :=
  (encrypted_ct h iv ad, info_of_keyset (proto_of_handle h)).

(* BinaryWriter.WriteEncrypted: only the ciphertext is written *)
Definition ser_encrypted_binary (ct : bytes) : bytes := enc_bytes_field 2 ct.
Definition write_encrypted_binary (h : handle) (iv ad : bytes) : outcome bytes :=
  match h with
  | [] => Err
  | _ => Ok (ser_encrypted_binary (encrypted_ct h iv ad))
  end.

(* ---- a writer used for several writes ----
   keyset.BinaryWriter holds nothing but its io.Writer: what a write emits is a
   function of that write's own arguments, whatever was written before through
   the same writer (Handle.Write(w, kek) is WriteWithAssociatedData with empty
   associated data).  One element of the result per write, in order. *)
Inductive wop :=
| WClear (h : handle)                        (* insecurecleartextkeyset.Write *)
| WEncrypted (h : handle) (iv ad : bytes)    (* Handle.Write / WriteWithAssociatedData *)
| WNoSecrets (h : handle).                   (* Handle.WriteWithNoSecrets *)
Definition write_op (o : wop) : outcome bytes :=
  match o with
  | WClear h => write_cleartext_binary h
  | WEncrypted h iv ad => write_encrypted_binary h iv ad
  | WNoSecrets h => write_no_secrets h
  end.
Definition writer_history (ops : list wop) : list (outcome bytes) := map write_op ops.
End Encrypted.
