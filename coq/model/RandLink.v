(* C20 (stretch) — the randomness-tape semantics of model/Rand.v linked to the
   models of the operations that consume the randomness:

     AEAD Encrypt       the C01 encryption models (AeadFrame.v, GcmSiv.v, EtM.v,
                        Xaes.v; read-only here) run with IV := the window that
                        Rand's CEncrypt draws;
     hybrid Encrypt     X25519 DHKEM: enc = pub(window) (hybrid/internal/hpke/
                        x25519_kem.go encapsulate); X-Wing: enc = ctM ‖ pub(window)
                        (hybrid/internal/xwing/xwing.go Encapsulate: ct = append(ctM, ctX));
                        ML-KEM: enc = ct (mlkem_kem.go: ek.Encapsulate());
     signing            ML-DSA Sign: rnd := the 32-byte window (internal/signature/
                        mldsa/mldsa.go Sign: `var rnd [32]byte; rand.Read(rnd[:])`),
                        SLH-DSA Sign: addrnd := the n-byte window
                        (internal/signature/slhdsa/slhdsa.go Sign: rand.Read(addrnd[:])).

   No proofs here: proofs/RandProofs2.v. *)
From Coq Require Import List NArith Bool Arith.
From Tink Require Import Bytes Manager Rand AeadFrame Ctr EtM GcmSiv Xaes Mldsa.
From Tink Require SlhdsaBase Slhdsa.
Import ListNotations.
Open Scope N_scope.

(* ---- AEAD ------------------------------------------------------------- *)

(* one key of each AEAD key type of Rand.scheme *)
Inductive aead_key :=
| AKGcm (key : bytes)
| AKGcmSiv (key : bytes)
| AKChaCha (key : bytes)
| AKXChaCha (key : bytes)
| AKCtrHmac (k : etm_key)
| AKXaes (saltsize : nat) (key : bytes).

Definition scheme_of (k : aead_key) : scheme :=
  match k with
  | AKGcm _ => AesGcm
  | AKGcmSiv _ => AesGcmSiv
  | AKChaCha _ => ChaCha20Poly1305
  | AKXChaCha _ => XChaCha20Poly1305
  | AKCtrHmac e => AesCtrHmac (ek_iv e)
  | AKXaes salt _ => XAesGcm salt
  end.

(* the primitives of the standard library the C01 models are parameterised by *)
Record aead_prims := mkPrims {
  ap_gcm_seal : bytes -> bytes -> bytes -> bytes -> bytes;
  ap_cc_seal : bytes -> bytes -> bytes -> bytes -> bytes;
  ap_xcc_seal : bytes -> bytes -> bytes -> bytes -> bytes;
  ap_aes : bytes -> bytes -> bytes;
  ap_hmac : bytes -> bytes -> bytes }.

Section Aead.
  Variable A : aead_prims.

  (* Encrypt of the C01 model of the key type, IV given *)
  Definition c01_encrypt (k : aead_key) (prefix iv p ad : bytes) : outcome bytes :=
    match k with
    | AKGcm key => aesgcm_enc (ap_gcm_seal A) prefix key iv p ad
    | AKGcmSiv key => siv_enc (ap_aes A) prefix key iv p ad
    | AKChaCha key => chacha_enc (ap_cc_seal A) prefix key iv p ad
    | AKXChaCha key => xchacha_enc (ap_xcc_seal A) prefix key iv p ad
    | AKCtrHmac e => etm_enc (ap_aes A) (ap_hmac A) prefix e iv p ad
    | AKXaes salt key => xaes_enc (ap_aes A) (ap_gcm_seal A) salt prefix key iv p ad
    end.

  (* Encrypt under the tape: the IV is the next nonce_len bytes (Rand's
     CEncrypt); result: outcome of the C01 model, the window drawn, new state.
     (When Encrypt answers with an error there is no ciphertext; whether the
     real code had already drawn is not stated - the theorems are about Ok.) *)
  Definition encrypt_tape (k : aead_key) (prefix p ad : bytes) (s : rstate)
    : option (outcome bytes * bytes * rstate) :=
    match read (nonce_len (scheme_of k)) (r_tape s) with
    | None => None
    | Some (iv, t1) => Some (c01_encrypt k prefix iv p ad, iv, mkR (r_unavail s) t1)
    end.

  (* a history of encryptions (plaintext, associated data) under one key *)
  Fixpoint encrypt_run (k : aead_key) (prefix : bytes) (msgs : list (bytes * bytes)) (s : rstate)
    : option (list (outcome bytes * bytes) * rstate) :=
    match msgs with
    | [] => Some ([], s)
    | (p, ad) :: r =>
        match encrypt_tape k prefix p ad s with
        | None => None
        | Some (o, iv, s1) =>
            match encrypt_run k prefix r s1 with
            | None => None
            | Some (res, s2) => Some ((o, iv) :: res, s2)
            end
        end
    end.
End Aead.

(* the nonce field of a ciphertext: the wire formats are
     prefix ‖ iv ‖ ...           (AES-GCM, AES-GCM-SIV, (X)ChaCha20-Poly1305, AES-CTR-HMAC)
     prefix ‖ salt ‖ iv ‖ ...    (XAES-GCM)                                    *)
Definition nonce_field (sch : scheme) (prefix ct : bytes) : bytes :=
  firstn (nonce_len sch) (skipn (length prefix) ct).

(* ---- hybrid encapsulations ------------------------------------------- *)

(* RFC 7748 section 5 decodeScalar25519 on a 32-byte string *)
Definition clamp (w : bytes) : bytes :=
  N.land (nth 0 w 0) 248 :: firstn 30 (skipn 1 w) ++ [N.lor (N.land (nth 31 w 0) 127) 64].

(* a collision of f: two different inputs with one image *)
Definition collision {X Y} (f : X -> Y) (a b : X) : Prop := a <> b /\ f a = f b.

(* f is injective on the inputs that satisfy D *)
Definition inj_on {X Y} (D : X -> Prop) (f : X -> Y) : Prop :=
  forall a b, D a -> D b -> f a = f b -> a = b.

(* X-Wing Encapsulate: ctM ‖ ctX with ctM = the ML-KEM-768 ciphertext of the
   recipient's key under the encapsulation randomness m (drawn by the standard
   library's internal DRBG, NOT from crypto/rand.Reader: a parameter here) and
   ctX = X25519 public key of the tape window *)
Definition xwing_enc (mlkem_ct : bytes -> bytes -> bytes) (pub : bytes -> bytes) (pkM m skx : bytes) : bytes :=
  mlkem_ct pkM m ++ pub skx.

(* ---- randomized signatures ------------------------------------------- *)

Section Sign.
  Variables shake128 shake256 : bytes -> nat -> bytes.
  Variable P : Mldsa.params.

  (* signature/mldsa signer.Sign -> SecretKey.Sign(data, nil): rnd = the next 32 tape bytes *)
  Definition mldsa_sign_tape (fuel : nat) (prefix skEnc data : bytes) (s : rstate)
    : option (option bytes * bytes * rstate) :=
    match read 32 (r_tape s) with
    | None => None
    | Some (rnd, t1) => Some (tinkSign shake128 shake256 P fuel prefix skEnc data rnd, rnd, mkR (r_unavail s) t1)
    end.

  (* what signInternalWithMu does with rnd: it is hashed, whole, between K and mu *)
  Definition mldsa_rhopp (sk : secretKey) (mu rnd : bytes) : bytes := shake256 (sk_K sk ++ rnd ++ mu) 64.

  (* the rest of signInternalWithMu as a function of rho'' *)
  Definition mldsa_sign_from_rhopp (fuel : nat) (sk : secretKey) (mu rhopp : bytes) : option bytes :=
    obind (expandA shake128 P (sk_rho sk)) (fun Ah =>
      signLoop shake256 P fuel Ah (vntt (sk_s1 sk)) (vntt (sk_s2 sk)) (vntt (sk_t0 sk)) mu rhopp 0).
End Sign.

Section SlhSign.
  Variable SP : SlhdsaBase.params.
  Variable HS : SlhdsaBase.hashes.

  (* signature/slhdsa signer.Sign -> SecretKey.Sign(data, nil): addrnd = the next n tape bytes *)
  Definition slhdsa_sign_tape (tv : bool) (id : N) (sk msg : bytes) (s : rstate)
    : option (option bytes * bytes * rstate) :=
    match read (SlhdsaBase.p_n SP) (r_tape s) with
    | None => None
    | Some (addrnd, t1) => Some (Slhdsa.tink_sign SP HS tv id sk msg addrnd, addrnd, mkR (r_unavail s) t1)
    end.

  (* the randomizer R, first n bytes of the signature: PRF_msg(SK.prf, addrnd, M') *)
  Definition slhdsa_R (sk msg addrnd : bytes) : bytes :=
    SlhdsaBase.hPrfMsg HS (firstn (SlhdsaBase.p_n SP) (skipn (SlhdsaBase.p_n SP) sk)) addrnd (Slhdsa.wrap_msg msg []).
End SlhSign.
