(* Executable model of the JWT decision logic of /repo/jwt:

     jwt_encoding.go   splitSignedCompact, decodeUnsignedTokenAndValidateHeader,
                       validateHeader, validateKIDInHeader, extractTypeHeader,
                       createUnsigned, createHeader, keyID
     raw_jwt.go        NewRawJWT (createPayload), validatePayload,
                       validateAudienceClaim, validateTimeClaim, validateStringClaim,
                       the registered-claim accessors
     jwt_validator.go  NewValidator, Validate, validateTimestamps,
                       validateFieldPresence, validateTypeHeader/Issuer/Audiences
     jwt_mac_kid.go / jwt_verifier_kid.go / jwt_signer_kid.go   the single-key flow
     jwt_full_mac.go / jwt_full_signer_verifier.go  key -> (algorithm, tinkKID, customKID)
     jwt_mac_factory.go / jwt_verifier_factory.go   try every enabled key
     internal/jwk/jwk.go   what a JWK export/import round trip does to a key's kid rule

   Outside the model (Section variables, answered per case by the harness):
     sig_valid kref sig msg   the raw MAC / signature verification of one key
     json_parse bytes         structpb.Struct.UnmarshalJSON (None = error)
     json_print, sign         structpb MarshalJSON and the raw MAC / signer

   JSON values are an ADT.  A number carries t = int64(float64 value) (Go's
   conversion, the only view the JWT code takes of a registered time claim)
   and an opaque text for the rest of the value (empty when the value is an
   integer that t represents exactly).  Times are integers: claim values in
   seconds, FixedNow and ClockSkew in nanoseconds since the Unix epoch.
   No proofs here: proofs/JwtProofs.v. *)
From Coq Require Import List NArith ZArith Bool.
From Tink Require Import Bytes Base64url.
Import ListNotations.
Open Scope N_scope.

Inductive json :=
| JNull
| JBool (b : bool)
| JNum (t : Z) (repr : bytes)
| JStr (s : bytes)
| JArr (l : list json)
| JObj (f : list (bytes * json)).

Definition fields := list (bytes * json).

(* "alg" "crit" "kid" "typ" "iss" "sub" "aud" "exp" "nbf" "iat" "jti" *)
Definition s_alg : bytes := [97; 108; 103].
Definition s_crit : bytes := [99; 114; 105; 116].
Definition s_kid : bytes := [107; 105; 100].
Definition s_typ : bytes := [116; 121; 112].
Definition s_iss : bytes := [105; 115; 115].
Definition s_sub : bytes := [115; 117; 98].
Definition s_aud : bytes := [97; 117; 100].
Definition s_exp : bytes := [101; 120; 112].
Definition s_nbf : bytes := [110; 98; 102].
Definition s_iat : bytes := [105; 97; 116].
Definition s_jti : bytes := [106; 116; 105].
Definition dot : N := 46.

Definition is_some {A} (o : option A) : bool := match o with Some _ => true | None => false end.

(* map access fields[name]; parsed objects have unique keys *)
Fixpoint lookup (k : bytes) (f : fields) : option json :=
  match f with
  | [] => None
  | (k', v) :: t => if beq k k' then Some v else lookup k t
  end.
Definition has (k : bytes) (f : fields) : bool := is_some (lookup k f).

(* ---- unicode/utf8.ValidString (RFC 3629: no overlongs, no surrogates, <= U+10FFFF) ---- *)
Definition inr (lo hi y : N) : bool := (lo <=? y) && (y <=? hi).
Definition cont (y : N) : bool := inr 128 191 y.
Fixpoint utf8_valid (b : bytes) : bool :=
  match b with
  | [] => true
  | x :: t =>
    if x <? 128 then utf8_valid t
    else if inr 194 223 x then
      match t with
      | y :: t1 => cont y && utf8_valid t1
      | _ => false
      end
    else if inr 224 239 x then
      match t with
      | y :: z :: t2 =>
          (if x =? 224 then inr 160 191 y else if x =? 237 then inr 128 159 y else cont y)
          && cont z && utf8_valid t2
      | _ => false
      end
    else if inr 240 244 x then
      match t with
      | y :: z :: w :: t3 =>
          (if x =? 240 then inr 144 191 y else if x =? 244 then inr 128 143 y else cont y)
          && cont z && cont w && utf8_valid t3
      | _ => false
      end
    else false
  end.

(* structpb.NewValue on a Go value: every string and every nested object key
   must be valid UTF-8 *)
Fixpoint json_utf8 (j : json) : bool :=
  match j with
  | JStr s => utf8_valid s
  | JArr l => forallb json_utf8 l
  | JObj f => forallb (fun kv => match kv with (k, v) => utf8_valid k && json_utf8 v end) f
  | _ => true
  end.

(* ---- keys: what the full primitives derive from a key ---- *)
Inductive kidrule :=
| KTink (id : N)          (* Base64EncodedKeyIDAsKID: TINK output prefix, id requirement *)
| KCustom (kid : bytes)   (* CustomKID *)
| KIgnored.               (* IgnoredKID (RAW) *)

Record jkey := mkKey { kref : N; kenabled : bool; kalg : bytes; kkid : kidrule }.

(* computeKID / keyID: base64url(be32(key id)) *)
Definition tink_kid (id : N) : bytes := b64_encode (be_bytes 4 id).

(* (tinkKID, customKID) handed to the WithKID layer *)
Definition kid_args (r : kidrule) : option bytes * option bytes :=
  match r with
  | KTink id => (Some (tink_kid id), None)
  | KCustom c => (None, Some c)
  | KIgnored => (None, None)
  end.

(* ---- header ---- *)
Definition header_string (f : fields) (name : bytes) : option bytes :=
  match lookup name f with
  | Some (JStr s) => Some s
  | _ => None
  end.

Definition validate_kid (f : fields) (kid : bytes) : bool :=
  match header_string f s_kid with
  | Some k => beq k kid
  | None => false
  end.

Definition validate_header (f : fields) (alg : bytes) (tink custom : option bytes) : bool :=
  match header_string f s_alg with
  | None => false
  | Some a =>
    if negb (beq a alg) then false
    else if has s_crit f then false
    else match tink, custom with
         | Some _, Some _ => false
         | Some t, None => if has s_kid f then validate_kid f t else false
         | None, Some c => if has s_kid f then validate_kid f c else true
         | None, None => true
         end
  end.

(* extractTypeHeader: None = error, Some None = no typ *)
Definition extract_typ (f : fields) : option (option bytes) :=
  match lookup s_typ f with
  | None => Some None
  | Some (JStr s) => Some (Some s)
  | Some _ => None
  end.

(* ---- payload ---- *)
Definition ts_max : Z := 253402300799.

Definition valid_str (j : json) : bool :=
  match j with JStr s => utf8_valid s | _ => false end.
Definition valid_time (j : json) : bool :=
  match j with JNum t _ => (0 <=? t)%Z && (t <=? ts_max)%Z | _ => false end.
Definition valid_aud (j : json) : bool :=
  match j with
  | JStr s => utf8_valid s
  | JArr l => match l with [] => false | _ => forallb valid_str l end
  | _ => false
  end.

Definition is_str_claim (k : bytes) : bool := beq k s_iss || beq k s_sub || beq k s_jti.
Definition is_time_claim (k : bytes) : bool := beq k s_exp || beq k s_nbf || beq k s_iat.
Definition is_registered (k : bytes) : bool := is_str_claim k || is_time_claim k || beq k s_aud.

Definition field_ok (kv : bytes * json) : bool :=
  match kv with
  | (k, v) => (if is_time_claim k then valid_time v else true)
              && (if is_str_claim k then valid_str v else true)
  end.

Definition validate_payload (f : fields) : bool :=
  match lookup s_aud f with None => true | Some a => valid_aud a end && forallb field_ok f.

Record rawjwt := mkRaw { r_typ : option bytes; r_payload : fields }.

(* registered-claim accessors of RawJWT / VerifiedJWT *)
Definition claim_str (f : fields) (k : bytes) : option bytes :=
  match lookup k f with
  | Some (JStr s) => if utf8_valid s then Some s else None
  | _ => None
  end.
Definition claim_time (f : fields) (k : bytes) : option Z :=
  match lookup k f with
  | Some (JNum t _) => Some t
  | _ => None
  end.
Definition str_of (j : json) : bytes := match j with JStr s => s | _ => [] end.
Definition audiences (f : fields) : option (list bytes) :=
  match lookup s_aud f with
  | Some (JStr s) => if utf8_valid s then Some [s] else None
  | Some (JArr l) => if valid_aud (JArr l) then Some (map str_of l) else None
  | _ => None
  end.

(* ---- validator ---- *)
Record vopts := mkV {
  o_typ : option bytes; o_iss : option bytes; o_aud : option bytes;
  o_ign_typ : bool; o_ign_aud : bool; o_ign_iss : bool;
  o_allow_noexp : bool; o_iat_past : bool;
  o_skew : Z; o_now : Z;          (* nanoseconds *)
  o_auds : option bytes }.        (* deprecated ExpectedAudiences *)

Definition max_skew_ns : Z := 600000000000.   (* jwtMaxClockSkewMinutes = 10 *)

Definition new_validator (o : vopts) : option vopts :=
  if is_some (o_auds o) && is_some (o_aud o) then None
  else
    let aud := match o_auds o with Some a => Some a | None => o_aud o end in
    if is_some (o_typ o) && o_ign_typ o then None
    else if is_some (o_iss o) && o_ign_iss o then None
    else if is_some aud && o_ign_aud o then None
    else if (o_skew o >? max_skew_ns)%Z then None
    else Some (mkV (o_typ o) (o_iss o) aud (o_ign_typ o) (o_ign_aud o) (o_ign_iss o)
                   (o_allow_noexp o) (o_iat_past o) (o_skew o) (o_now o) None).

Definition ns (t : Z) : Z := (t * 1000000000)%Z.

(* validateTimestamps: exp.After(now.Add(-skew)) must hold;
   nbf.After(now.Add(skew)) and iat.After(now.Add(skew)) must not *)
Definition exp_ok (v : vopts) (f : fields) : bool :=
  match lookup s_exp f with
  | None => o_allow_noexp v
  | Some (JNum t _) => (ns t >? o_now v - o_skew v)%Z
  | Some _ => false
  end.
Definition nbf_ok (v : vopts) (f : fields) : bool :=
  match lookup s_nbf f with
  | None => true
  | Some (JNum t _) => negb (ns t >? o_now v + o_skew v)%Z
  | Some _ => false
  end.
Definition iat_ok (v : vopts) (f : fields) : bool :=
  if o_iat_past v then
    match lookup s_iat f with
    | Some (JNum t _) => negb (ns t >? o_now v + o_skew v)%Z
    | _ => false
    end
  else true.
Definition validate_timestamps (v : vopts) (f : fields) : bool :=
  exp_ok v f && nbf_ok v f && iat_ok v f.

(* validateFieldPresence: Some skip | None = error *)
Definition field_presence (ignore present expected : bool) : option bool :=
  if ignore then Some true
  else if negb expected && negb present then Some true
  else if negb expected && present then None
  else if expected && negb present then None
  else Some false.

Definition validate_typ (v : vopts) (typ : option bytes) : bool :=
  match field_presence (o_ign_typ v) (is_some typ) (is_some (o_typ v)) with
  | None => false
  | Some true => true
  | Some false => match typ, o_typ v with
                  | Some t, Some e => beq t e
                  | _, _ => false
                  end
  end.

Definition validate_iss (v : vopts) (f : fields) : bool :=
  match field_presence (o_ign_iss v) (has s_iss f) (is_some (o_iss v)) with
  | None => false
  | Some true => true
  | Some false => match claim_str f s_iss, o_iss v with
                  | Some i, Some e => beq i e
                  | _, _ => false
                  end
  end.

(* the loop of validateAudiences: fails only when the last element is reached
   without a match (so an empty list would pass; validate_payload excludes it) *)
Definition aud_loop (e : bytes) (auds : list bytes) : bool :=
  match auds with [] => true | _ => existsb (beq e) auds end.

Definition validate_aud (v : vopts) (f : fields) : bool :=
  match field_presence (o_ign_aud v) (has s_aud f) (is_some (o_aud v)) with
  | None => false
  | Some true => true
  | Some false => match audiences f, o_aud v with
                  | Some auds, Some e => aud_loop e auds
                  | _, _ => false
                  end
  end.

Definition validate (v : vopts) (r : rawjwt) : bool :=
  validate_timestamps v (r_payload r) && validate_typ v (r_typ r)
  && validate_aud v (r_payload r) && validate_iss v (r_payload r).

(* ---- compact serialization ---- *)
(* strings.LastIndex(s, "."): (s[:i], s[i+1:]) *)
Fixpoint split_last (s : bytes) : option (bytes * bytes) :=
  match s with
  | [] => None
  | c :: t => match split_last t with
              | Some (a, b) => Some (c :: a, b)
              | None => if c =? dot then Some ([], t) else None
              end
  end.

(* strings.Split(s, ".") *)
Fixpoint split_dots (s : bytes) : list bytes :=
  match s with
  | [] => [[]]
  | c :: t => if c =? dot then [] :: split_dots t
              else match split_dots t with
                   | p :: r => (c :: p) :: r
                   | [] => [[c]]
                   end
  end.

(* strings.Count(s, ".") *)
Fixpoint count_dots (s : bytes) : nat :=
  match s with
  | [] => O
  | c :: t => if c =? dot then S (count_dots t) else count_dots t
  end.

Inductive vres := VOk (r : rawjwt) | VGeneric | VOther.

Section Verify.
  Variable sig_valid : N -> bytes -> bytes -> bool.
  Variable json_parse : bytes -> option fields.

  (* splitSignedCompact: (witness, unsigned) *)
  Definition split_signed (tok : bytes) : option (bytes * bytes) :=
    match split_last tok with
    | None => None
    | Some (u, s) =>
      match b64_decode s with
      | None => None
      | Some sg =>
        match sg with
        | [] => None
        | _ => match u with
               | [] => None
               | _ => if Nat.eqb (count_dots u) 1 then Some (sg, u) else None
               end
        end
      end
    end.

  (* decodeUnsignedTokenAndValidateHeader; SplitN(unsigned, ".", 3) has two
     parts iff Split has two parts *)
  Definition decode_unsigned (u alg : bytes) (tink custom : option bytes) : option rawjwt :=
    match split_dots u with
    | [h; p] =>
      match b64_decode h with
      | None => None
      | Some hb =>
        match json_parse hb with
        | None => None
        | Some hdr =>
          if validate_header hdr alg tink custom then
            match extract_typ hdr with
            | None => None
            | Some typ =>
              match b64_decode p with
              | None => None
              | Some pb =>
                match json_parse pb with
                | None => None
                | Some pl => if validate_payload pl then Some (mkRaw typ pl) else None
                end
              end
            end
          else None
        end
      end
    | _ => None
    end.

  (* VerifyMACAndDecodeWithKID / VerifyAndDecodeWithKID of one full primitive *)
  Definition verify_key (k : jkey) (v : vopts) (tok : bytes) : vres :=
    match split_signed tok with
    | None => VGeneric
    | Some (sg, u) =>
      if sig_valid (kref k) sg u then
        match decode_unsigned u (kalg k) (fst (kid_args (kkid k))) (snd (kid_args (kkid k))) with
        | None => VGeneric
        | Some r => if validate v r then VOk r else VOther
        end
      else VGeneric
    end.

  (* wrappedJWTMAC.VerifyMACAndDecode / wrappedVerifier.VerifyAndDecode: every
     enabled key in keyset order, first success wins; the error is the last
     non-generic one if any *)
  Fixpoint verify_loop (keys : list jkey) (v : vopts) (tok : bytes) (interesting : bool) : vres :=
    match keys with
    | [] => if interesting then VOther else VGeneric
    | k :: t =>
      if kenabled k then
        match verify_key k v tok with
        | VOk r => VOk r
        | VOther => verify_loop t v tok true
        | VGeneric => verify_loop t v tok interesting
        end
      else verify_loop t v tok interesting
    end.

  (* NewValidator + verify: None = NewValidator refused the options *)
  Definition verify (keys : list jkey) (o : vopts) (tok : bytes) : option vres :=
    match new_validator o with
    | None => None
    | Some v => Some (verify_loop keys v tok false)
    end.
End Verify.

(* ---- NewRawJWT ---- *)
Record rawopts := mkRO {
  ro_typ : option bytes;
  ro_aud : option bytes; ro_auds : option (list bytes);
  ro_sub : option bytes; ro_iss : option bytes; ro_jti : option bytes;
  ro_iat : option Z; ro_exp : option Z; ro_nbf : option Z;   (* time.Time.Unix() *)
  ro_noexp : bool;
  ro_custom : option fields }.

(* p.Fields[claim] = val *)
Fixpoint set_field (k : bytes) (v : json) (f : fields) : fields :=
  match f with
  | [] => [(k, v)]
  | (k', v') :: t => if beq k k' then (k, v) :: t else (k', v') :: set_field k v t
  end.
Definition set_opt (k : bytes) (o : option json) (f : fields) : fields :=
  match o with None => f | Some v => set_field k v f end.

Definition jstr (o : option bytes) : option json := option_map JStr o.
Definition jtime (o : option Z) : option json := option_map (fun t => JNum t []) o.

Definition create_payload (o : rawopts) : option fields :=
  let cc := match ro_custom o with None => [] | Some c => c end in
  if existsb (fun kv => is_registered (fst kv)) cc then None
  else if negb (is_some (ro_exp o)) && negb (ro_noexp o) then None
  else if is_some (ro_exp o) && ro_noexp o then None
  else if is_some (ro_aud o) && is_some (ro_auds o) then None
  else
    let p := set_opt s_jti (jstr (ro_jti o)) [] in
    let p := set_opt s_iss (jstr (ro_iss o)) p in
    let p := set_opt s_sub (jstr (ro_sub o)) p in
    let p := set_opt s_aud (jstr (ro_aud o)) p in
    let p := set_opt s_iat (jtime (ro_iat o)) p in
    let p := set_opt s_nbf (jtime (ro_nbf o)) p in
    let p := set_opt s_exp (jtime (ro_exp o)) p in
    let p := set_opt s_aud (option_map (fun l => JArr (map JStr l)) (ro_auds o)) p in
    if forallb (fun kv => json_utf8 (snd kv)) cc
    then Some (fold_left (fun p kv => set_field (fst kv) (snd kv) p) cc p)
    else None.

Definition new_raw_jwt (o : rawopts) : option rawjwt :=
  match create_payload o with
  | None => None
  | Some p => if validate_payload p then Some (mkRaw (ro_typ o) p) else None
  end.

(* ---- ComputeMACAndEncode / SignAndEncode ---- *)
Definition opt_field (k : bytes) (o : option bytes) : fields :=
  match o with None => [] | Some s => [(k, JStr s)] end.

(* createUnsigned up to JSON text: header object and payload object; None when
   both kids are set or when MarshalJSON would refuse invalid UTF-8 *)
Definition encode_parts (k : jkey) (r : rawjwt) : option (fields * fields) :=
  match kid_args (kkid k) with
  | (Some _, Some _) => None
  | (tk, ck) =>
    let kid := match tk with Some t => Some t | None => ck end in
    let hdr := [(s_alg, JStr (kalg k))] ++ opt_field s_typ (r_typ r) ++ opt_field s_kid kid in
    if json_utf8 (JObj hdr) && json_utf8 (JObj (r_payload r)) then Some (hdr, r_payload r) else None
  end.

Section Encode.
  Variable json_print : fields -> bytes.
  Variable sign : N -> bytes -> bytes.

  Definition encode (k : jkey) (r : rawjwt) : option bytes :=
    match encode_parts k r with
    | None => None
    | Some (hdr, pl) =>
      let u := b64_encode (json_print hdr) ++ [dot] ++ b64_encode (json_print pl) in
      Some (u ++ [dot] ++ b64_encode (sign (kref k) u))
    end.
End Encode.

(* ---- JWK export / import (internal/jwk/jwk.go) seen from the verifier ----
   only ENABLED keys are exported; a TINK key's kid becomes the JWK "kid" and
   the imported key is a RAW key with that custom kid *)
Definition jwk_key (k : jkey) : jkey :=
  match kkid k with
  | KTink id => mkKey (kref k) true (kalg k) (KCustom (tink_kid id))
  | _ => mkKey (kref k) true (kalg k) (kkid k)
  end.
Definition jwk_roundtrip (keys : list jkey) : list jkey :=
  map jwk_key (filter kenabled keys).
