(* C17 — keyset derivation.

   Model of
     keyderivation/keyset_deriver_factory.go   (NewWithConfig, wrappedKeysetDeriver.DeriveKeyset)
     keyderivation/prfbasedkeyderivation/keyderiver.go (NewKeyDeriver, DeriveKey)
     keyderivation/internal/streamingprf/hkdf_streaming_prf.go (parameter check; stream = HKDF)
     keyderivation/internal/keyderivers/keyderivers.go (bytes each derived key type reads)
   on top of the C11 manager model (model/Manager.v) for the keyset that is
   built, and of HKDF transcribed from RFC 5869 over an HMAC oracle (the
   implementation uses x/crypto/hkdf: the transcription is the independent
   implementation the property compares with).

   Go                                              model
   handle entries (id, status, primary, key)       list dentry
   hkdf.New(h, key, salt, info) as io.Reader       hkdf h key salt info n  (first n bytes)
   io.ReadFull(reader, keyBytes)                    one read of `consumption t` bytes
   keyset.NewManager / AddKeyWithOpts(WithFixedID)  add_derived on Manager.state
   km.SetPrimary / km.Handle                        Manager.step OSetPrimary / OHandle

   No proofs here: proofs/DeriveProofs.v. *)
From Coq Require Import List NArith Bool Arith.
From Tink Require Import Bytes Manager.
Import ListNotations.
Open Scope N_scope.

Inductive hash := SHA1 | SHA224 | SHA256 | SHA384 | SHA512.
Definition hash_len (h : hash) : nat :=
  match h with SHA1 => 20 | SHA224 => 28 | SHA256 => 32 | SHA384 => 48 | SHA512 => 64 end.

Inductive variant := VTink | VCrunchy | VLegacy | VRaw.

(* key types with a registered deriver (keyderivers.go init) *)
Inductive dtype :=
| DAesGcm (ks : nat) | DXChaCha | DAesSiv (ks : nat) | DHmac (ks : nat)
| DHkdfPrf (ks : nat) | DHmacPrf (ks : nat) | DEd25519 | DAesGcmHkdf (ks : nat).

(* number of bytes the type's deriver reads from the stream *)
Definition consumption (t : dtype) : nat :=
  match t with
  | DAesGcm ks | DAesSiv ks | DHmac ks | DHkdfPrf ks | DHmacPrf ks | DAesGcmHkdf ks => ks
  | DXChaCha => 32
  | DEd25519 => 32       (* ed25519.GenerateKey(reader) reads the 32-byte seed *)
  end.

(* HasIDRequirement() of the derived-key parameters: PRF and streaming keys never have one *)
Definition has_id_req (t : dtype) (v : variant) : bool :=
  match t with
  | DHkdfPrf _ | DHmacPrf _ | DAesGcmHkdf _ => false
  | _ => match v with VRaw => false | _ => true end
  end.

(* a prfbasedkeyderivation.Key with an HKDF PRF key *)
Record dkey := mkDKey {
  k_hash : hash; k_ikm : bytes; k_salt : bytes;  (* hkdfprf.Key: hash, key bytes, salt *)
  k_type : dtype; k_variant : variant }.         (* derived key parameters *)

Record dentry := mkDEntry { d_id : N; d_status : status; d_prim : bool; d_key : dkey }.

(* a derived key *)
Record derived := mkDerived {
  r_type : dtype; r_variant : variant; r_req : option N;
  r_material : bytes; r_public : bytes }.

Section WithOracles.
Variable hmac : hash -> bytes -> bytes -> bytes.     (* HMAC (crypto/hmac) *)
Variable edpub : bytes -> bytes.                     (* Ed25519 public key of a seed *)

(* ---- HKDF, RFC 5869 ------------------------------------------------------ *)
(* 2.2 Extract: PRK = HMAC-Hash(salt, IKM); salt not provided = HashLen zeros *)
Definition hkdf_extract (h : hash) (salt ikm : bytes) : bytes :=
  hmac h (match salt with [] => zeros (hash_len h) | _ => salt end) ikm.

(* 2.3 Expand: T(i) = HMAC-Hash(PRK, T(i-1) | info | i); n blocks from counter i *)
Fixpoint hkdf_t (h : hash) (prk info : bytes) (n : nat) (i : N) (prev : bytes) : bytes :=
  match n with
  | O => []
  | S k => let t := hmac h prk (prev ++ info ++ [i]) in
           t ++ hkdf_t h prk info k (i + 1) t
  end.

Definition blocks_for (h : hash) (len : nat) : nat := Nat.div (len + hash_len h - 1) (hash_len h).

(* first len bytes of the output keying material; None when len > 255*HashLen
   (the reader then fails: "insufficient pseudorandomness") *)
Definition hkdf (h : hash) (ikm salt info : bytes) (len : nat) : option bytes :=
  if Nat.ltb 255 (blocks_for h len) then None
  else Some (firstn len (hkdf_t h (hkdf_extract h salt ikm) info (blocks_for h len) 1 [])).

(* ---- one key -------------------------------------------------------------- *)

(* streamingprf.validateHKDFStreamingPRFParams (called by NewKeyDeriver) *)
Definition prf_ok (k : dkey) : bool :=
  (match k_hash k with SHA256 | SHA512 => true | _ => false end)
  && Nat.leb 32 (length (k_ikm k)).

(* keyDeriver.DeriveKey(salt): randomness = HKDF(key, prf salt, info = salt);
   the derived key takes the deriver key's id requirement *)
Definition derive_key (k : dkey) (id : N) (salt : bytes) : option derived :=
  match hkdf (k_hash k) (k_ikm k) (k_salt k) salt (consumption (k_type k)) with
  | None => None
  | Some okm =>
      let req := has_id_req (k_type k) (k_variant k) in
      Some (mkDerived (k_type k)
                      (if req then k_variant k else VRaw)
                      (if req then Some id else None)
                      okm
                      (match k_type k with DEd25519 => edpub okm | _ => [] end))
  end.

(* ---- the factory ----------------------------------------------------------- *)

Definition enabled (ks : list dentry) : list dentry :=
  filter (fun e => status_eqb (d_status e) Enabled) ks.

(* primaryKeyID := 0; for enabled entries: if entry.IsPrimary() { primaryKeyID = entry.KeyID() } *)
Definition primary_id (ks : list dentry) : N :=
  fold_left (fun acc e => if d_prim e then d_id e else acc) (enabled ks) 0.

(* keyderivation.New: fails on an empty handle or when an ENABLED key's PRF is unsupported *)
Definition new_ok (ks : list dentry) : bool :=
  negb (match ks with [] => true | _ => false end)
  && forallb (fun e => prf_ok (d_key e)) (enabled ks).

(* km.AddKeyWithOpts(derivedKey, WithFixedID(id)) on the C11 manager model *)
Definition add_derived (s : state) (id : N) (req : option N) (k : N) : option state :=
  match req with
  | Some r =>
      (* WithFixedID: "key requires ID r, but WithFixedID was given ID id" *)
      if N.eqb r id then
        match step s (OAddKey (Some id) k) with
        | (s', RId _) => Some s'
        | _ => None
        end
      else None
  | None =>
      let m := smgr s in
      if mem id (unavail m) then None
      else Some (mkState (mkMgr (ents m ++ [mkEntry id Enabled false None k]) (id :: unavail m))
                         (stape s) (shandles s) (sdraws s))
  end.

Definition set_primary_op (s : state) (id : N) : option state :=
  match step s (OSetPrimary id) with
  | (s', ROk) => Some s'
  | _ => None
  end.

(* the loop of DeriveKeyset over the enabled entries, in order *)
Fixpoint derive_loop (es : list dentry) (prim : N) (salt : bytes) (s : state) (keys : list derived)
  : option (state * list derived) :=
  match es with
  | [] => Some (s, keys)
  | e :: rest =>
      match derive_key (d_key e) (d_id e) salt with
      | None => None
      | Some dk =>
          match add_derived s (d_id e) (r_req dk) (N.of_nat (length keys)) with
          | None => None
          | Some s1 =>
              if N.eqb (d_id e) prim then
                match set_primary_op s1 (d_id e) with
                | None => None
                | Some s2 => derive_loop rest prim salt s2 (keys ++ [dk])
                end
              else derive_loop rest prim salt s1 (keys ++ [dk])
          end
      end
  end.

Inductive dresult :=
| DNewErr                                   (* keyderivation.New fails *)
| DDeriveErr                                (* DeriveKeyset fails *)
| DOk (h : handle) (keys : list derived).   (* ekey of an entry = index into keys *)

Definition derive_keyset (ks : list dentry) (salt : bytes) : dresult :=
  if new_ok ks then
    match derive_loop (enabled ks) (primary_id ks) salt (mkState new_manager [] [] 0) [] with
    | None => DDeriveErr
    | Some (s, keys) =>
        match step s OHandle with
        | (_, RHandle h) => DOk h keys
        | _ => DDeriveErr
        end
    end
  else DNewErr.
End WithOracles.
