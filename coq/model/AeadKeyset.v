(* C02 — the keyset-level AEAD of aead/aead_factory.go (wrappedAead.Decrypt,
   fullAEADPrimitiveAdapter) over internal/prefixmap/prefixmap.go
   (PrimitivesMatchingPrefix / Iterator): primitives whose 5-byte output prefix
   equals the first five bytes of the ciphertext are tried first, in keyset
   order, then the primitives with an empty prefix; the first success wins.
   Every slice expression is checked.  No proofs here. *)
From Coq Require Import List NArith Bool Arith.
From Tink Require Import Bytes AeadFrame.
Import ListNotations.
Open Scope N_scope.

Record prim := mkPrim {
  pr_prefix : bytes;                                   (* factoryutil.OutputPrefix(key) *)
  pr_legacy : bool;                                    (* wrapped in fullAEADPrimitiveAdapter *)
  pr_enc : bytes -> bytes -> bytes -> outcome bytes;   (* iv p ad (full primitive: includes the prefix) *)
  pr_dec : bytes -> bytes -> outcome bytes             (* c ad *)
}.

Definition is_raw (e : prim) : bool := match pr_prefix e with [] => true | _ => false end.

(* prefixmap: items[string(ciphertext[:5])] (only when len >= 5) then items[""] *)
Definition matching (ps : list prim) (c : bytes) : list prim :=
  (if Nat.leb 5 (length c)
   then filter (fun e => negb (is_raw e) && beq (pr_prefix e) (firstn 5 c)) ps
   else [])
  ++ filter is_raw ps.

(* a full primitive gets the whole ciphertext; the legacy adapter strips its prefix
   with an unchecked slice expression ciphertext[len(a.prefix):] *)
Definition prim_dec (e : prim) (c ad : bytes) : outcome bytes :=
  if pr_legacy e then bind (slice (length (pr_prefix e)) (length c) c) (fun r => pr_dec e r ad)
  else pr_dec e c ad.

(* for primitive, ok := it.Next(); ok; ... { pt, err := Decrypt; if err != nil { continue }; return pt } *)
Fixpoint try_all (ps : list prim) (c ad : bytes) : outcome bytes :=
  match ps with
  | [] => Err
  | e :: t =>
    match prim_dec e c ad with
    | Ok p => Ok p
    | Err => try_all t c ad
    | Panic => Panic
    end
  end.

Definition ks_dec (ps : list prim) (c ad : bytes) : outcome bytes := try_all (matching ps c) c ad.
