(* The parameter tables of internal/signature/slhdsa/slhdsa.go (param128s …
   param256f: n h d hp a k lgw m) and the twelve named parameter sets
   (table × hash family).  Plain definitions: this file is meant to be
   regenerated from the Go source by the translator. *)
From Tink Require Import SlhdsaBase SlhdsaHash.

Definition param128s := mkParams 16 63 7 9 12 14 4 30.
Definition param128f := mkParams 16 66 22 3 6 33 4 34.
Definition param192s := mkParams 24 63 7 9 14 17 4 39.
Definition param192f := mkParams 24 66 22 3 8 33 4 42.
Definition param256s := mkParams 32 64 8 8 14 22 4 47.
Definition param256f := mkParams 32 68 17 4 9 35 4 49.

Definition SLH_DSA_SHA2_128s := (param128s, HSha2C1).
Definition SLH_DSA_SHAKE_128s := (param128s, HShake).
Definition SLH_DSA_SHA2_128f := (param128f, HSha2C1).
Definition SLH_DSA_SHAKE_128f := (param128f, HShake).
Definition SLH_DSA_SHA2_192s := (param192s, HSha2C35).
Definition SLH_DSA_SHAKE_192s := (param192s, HShake).
Definition SLH_DSA_SHA2_192f := (param192f, HSha2C35).
Definition SLH_DSA_SHAKE_192f := (param192f, HShake).
Definition SLH_DSA_SHA2_256s := (param256s, HSha2C35).
Definition SLH_DSA_SHAKE_256s := (param256s, HShake).
Definition SLH_DSA_SHA2_256f := (param256f, HSha2C35).
Definition SLH_DSA_SHAKE_256f := (param256f, HShake).

Definition all_sets :=
  (SLH_DSA_SHA2_128s :: SLH_DSA_SHAKE_128s :: SLH_DSA_SHA2_128f :: SLH_DSA_SHAKE_128f ::
   SLH_DSA_SHA2_192s :: SLH_DSA_SHAKE_192s :: SLH_DSA_SHA2_192f :: SLH_DSA_SHAKE_192f ::
   SLH_DSA_SHA2_256s :: SLH_DSA_SHAKE_256s :: SLH_DSA_SHA2_256f :: SLH_DSA_SHAKE_256f :: nil)%list.
