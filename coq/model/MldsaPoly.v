(* Model of the polynomial layer of internal/signature/mldsa:
     algebra.go  poly/polyNTT/vector operations, ntt, intt
     marshal.go  SimpleBitPack / BitPack / SimpleBitUnpack / BitUnpack,
                 HintBitPack / HintBitUnpack (with its strict checks)
     sampling.go CoeffFromHalfByte, RejectNTTPoly, RejectBoundedPoly, SampleInBall
   Coefficients are Z, the element type of the regenerated scalar kernels
   gen/MldsaScalar.v.  Every field operation is a kernel k_xxx of
   MldsaKernels.v, which is the regenerated kernel mldsa_rZq_xxx with a
   proved-equal short-cut on canonical arguments (k_xxx = mldsa_rZq_xxx on all
   arguments, proofs/MldsaKernelsProofs.v): a change of a Go kernel changes
   this model through the translator.  Byte strings are
   Bytes.bytes (list N).  A polynomial is a list of 256 coefficients.  No
   proofs here. *)
From Coq Require Import List ZArith NArith Bool Arith.
From Tink Require Import Bytes Wrap MldsaScalar MldsaKernels.
Import ListNotations.
Local Open Scope nat_scope.

Definition poly := list Z.
Definition degree : nat := 256.
Definition zero_poly : poly := repeat 0%Z degree.

Fixpoint map2 {A B C} (f : A -> B -> C) (a : list A) (b : list B) : list C :=
  match a, b with
  | x :: a', y :: b' => f x y :: map2 f a' b'
  | _, _ => []
  end.

(* all-or-nothing map for the kernels that can panic in Go (invalid gamma2) *)
Fixpoint omap {A B} (f : A -> option B) (l : list A) : option (list B) :=
  match l with
  | [] => Some []
  | x :: t => match f x with
              | None => None
              | Some y => match omap f t with None => None | Some r => Some (y :: r) end
              end
  end.

Fixpoint omap2 {A B C} (f : A -> B -> option C) (a : list A) (b : list B) : option (list C) :=
  match a, b with
  | x :: a', y :: b' =>
      match f x y with
      | None => None
      | Some z => match omap2 f a' b' with None => None | Some r => Some (z :: r) end
      end
  | _, _ => Some []
  end.

(* Go  l[i] = v  on a value *)
Fixpoint upd {A} (i : nat) (v : A) (l : list A) : list A :=
  match l with
  | [] => []
  | x :: t => match i with O => v :: t | S i' => x :: upd i' v t end
  end.

(* ------------------------------------------------------------------ *)
(* algebra.go: coefficient-wise operations                             *)
(* ------------------------------------------------------------------ *)
Definition padd (p r : poly) : poly := map2 k_add p r.
Definition psub (p r : poly) : poly := map2 k_sub p r.
Definition pneg (p : poly) : poly := map k_neg p.
Definition psubFrom (a : Z) (p : poly) : poly := map (fun c => k_sub a c) p.
Definition pmul (p r : poly) : poly := map2 k_mul p r.           (* MultiplyNTT *)
Definition pscalePower2 (p : poly) : poly := map k_scalePower2 p.
Definition phighBits (g : Z) (p : poly) : option poly := omap (fun c => k_highBits c g) p.
Definition plowBits (g : Z) (p : poly) : option poly := omap (fun c => k_lowBits c g) p.
(* p.makeHint(gamma2, z): res[i] = p[i].makeHint(gamma2, z[i]) *)
Definition pmakeHint (g : Z) (p z : poly) : option poly := omap2 (fun a r => k_makeHint a g r) p z.
(* p.useHint(gamma2, h): res[i] = p[i].useHint(gamma2, h[i]) *)
Definition puseHint (g : Z) (p h : poly) : option poly := omap2 (fun a hh => k_useHint a g hh) p h.
Definition ppower2Round (p : poly) : poly * poly :=
  let rs := map k_power2Round p in (map fst rs, map snd rs).

(* poly.infinityNorm: res = fold centeredMax from 0; result centeredAbs res *)
Definition pinfNorm (p : poly) : Z :=
  k_centeredAbs (fold_left k_centeredMax p 0%Z).
(* vector.infinityNorm: max over the polynomials, starting from 0 *)
Definition vinfNorm (v : list poly) : Z := fold_left (fun r p => Z.max r (pinfNorm p)) v 0%Z.
(* vector.numOnes *)
Definition vnumOnes (v : list poly) : Z := fold_left (fun r p => fold_left Z.add p r) v 0%Z.

(* ------------------------------------------------------------------ *)
(* algebra.go: NTT (Algorithm 41) and inverse NTT (Algorithm 42)       *)
(* ------------------------------------------------------------------ *)
Definition zeta_at (m : nat) : Z := nth m mldsa_zetas 0%Z.

(* inner loops of ntt(): for each block [start, start+2len): m++, z = zetas[m],
   for j: t = z*wh[j+len]; wh[j+len] = wh[j]-t; wh[j] = wh[j]+t.
   [m] is the value of the Go variable m before the block. *)
Fixpoint ntt_blocks (nb len m : nat) (p : list Z) : list Z :=
  match nb with
  | O => []
  | S nb' =>
      let lo := firstn len p in
      let hi := firstn len (skipn len p) in
      let z := zeta_at (S m) in
      let t := map (k_mul z) hi in
      map2 k_add lo t ++ map2 k_sub lo t ++
      ntt_blocks nb' len (S m) (skipn (2 * len) p)
  end.

(* outer loop: for len := 128; len >= 1; len /= 2 — fuel bounds the number of
   layers; each layer has degree/(2 len) blocks *)
Fixpoint ntt_layers (fuel len m : nat) (p : list Z) : list Z :=
  match fuel with
  | O => p
  | S f =>
      if Nat.leb 1 len then
        let nb := Nat.div degree (2 * len) in
        ntt_layers f (Nat.div len 2) (m + nb) (ntt_blocks nb len m p)
      else p
  end.

Definition ntt (p : poly) : poly := ntt_layers 9 128 0 p.

(* inner loops of intt(): m--, z = -zetas[m]; t = w[j]; w[j] = t + w[j+len];
   w[j+len] = z * (t - w[j+len]).  [m] is the Go variable before the block. *)
Fixpoint intt_blocks (nb len m : nat) (p : list Z) : list Z :=
  match nb with
  | O => []
  | S nb' =>
      let lo := firstn len p in
      let hi := firstn len (skipn len p) in
      let z := k_neg (zeta_at (pred m)) in
      map2 k_add lo hi ++ map (k_mul z) (map2 k_sub lo hi) ++
      intt_blocks nb' len (pred m) (skipn (2 * len) p)
  end.

(* for len := 1; len < degree; len *= 2 *)
Fixpoint intt_layers (fuel len m : nat) (p : list Z) : list Z :=
  match fuel with
  | O => p
  | S f =>
      if Nat.ltb len degree then
        let nb := Nat.div degree (2 * len) in
        intt_layers f (2 * len) (m - nb) (intt_blocks nb len m p)
      else p
  end.

Definition intt (p : poly) : poly :=
  map (k_mul mldsa_inv256) (intt_layers 9 1 256 p).

(* ------------------------------------------------------------------ *)
(* marshal.go: bit packing                                             *)
(* ------------------------------------------------------------------ *)
(* low [n] bits of x, least significant first: bit coff of p[cidx] is
   (p[cidx] >> coff) & 1 *)
Fixpoint bits_of (n : nat) (x : Z) : list bool :=
  match n with
  | O => []
  | S k => Z.odd x :: bits_of k (Z.div2 x)
  end.

(* value of a little-endian bit list: res ^= bit << off over disjoint offsets *)
Fixpoint val_of (bs : list bool) : Z :=
  match bs with
  | [] => 0%Z
  | b :: t => (Z.b2z b + 2 * val_of t)%Z
  end.

(* consecutive groups of n elements (the last possibly short) *)
Fixpoint groups_fuel {A} (fuel n : nat) (l : list A) : list (list A) :=
  match fuel with
  | O => []
  | S f => match l with
           | [] => []
           | _ => firstn n l :: groups_fuel f n (skipn n l)
           end
  end.
Definition groups {A} (n : nat) (l : list A) : list (list A) := groups_fuel (length l) n l.

Definition byte_of_bits (bs : list bool) : N := Z.to_N (val_of bs).
Definition bits_of_byte (b : N) : list bool := bits_of 8 (Z.of_N b).

(* Algorithm 16: output bit i (bit i&7 of byte i>>3) is bit i%bits of
   coefficient i/bits; the output has degree*bits/8 bytes *)
Definition simpleBitPack (bits : nat) (p : poly) : bytes :=
  map byte_of_bits (groups 8 (flat_map (bits_of bits) p)).

(* Algorithm 17 *)
Definition bitPack (a : Z) (bits : nat) (p : poly) : bytes :=
  simpleBitPack bits (psubFrom a p).

(* Algorithm 18: coefficient i/bits receives input bit i at offset i%bits;
   the result always has degree coefficients (zero where no input bit falls) *)
Definition simpleBitUnpack (bits : nat) (enc : bytes) : poly :=
  let cs := map val_of (groups bits (flat_map bits_of_byte enc)) in
  firstn degree (cs ++ repeat 0%Z (degree - length cs)).

(* the Go loop indexes res[i/bits] for every input bit: more than
   degree*bits input bits is an index-out-of-range panic *)
Definition simpleBitUnpack_chk (bits : nat) (enc : bytes) : outcome poly :=
  if Nat.leb (8 * length enc) (degree * bits) then Ok (simpleBitUnpack bits enc) else Panic.

(* Algorithm 19 *)
Definition bitUnpack (a : Z) (bits : nat) (enc : bytes) : poly :=
  psubFrom a (simpleBitUnpack bits enc).

(* ------------------------------------------------------------------ *)
(* marshal.go: hint packing                                            *)
(* ------------------------------------------------------------------ *)
(* indices j (as bytes) with p[j] != 0, ascending *)
Fixpoint nz_positions (j : N) (p : poly) : bytes :=
  match p with
  | [] => []
  | c :: t => if Z.eqb c 0 then nz_positions (j + 1)%N t else j :: nz_positions (j + 1)%N t
  end.

(* cumulative counts res[omega+i] = byte(index) *)
Fixpoint hint_counts (index : nat) (rows : list bytes) : bytes :=
  match rows with
  | [] => []
  | r :: t => let index' := (index + length r)%nat in
              (N.of_nat index' mod 256)%N :: hint_counts index' t
  end.

(* Algorithm 20 (HintBitPack) for vectors of total weight <= omega (signing
   calls it only after checking numOnes <= omega): the positions, zero
   padding up to omega, then the k cumulative counts *)
Definition hintBitPack (omega : nat) (h : list poly) : bytes :=
  let rows := map (nz_positions 0%N) h in
  let idx := concat rows in
  idx ++ zeros (omega - length idx) ++ hint_counts 0 rows.

(* row check of HintBitUnpack: encoded[index-1] >= encoded[index] is an error
   for every index after the first of the row *)
Fixpoint strict_inc (l : bytes) : bool :=
  match l with
  | [] => true
  | x :: t => match t with
              | [] => true
              | y :: _ => N.ltb x y && strict_inc t
              end
  end.

Definition poly_of_positions (row : bytes) : poly :=
  map (fun j => if existsb (N.eqb (N.of_nat j)) row then 1%Z else 0%Z) (seq 0 degree).

(* the loop over i < k: [cnts] are the bytes encoded[omega..omega+k),
   [idx] the bytes encoded[0..omega), [index] the running position *)
Fixpoint hint_rows (omega : nat) (idx : bytes) (cnts : bytes) (index : nat)
  : outcome (list poly * nat) :=
  match cnts with
  | [] => Ok ([], index)
  | e :: t =>
      let e := N.to_nat e in
      if (Nat.ltb e index || Nat.ltb omega e)%bool then Err else
      let row := firstn (e - index) (skipn index idx) in
      if strict_inc row then
        match hint_rows omega idx t e with
        | Ok (ps, fin) => Ok (poly_of_positions row :: ps, fin)
        | Err => Err
        | Panic => Panic
        end
      else Err
  end.

(* Algorithm 21 (HintBitUnpack) on an encoding of omega+k bytes (sigDecode
   passes exactly that); shorter input is an index panic in Go *)
Definition hintBitUnpack (omega k : nat) (enc : bytes) : outcome (list poly) :=
  if negb (Nat.eqb (length enc) (omega + k)) then Panic else
  let idx := firstn omega enc in
  let cnts := skipn omega enc in
  match hint_rows omega idx cnts 0 with
  | Ok (ps, fin) =>
      if forallb (N.eqb 0%N) (skipn fin idx) then Ok ps else Err
  | Err => Err
  | Panic => Panic
  end.

(* ------------------------------------------------------------------ *)
(* sampling.go                                                         *)
(* ------------------------------------------------------------------ *)
(* Algorithm 15; eta = 2: 2 - (b mod 5) with the division-free b mod 5 on
   uint16 as coded; eta = 4: 4 - b *)
Definition coeffFromHalfByte (eta : Z) (b : Z) : option Z :=
  if (Z.eqb eta 2 && Z.ltb b 15)%bool then
    let bMod5 := wrapu 8 (wrapu 16 (wrapu 16 b - wrapu 16 (5 * Z.shiftr (wrapu 16 (wrapu 16 b * 205)) 10))) in
    Some (k_sub 2 bMod5)
  else if (Z.eqb eta 4 && Z.ltb b 9)%bool then
    Some (k_sub 4 b)
  else None.

(* Algorithm 30 on the SHAKE128 output stream; the Go code reads it in
   168-byte blocks = 56 triples each, so the triples of the stream are
   consumed in order until 256 coefficients are accepted.  None: stream
   exhausted (the model requested too little output). *)
Fixpoint rejectNTT_stream (need : nat) (s : bytes) (acc : list Z) : option poly :=
  match need with
  | O => Some (rev acc)
  | S need' =>
      match s with
      | b0 :: b1 :: b2 :: rest =>
          let c := Z.lor (Z.lor (Z.of_N b0) (Z.shiftl (Z.of_N b1) 8))
                         (Z.shiftl (Z.land (Z.of_N b2) 127) 16) in
          if Z.ltb c mldsa_q then rejectNTT_stream need' rest (c :: acc)
          else rejectNTT_stream need rest acc
      | _ => None
      end
  end.

(* Algorithm 31 on the SHAKE256 output stream, one byte at a time *)
Fixpoint rejectBounded_stream (eta : Z) (s : bytes) (need : nat) (acc : list Z) : option poly :=
  match need with
  | O => Some (rev acc)
  | S need' =>
      match s with
      | [] => None
      | z :: rest =>
          let z := Z.of_N z in
          let z0 := coeffFromHalfByte eta (Z.land z 15) in
          let z1 := coeffFromHalfByte eta (Z.shiftr z 4) in
          match z0 with
          | Some c0 =>
              match need' with
              | O => Some (rev (c0 :: acc))
              | S need'' =>
                  match z1 with
                  | Some c1 => rejectBounded_stream eta rest need'' (c1 :: c0 :: acc)
                  | None => rejectBounded_stream eta rest need' (c0 :: acc)
                  end
              end
          | None =>
              match z1 with
              | Some c1 => rejectBounded_stream eta rest need' (c1 :: acc)
              | None => rejectBounded_stream eta rest need acc
              end
          end
      end
  end.

(* Algorithm 29: the first 8 stream bytes are the sign bits (little endian);
   for i = 256-tau .. 255: read bytes until one is <= i *)
Fixpoint sib_next (i : nat) (s : bytes) : option (nat * bytes) :=
  match s with
  | [] => None
  | b :: rest => if Nat.leb (N.to_nat b) i then Some (N.to_nat b, rest) else sib_next i rest
  end.

Fixpoint sib_loop (cnt i : nat) (signbits : Z) (s : bytes) (res : poly) : option poly :=
  match cnt with
  | O => Some res
  | S cnt' =>
      match sib_next i s with
      | None => None
      | Some (j, rest) =>
          let res1 := upd i (nth j res 0%Z) res in
          let v := k_sub 1 (wrapu 32 (wrapu 64 (2 * Z.land signbits 1))) in
          let res2 := upd j v res1 in
          sib_loop cnt' (S i) (Z.shiftr signbits 1) rest res2
      end
  end.

Definition sampleInBall_stream (tau : nat) (s : bytes) : option poly :=
  if Nat.ltb (length s) 8 then None else
  let signbits := Z.of_N (le_val (firstn 8 s)) in
  sib_loop tau (degree - tau) signbits (skipn 8 s) zero_poly.

Section WithShake.
  (* golang.org/x/crypto/sha3 SHAKE128 / SHAKE256: message, output length *)
  Variable shake128 : bytes -> nat -> bytes.
  Variable shake256 : bytes -> nat -> bytes.

  (* amounts of XOF output requested; running out yields None *)
  Definition rejectNTT_blocks : nat := 12.     (* 12 * 168 bytes = 672 candidates for 256 coefficients *)
  Definition rejectBounded_bytes : nat := 1536.
  Definition sampleInBall_bytes : nat := 8 + 1024.

  Definition rejectNTTPoly (rho : bytes) : option poly :=
    rejectNTT_stream degree (shake128 rho (rejectNTT_blocks * 168)) [].
  Definition rejectBoundedPoly (eta : Z) (rho : bytes) : option poly :=
    rejectBounded_stream eta (shake256 rho rejectBounded_bytes) degree [].
  Definition sampleInBall (tau : nat) (rho : bytes) : option poly :=
    sampleInBall_stream tau (shake256 rho sampleInBall_bytes).
End WithShake.
