(* HKDF transcribed from RFC 5869 over the RFC 2104 transcription of
   model/Hmac.v (hash oracle H, block size B, output size HashLen).
   tink-go computes HKDF with golang.org/x/crypto/hkdf (an io.Reader that
   produces T(1) | T(2) | ... on demand and fails beyond 255 blocks); this
   transcription is the independent implementation the PRF property compares
   against.  No proofs here: proofs/HkdfProofs.v. *)
From Coq Require Import List NArith Bool Arith.
From Tink Require Import Bytes Hmac.
Import ListNotations.
Open Scope N_scope.

Section HKDF.
  Variable H : bytes -> bytes.
  Variable B : nat.          (* block size of H *)
  Variable HashLen : nat.    (* output size of H *)

  (* 2.2  PRK = HMAC-Hash(salt, IKM) *)
  Definition hkdf_extract (salt ikm : bytes) : bytes := hmac H B salt ikm.

  (* 2.3  T(0) = empty, T(i) = HMAC-Hash(PRK, T(i-1) | info | i);
     hkdf_blocks prk info T(i-1) i n = T(i) | ... | T(i+n-1) *)
  Fixpoint hkdf_blocks (prk info prev : bytes) (i : N) (n : nat) : bytes :=
    match n with
    | O => []
    | S n' => let t := hmac H B prk (prev ++ info ++ [i]) in
              t ++ hkdf_blocks prk info t (i + 1) n'
    end.

  (* N = ceil(L / HashLen) *)
  Definition hkdf_nblocks (L : nat) : nat := ((L + HashLen - 1) / HashLen)%nat.

  (* OKM = first L octets of T(1) | ... | T(N); L <= 255 * HashLen *)
  Definition hkdf_expand (prk info : bytes) (L : nat) : option bytes :=
    if Nat.ltb (255 * HashLen) L then None
    else Some (firstn L (hkdf_blocks prk info [] 1 (hkdf_nblocks L))).

  Definition hkdf (salt ikm info : bytes) (L : nat) : option bytes :=
    hkdf_expand (hkdf_extract salt ikm) info L.
End HKDF.
