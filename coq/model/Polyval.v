(* C01 — POLYVAL (RFC 8452), written after internal/aead/polyval.go (and its
   copy aead/subtle/polyval.go): the integer kernels mul32 / mul64 /
   polyvalDot on N with the explicit wraps of uint32/uint64 arithmetic, Update
   and Finish; and, separately, the RFC 8452 specification over GF(2^128)
   (carry-less product, reduction by x^128+x^127+x^126+x^121+1, the x^-128
   factor).  No proofs here: proofs/PolyvalProofs.v. *)
From Coq Require Import List NArith Bool Arith.
From Tink Require Import Bytes.
Import ListNotations.
Open Scope N_scope.

Definition M32 : N := 2 ^ 32.
Definition M64 : N := 2 ^ 64.

Definition u32Sel0 : N := 0x11111111.
Definition u32Sel1 : N := 0x22222222.
Definition u32Sel2 : N := 0x44444444.
Definition u32Sel3 : N := 0x88888888.
Definition u64Sel0 : N := 0x1111111111111111.
Definition u64Sel1 : N := 0x2222222222222222.
Definition u64Sel2 : N := 0x4444444444444444.
Definition u64Sel3 : N := 0x8888888888888888.

(* uint64 multiplication and left shift wrap *)
Definition mulw (a b : N) : N := (a * b) mod M64.
Definition shlw (a s : N) : N := (N.shiftl a s) mod M64.
Definition x4 (a b c d : N) : N := N.lxor (N.lxor (N.lxor a b) c) d.

(* mul32(a, b uint32) uint64 *)
Definition mul32 (a b : N) : N :=
  let a0 := N.land a u32Sel0 in
  let a1 := N.land a u32Sel1 in
  let a2 := N.land a u32Sel2 in
  let a3 := N.land a u32Sel3 in
  let b0 := N.land b u32Sel0 in
  let b1 := N.land b u32Sel1 in
  let b2 := N.land b u32Sel2 in
  let b3 := N.land b u32Sel3 in
  let c0 := x4 (mulw a0 b0) (mulw a1 b3) (mulw a2 b2) (mulw a3 b1) in
  let c1 := x4 (mulw a0 b1) (mulw a1 b0) (mulw a2 b3) (mulw a3 b2) in
  let c2 := x4 (mulw a0 b2) (mulw a1 b1) (mulw a2 b0) (mulw a3 b3) in
  let c3 := x4 (mulw a0 b3) (mulw a1 b2) (mulw a2 b1) (mulw a3 b0) in
  N.lor (N.lor (N.lor (N.land c0 u64Sel0) (N.land c1 u64Sel1)) (N.land c2 u64Sel2)) (N.land c3 u64Sel3).

(* fieldElement{lo, hi} *)
Definition fe := (N * N)%type.

(* mul64(a, b uint64) fieldElement *)
Definition mul64 (a b : N) : fe :=
  let a0 := N.land a 0xffffffff in
  let a1 := N.shiftr a 32 in
  let b0 := N.land b 0xffffffff in
  let b1 := N.shiftr b 32 in
  let lo := mul32 a0 b0 in
  let hi := mul32 a1 b1 in
  let mid := N.lxor (N.lxor (mul32 (N.lxor a0 a1) (N.lxor b0 b1)) lo) hi in
  (N.lxor lo (shlw mid 32), N.lxor hi (N.shiftr mid 32)).

(* polyvalDot(a, b fieldElement) fieldElement, in its two commented halves;
   fst/snd are the struct fields .lo/.hi.
   First half: "Karatsuba multiplication. The product of |a| and |b| is stored in |r0| and |r1|" *)
Definition pv_karatsuba (a b : fe) : fe * fe :=
  let r0 := mul64 (fst a) (fst b) in
  let r1 := mul64 (snd a) (snd b) in
  let mid := mul64 (N.lxor (fst a) (snd a)) (N.lxor (fst b) (snd b)) in
  (* mid.lo ^= r0.lo ^ r1.lo; mid.hi ^= r0.hi ^ r1.hi *)
  let midlo := N.lxor (fst mid) (N.lxor (fst r0) (fst r1)) in
  let midhi := N.lxor (snd mid) (N.lxor (snd r0) (snd r1)) in
  (* r1.lo ^= mid.hi; r0.hi ^= mid.lo *)
  ((fst r0, N.lxor (snd r0) midlo), (N.lxor (fst r1) midhi, snd r1)).

(* Second half: "Now we multiply our 256-bit result by x^-128 and reduce" *)
Definition pv_reduce (r0 r1 : fe) : fe :=
  let r0lo := fst r0 in
  (* r0.hi ^= (r0.lo << 63) ^ (r0.lo << 62) ^ (r0.lo << 57) *)
  let r0hi := N.lxor (snd r0) (N.lxor (N.lxor (shlw r0lo 63) (shlw r0lo 62)) (shlw r0lo 57)) in
  (* 1 *)
  let r1lo := N.lxor (fst r1) r0lo in
  let r1hi := N.lxor (snd r1) r0hi in
  (* x^-1 *)
  let r1lo := N.lxor r1lo (N.shiftr r0lo 1) in
  let r1lo := N.lxor r1lo (shlw r0hi 63) in
  let r1hi := N.lxor r1hi (N.shiftr r0hi 1) in
  (* x^-2 *)
  let r1lo := N.lxor r1lo (N.shiftr r0lo 2) in
  let r1lo := N.lxor r1lo (shlw r0hi 62) in
  let r1hi := N.lxor r1hi (N.shiftr r0hi 2) in
  (* x^-7 *)
  let r1lo := N.lxor r1lo (N.shiftr r0lo 7) in
  let r1lo := N.lxor r1lo (shlw r0hi 57) in
  let r1hi := N.lxor r1hi (N.shiftr r0hi 7) in
  (r1lo, r1hi).

Definition polyvalDot (a b : fe) : fe :=
  let r := pv_karatsuba a b in pv_reduce (fst r) (snd r).

(* binary.LittleEndian.Uint64 of the two halves of a 16-byte block *)
Definition fe_of_block (b : bytes) : fe := (le_val (firstn 8 b), le_val (firstn 8 (skipn 8 b))).
Definition fe_xor (a b : fe) : fe := (N.lxor (fst a) (fst b), N.lxor (snd a) (snd b)).
Definition block_of_fe (a : fe) : bytes := le_bytes 8 (fst a) ++ le_bytes 8 (snd a).

(* polyval.Update: full blocks, then a zero-padded partial block *)
Fixpoint pv_update_fuel (fuel : nat) (key acc : fe) (data : bytes) : fe :=
  match fuel with
  | O => acc
  | S f =>
    if Nat.leb 16 (length data) then
      pv_update_fuel f key (polyvalDot (fe_xor acc (fe_of_block (firstn 16 data))) key) (skipn 16 data)
    else if Nat.ltb 0 (length data) then
      polyvalDot (fe_xor acc (fe_of_block (data ++ zeros (16 - length data)))) key
    else acc
  end.
Definition pv_update (key acc : fe) (data : bytes) : fe := pv_update_fuel (S (length data)) key acc data.

(* NewPolyval(key).Update(d1)...; Finish() *)
Definition polyval_impl (key : bytes) (pieces : list bytes) : bytes :=
  block_of_fe (fold_left (pv_update (fe_of_block key)) pieces (0, 0)).

(* ---------------- RFC 8452 Section 3 specification ---------------- *)
(* polynomials over GF(2) as N: bit i = coefficient of x^i *)
Fixpoint clmul_pos (a : N) (b : positive) : N :=
  match b with
  | xH => a
  | xO b' => N.double (clmul_pos a b')
  | xI b' => N.lxor a (N.double (clmul_pos a b'))
  end.
Definition clmul (a b : N) : N := match b with N0 => 0 | Npos p => clmul_pos a p end.

(* x^128 + x^127 + x^126 + x^121 + 1 *)
Definition polyP : N := 2 ^ 128 + 2 ^ 127 + 2 ^ 126 + 2 ^ 121 + 1.

(* reduce a polynomial of degree < 128 + n modulo polyP, clearing bits 128+n-1 .. 128 *)
Fixpoint pmod_fuel (n : nat) (a : N) : N :=
  match n with
  | O => a
  | S k =>
    let a' := if N.testbit a (128 + N.of_nat k) then N.lxor a (N.shiftl polyP (N.of_nat k)) else a in
    pmod_fuel k a'
  end.
Definition gf_mul (a b : N) : N := pmod_fuel 128 (clmul a b).

(* x^-128 = x^127 + x^124 + x^121 + x^114 + 1 *)
Definition xinv128 : N := 2 ^ 127 + 2 ^ 124 + 2 ^ 121 + 2 ^ 114 + 1.

(* dot(a, b) = a * b * x^-128 *)
Definition dot_spec (a b : N) : N := gf_mul (gf_mul a b) xinv128.

Definition n_of_fe (a : fe) : N := fst a + M64 * snd a.

(* POLYVAL(H, X_1..X_s): S_0 = 0, S_j = dot(S_{j-1} + X_j, H); blocks as little-endian 128-bit values *)
Definition polyval_spec (h : bytes) (blocks : list bytes) : bytes :=
  le_bytes 16 (fold_left (fun s x => dot_spec (N.lxor s (le_val x)) (le_val h)) blocks 0).

(* right-pad with zeros to a multiple of 16 and split into blocks *)
Definition pad16 (d : bytes) : bytes := d ++ zeros ((16 - length d mod 16) mod 16).
