(* Model of internal/signature/slhdsa/slhdsa.go: key generation from the
   three seeds, signInternal / verifyInternal with the digest split and
   masks, the context wrapper of Sign / SignDeterministic / Verify and the
   key encodings. *)
From Coq Require Import List NArith Bool Arith.
From Tink Require Import Bytes SlhdsaSupport SlhdsaAddr SlhdsaBase SlhdsaWots SlhdsaXmss SlhdsaFors SlhdsaHt.
Import ListNotations.
Open Scope N_scope.

Section SLHDSA.
  Variable P : params.
  Variable HS : hashes.

  (* slhKeygenInternal: root of the top XMSS tree (layer d-1, tree 0) *)
  Definition keygenRoot (skSeed pkSeed : bytes) : bytes :=
    fst (xmssNode P HS (p_hp P) skSeed 0 pkSeed (setLayerAddress (N.of_nat (p_d P - 1)) newAddress)).

  (* SecretKey.Encode of the generated key: skSeed ‖ skPrf ‖ pkSeed ‖ pkRoot *)
  Definition keygen (skSeed skPrf pkSeed : bytes) : bytes :=
    skSeed ++ skPrf ++ pkSeed ++ keygenRoot skSeed pkSeed.

  Definition md_len : nat := (p_k P * p_a P + 7) / 8.
  Definition tree_len : nat := (p_h P - p_hp P + 7) / 8.
  Definition leaf_len : nat := (p_hp P + 7) / 8.

  (* digest -> (md, idxTree, idxLeaf) *)
  Definition split_digest (digest : bytes) : bytes * N * N :=
    let r := md_len in let s := tree_len in let t := leaf_len in
    let md := firstn r digest in
    let tmpIdxTree := firstn s (skipn r digest) in
    let tmpIdxLeaf := firstn t (skipn (r + s) digest) in
    let idxTree := toInt tmpIdxTree s in
    let idxTree := if Nat.eqb (p_h P - p_hp P) 64 then idxTree
                   else N.land idxTree (N.ones (N.of_nat (p_h P - p_hp P))) in
    let idxLeaf := N.land (u32 (toInt tmpIdxLeaf t)) (N.ones (N.of_nat (p_hp P))) in
    (md, idxTree, idxLeaf).

  Definition forsAdrs (idxTree idxLeaf : N) : address :=
    setKeyPairAddress idxLeaf (setTypeAndClear T_FORSTREE (setTreeAddress idxTree newAddress)).

  Definition signInternal (skSeed skPrf pkSeed pkRoot msg addrnd : bytes) : bytes :=
    let R := hPrfMsg HS skPrf addrnd msg in
    let digest := hHMsg HS R pkSeed pkRoot msg in
    let '(md, idxTree, idxLeaf) := split_digest digest in
    let ad := forsAdrs idxTree idxLeaf in
    let '(sigFors, ad1) := forsSign P HS md skSeed pkSeed ad in
    let '(pkFors, ad2) := forsPkFromSig P HS sigFors md pkSeed ad1 in
    R ++ sigFors ++ htSign P HS pkFors skSeed pkSeed idxTree idxLeaf.

  Definition sig_len : nat :=
    ((1 + p_k P * (1 + p_a P)) + p_h P + p_d P * p_len P) * p_n P.

  Definition verifyInternal (pkSeed pkRoot msg sig : bytes) : bool :=
    let forsIdx := (1 + p_k P * (1 + p_a P))%nat in
    if negb (Nat.eqb (length sig) sig_len) then false else
    let R := firstn (p_n P) sig in
    let sigFors := firstn (forsIdx * p_n P - p_n P) (skipn (p_n P) sig) in
    let sigHT := skipn (forsIdx * p_n P) sig in
    let digest := hHMsg HS R pkSeed pkRoot msg in
    let '(md, idxTree, idxLeaf) := split_digest digest in
    let ad := forsAdrs idxTree idxLeaf in
    let '(pkFors, ad1) := forsPkFromSig P HS sigFors md pkSeed ad in
    htVerify P HS pkFors sigHT pkSeed idxTree idxLeaf pkRoot.

  (* M' = 0 ‖ len(ctx) ‖ ctx ‖ msg ; ctx longer than 255 bytes is an error *)
  Definition wrap_msg (msg ctx : bytes) : bytes := [0; N.of_nat (length ctx)] ++ ctx ++ msg.

  (* DecodeSecretKey: exact length 4n, split in four *)
  Definition sign (sk msg ctx addrnd : bytes) : option bytes :=
    let n := p_n P in
    if negb (Nat.eqb (length sk) (4 * n)) then None else
    if Nat.ltb 255 (length ctx) then None else
    Some (signInternal (firstn n sk) (firstn n (skipn n sk)) (firstn n (skipn (2 * n) sk))
            (firstn n (skipn (3 * n) sk)) (wrap_msg msg ctx) addrnd).

  (* SignDeterministic: addrnd = pkSeed *)
  Definition signDeterministic (sk msg ctx : bytes) : option bytes :=
    sign sk msg ctx (firstn (p_n P) (skipn (2 * p_n P) sk)).

  (* DecodePublicKey (exact length 2n) then Verify; None = key rejected *)
  Definition verify (pk msg sig ctx : bytes) : option bool :=
    let n := p_n P in
    if negb (Nat.eqb (length pk) (2 * n)) then None else
    if Nat.ltb 255 (length ctx) then Some false else
    Some (verifyInternal (firstn n pk) (skipn n pk) (wrap_msg msg ctx) sig).
End SLHDSA.

(* signature/slhdsa signer.go / verifier.go: the Tink output prefix (TINK
   variant: 0x01 ‖ be32 key id; NO_PREFIX: empty) around Sign(data, nil) /
   Verify(data, sig, nil). *)
Definition tink_prefix (tinkVariant : bool) (id : N) : bytes :=
  if tinkVariant then 1 :: be_bytes 4 id else [].

Definition tink_sign (P : params) (HS : hashes) (tv : bool) (id : N) (sk msg addrnd : bytes) : option bytes :=
  match sign P HS sk msg [] addrnd with
  | Some s => Some (tink_prefix tv id ++ s)
  | None => None
  end.

Definition tink_verify (P : params) (HS : hashes) (tv : bool) (id : N) (pk msg sig : bytes) : option bool :=
  let pre := tink_prefix tv id in
  if negb (Nat.eqb (length pk) (2 * p_n P)) then None else
  if beq (firstn (length pre) sig) pre then verify P HS pk msg (skipn (length pre) sig) []
  else Some false.
