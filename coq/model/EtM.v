(* C01/C02 — AES-CTR-HMAC encrypt-then-MAC, written after
     aead/aesctrhmac/aead.go (fullAEAD.Encrypt/Decrypt, aadSizeInBits)
     internal/aead/aesctr.go (AESCTR.Encrypt/Decrypt, newCipher)
     internal/mac/hmac/hmac.go (ComputeMAC: tag[:tagSize]; VerifyMAC: hmac.Equal)
     aead/subtle/encrypt_then_authenticate.go (same format, no prefix).
   aes k b = AES block encryption, hmac k m = full-length HMAC of the key's
   hash (stdlib oracles).  Every slice expression is checked. *)
From Coq Require Import List NArith Bool Arith.
From Tink Require Import Bytes AeadFrame Ctr.
Import ListNotations.
Open Scope N_scope.

Record etm_key := mkEtm {
  ek_aes : bytes;       (* AES key *)
  ek_hmac : bytes;      (* HMAC key *)
  ek_iv : nat;          (* IV size, 12..16 *)
  ek_tag : nat          (* tag size, 10..digest size *)
}.

Section ETM.
  Variable aes : bytes -> bytes -> bytes.     (* key block *)
  Variable hmac : bytes -> bytes -> bytes.    (* key message -> full digest *)

  (* aadSizeInBits: uint64(len(ad))*8 big-endian (wraps mod 2^64) *)
  Definition ad_bits (ad : bytes) : bytes := be_bytes 8 (lenN ad * 8).

  (* the MAC input  ad || payload || be64(8*|ad|)  (ComputeMAC writes the three pieces in order) *)
  Definition mac_input (ad payload : bytes) : bytes := ad ++ payload ++ ad_bits ad.

  (* hmac.ComputeMAC: tag[:h.tagSize] *)
  Definition compute_mac (k : etm_key) (ad payload : bytes) : outcome bytes :=
    slice 0 (ek_tag k) (hmac (ek_hmac k) (mac_input ad payload)).

  (* AESCTR.Encrypt(dst[len(prefix):], plaintext): iv || CTR(iv, plaintext) *)
  Definition ctr_encrypt (k : etm_key) (iv p : bytes) : outcome bytes :=
    if MaxInt - N.of_nat (ek_iv k) <? lenN p then Err
    else Ok (iv ++ aes_ctr (aes (ek_aes k)) iv p).

  (* AESCTR.Decrypt(nil, payload) *)
  Definition ctr_decrypt (k : etm_key) (payload : bytes) : outcome bytes :=
    if Nat.ltb (length payload) (ek_iv k) then Err
    else bind (slice 0 (ek_iv k) payload) (fun iv =>
         bind (slice (ek_iv k) (length payload) payload) (fun body =>
         Ok (aes_ctr (aes (ek_aes k)) iv body))).

  (* fullAEAD.Encrypt *)
  Definition etm_enc (prefix : bytes) (k : etm_key) (iv p ad : bytes) : outcome bytes :=
    bind (ctr_encrypt k iv p) (fun ctNoPrefix =>
    bind (compute_mac k ad ctNoPrefix) (fun tag =>
    if negb (Nat.eqb (length tag) (ek_tag k)) then Err
    else Ok (prefix ++ ctNoPrefix ++ tag))).

  (* fullAEAD.Decrypt *)
  Definition etm_dec (prefix : bytes) (k : etm_key) (c ad : bytes) : outcome bytes :=
    let pl := length prefix in
    if Nat.ltb (length c) (pl + ek_iv k + ek_tag k) then Err
    else bind (slice 0 pl c) (fun pre =>
      if negb (beq pre prefix) then Err
      else bind (slice pl (length c - ek_tag k) c) (fun payload =>
           bind (slice (length c - ek_tag k) (length c) c) (fun tag =>
           bind (compute_mac k ad payload) (fun expected =>
           if negb (beq expected tag) then Err        (* hmac.Equal: constant-time, length-sensitive *)
           else ctr_decrypt k payload)))).

  (* subtle.EncryptThenAuthenticate.Decrypt (no prefix; len check against tagSize only,
     the IV length check is AESCTR.Decrypt's, after the MAC check) *)
  Definition etm_subtle_dec (k : etm_key) (c ad : bytes) : outcome bytes :=
    if Nat.ltb (length c) (ek_tag k) then Err
    else bind (slice 0 (length c - ek_tag k) c) (fun payload =>
         bind (slice (length c - ek_tag k) (length c) c) (fun tag =>
         bind (compute_mac k ad payload) (fun expected =>
         if negb (beq expected tag) then Err
         else ctr_decrypt k payload))).
End ETM.

(* constructor validation: aead.NewAESCTR, hmac.New / ValidateHMACParams
   (hlen = digest size of the hash) *)
Definition etm_valid (hlen : nat) (k : etm_key) : bool :=
  (Nat.eqb (length (ek_aes k)) 16 || Nat.eqb (length (ek_aes k)) 32) &&
  Nat.leb 12 (ek_iv k) && Nat.leb (ek_iv k) 16 &&
  Nat.leb 10 (ek_tag k) && Nat.leb (ek_tag k) hlen &&
  Nat.leb 16 (length (ek_hmac k)).
