(* Model of internal/signature/slhdsa/fors.go (address threaded as in Go). *)
From Coq Require Import List NArith Bool Arith.
From Tink Require Import Bytes SlhdsaSupport SlhdsaAddr SlhdsaBase.
Import ListNotations.
Open Scope N_scope.

Section FORS.
  Variable P : params.
  Variable HS : hashes.

  (* works on a copy of adrs: the caller's address is unchanged *)
  Definition forsSkGen (skSeed pk : bytes) (ad : address) (idx : N) : bytes :=
    let skA := setTreeIndex idx (setKeyPairAddress (keyPairAddress ad) (setTypeAndClear T_FORSPRF ad)) in
    hPrf HS pk skSeed skA.

  Fixpoint forsNode (z : nat) (skSeed : bytes) (i : N) (pk : bytes) (ad : address) : bytes * address :=
    match z with
    | O =>
      let sk := forsSkGen skSeed pk ad i in
      let ad1 := setTreeIndex i (setTreeHeight 0 ad) in
      (hF HS pk ad1 sk, ad1)
    | S z' =>
      let '(lnode, ad1) := forsNode z' skSeed (2 * i) pk ad in
      let '(rnode, ad2) := forsNode z' skSeed (2 * i + 1) pk ad1 in
      let ad3 := setTreeIndex i (setTreeHeight (N.of_nat z) ad2) in
      (hH HS pk ad3 (lnode ++ rnode), ad3)
    end.

  (* inner loop of forsSign: s := (indices[i] >> j) ^ 1; forsNode((i << (a-j)) + s, j) *)
  Fixpoint forsAuth_loop (cnt : nat) (j : nat) (i : nat) (ind : N) (skSeed pk : bytes) (ad : address)
    (auth : bytes) : bytes * address :=
    match cnt with
    | O => (auth, ad)
    | S c =>
      let s := N.lxor (N.shiftr ind (N.of_nat j)) 1 in
      let '(v, ad1) := forsNode j skSeed (N.shiftl (N.of_nat i) (N.of_nat (p_a P - j)) + s) pk ad in
      forsAuth_loop c (S j) i ind skSeed pk ad1 (auth ++ v)
    end.

  Fixpoint forsSign_loop (cnt : nat) (i : nat) (indices : list N) (skSeed pk : bytes) (ad : address)
    (sig : bytes) : bytes * address :=
    match cnt with
    | O => (sig, ad)
    | S c =>
      let ind := nth i indices 0 in
      let sig1 := sig ++ forsSkGen skSeed pk ad (N.shiftl (N.of_nat i) (N.of_nat (p_a P)) + ind) in
      let '(auth, ad1) := forsAuth_loop (p_a P) 0 i ind skSeed pk ad [] in
      forsSign_loop c (S i) indices skSeed pk ad1 (sig1 ++ auth)
    end.

  Definition forsSign (md skSeed pk : bytes) (ad : address) : bytes * address :=
    let indices := base2b md (p_a P) (p_k P) in
    forsSign_loop (p_k P) 0 indices skSeed pk ad [].

  Fixpoint forsClimb_loop (cnt : nat) (j : nat) (ind : N) (auth pk : bytes) (ad : address) (node : bytes)
    : bytes * address :=
    match cnt with
    | O => (node, ad)
    | S c =>
      let ad1 := setTreeHeight (N.of_nat j + 1) ad in
      let ad2 := setTreeIndex (N.shiftr (treeIndex ad1) 1) ad1 in
      let authJ := firstn (p_n P) (skipn (j * p_n P) auth) in
      let node' := if N.eqb (N.land (N.shiftr ind (N.of_nat j)) 1) 0
                   then hH HS pk ad2 (node ++ authJ)
                   else hH HS pk ad2 (authJ ++ node) in
      forsClimb_loop c (S j) ind auth pk ad2 node'
    end.

  Fixpoint forsPkFromSig_loop (cnt : nat) (i : nat) (indices : list N) (sigFors pk : bytes) (ad : address)
    (root : bytes) : bytes * address :=
    match cnt with
    | O => (root, ad)
    | S c =>
      let n := p_n P in
      let a := p_a P in
      let ind := nth i indices 0 in
      (* sk := sigFors[i*(a+1)*n : (i*(a+1)+1)*n] *)
      let sk := firstn n (skipn (i * (a + 1) * n) sigFors) in
      let ad1 := setTreeIndex (N.shiftl (N.of_nat i) (N.of_nat a) + ind) (setTreeHeight 0 ad) in
      let node := hF HS pk ad1 sk in
      (* auth := sigFors[(i*(a+1)+1)*n : (i+1)*(a+1)*n] *)
      let auth := firstn ((i + 1) * (a + 1) * n - (i * (a + 1) + 1) * n)
                         (skipn ((i * (a + 1) + 1) * n) sigFors) in
      let '(node', ad2) := forsClimb_loop a 0 ind auth pk ad1 node in
      forsPkFromSig_loop c (S i) indices sigFors pk ad2 (root ++ node')
    end.

  Definition forsPkFromSig (sigFors md pk : bytes) (ad : address) : bytes * address :=
    let indices := base2b md (p_a P) (p_k P) in
    let '(root, ad1) := forsPkFromSig_loop (p_k P) 0 indices sigFors pk ad [] in
    let pkA := setKeyPairAddress (keyPairAddress ad1) (setTypeAndClear T_FORSROOTS ad1) in
    (hTl HS pk pkA root, ad1).
End FORS.
