(* Field kernels used by the ML-DSA model (MldsaPoly.v, Mldsa.v).

   Each kernel k_xxx is the REGENERATED Go kernel mldsa_rZq_xxx
   (gen/MldsaScalar.v, translated from algebra.go on every run) with a
   short-cut: on canonical arguments (0 <= a < q, gamma2 one of the two
   FIPS 204 values) it evaluates the closed arithmetic form that the lead's
   theorems (proofs/MldsaScalarProofs*.v) prove equal to the generated kernel;
   on any other argument it calls the generated kernel itself.
   proofs/MldsaKernelsProofs.v proves, for ALL arguments,
        k_xxx args = mldsa_rZq_xxx args
   so the model built on k_xxx is extensionally the model built on the
   generated kernels; the short-cut only makes the extracted model fast enough
   (binary Z arithmetic: generated Barrett mul ~145 us, (a*b) mod q ~10 us).
   A change of a Go kernel changes the generated function, and the equality
   proof (hence props/C10.vo) no longer checks. *)
From Coq Require Import ZArith Bool.
From Tink Require Import Wrap MldsaScalar.
Open Scope Z_scope.

(* constants folded from the regenerated mldsa_q when this file is compiled *)
Definition k_qm1 : Z := Eval compute in (mldsa_q - 1).
Definition k_qhalf : Z := Eval compute in ((mldsa_q - 1) / 2).

Definition in_q (a : Z) : bool := (0 <=? a) && (a <? mldsa_q).
Definition valid_g (g : Z) : bool := (g =? 95232) || (g =? 261888).

Definition k_add (a b : Z) : Z :=
  if in_q a && in_q b then (let s := a + b in if s <? mldsa_q then s else s - mldsa_q)
  else mldsa_rZq_add a b.

Definition k_sub (a b : Z) : Z :=
  if in_q a && in_q b then (let s := a - b in if s <? 0 then s + mldsa_q else s)
  else mldsa_rZq_sub a b.

Definition k_neg (a : Z) : Z :=
  if in_q a then (if a =? 0 then 0 else mldsa_q - a) else mldsa_rZq_neg a.

Definition k_mul (a b : Z) : Z :=
  if in_q a && in_q b then (a * b) mod mldsa_q else mldsa_rZq_mul a b.

(* m mod± a *)
Definition k_cmod (m a : Z) : Z := let r := m mod a in if r <=? a / 2 then r else r - a.

Definition k_power2Round (a : Z) : Z * Z :=
  if in_q a then (let r0 := k_cmod a 8192 in ((a - r0) / 8192, r0 mod mldsa_q))
  else mldsa_rZq_power2Round a.

Definition k_decompose (a g : Z) : option (Z * Z) :=
  if in_q a && valid_g g then
    (let r0 := k_cmod a (2 * g) in
     if a - r0 =? k_qm1 then Some (0, (r0 - 1) mod mldsa_q)
     else Some ((a - r0) / (2 * g), r0 mod mldsa_q))
  else mldsa_rZq_decompose a g.

Definition k_highBits (a g : Z) : option Z :=
  match k_decompose a g with None => None | Some (r1, _) => Some r1 end.

Definition k_lowBits (a g : Z) : option Z :=
  match k_decompose a g with None => None | Some (_, r0) => Some r0 end.

Definition k_makeHint (a g r : Z) : option Z :=
  match k_highBits r g with
  | None => None
  | Some r1 =>
      match k_highBits (k_add r a) g with
      | None => None
      | Some v1 => if negb (r1 =? v1) then Some 1 else Some 0
      end
  end.

Definition k_useHint (a g h : Z) : option Z :=
  if in_q a && valid_g g then
    (let m := k_qm1 / (2 * g) in
     let r0s := k_cmod a (2 * g) in
     let '(r1, r0s) := if a - r0s =? k_qm1 then (0, r0s - 1) else ((a - r0s) / (2 * g), r0s) in
     Some (if h =? 1 then (if 0 <? r0s then (r1 + 1) mod m else (r1 - 1) mod m) else r1))
  else mldsa_rZq_useHint a g h.

Definition k_centeredAbs (a : Z) : Z :=
  if in_q a then (if a <=? k_qhalf then a else mldsa_q - a) else mldsa_rZq_centeredAbs a.

Definition k_centeredMax (a b : Z) : Z :=
  if in_q a && in_q b then (if k_centeredAbs b <=? k_centeredAbs a then a else b)
  else mldsa_rZq_centeredMax a b.

Definition k_scalePower2 (a : Z) : Z := mldsa_rZq_scalePower2 a.
