(* RFC 4648 section 5 base64url without padding, as jwt/jwt_encoding.go uses it:

     base64Encode = base64.URLEncoding.WithPadding(base64.NoPadding).EncodeToString
     base64Decode = reject any character outside [A-Za-z0-9-_], then
                    base64.URLEncoding.WithPadding(base64.NoPadding).DecodeString

   Go's default (non-Strict) decoder does NOT require the unused trailing bits
   of a final 2- or 3-character group to be zero, and with NoPadding a final
   group of one character is a CorruptInputError.  The alphabet pre-check also
   removes the '\r' '\n' skipping of the stdlib decoder.  The model does
   exactly that.  No proofs here: proofs/JwtProofs.v. *)
From Coq Require Import List NArith Bool.
From Tink Require Import Bytes.
Import ListNotations.
Open Scope N_scope.

(* 6-bit value -> ASCII code of the URL-safe alphabet *)
Definition b64_char (v : N) : N :=
  if v <? 26 then v + 65            (* A-Z *)
  else if v <? 52 then v - 26 + 97  (* a-z *)
  else if v <? 62 then v - 52 + 48  (* 0-9 *)
  else if v =? 62 then 45           (* - *)
  else 95.                          (* _ *)

(* ASCII code -> 6-bit value; None outside the alphabet
   (isValidURLsafeBase64Char) *)
Definition b64_val (c : N) : option N :=
  if (65 <=? c) && (c <=? 90) then Some (c - 65)
  else if (97 <=? c) && (c <=? 122) then Some (c - 97 + 26)
  else if (48 <=? c) && (c <=? 57) then Some (c - 48 + 52)
  else if c =? 45 then Some 62
  else if c =? 95 then Some 63
  else None.

Fixpoint b64_encode (b : bytes) : bytes :=
  match b with
  | [] => []
  | [x] => [b64_char (x / 4); b64_char ((x mod 4) * 16)]
  | [x; y] => [b64_char (x / 4); b64_char ((x mod 4) * 16 + y / 16); b64_char ((y mod 16) * 4)]
  | x :: y :: z :: t =>
      b64_char (x / 4) :: b64_char ((x mod 4) * 16 + y / 16)
      :: b64_char ((y mod 16) * 4 + z / 64) :: b64_char (z mod 64) :: b64_encode t
  end.

Fixpoint map_opt {A B} (f : A -> option B) (l : list A) : option (list B) :=
  match l with
  | [] => Some []
  | x :: t => match f x, map_opt f t with
              | Some y, Some r => Some (y :: r)
              | _, _ => None
              end
  end.

(* groups of four 6-bit values; a final group of 2 or 3 values yields 1 or 2
   bytes and its unused low bits are dropped without a check (non-strict) *)
Fixpoint b64_decode_vals (v : list N) : option bytes :=
  match v with
  | [] => Some []
  | [_] => None
  | [a; b] => Some [a * 4 + b / 16]
  | [a; b; c] => Some [a * 4 + b / 16; (b mod 16) * 16 + c / 4]
  | a :: b :: c :: d :: t =>
      match b64_decode_vals t with
      | Some r => Some (a * 4 + b / 16 :: (b mod 16) * 16 + c / 4 :: (c mod 4) * 64 + d :: r)
      | None => None
      end
  end.

Definition b64_decode (s : bytes) : option bytes :=
  match map_opt b64_val s with
  | None => None
  | Some v => b64_decode_vals v
  end.
