(* Model of internal/signature/slhdsa/address.go: the 32-byte ADRS as a
   record of its six words (the Go array is written only through the setters
   below, each of which overwrites whole big-endian words), the setters, the
   byte layout and the 22-byte SHA2 compression.  The Go code mutates one
   address through pointers; the model threads the record. *)
From Coq Require Import List NArith Bool Arith.
From Tink Require Import Bytes.
Import ListNotations.
Open Scope N_scope.

Record address := mkA {
  a_layer : N;   (* bytes  0..3  *)
  a_tree  : N;   (* bytes  4..15 (4..7 always zero, 8..15 = uint64) *)
  a_typ   : N;   (* bytes 16..19 *)
  a_kp    : N;   (* bytes 20..23 key pair address *)
  a_w2    : N;   (* bytes 24..27 chain address / tree height *)
  a_w3    : N    (* bytes 28..31 hash address / tree index *)
}.

Definition T_WOTSHASH : N := 0.
Definition T_WOTSPK : N := 1.
Definition T_TREE : N := 2.
Definition T_FORSTREE : N := 3.
Definition T_FORSROOTS : N := 4.
Definition T_WOTSPRF : N := 5.
Definition T_FORSPRF : N := 6.

Definition newAddress : address := mkA 0 0 0 0 0 0.

Definition setLayerAddress (l : N) (a : address) := mkA l (a_tree a) (a_typ a) (a_kp a) (a_w2 a) (a_w3 a).
Definition setTreeAddress (t : N) (a : address) := mkA (a_layer a) t (a_typ a) (a_kp a) (a_w2 a) (a_w3 a).
Definition setTypeAndClear (y : N) (a : address) := mkA (a_layer a) (a_tree a) y 0 0 0.
Definition setKeyPairAddress (i : N) (a : address) := mkA (a_layer a) (a_tree a) (a_typ a) i (a_w2 a) (a_w3 a).
Definition keyPairAddress (a : address) : N := a_kp a.
Definition setChainAddress (i : N) (a : address) := mkA (a_layer a) (a_tree a) (a_typ a) (a_kp a) i (a_w3 a).
Definition setTreeHeight (i : N) (a : address) := mkA (a_layer a) (a_tree a) (a_typ a) (a_kp a) i (a_w3 a).
Definition setHashAddress (i : N) (a : address) := mkA (a_layer a) (a_tree a) (a_typ a) (a_kp a) (a_w2 a) i.
Definition setTreeIndex (i : N) (a : address) := mkA (a_layer a) (a_tree a) (a_typ a) (a_kp a) (a_w2 a) i.
Definition treeIndex (a : address) : N := a_w3 a.

(* the 32 bytes (binary.BigEndian.PutUint32 / PutUint64 of each word: the
   value is taken modulo the word size by be_bytes) *)
Definition adrs_bytes (a : address) : bytes :=
  be_bytes 4 (a_layer a) ++ zeros 4 ++ be_bytes 8 (a_tree a) ++ be_bytes 4 (a_typ a)
  ++ be_bytes 4 (a_kp a) ++ be_bytes 4 (a_w2 a) ++ be_bytes 4 (a_w3 a).

(* compress: a[3:4] ++ a[8:16] ++ a[19:32] *)
Definition compress (a : address) : bytes :=
  let b := adrs_bytes a in
  firstn 1 (skipn 3 b) ++ firstn 8 (skipn 8 b) ++ firstn 13 (skipn 19 b).
