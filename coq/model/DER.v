(* Executable model of the ASN.1 DER codec for  SEQUENCE { INTEGER r, INTEGER s }
   as the ECDSA code of tink-go produces and accepts it:

   * internal/signature/ecdsa/encoding.go  ASN1Encode  = encoding/asn1.Marshal
     of struct{R,S *big.Int}: two's complement minimal INTEGERs (negative
     values included), definite minimal lengths;
   * ASN1Decode = asn1.Unmarshal followed by re-Marshal and bytes.Equal, so
     its accept set is exactly the image of the encoder (signed integers);
   * crypto/ecdsa.VerifyASN1 (used by signature/ecdsa/verifier.go and
     signature/subtle/ecdsa_verifier.go) parses with x/crypto/cryptobyte:
     the same strict DER, additionally rejecting negative INTEGERs, with at
     most four length octets (parse_sig below).

   No proofs here: proofs/DERProofs.v. *)
From Coq Require Import List NArith ZArith Bool.
From Tink Require Import Bytes.
Import ListNotations.
Open Scope N_scope.

(* ---- minimal big-endian digits of a natural number (big.Int.Bytes) ---- *)
Fixpoint strip0 (d : bytes) : bytes :=
  match d with
  | 0 :: t => strip0 t
  | _ => d
  end.

Definition be_width (x : N) : nat := S (N.to_nat (N.size x / 8)).
Definition be_min (x : N) : bytes := strip0 (be_bytes (be_width x) x).

(* ---- DER definite lengths ---- *)
Definition enc_len (n : nat) : bytes :=
  let x := N.of_nat n in
  if x <? 128 then [x]
  else let d := be_min x in (128 + N.of_nat (length d)) :: d.

(* one length field: short form below 128; long form 0x80+k, 1 <= k <= 4
   (cryptobyte's limit), no leading zero octet, value >= 128 *)
Definition read_len (b : bytes) : option (nat * bytes) :=
  match b with
  | [] => None
  | l :: t =>
    if l <? 128 then Some (N.to_nat l, t)
    else
      let k := N.to_nat (l - 128) in
      if (Nat.eqb k 0 || Nat.ltb 4 k || Nat.ltb (length t) k)%bool then None
      else
        let d := firstn k t in
        match d with
        | 0 :: _ => None
        | _ => if be_val d <? 128 then None else Some (N.to_nat (be_val d), skipn k t)
        end
  end.

Definition enc_tlv (tag : N) (c : bytes) : bytes := tag :: enc_len (length c) ++ c.

(* read one element with the given single-octet tag: (content, rest) *)
Definition read_tlv (tag : N) (b : bytes) : option (bytes * bytes) :=
  match b with
  | [] => None
  | t :: b1 =>
    if negb (t =? tag) then None
    else match read_len b1 with
         | None => None
         | Some (n, b2) =>
           if Nat.ltb (length b2) n then None else Some (firstn n b2, skipn n b2)
         end
  end.

(* ---- INTEGER contents: minimal two's complement ---- *)
Definition comp (d : bytes) : bytes := map (fun x => 255 - x) d.

(* asn1.Marshal of a *big.Int (bigIntEncoder) *)
Definition int_enc (z : Z) : bytes :=
  if (0 <=? z)%Z then
    let d := be_min (Z.to_N z) in
    match d with
    | [] => [0]
    | x :: _ => if x <? 128 then d else 0 :: d
    end
  else
    let d := comp (be_min (Z.to_N (- z - 1))) in
    match d with
    | [] => [255]
    | x :: _ => if x <? 128 then 255 :: d else d
    end.

(* checkInteger / checkASN1Integer *)
Definition int_minimal (c : bytes) : bool :=
  match c with
  | [] => false
  | [_] => true
  | x :: y :: _ => negb (((x =? 0) && (y <? 128)) || ((x =? 255) && (128 <=? y)))
  end.

Definition int_dec (c : bytes) : option Z :=
  if negb (int_minimal c) then None
  else match c with
       | [] => None
       | x :: _ =>
         if x <? 128 then Some (Z.of_N (be_val c))
         else Some (- Z.of_N (be_val (comp c)) - 1)%Z
       end.

(* ---- the signature structure ---- *)
Definition SEQ : N := 48.   (* 0x30 *)
Definition INT : N := 2.

Definition der_body (r s : Z) : bytes := enc_tlv INT (int_enc r) ++ enc_tlv INT (int_enc s).
Definition der_encode (r s : Z) : bytes := enc_tlv SEQ (der_body r s).

(* ASN1Decode: strict decoder, signed integers *)
Definition der_decode (b : bytes) : option (Z * Z) :=
  match read_tlv SEQ b with
  | Some (inner, []) =>
    match read_tlv INT inner with
    | Some (rc, rest) =>
      match read_tlv INT rest with
      | Some (sc, []) =>
        match int_dec rc, int_dec sc with
        | Some r, Some s => Some (r, s)
        | _, _ => None
        end
      | _ => None
      end
    | None => None
    end
  | _ => None
  end.

(* crypto/ecdsa parseSignature: the same with ReadASN1Integer into []byte,
   which refuses negative values *)
Definition parse_sig (b : bytes) : option (N * N) :=
  match der_decode b with
  | Some (r, s) => if ((0 <=? r) && (0 <=? s))%Z then Some (Z.to_N r, Z.to_N s) else None
  | None => None
  end.

(* encoding of a signature with natural r, s (what Sign emits) *)
Definition der_encode_N (r s : N) : bytes := der_encode (Z.of_N r) (Z.of_N s).

(* contents short enough for a 4-octet length *)
Definition der_fits (r s : Z) : Prop := N.of_nat (length (der_body r s)) < 4294967296.

(* ASN1Decode as coded: asn1.Unmarshal (a lenient parser: it tolerates
   trailing data), then Marshal again and compare with the input.  The
   parser is a Section variable: the strictness comes from the comparison. *)
Section Reencode.
  Variable unmarshal : bytes -> option (Z * Z).
  Definition asn1_decode_impl (b : bytes) : option (Z * Z) :=
    match unmarshal b with
    | Some (r, s) => if beq b (der_encode r s) then Some (r, s) else None
    | None => None
    end.
End Reencode.
