(* C14 — every numeric limit, enum value and type URL the acceptance model
   (model/Untrusted.v) uses, as named definitions in ONE place.  Nothing else
   lives here: the lead's translator regenerates this file from the Go source
   (the anchor of each constant is given beside it), so that a source edit
   that weakens a minimum changes the definition and breaks the strength
   lemmas of proofs/UntrustedProofs.v. *)
From Coq Require Import NArith String.
Local Open Scope N_scope.
Local Open Scope string_scope.

(* ---- proto/tink.proto enums ---- *)
Definition st_enabled : N := 1.          (* KeyStatusType_ENABLED *)
Definition st_disabled : N := 2.         (* KeyStatusType_DISABLED *)
Definition st_destroyed : N := 3.        (* KeyStatusType_DESTROYED *)
Definition pt_tink : N := 1.             (* OutputPrefixType_TINK *)
Definition pt_legacy : N := 2.           (* OutputPrefixType_LEGACY *)
Definition pt_raw : N := 3.              (* OutputPrefixType_RAW *)
Definition pt_crunchy : N := 4.          (* OutputPrefixType_CRUNCHY *)
Definition km_unknown : N := 0.          (* KeyData_UNKNOWN_KEYMATERIAL *)
Definition km_symmetric : N := 1.        (* KeyData_SYMMETRIC *)
Definition km_private : N := 2.          (* KeyData_ASYMMETRIC_PRIVATE *)
Definition km_public : N := 3.           (* KeyData_ASYMMETRIC_PUBLIC *)
Definition km_remote : N := 4.           (* KeyData_REMOTE *)

(* ---- proto/common.proto enums ---- *)
Definition h_sha1 : N := 1.
Definition h_sha384 : N := 2.
Definition h_sha256 : N := 3.
Definition h_sha512 : N := 4.
Definition h_sha224 : N := 5.
Definition c_p256 : N := 2.
Definition c_p384 : N := 3.
Definition c_p521 : N := 4.
Definition enc_ieee : N := 1.            (* EcdsaSignatureEncoding_IEEE_P1363 *)
Definition enc_der : N := 2.             (* EcdsaSignatureEncoding_DER *)

(* ---- protobuf-go wire limits (encoding/protowire) ---- *)
Definition max_field_number : N := 536870911.      (* protowire.MaxValidNumber = 1<<29 - 1 *)
Definition max_int32 : N := 2147483647.            (* DecodeTag: x>>3 > math.MaxInt32 *)
Definition group_depth_limit : N := 10000.         (* protowire.DefaultRecursionLimit *)

(* ---- digest sizes: subtle/subtle.go hashDigestSize, mac/hmac/parameters.go maxTagSizeInBytes ---- *)
Definition dg_sha1 : N := 20.
Definition dg_sha224 : N := 28.
Definition dg_sha256 : N := 32.
Definition dg_sha384 : N := 48.
Definition dg_sha512 : N := 64.

(* ---- HMAC: mac/hmac/parameters.go NewParameters; internal/mac/hmac/hmac.go ---- *)
Definition hmac_min_key_parse : N := 16.           (* opts.KeySizeInBytes < 16 *)
Definition hmac_min_tag_parse : N := 10.           (* opts.TagSizeInBytes < 10 *)
Definition hmac_min_key_prim : N := 16.            (* minKeySizeInBytes *)
Definition hmac_min_tag_prim : N := 10.            (* minTagSizeInBytes *)

(* ---- AES-CMAC: mac/aescmac/parameters.go; mac/subtle/cmac.go ---- *)
Definition cmac_key_a : N := 16.
Definition cmac_key_b : N := 32.
Definition cmac_min_tag : N := 10.
Definition cmac_max_tag : N := 16.
Definition cmac_key_prim : N := 32.                (* recommendedCMACKeySizeInBytes *)

(* ---- AES key sizes ---- *)
Definition aes_k16 : N := 16.
Definition aes_k24 : N := 24.                      (* accepted by aesgcm/aesctrhmac parameters, refused by ValidateAESKeySize *)
Definition aes_k32 : N := 32.

(* ---- AES-CTR-HMAC: aead/aesctrhmac/key_parameters.go validateOpts; internal/aead/aesctr.go ---- *)
Definition ctr_min_iv : N := 12.
Definition ctr_max_iv : N := 16.
Definition ctrhmac_min_hmac_key : N := 16.
Definition ctrhmac_min_tag : N := 10.

(* ---- AES-SIV: daead/aessiv/parameters.go validateParams; daead/subtle/aes_siv.go ---- *)
Definition siv_k32 : N := 32.
Definition siv_k48 : N := 48.
Definition siv_k64 : N := 64.
Definition siv_key_prim : N := 64.                 (* AESSIVKeySize *)

(* ---- ChaCha20-Poly1305 / XChaCha20-Poly1305 / X-AES-GCM: aead/{chacha20poly1305,xchacha20poly1305,xaesgcm}/key.go ---- *)
Definition chacha_key_size : N := 32.
Definition xaes_key_size : N := 32.
Definition xaes_min_salt : N := 8.
Definition xaes_max_salt : N := 12.

(* ---- PRFs: prf/*/parameters.go; prf/subtle/{hkdf,hmac,aes_cmac}.go ---- *)
Definition hkdf_min_key_parse : N := 16.
Definition hkdf_min_key_prim : N := 32.            (* minHKDFKeySizeInBytes *)
Definition hmacprf_min_key_parse : N := 16.
Definition hmacprf_min_key_prim : N := 16.         (* minHMACKeySizeInBytes *)
Definition cmacprf_key_a : N := 16.
Definition cmacprf_key_b : N := 32.
Definition cmacprf_key_prim : N := 32.

(* ---- RSA: signature/rsassa{pkcs1,pss}/key.go; internal/signature/rsa.go ---- *)
Definition rsa_min_bits_parse : N := 2048.
Definition rsa_f4 : N := 65537.
Definition rsa_max_exponent : N := 2147483647.     (* 1<<31 - 1 *)
Definition rsa_min_bits_prim : N := 2048.          (* rsaMinModulusSizeInBits *)
Definition rsa_exponent_prim : N := 65537.         (* rsaDefaultPublicExponent *)

(* ---- ECDSA coordinate sizes: signature/ecdsa/protoserialization.go coordinateSizeForCurve ---- *)
Definition ec_size_p256 : N := 32.
Definition ec_size_p384 : N := 48.
Definition ec_size_p521 : N := 66.

(* ---- Ed25519: signature/ed25519/key.go NewPublicKey / NewPrivateKeyWithPublicKey ---- *)
Definition ed25519_pub_size : N := 32.
Definition ed25519_seed_size : N := 32.

(* ---- proto/common.proto: CURVE25519, EcPointFormat ---- *)
Definition c_x25519 : N := 5.
Definition pf_uncompressed : N := 1.
Definition pf_compressed : N := 2.
Definition pf_crunchy_uncompressed : N := 3.

(* ---- ECIES: hybrid/ecies/parameters.go mustCreateAllowedDEMParameters (codes of this model) ---- *)
Definition dem_aes128_gcm : N := 1.
Definition dem_aes256_gcm : N := 2.
Definition dem_aes256_siv : N := 3.
Definition dem_xchacha : N := 4.                   (* allowed by NewParameters, refused by NewDEMHelper *)
Definition dem_aes128_ctr_hmac : N := 5.
Definition dem_aes256_ctr_hmac : N := 6.
Definition dem_gcm_key_a : N := 16.
Definition dem_gcm_key_b : N := 32.
Definition dem_siv_key : N := 64.
Definition dem_ctr_iv : N := 16.
Definition dem_ctr_hmac_key : N := 32.
Definition dem_ctr128_aes : N := 16.
Definition dem_ctr128_tag : N := 16.
Definition dem_ctr256_aes : N := 32.
Definition dem_ctr256_tag : N := 32.

(* ---- HPKE: proto/hpke.proto HpkeKem; hybrid/hpke/key.go ---- *)
Definition kem_x25519 : N := 1.
Definition kem_p256 : N := 2.
Definition kem_p384 : N := 3.
Definition kem_p521 : N := 4.
Definition kem_xwing : N := 5.
Definition kem_mlkem768 : N := 6.
Definition kem_mlkem1024 : N := 7.
Definition hpke_max_kdf : N := 3.                  (* HKDF_SHA256 = 1 .. HKDF_SHA512 = 3 *)
Definition hpke_max_aead : N := 3.                 (* AES_128_GCM = 1 .. CHACHA20_POLY1305 = 3 *)
Definition xwing_pub_size : N := 1216.
Definition xwing_secret_size : N := 32.            (* hybrid/internal/xwing secretKeySize *)
Definition mlkem768_pub_size : N := 1184.
Definition mlkem1024_pub_size : N := 1568.

(* ---- streaming AEAD: streamingaead/{aesgcmhkdf,aesctrhmac}/{parameters,key}.go,
   streamingaead/subtle/{aes_gcm_hkdf,aes_ctr_hmac}.go ---- *)
Definition stream_derived_a : N := 16.
Definition stream_derived_b : N := 32.
Definition stream_gcm_overhead : N := 24.          (* nonce prefix 7 + header length 1 + tag 16 *)
Definition stream_ctr_overhead : N := 8.           (* nonce prefix 7 + header length 1 (the tag is a parameter) *)
Definition stream_min_main_key : N := 16.          (* len(mainKey) < 16 *)
Definition stream_min_tag : N := 10.

(* ---- JWT: jwt/jwthmac/parameters.go minKeySizeInBytes; proto enums HS/ES/RS/PS 256 = 1, 384 = 2, 512 = 3 ---- *)
Definition jwt_alg_256 : N := 1.
Definition jwt_alg_384 : N := 2.
Definition jwt_alg_512 : N := 3.
Definition jwt_hs256_min_key : N := 32.
Definition jwt_hs384_min_key : N := 48.
Definition jwt_hs512_min_key : N := 64.
Definition jwt_mldsa_44 : N := 1.                  (* proto/jwt_ml_dsa.proto JwtMlDsaAlgorithm *)
Definition jwt_mldsa_65 : N := 2.
Definition jwt_mldsa_87 : N := 3.

(* ---- ML-DSA: proto/ml_dsa.proto MlDsaInstance; internal/signature/mldsa PublicKeyLength ---- *)
Definition mldsa_65 : N := 1.
Definition mldsa_87 : N := 2.
Definition mldsa_44 : N := 3.
Definition mldsa44_pub_size : N := 1312.
Definition mldsa65_pub_size : N := 1952.
Definition mldsa87_pub_size : N := 2592.
Definition mldsa_seed_size : N := 32.              (* internal/signature/mldsa SecretKeySeedSize *)
Definition pt_with_id_requirement : N := 5.        (* OutputPrefixType_WITH_ID_REQUIREMENT (accepted by keyset.Validate since /repo 4b80d2c) *)

(* ---- SLH-DSA: signature/slhdsa/key.go parameter sets: private key of 4n = 64, 96, 128 bytes ---- *)
Definition slhdsa_key_a : N := 64.
Definition slhdsa_key_b : N := 96.
Definition slhdsa_key_c : N := 128.

(* ---- type URLs with a model of their parser and primitive constructor ---- *)
Definition url_hmac := "type.googleapis.com/google.crypto.tink.HmacKey".
Definition url_aes_cmac := "type.googleapis.com/google.crypto.tink.AesCmacKey".
Definition url_aes_gcm := "type.googleapis.com/google.crypto.tink.AesGcmKey".
Definition url_aes_gcm_siv := "type.googleapis.com/google.crypto.tink.AesGcmSivKey".
Definition url_aes_ctr_hmac := "type.googleapis.com/google.crypto.tink.AesCtrHmacAeadKey".
Definition url_aes_siv := "type.googleapis.com/google.crypto.tink.AesSivKey".
Definition url_hkdf_prf := "type.googleapis.com/google.crypto.tink.HkdfPrfKey".
Definition url_hmac_prf := "type.googleapis.com/google.crypto.tink.HmacPrfKey".
Definition url_aes_cmac_prf := "type.googleapis.com/google.crypto.tink.AesCmacPrfKey".
Definition url_ecdsa_pub := "type.googleapis.com/google.crypto.tink.EcdsaPublicKey".
Definition url_ecdsa_priv := "type.googleapis.com/google.crypto.tink.EcdsaPrivateKey".
Definition url_rsa_pkcs1_pub := "type.googleapis.com/google.crypto.tink.RsaSsaPkcs1PublicKey".
Definition url_rsa_pss_pub := "type.googleapis.com/google.crypto.tink.RsaSsaPssPublicKey".
Definition url_chacha := "type.googleapis.com/google.crypto.tink.ChaCha20Poly1305Key".
Definition url_xchacha := "type.googleapis.com/google.crypto.tink.XChaCha20Poly1305Key".
Definition url_xaes_gcm := "type.googleapis.com/google.crypto.tink.XAesGcmKey".
Definition url_ed25519_pub := "type.googleapis.com/google.crypto.tink.Ed25519PublicKey".
Definition url_ed25519_priv := "type.googleapis.com/google.crypto.tink.Ed25519PrivateKey".
Definition url_rsa_pkcs1_priv := "type.googleapis.com/google.crypto.tink.RsaSsaPkcs1PrivateKey".
Definition url_rsa_pss_priv := "type.googleapis.com/google.crypto.tink.RsaSsaPssPrivateKey".
Definition url_ecies_pub := "type.googleapis.com/google.crypto.tink.EciesAeadHkdfPublicKey".
Definition url_ecies_priv := "type.googleapis.com/google.crypto.tink.EciesAeadHkdfPrivateKey".
Definition url_hpke_pub := "type.googleapis.com/google.crypto.tink.HpkePublicKey".
Definition url_hpke_priv := "type.googleapis.com/google.crypto.tink.HpkePrivateKey".
Definition url_stream_gcm_hkdf := "type.googleapis.com/google.crypto.tink.AesGcmHkdfStreamingKey".
Definition url_stream_ctr_hmac := "type.googleapis.com/google.crypto.tink.AesCtrHmacStreamingKey".
Definition url_jwt_hmac := "type.googleapis.com/google.crypto.tink.JwtHmacKey".
Definition url_jwt_ecdsa_pub := "type.googleapis.com/google.crypto.tink.JwtEcdsaPublicKey".
Definition url_jwt_ecdsa_priv := "type.googleapis.com/google.crypto.tink.JwtEcdsaPrivateKey".
Definition url_jwt_rsa_pkcs1_pub := "type.googleapis.com/google.crypto.tink.JwtRsaSsaPkcs1PublicKey".
Definition url_jwt_rsa_pss_pub := "type.googleapis.com/google.crypto.tink.JwtRsaSsaPssPublicKey".
Definition url_jwt_rsa_pkcs1_priv := "type.googleapis.com/google.crypto.tink.JwtRsaSsaPkcs1PrivateKey".
Definition url_jwt_rsa_pss_priv := "type.googleapis.com/google.crypto.tink.JwtRsaSsaPssPrivateKey".
Definition url_jwt_mldsa_pub := "type.googleapis.com/google.crypto.tink.JwtMlDsaPublicKey".
Definition url_mldsa_pub := "type.googleapis.com/google.crypto.tink.MlDsaPublicKey".
Definition url_slhdsa_pub := "type.googleapis.com/google.crypto.tink.SlhDsaPublicKey".
Definition url_slhdsa_priv := "type.googleapis.com/google.crypto.tink.SlhDsaPrivateKey".
Definition url_mldsa_priv := "type.googleapis.com/google.crypto.tink.MlDsaPrivateKey".
Definition url_jwt_mldsa_priv := "type.googleapis.com/google.crypto.tink.JwtMlDsaPrivateKey".
Definition url_composite_pub := "type.googleapis.com/google.crypto.tink.CompositeMlDsaPublicKey".
Definition url_composite_priv := "type.googleapis.com/google.crypto.tink.CompositeMlDsaPrivateKey".

(* ---- composite ML-DSA: proto/composite_ml_dsa.proto CompositeMlDsaClassicalAlgorithm;
   internal/signature/compositemldsa/util.go ParametersForClassicalAlgorithm ---- *)
Definition calg_ed25519 : N := 1.
Definition calg_ecdsa_p256 : N := 2.
Definition calg_ecdsa_p384 : N := 3.
Definition calg_ecdsa_p521 : N := 4.
Definition calg_rsa3072_pss : N := 5.
Definition calg_rsa4096_pss : N := 6.
Definition calg_rsa3072_pkcs1 : N := 7.
Definition calg_rsa4096_pkcs1 : N := 8.
Definition comp_rsa_bits_a : N := 3072.
Definition comp_rsa_bits_b : N := 4096.
Definition comp_pss_salt_a : N := 32.              (* with SHA256 *)
Definition comp_pss_salt_b : N := 48.              (* with SHA384 *)

(* ---- the registered key types outside the 16 that model/Secrets.v (C13) was
   built on: C13 keeps deciding keysets that hold one of them by its direct
   check only, whether or not this model transcribes their parser ---- *)
Definition c13_outside_urls : list string := (
  "type.googleapis.com/google.crypto.tink.AesCtrHmacStreamingKey" ::
  "type.googleapis.com/google.crypto.tink.AesGcmHkdfStreamingKey" ::
  "type.googleapis.com/google.crypto.tink.EciesAeadHkdfPublicKey" ::
  "type.googleapis.com/google.crypto.tink.EciesAeadHkdfPrivateKey" ::
  "type.googleapis.com/google.crypto.tink.HpkePublicKey" ::
  "type.googleapis.com/google.crypto.tink.HpkePrivateKey" ::
  "type.googleapis.com/google.crypto.tink.PrfBasedDeriverKey" ::
  "type.googleapis.com/google.crypto.tink.JwtEcdsaPublicKey" ::
  "type.googleapis.com/google.crypto.tink.JwtEcdsaPrivateKey" ::
  "type.googleapis.com/google.crypto.tink.JwtHmacKey" ::
  "type.googleapis.com/google.crypto.tink.JwtRsaSsaPkcs1PublicKey" ::
  "type.googleapis.com/google.crypto.tink.JwtRsaSsaPkcs1PrivateKey" ::
  "type.googleapis.com/google.crypto.tink.JwtRsaSsaPssPublicKey" ::
  "type.googleapis.com/google.crypto.tink.JwtRsaSsaPssPrivateKey" ::
  "type.googleapis.com/google.crypto.tink.JwtMlDsaPublicKey" ::
  "type.googleapis.com/google.crypto.tink.JwtMlDsaPrivateKey" ::
  "type.googleapis.com/google.crypto.tink.RsaSsaPkcs1PrivateKey" ::
  "type.googleapis.com/google.crypto.tink.RsaSsaPssPrivateKey" ::
  "type.googleapis.com/google.crypto.tink.Ed25519PublicKey" ::
  "type.googleapis.com/google.crypto.tink.Ed25519PrivateKey" ::
  "type.googleapis.com/google.crypto.tink.MlDsaPublicKey" ::
  "type.googleapis.com/google.crypto.tink.MlDsaPrivateKey" ::
  "type.googleapis.com/google.crypto.tink.SlhDsaPublicKey" ::
  "type.googleapis.com/google.crypto.tink.SlhDsaPrivateKey" ::
  "type.googleapis.com/google.crypto.tink.CompositeMlDsaPublicKey" ::
  "type.googleapis.com/google.crypto.tink.CompositeMlDsaPrivateKey" :: nil)%list.

(* ---- the one type URL with a registered key parser (RegisterKeyParser) that
   model/Untrusted.v does not transcribe (its parse_key answers it with the
   fallback key): the PRF-based deriver key, which nests a key TEMPLATE that
   goes through protoserialization.ParseParameters, i.e. the parameters parsers
   of every key type.  It IS transcribed, with all 29 parameters parsers, in
   model/UntrustedParams.v (parse_deriver, parse_params), which C14 runs; this
   list is kept because model/Secrets.v (C13) is stated over model/Untrusted.v
   and decides keysets containing the type by its direct check only.  (The
   composite ML-DSA keys, which nest key data, are transcribed.  ML-DSA and JWT
   ML-DSA private keys are transcribed: the public key of a seed is asked of the
   stdlib record, field mldsa_pub, answered at run time by the library's own
   ML-DSA key generation - the Go standard library has none - which is trusted
   for that one function; C10 is the property about it.) ---- *)
Definition unmodelled_urls : list string := (
  "type.googleapis.com/google.crypto.tink.PrfBasedDeriverKey" :: nil)%list.
