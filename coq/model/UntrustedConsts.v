(* C14 — every numeric limit, enum value and type URL the acceptance model
   (model/Untrusted.v) uses, as named definitions in ONE place.  Nothing else
   lives here: the lead's translator regenerates this file from the Go source
   (the anchor of each constant is given beside it), so that a source edit
   that weakens a minimum changes the definition and breaks the strength
   lemmas of proofs/UntrustedProofs.v. *)
From Coq Require Import NArith String.
Local Open Scope N_scope.
Local Open Scope string_scope.

(* ---- proto/tink.proto enums ---- *)
Definition st_enabled : N := 1.          (* KeyStatusType_ENABLED *)
Definition st_disabled : N := 2.         (* KeyStatusType_DISABLED *)
Definition st_destroyed : N := 3.        (* KeyStatusType_DESTROYED *)
Definition pt_tink : N := 1.             (* OutputPrefixType_TINK *)
Definition pt_legacy : N := 2.           (* OutputPrefixType_LEGACY *)
Definition pt_raw : N := 3.              (* OutputPrefixType_RAW *)
Definition pt_crunchy : N := 4.          (* OutputPrefixType_CRUNCHY *)
Definition km_unknown : N := 0.          (* KeyData_UNKNOWN_KEYMATERIAL *)
Definition km_symmetric : N := 1.        (* KeyData_SYMMETRIC *)
Definition km_private : N := 2.          (* KeyData_ASYMMETRIC_PRIVATE *)
Definition km_public : N := 3.           (* KeyData_ASYMMETRIC_PUBLIC *)
Definition km_remote : N := 4.           (* KeyData_REMOTE *)

(* ---- proto/common.proto enums ---- *)
Definition h_sha1 : N := 1.
Definition h_sha384 : N := 2.
Definition h_sha256 : N := 3.
Definition h_sha512 : N := 4.
Definition h_sha224 : N := 5.
Definition c_p256 : N := 2.
Definition c_p384 : N := 3.
Definition c_p521 : N := 4.
Definition enc_ieee : N := 1.            (* EcdsaSignatureEncoding_IEEE_P1363 *)
Definition enc_der : N := 2.             (* EcdsaSignatureEncoding_DER *)

(* ---- protobuf-go wire limits (encoding/protowire) ---- *)
Definition max_field_number : N := 536870911.      (* protowire.MaxValidNumber = 1<<29 - 1 *)
Definition max_int32 : N := 2147483647.            (* DecodeTag: x>>3 > math.MaxInt32 *)
Definition group_depth_limit : N := 10000.         (* protowire.DefaultRecursionLimit *)

(* ---- digest sizes: subtle/subtle.go hashDigestSize, mac/hmac/parameters.go maxTagSizeInBytes ---- *)
Definition dg_sha1 : N := 20.
Definition dg_sha224 : N := 28.
Definition dg_sha256 : N := 32.
Definition dg_sha384 : N := 48.
Definition dg_sha512 : N := 64.

(* ---- HMAC: mac/hmac/parameters.go NewParameters; internal/mac/hmac/hmac.go ---- *)
Definition hmac_min_key_parse : N := 16.           (* opts.KeySizeInBytes < 16 *)
Definition hmac_min_tag_parse : N := 10.           (* opts.TagSizeInBytes < 10 *)
Definition hmac_min_key_prim : N := 16.            (* minKeySizeInBytes *)
Definition hmac_min_tag_prim : N := 10.            (* minTagSizeInBytes *)

(* ---- AES-CMAC: mac/aescmac/parameters.go; mac/subtle/cmac.go ---- *)
Definition cmac_key_a : N := 16.
Definition cmac_key_b : N := 32.
Definition cmac_min_tag : N := 10.
Definition cmac_max_tag : N := 16.
Definition cmac_key_prim : N := 32.                (* recommendedCMACKeySizeInBytes *)

(* ---- AES key sizes ---- *)
Definition aes_k16 : N := 16.
Definition aes_k24 : N := 24.                      (* accepted by aesgcm/aesctrhmac parameters, refused by ValidateAESKeySize *)
Definition aes_k32 : N := 32.

(* ---- AES-CTR-HMAC: aead/aesctrhmac/key_parameters.go validateOpts; internal/aead/aesctr.go ---- *)
Definition ctr_min_iv : N := 12.
Definition ctr_max_iv : N := 16.
Definition ctrhmac_min_hmac_key : N := 16.
Definition ctrhmac_min_tag : N := 10.

(* ---- AES-SIV: daead/aessiv/parameters.go validateParams; daead/subtle/aes_siv.go ---- *)
Definition siv_k32 : N := 32.
Definition siv_k48 : N := 48.
Definition siv_k64 : N := 64.
Definition siv_key_prim : N := 64.                 (* AESSIVKeySize *)

(* ---- ChaCha20-Poly1305 / XChaCha20-Poly1305 / X-AES-GCM: aead/{chacha20poly1305,xchacha20poly1305,xaesgcm}/key.go ---- *)
Definition chacha_key_size : N := 32.
Definition xaes_key_size : N := 32.
Definition xaes_min_salt : N := 8.
Definition xaes_max_salt : N := 12.

(* ---- PRFs: prf/*/parameters.go; prf/subtle/{hkdf,hmac,aes_cmac}.go ---- *)
Definition hkdf_min_key_parse : N := 16.
Definition hkdf_min_key_prim : N := 32.            (* minHKDFKeySizeInBytes *)
Definition hmacprf_min_key_parse : N := 16.
Definition hmacprf_min_key_prim : N := 16.         (* minHMACKeySizeInBytes *)
Definition cmacprf_key_a : N := 16.
Definition cmacprf_key_b : N := 32.
Definition cmacprf_key_prim : N := 32.

(* ---- RSA: signature/rsassa{pkcs1,pss}/key.go; internal/signature/rsa.go ---- *)
Definition rsa_min_bits_parse : N := 2048.
Definition rsa_f4 : N := 65537.
Definition rsa_max_exponent : N := 2147483647.     (* 1<<31 - 1 *)
Definition rsa_min_bits_prim : N := 2048.          (* rsaMinModulusSizeInBits *)
Definition rsa_exponent_prim : N := 65537.         (* rsaDefaultPublicExponent *)

(* ---- ECDSA coordinate sizes: signature/ecdsa/protoserialization.go coordinateSizeForCurve ---- *)
Definition ec_size_p256 : N := 32.
Definition ec_size_p384 : N := 48.
Definition ec_size_p521 : N := 66.

(* ---- type URLs with a model of their parser and primitive constructor ---- *)
Definition url_hmac := "type.googleapis.com/google.crypto.tink.HmacKey".
Definition url_aes_cmac := "type.googleapis.com/google.crypto.tink.AesCmacKey".
Definition url_aes_gcm := "type.googleapis.com/google.crypto.tink.AesGcmKey".
Definition url_aes_gcm_siv := "type.googleapis.com/google.crypto.tink.AesGcmSivKey".
Definition url_aes_ctr_hmac := "type.googleapis.com/google.crypto.tink.AesCtrHmacAeadKey".
Definition url_aes_siv := "type.googleapis.com/google.crypto.tink.AesSivKey".
Definition url_hkdf_prf := "type.googleapis.com/google.crypto.tink.HkdfPrfKey".
Definition url_hmac_prf := "type.googleapis.com/google.crypto.tink.HmacPrfKey".
Definition url_aes_cmac_prf := "type.googleapis.com/google.crypto.tink.AesCmacPrfKey".
Definition url_ecdsa_pub := "type.googleapis.com/google.crypto.tink.EcdsaPublicKey".
Definition url_ecdsa_priv := "type.googleapis.com/google.crypto.tink.EcdsaPrivateKey".
Definition url_rsa_pkcs1_pub := "type.googleapis.com/google.crypto.tink.RsaSsaPkcs1PublicKey".
Definition url_rsa_pss_pub := "type.googleapis.com/google.crypto.tink.RsaSsaPssPublicKey".
Definition url_chacha := "type.googleapis.com/google.crypto.tink.ChaCha20Poly1305Key".
Definition url_xchacha := "type.googleapis.com/google.crypto.tink.XChaCha20Poly1305Key".
Definition url_xaes_gcm := "type.googleapis.com/google.crypto.tink.XAesGcmKey".

(* ---- type URLs that have a registered key parser (RegisterKeyParser) which
   this model does not transcribe; keysets containing them are decided by the
   direct check only ---- *)
Definition unmodelled_urls : list string := (
  "type.googleapis.com/google.crypto.tink.AesCtrHmacStreamingKey" ::
  "type.googleapis.com/google.crypto.tink.AesGcmHkdfStreamingKey" ::
  "type.googleapis.com/google.crypto.tink.EciesAeadHkdfPublicKey" ::
  "type.googleapis.com/google.crypto.tink.EciesAeadHkdfPrivateKey" ::
  "type.googleapis.com/google.crypto.tink.HpkePublicKey" ::
  "type.googleapis.com/google.crypto.tink.HpkePrivateKey" ::
  "type.googleapis.com/google.crypto.tink.PrfBasedDeriverKey" ::
  "type.googleapis.com/google.crypto.tink.JwtEcdsaPublicKey" ::
  "type.googleapis.com/google.crypto.tink.JwtEcdsaPrivateKey" ::
  "type.googleapis.com/google.crypto.tink.JwtHmacKey" ::
  "type.googleapis.com/google.crypto.tink.JwtRsaSsaPkcs1PublicKey" ::
  "type.googleapis.com/google.crypto.tink.JwtRsaSsaPkcs1PrivateKey" ::
  "type.googleapis.com/google.crypto.tink.JwtRsaSsaPssPublicKey" ::
  "type.googleapis.com/google.crypto.tink.JwtRsaSsaPssPrivateKey" ::
  "type.googleapis.com/google.crypto.tink.JwtMlDsaPublicKey" ::
  "type.googleapis.com/google.crypto.tink.JwtMlDsaPrivateKey" ::
  "type.googleapis.com/google.crypto.tink.RsaSsaPkcs1PrivateKey" ::
  "type.googleapis.com/google.crypto.tink.RsaSsaPssPrivateKey" ::
  "type.googleapis.com/google.crypto.tink.Ed25519PublicKey" ::
  "type.googleapis.com/google.crypto.tink.Ed25519PrivateKey" ::
  "type.googleapis.com/google.crypto.tink.MlDsaPublicKey" ::
  "type.googleapis.com/google.crypto.tink.MlDsaPrivateKey" ::
  "type.googleapis.com/google.crypto.tink.SlhDsaPublicKey" ::
  "type.googleapis.com/google.crypto.tink.SlhDsaPrivateKey" ::
  "type.googleapis.com/google.crypto.tink.CompositeMlDsaPublicKey" ::
  "type.googleapis.com/google.crypto.tink.CompositeMlDsaPrivateKey" :: nil)%list.
