(* C19, function-body level: a small structured language for the slice-relevant behaviour of
   a Go function body, over the heap model of model/Heap.v (whose operations - make, sub-slice,
   index assignment, append, copy, slices.Concat, bytes.Clone - are reused unchanged), and the
   ownership analysis that the translator-emitted bodies (gen/AliasBodies.v) are checked with.

   A statement is ABSTRACT: it carries no indices, lengths or byte values.  Its meaning is the
   set of all its concrete instances (every in-range lo/hi, every written byte string, every
   runtime growth policy), so one emitted body stands for every run of the Go function.
   Control flow is structured (sequence, two-way branch, loop with `break`/`continue`, early
   `return`); the semantics chooses branches and iteration counts freely, and an execution may
   stop at the beginning of any statement (a panic or a runtime error), so that the frame
   theorem also covers runs that do not complete.

   Registers: a function has a fixed number of slice registers.  The first ones are its
   parameters (one per parameter that can reach byte memory; the receiver's byte memory is one
   more parameter), the others its locals and temporaries.  A register of struct type stands
   for "any byte slice reachable from that object" (SPhi / SStore choose).  No proofs here. *)
From Coq Require Import List NArith Arith Bool.
From Tink Require Import Heap.
Import ListNotations.

Inductive stmt :=
| SMake (r : nat)                   (* r := make([]byte, n, c) | []byte{..} | []byte(string) | new array: fresh memory *)
| SSub (r v : nat)                  (* r := v[lo:hi] | v[lo:hi:max] *)
| SAlias (r v : nat)                (* r := v  (copy of the slice header) *)
| SPhi (r : nat) (vs : list nat)    (* r := one of vs (object literal with several byte fields; result of a call
                                       that may return any of several of its arguments) *)
| SOpaque (r : nat)                 (* r := some slice the function does not own (a global, a field of somebody
                                       else's object, a view returned by an accessor) *)
| SSet (v : nat)                    (* v[i] = x *)
| SWrite (v : nat)                  (* a callee writes somewhere within v's capacity (copy target, XORKeyStream dst,
                                       PutUint32, io.ReadFull, a library function whose summary says so) *)
| SAppend (r v : nat)               (* r := append(v, xs...)  (also Seal(dst, ..), Sum(b), AppendUint32(b, ..)) *)
| SCopy (d s : nat)                 (* copy(d, s) *)
| SConcat (r : nat) (vs : list nat) (* r := slices.Concat(vs...) *)
| SClone (r v : nat)                (* r := bytes.Clone(v) *)
| SStore (x v : nat)                (* x.f = v : the object x now also reaches v *)
| SStoreObj (x v : nat)             (* x.f = v with v itself an OBJECT register (a different one): as SStore, and v is
                                       dead afterwards - the object is from now on spoken for by x (the analysis kills
                                       v, so nothing can be done through v that x does not see) *)
| SBind (r v : nat)                 (* an object variable of class r is bound to the object in the TEMPORARY v: r may
                                       from now on also denote it; v is dead afterwards (the analysis kills it) *)
| SEscape (v : nat)                 (* v leaves the function: returned, stored in a shared object or handed to a
                                       callee that keeps it *)
| SSkip
| SJump                             (* break / continue: ends the current loop iteration *)
| SReturn
| SSeq (a b : stmt)
| SIf (a b : stmt)
| SLoop (body : stmt)
| SCall (callee : nat) (args : list (list nat)) (eff : stmt).
  (* a call of entry number `callee` of the emitted table; args = the caller's registers handed to each
     parameter register of the callee; eff = what the translator says the call does to the caller's registers.
     It executes as eff; that eff honours the callee's contract is checked on the table (calls_ok). *)

Fixpoint seq (l : list stmt) : stmt :=
  match l with
  | [] => SSkip
  | [s] => s
  | s :: l' => SSeq s (seq l')
  end.

(* state: heap, registers, and the log of escaped slices *)
Definition pstate := (heap * list slice * list slice)%type.

Fixpoint lookup_all (rs : list slice) (vs : list nat) : option (list slice) :=
  match vs with
  | [] => Some []
  | v :: vs' => match nth_error rs v, lookup_all rs vs' with
                | Some s, Some l => Some (s :: l)
                | _, _ => None
                end
  end.

(* one atomic statement; every numeric / byte argument is chosen freely *)
Inductive astep : pstate -> stmt -> pstate -> Prop :=
| A_make h rs lg r n c fill : n <= c ->
    astep (h, rs, lg) (SMake r)
          (heap_write (fst (make h n c)) (arr (snd (make h n c))) 0 fill, set_nth r (snd (make h n c)) rs, lg)
| A_sub h rs lg r v s lo hi t : nth_error rs v = Some s -> sub s lo hi = Some t ->
    astep (h, rs, lg) (SSub r v) (h, set_nth r t rs, lg)
| A_sub3 h rs lg r v s lo hi mx t : nth_error rs v = Some s -> sub3 s lo hi mx = Some t ->
    astep (h, rs, lg) (SSub r v) (h, set_nth r t rs, lg)
| A_alias h rs lg r v s : nth_error rs v = Some s ->
    astep (h, rs, lg) (SAlias r v) (h, set_nth r s rs, lg)
| A_phi h rs lg r vs v s : In v vs -> nth_error rs v = Some s ->
    astep (h, rs, lg) (SPhi r vs) (h, set_nth r s rs, lg)
| A_opaque h rs lg r t :
    astep (h, rs, lg) (SOpaque r) (h, set_nth r t rs, lg)
| A_set h rs lg v s i x h' : nth_error rs v = Some s -> set h s i x = Some h' ->
    astep (h, rs, lg) (SSet v) (h', rs, lg)
| A_write h rs lg v s p bs : nth_error rs v = Some s -> p + length bs <= cap s ->
    astep (h, rs, lg) (SWrite v) (heap_write h (arr s) (off s + p) bs, rs, lg)
| A_append h rs lg r v s xs nc : nth_error rs v = Some s ->
    astep (h, rs, lg) (SAppend r v) (fst (append h s xs nc), set_nth r (snd (append h s xs nc)) rs, lg)
| A_copy h rs lg d s ds ss : nth_error rs d = Some ds -> nth_error rs s = Some ss ->
    astep (h, rs, lg) (SCopy d s) (copy h ds ss, rs, lg)
| A_concat h rs lg r vs ss nc : lookup_all rs vs = Some ss ->
    astep (h, rs, lg) (SConcat r vs) (fst (concat h ss nc), set_nth r (snd (concat h ss nc)) rs, lg)
| A_clone h rs lg r v s nc : nth_error rs v = Some s ->
    astep (h, rs, lg) (SClone r v) (fst (clone h s nc), set_nth r (snd (clone h s nc)) rs, lg)
| A_store_keep h rs lg x v :
    astep (h, rs, lg) (SStore x v) (h, rs, lg)
| A_store_take h rs lg x v s : nth_error rs v = Some s ->
    astep (h, rs, lg) (SStore x v) (h, set_nth x s rs, lg)
| A_storeobj_keep h rs lg x v :
    astep (h, rs, lg) (SStoreObj x v) (h, rs, lg)
| A_storeobj_take h rs lg x v s : nth_error rs v = Some s ->
    astep (h, rs, lg) (SStoreObj x v) (h, set_nth x s rs, lg)
| A_bind_keep h rs lg r v :
    astep (h, rs, lg) (SBind r v) (h, rs, lg)
| A_bind_take h rs lg r v s : nth_error rs v = Some s ->
    astep (h, rs, lg) (SBind r v) (h, set_nth r s rs, lg)
| A_escape h rs lg v s : nth_error rs v = Some s ->
    astep (h, rs, lg) (SEscape v) (h, rs, s :: lg).

Inductive outcome := ONormal | OJump | OReturn.

Inductive exec : pstate -> stmt -> outcome -> pstate -> Prop :=
| E_abort st s : exec st s OReturn st                          (* panic / runtime error before s *)
| E_atom st s st' : astep st s st' -> exec st s ONormal st'
| E_skip st : exec st SSkip ONormal st
| E_jump st : exec st SJump OJump st
| E_return st : exec st SReturn OReturn st
| E_seq st a b st1 o st2 : exec st a ONormal st1 -> exec st1 b o st2 -> exec st (SSeq a b) o st2
| E_seq_stop st a b o st1 : o <> ONormal -> exec st a o st1 -> exec st (SSeq a b) o st1
| E_if_l st a b o st' : exec st a o st' -> exec st (SIf a b) o st'
| E_if_r st a b o st' : exec st b o st' -> exec st (SIf a b) o st'
| E_loop_exit st b : exec st (SLoop b) ONormal st
| E_loop_iter st b o st1 o' st2 : o <> OReturn -> exec st b o st1 -> exec st1 (SLoop b) o' st2 ->
    exec st (SLoop b) o' st2
| E_loop_return st b st1 : exec st b OReturn st1 -> exec st (SLoop b) OReturn st1
| E_call st c args eff o st' : exec st eff o st' -> exec st (SCall c args eff) o st'.

(* ---- the ownership analysis (executable: this is what vm_compute runs on the emitted table) ----
   Three flags per register:
     fw  the function may WRITE through the register: everything it may show is memory allocated in the call
         or memory of a parameter the caller must own in the write sense;
     fk  what it shows may be KEPT / RETURNED: memory allocated in the call or of a parameter the caller
         must own in the keep sense;
     fp  (objects) PRIVATE: the object was built here and has not been handed out.  A store into a private
         object only lowers its flags; a store into any other object lets the stored value escape. *)

Record fl := mkfl { fw : bool; fk : bool; fp : bool }.
Definition ftop := mkfl true true true.
Definition fbot := mkfl false false false.
Definition fand (a b : fl) : fl := mkfl (fw a && fw b) (fk a && fk b) (fp a && fp b).
Definition fle (a b : fl) : bool := implb (fw a) (fw b) && implb (fk a) (fk b) && implb (fp a) (fp b).

Definition andl (a b : list fl) : list fl := map (fun p => fand (fst p) (snd p)) (combine a b).
Definition lel (a b : list fl) : bool := forallb (fun p => fle (fst p) (snd p)) (combine a b).
Definition top (own : list fl) : list fl := map (fun _ => ftop) own.

(* the object in register v is no longer private (it was stored into an object that is not) *)
Definition unpriv (v : nat) (own : list fl) : list fl :=
  set_nth v (mkfl (fw (nth v own fbot)) (fk (nth v own fbot)) false) own.

(* x.f = v: a store into a private object only lowers its flags; a store into any other object lets v escape
   (v must be keepable) and, if v is an object, ends its privacy *)
Definition store_flags (own : list fl) (x v : nat) : option (list fl) :=
  let o u := nth u own fbot in
  if fp (o x) then Some (set_nth x (mkfl (fw (o x) && fw (o v)) (fk (o x) && fk (o v)) true) own)
  else if fk (o v) then
    let own1 := unpriv v own in
    let o1 u := nth u own1 fbot in
    Some (set_nth x (mkfl (fw (o1 x) && fw (o1 v)) (fk (o1 x)) false) own1)
  else None.

(* the fixpoint of a loop: lower the flags at the loop head until one more iteration cannot lower them *)
Fixpoint loop_fix (f : list fl -> option (list fl * list fl)) (fuel : nat) (hd : list fl)
  : option (list fl) :=
  match fuel with
  | O => None
  | S k => match f hd with
           | None => None
           | Some (n, j) => let nx := andl n j in
                            if lel hd nx then Some hd else loop_fix f k (andl hd nx)
           end
  end.

(* own_stmt s own = Some (n, j): s follows the discipline from the flags own; n = flags when s ends
   normally, j = meet of the flags at every break/continue inside s (all true if there is none).
   None = s writes through a register that is not writable, or lets escape one that is not keepable. *)
Fixpoint own_stmt (s : stmt) (own : list fl) : option (list fl * list fl) :=
  let o v := nth v own fbot in
  let ok x := Some (x, top own) in
  match s with
  | SMake r => ok (set_nth r ftop own)
  | SSub r v => ok (set_nth r (o v) own)
  | SAlias r v => ok (set_nth r (o v) own)
  | SPhi r vs => ok (set_nth r (fold_right (fun v a => fand (o v) a) ftop vs) own)
  | SOpaque r => ok (set_nth r fbot own)
  | SSet v => if fw (o v) then ok own else None
  | SWrite v => if fw (o v) then ok own else None
  | SAppend r v => if fw (o v) then ok (set_nth r (mkfl true (fk (o v)) (fp (o v))) own) else None
  | SCopy d _ => if fw (o d) then ok own else None
  | SConcat r _ => ok (set_nth r ftop own)
  | SClone r _ => ok (set_nth r ftop own)
  | SStore x v => match store_flags own x v with Some own' => ok own' | None => None end
  | SStoreObj x v =>
      match store_flags own x v with
      | Some own' => if Nat.eqb x v then ok own' else ok (set_nth v fbot own')
      | None => None
      end
  | SBind r v =>
      if Nat.eqb r v then ok own
      else ok (set_nth v fbot (set_nth r (fand (o r) (o v)) own))
  | SEscape v => if fk (o v) then ok (set_nth v (mkfl (fw (o v)) true false) own) else None
  | SSkip => ok own
  | SJump => Some (top own, own)
  | SReturn => Some (top own, top own)
  | SSeq a b => match own_stmt a own with
                | None => None
                | Some (na, ja) => match own_stmt b na with
                                   | None => None
                                   | Some (nb, jb) => Some (nb, andl ja jb)
                                   end
                end
  | SIf a b => match own_stmt a own, own_stmt b own with
               | Some (na, ja), Some (nb, jb) => Some (andl na nb, andl ja jb)
               | _, _ => None
               end
  | SLoop b => match loop_fix (own_stmt b) (S (length own + length own + length own)) own with
               | Some hd => Some (hd, top own)
               | None => None
               end
  | SCall _ _ eff => own_stmt eff own
  end.

(* initial flags: a parameter register is shared with the caller (never private); the caller's contract says
   whether it may be written / kept; every other register starts as unknown memory *)
Definition init_flags (wf kf : list bool) : list fl :=
  map (fun p => mkfl (fst p) (snd p) false) (combine wf kf).

Definition body_disciplined (wf kf : list bool) (p : stmt) : bool :=
  match own_stmt p (init_flags wf kf) with Some _ => true | None => false end.

(* ---- syntactic side conditions checked on the emitted table ---- *)

Fixpoint mem (n : nat) (l : list nat) : bool :=
  match l with [] => false | x :: l' => Nat.eqb n x || mem n l' end.

(* Object registers.  The translator computes (OUTSIDE Coq, flow-insensitively) the may-alias classes of the
   object variables of a function and uses ONE register per class; what is checked here is that the emitted
   program never copies an object register into another register that is then used as an object: an object
   register is the target only of SMake / SOpaque / SStore (something is stored into the object) / SBind (the
   class also denotes the object of a temporary, which is killed); SSub / SAlias / SPhi / SAppend / SConcat /
   SClone write plain (byte-slice) registers only - they may READ a field out of an object register; and a
   store goes into an object register only. *)
Fixpoint obj_wf (objs : list nat) (s : stmt) : bool :=
  match s with
  | SSub r _ | SAlias r _ | SAppend r _ | SConcat r _ | SClone r _ | SPhi r _ => negb (mem r objs)
  | SStore x v => mem x objs && negb (mem v objs)
  | SStoreObj x v => mem x objs && mem v objs
  | SBind r v => mem r objs && mem v objs
  | SSeq a b | SIf a b => obj_wf objs a && obj_wf objs b
  | SLoop b => obj_wf objs b
  | SCall _ _ eff => obj_wf objs eff
  | _ => true
  end.

(* the register of a may-alias class of local objects is allocated ONCE, by an SMake in the entry prefix of the
   body; nowhere else may it be the target of SMake (which would reset flags that were lowered) *)
Fixpoint makes_none (cls : list nat) (s : stmt) : bool :=
  match s with
  | SMake r => negb (mem r cls)
  | SSeq a b | SIf a b => makes_none cls a && makes_none cls b
  | SLoop b => makes_none cls b
  | SCall _ _ eff => makes_none cls eff
  | _ => true
  end.

Fixpoint after_entry (s : stmt) : stmt :=
  match s with
  | SSeq (SMake _) b => after_entry b
  | SMake _ => SSkip
  | _ => s
  end.

Definition classes_made_once (cls : list nat) (s : stmt) : bool := makes_none cls (after_entry s).

(* can control fall out of the end of s? *)
Fixpoint falls (s : stmt) : bool :=
  match s with
  | SReturn | SJump => false
  | SSeq a b => falls a && falls b
  | SIf a b => falls a || falls b
  | SCall _ _ eff => falls eff
  | _ => true
  end.

(* does the effect contain a write through / an escape of register a? *)
Fixpoint has_write (a : nat) (s : stmt) : bool :=
  match s with
  | SWrite v | SSet v | SAppend _ v | SCopy v _ => Nat.eqb v a
  | SSeq x y => has_write a x || (falls x && has_write a y)
  | SIf x y => has_write a x || has_write a y
  | SLoop b => has_write a b
  | SCall _ _ eff => has_write a eff
  | _ => false
  end.

Fixpoint has_escape (a : nat) (s : stmt) : bool :=
  match s with
  | SEscape v => Nat.eqb v a
  | SSeq x y => has_escape a x || (falls x && has_escape a y)
  | SIf x y => has_escape a x || has_escape a y
  | SLoop b => has_escape a b
  | SCall _ _ eff => has_escape a eff
  | _ => false
  end.

(* one call record against the contract (write flags, keep flags) of its callee: every caller register handed
   to a parameter the callee may write through is written through in the effect, every one handed to a
   parameter the callee may keep escapes in the effect *)
Fixpoint call_ok_args (wf kf : list bool) (args : list (list nat)) (eff : stmt) : bool :=
  match args with
  | [] => true
  | a :: args' =>
      (if hd false wf then forallb (fun r => has_write r eff) a else true) &&
      (if hd false kf then forallb (fun r => has_escape r eff) a else true) &&
      call_ok_args (tl wf) (tl kf) args' eff
  end.

(* every call record names an entry of the table *)
Fixpoint calls_lt (n : nat) (s : stmt) : bool :=
  match s with
  | SCall c _ eff => Nat.ltb c n && calls_lt n eff
  | SSeq a b | SIf a b => calls_lt n a && calls_lt n b
  | SLoop b => calls_lt n b
  | _ => true
  end.

(* all call records of a body, given the contracts of the table.  The check is SYNTACTIC: the effect must
   contain, on a path that is not cut off by a return or jump, a write through / an escape of the register;
   it does not prove that the register still holds the argument there. *)
Fixpoint calls_ok (contract : nat -> list bool * list bool) (s : stmt) : bool :=
  match s with
  | SCall c args eff => call_ok_args (fst (contract c)) (snd (contract c)) args eff && calls_ok contract eff
  | SSeq a b | SIf a b => calls_ok contract a && calls_ok contract b
  | SLoop b => calls_ok contract b
  | _ => true
  end.

(* can the analysis fail on this body at all? *)
Fixpoint can_fail (s : stmt) : bool :=
  match s with
  | SSet _ | SWrite _ | SAppend _ _ | SCopy _ _ | SStore _ _ | SStoreObj _ _ | SEscape _ => true
  | SSeq a b | SIf a b => can_fail a || can_fail b
  | SLoop b | SCall _ _ b => can_fail b
  | _ => false
  end.
