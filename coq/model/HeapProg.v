(* C19, function-body level: a small structured language for the slice-relevant behaviour of
   a Go function body, over the heap model of model/Heap.v (whose operations - make, sub-slice,
   index assignment, append, copy, slices.Concat, bytes.Clone - are reused unchanged), and the
   ownership analysis that the translator-emitted bodies (gen/AliasBodies.v) are checked with.

   A statement is ABSTRACT: it carries no indices, lengths or byte values.  Its meaning is the
   set of all its concrete instances (every in-range lo/hi, every written byte string, every
   runtime growth policy), so one emitted body stands for every run of the Go function.
   Control flow is structured (sequence, two-way branch, loop with `break`/`continue`, early
   `return`); the semantics chooses branches and iteration counts freely, and an execution may
   stop at the beginning of any statement (a panic or a runtime error), so that the frame
   theorem also covers runs that do not complete.

   Registers: a function has a fixed number of slice registers.  The first ones are its
   parameters (one per parameter that can reach byte memory; the receiver's byte memory is one
   more parameter), the others its locals and temporaries.  A register of struct type stands
   for "any byte slice reachable from that object" (SPhi / SStore choose).  No proofs here. *)
From Coq Require Import List NArith Arith Bool.
From Tink Require Import Heap.
Import ListNotations.

Inductive stmt :=
| SMake (r : nat)                   (* r := make([]byte, n, c) | []byte{..} | []byte(string) | new array: fresh memory *)
| SSub (r v : nat)                  (* r := v[lo:hi] | v[lo:hi:max] *)
| SAlias (r v : nat)                (* r := v  (copy of the slice header) *)
| SPhi (r : nat) (vs : list nat)    (* r := one of vs (object literal with several byte fields; result of a call
                                       that may return any of several of its arguments) *)
| SOpaque (r : nat)                 (* r := some slice the function does not own (a global, a field of somebody
                                       else's object, a view returned by an accessor) *)
| SSet (v : nat)                    (* v[i] = x *)
| SWrite (v : nat)                  (* a callee writes somewhere within v's capacity (copy target, XORKeyStream dst,
                                       PutUint32, io.ReadFull, a library function whose summary says so) *)
| SAppend (r v : nat)               (* r := append(v, xs...)  (also Seal(dst, ..), Sum(b), AppendUint32(b, ..)) *)
| SCopy (d s : nat)                 (* copy(d, s) *)
| SConcat (r : nat) (vs : list nat) (* r := slices.Concat(vs...) *)
| SClone (r v : nat)                (* r := bytes.Clone(v) *)
| SStore (x v : nat)                (* x.f = v : the object x now also reaches v *)
| SEscape (v : nat)                 (* v leaves the function: returned, stored in a shared object or handed to a
                                       callee that keeps it *)
| SSkip
| SJump                             (* break / continue: ends the current loop iteration *)
| SReturn
| SSeq (a b : stmt)
| SIf (a b : stmt)
| SLoop (body : stmt).

Fixpoint seq (l : list stmt) : stmt :=
  match l with
  | [] => SSkip
  | [s] => s
  | s :: l' => SSeq s (seq l')
  end.

(* state: heap, registers, and the log of escaped slices *)
Definition pstate := (heap * list slice * list slice)%type.

Fixpoint lookup_all (rs : list slice) (vs : list nat) : option (list slice) :=
  match vs with
  | [] => Some []
  | v :: vs' => match nth_error rs v, lookup_all rs vs' with
                | Some s, Some l => Some (s :: l)
                | _, _ => None
                end
  end.

(* one atomic statement; every numeric / byte argument is chosen freely *)
Inductive astep : pstate -> stmt -> pstate -> Prop :=
| A_make h rs lg r n c fill : n <= c ->
    astep (h, rs, lg) (SMake r)
          (heap_write (fst (make h n c)) (arr (snd (make h n c))) 0 fill, set_nth r (snd (make h n c)) rs, lg)
| A_sub h rs lg r v s lo hi t : nth_error rs v = Some s -> sub s lo hi = Some t ->
    astep (h, rs, lg) (SSub r v) (h, set_nth r t rs, lg)
| A_sub3 h rs lg r v s lo hi mx t : nth_error rs v = Some s -> sub3 s lo hi mx = Some t ->
    astep (h, rs, lg) (SSub r v) (h, set_nth r t rs, lg)
| A_alias h rs lg r v s : nth_error rs v = Some s ->
    astep (h, rs, lg) (SAlias r v) (h, set_nth r s rs, lg)
| A_phi h rs lg r vs v s : In v vs -> nth_error rs v = Some s ->
    astep (h, rs, lg) (SPhi r vs) (h, set_nth r s rs, lg)
| A_opaque h rs lg r t :
    astep (h, rs, lg) (SOpaque r) (h, set_nth r t rs, lg)
| A_set h rs lg v s i x h' : nth_error rs v = Some s -> set h s i x = Some h' ->
    astep (h, rs, lg) (SSet v) (h', rs, lg)
| A_write h rs lg v s p bs : nth_error rs v = Some s -> p + length bs <= cap s ->
    astep (h, rs, lg) (SWrite v) (heap_write h (arr s) (off s + p) bs, rs, lg)
| A_append h rs lg r v s xs nc : nth_error rs v = Some s ->
    astep (h, rs, lg) (SAppend r v) (fst (append h s xs nc), set_nth r (snd (append h s xs nc)) rs, lg)
| A_copy h rs lg d s ds ss : nth_error rs d = Some ds -> nth_error rs s = Some ss ->
    astep (h, rs, lg) (SCopy d s) (copy h ds ss, rs, lg)
| A_concat h rs lg r vs ss nc : lookup_all rs vs = Some ss ->
    astep (h, rs, lg) (SConcat r vs) (fst (concat h ss nc), set_nth r (snd (concat h ss nc)) rs, lg)
| A_clone h rs lg r v s nc : nth_error rs v = Some s ->
    astep (h, rs, lg) (SClone r v) (fst (clone h s nc), set_nth r (snd (clone h s nc)) rs, lg)
| A_store_keep h rs lg x v :
    astep (h, rs, lg) (SStore x v) (h, rs, lg)
| A_store_take h rs lg x v s : nth_error rs v = Some s ->
    astep (h, rs, lg) (SStore x v) (h, set_nth x s rs, lg)
| A_escape h rs lg v s : nth_error rs v = Some s ->
    astep (h, rs, lg) (SEscape v) (h, rs, s :: lg).

Inductive outcome := ONormal | OJump | OReturn.

Inductive exec : pstate -> stmt -> outcome -> pstate -> Prop :=
| E_abort st s : exec st s OReturn st                          (* panic / runtime error before s *)
| E_atom st s st' : astep st s st' -> exec st s ONormal st'
| E_skip st : exec st SSkip ONormal st
| E_jump st : exec st SJump OJump st
| E_return st : exec st SReturn OReturn st
| E_seq st a b st1 o st2 : exec st a ONormal st1 -> exec st1 b o st2 -> exec st (SSeq a b) o st2
| E_seq_stop st a b o st1 : o <> ONormal -> exec st a o st1 -> exec st (SSeq a b) o st1
| E_if_l st a b o st' : exec st a o st' -> exec st (SIf a b) o st'
| E_if_r st a b o st' : exec st b o st' -> exec st (SIf a b) o st'
| E_loop_exit st b : exec st (SLoop b) ONormal st
| E_loop_iter st b o st1 o' st2 : o <> OReturn -> exec st b o st1 -> exec st1 (SLoop b) o' st2 ->
    exec st (SLoop b) o' st2
| E_loop_return st b st1 : exec st b OReturn st1 -> exec st (SLoop b) OReturn st1.

(* ---- the ownership analysis (executable: this is what vm_compute runs on the emitted table) ---- *)

Definition andl (a b : list bool) : list bool := map (fun p => andb (fst p) (snd p)) (combine a b).
Definition lel (a b : list bool) : bool := forallb (fun p => implb (fst p) (snd p)) (combine a b).
Definition top (own : list bool) : list bool := map (fun _ => true) own.

(* the fixpoint of a loop: lower the flags at the loop head until one more iteration cannot lower them *)
Fixpoint loop_fix (f : list bool -> option (list bool * list bool)) (fuel : nat) (hd : list bool)
  : option (list bool) :=
  match fuel with
  | O => None
  | S k => match f hd with
           | None => None
           | Some (n, j) => let nx := andl n j in
                            if lel hd nx then Some hd else loop_fix f k (andl hd nx)
           end
  end.

(* own_stmt s own = Some (n, j): s follows the discipline from the flags own; n = flags when s ends
   normally, j = meet of the flags at every break/continue inside s (all true if there is none).
   None = s writes through, or lets escape, a slice that is not owned. *)
Fixpoint own_stmt (s : stmt) (own : list bool) : option (list bool * list bool) :=
  let o v := nth v own false in
  let ok x := Some (x, top own) in
  match s with
  | SMake r => ok (set_nth r true own)
  | SSub r v => ok (set_nth r (o v) own)
  | SAlias r v => ok (set_nth r (o v) own)
  | SPhi r vs => ok (set_nth r (forallb o vs) own)
  | SOpaque r => ok (set_nth r false own)
  | SSet v => if o v then ok own else None
  | SWrite v => if o v then ok own else None
  | SAppend r v => if o v then ok (set_nth r true own) else None
  | SCopy d _ => if o d then ok own else None
  | SConcat r _ => ok (set_nth r true own)
  | SClone r _ => ok (set_nth r true own)
  | SStore x v => if o x then ok (set_nth x (o v) own) else if o v then ok own else None
  | SEscape v => if o v then ok own else None
  | SSkip => ok own
  | SJump => Some (top own, own)
  | SReturn => Some (top own, top own)
  | SSeq a b => match own_stmt a own with
                | None => None
                | Some (na, ja) => match own_stmt b na with
                                   | None => None
                                   | Some (nb, jb) => Some (nb, andl ja jb)
                                   end
                end
  | SIf a b => match own_stmt a own, own_stmt b own with
               | Some (na, ja), Some (nb, jb) => Some (andl na nb, andl ja jb)
               | _, _ => None
               end
  | SLoop b => match loop_fix (own_stmt b) (S (length own)) own with
               | Some hd => Some (hd, top own)
               | None => None
               end
  end.

Definition body_disciplined (own0 : list bool) (p : stmt) : bool :=
  match own_stmt p own0 with Some _ => true | None => false end.
