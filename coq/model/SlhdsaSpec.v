(* SLH-DSA in the shape of the FIPS 205 algorithm text: every function
   builds the addresses it hashes under explicitly from (layer, tree, key
   pair, ...) instead of threading one mutable address through the calls as
   the Go code (and model/SlhdsaWots.v … SlhdsaHt.v) does.  Theorems in
   proofs/Slhdsa*Proofs.v show the threaded model computes exactly these
   functions; the structural theorems (chain composition, WOTS/XMSS/FORS/
   hypertree completeness, sign-then-verify) are proved on this form. *)
From Coq Require Import List NArith Bool Arith.
From Tink Require Import Bytes SlhdsaSupport SlhdsaAddr SlhdsaBase SlhdsaWots.
Import ListNotations.
Open Scope N_scope.

Section SPEC.
  Variable P : params.
  Variable HS : hashes.
  Let n := p_n P.

  (* i-th n-byte chunk *)
  Definition chunk (i : nat) (s : bytes) : bytes := firstn n (skipn (i * n) s).

  (* Algorithm 5: chain(X, i, s, PK.seed, ADRS) with ADRS = WOTS_HASH(l, t, kp, c) *)
  Fixpoint chainS (l t kp c : N) (pk x : bytes) (i : N) (s : nat) : bytes :=
    match s with
    | O => x
    | S s' => chainS l t kp c pk (hF HS pk (mkA l t T_WOTSHASH kp c i) x) (i + 1) s'
    end.

  Definition wotsSkS (l t kp : N) (sk pk : bytes) (i : nat) : bytes :=
    hPrf HS pk sk (mkA l t T_WOTSPRF kp (N.of_nat i) 0).

  (* Algorithm 6 *)
  Definition wotsPkGenS (l t kp : N) (sk pk : bytes) : bytes :=
    hTl HS pk (mkA l t T_WOTSPK kp 0 0)
      (flat_map (fun i => chainS l t kp (N.of_nat i) pk (wotsSkS l t kp sk pk i) 0 (p_w P - 1)) (seq 0 (p_len P))).

  (* Algorithm 7 (msgw = the len base-w digits incl. checksum) *)
  Definition wotsSignS (l t kp : N) (msgw : list N) (sk pk : bytes) : bytes :=
    flat_map (fun i => chainS l t kp (N.of_nat i) pk (wotsSkS l t kp sk pk i) 0 (N.to_nat (nth i msgw 0)))
             (seq 0 (p_len P)).

  (* Algorithm 8 *)
  Definition wotsPkFromSigS (l t kp : N) (msgw : list N) (sig pk : bytes) : bytes :=
    hTl HS pk (mkA l t T_WOTSPK kp 0 0)
      (flat_map (fun i => let mi := nth i msgw 0 in
                          chainS l t kp (N.of_nat i) pk (chunk i sig) mi (N.to_nat (N.of_nat (p_w P) - 1 - mi)))
                (seq 0 (p_len P))).

  (* Algorithm 9 *)
  Fixpoint xmssNodeS (l t : N) (sk pk : bytes) (z : nat) (i : N) : bytes :=
    match z with
    | O => wotsPkGenS l t i sk pk
    | S z' => hH HS pk (mkA l t T_TREE 0 (N.of_nat z) i)
                 (xmssNodeS l t sk pk z' (2 * i) ++ xmssNodeS l t sk pk z' (2 * i + 1))
    end.

  (* the root computation shared by Algorithms 11 and 17: climb cnt levels
     from height k; the node at height k+1 has index tidx >> (k+1); the side
     is decided by bit k of idx *)
  Fixpoint climbS (mkad : N -> N -> address) (cnt k : nat) (tidx idx : N) (auth pk node : bytes) : bytes :=
    match cnt with
    | O => node
    | S c =>
      let ad := mkad (N.of_nat k + 1) (N.shiftr tidx (N.of_nat k + 1)) in
      let node' := if N.eqb (N.land (N.shiftr idx (N.of_nat k)) 1) 0
                   then hH HS pk ad (node ++ chunk k auth)
                   else hH HS pk ad (chunk k auth ++ node) in
      climbS mkad c (S k) tidx idx auth pk node'
    end.

  (* Algorithm 10 *)
  Definition xmssSignS (l t : N) (msg sk : bytes) (idx : N) (pk : bytes) : bytes :=
    wotsSignS l t idx (wotsChecksum P msg) sk pk
    ++ flat_map (fun j => xmssNodeS l t sk pk j (N.lxor (N.shiftr idx (N.of_nat j)) 1)) (seq 0 (p_hp P)).

  (* Algorithm 11 *)
  Definition xmssPkFromSigS (l t : N) (idx : N) (sig msg pk : bytes) : bytes :=
    climbS (fun h i => mkA l t T_TREE 0 h i) (p_hp P) 0 idx idx (skipn (p_len P * n) sig) pk
      (wotsPkFromSigS l t idx (wotsChecksum P msg) (firstn (p_len P * n) sig) pk).

  (* Algorithm 14 *)
  Definition forsSkS (l t kp : N) (sk pk : bytes) (idx : N) : bytes :=
    hPrf HS pk sk (mkA l t T_FORSPRF kp 0 idx).

  (* Algorithm 15 *)
  Fixpoint forsNodeS (l t kp : N) (sk pk : bytes) (z : nat) (i : N) : bytes :=
    match z with
    | O => hF HS pk (mkA l t T_FORSTREE kp 0 i) (forsSkS l t kp sk pk i)
    | S z' => hH HS pk (mkA l t T_FORSTREE kp (N.of_nat z) i)
                 (forsNodeS l t kp sk pk z' (2 * i) ++ forsNodeS l t kp sk pk z' (2 * i + 1))
    end.

  Definition forsLeafIdx (i : nat) (ind : N) : N := N.shiftl (N.of_nat i) (N.of_nat (p_a P)) + ind.

  (* Algorithm 16 (indices = base_2^a digits of md) *)
  Definition forsSignS (l t kp : N) (indices : list N) (sk pk : bytes) : bytes :=
    flat_map (fun i =>
      let ind := nth i indices 0 in
      forsSkS l t kp sk pk (forsLeafIdx i ind)
      ++ flat_map (fun j => forsNodeS l t kp sk pk j
                     (N.shiftl (N.of_nat i) (N.of_nat (p_a P - j)) + N.lxor (N.shiftr ind (N.of_nat j)) 1))
                  (seq 0 (p_a P)))
      (seq 0 (p_k P)).

  (* Algorithm 17 *)
  Definition forsPkFromSigS (l t kp : N) (indices : list N) (sig pk : bytes) : bytes :=
    hTl HS pk (mkA l t T_FORSROOTS kp 0 0)
      (flat_map (fun i =>
         let ind := nth i indices 0 in
         let a := p_a P in
         let skv := firstn n (skipn (i * (a + 1) * n) sig) in
         let auth := firstn ((i + 1) * (a + 1) * n - (i * (a + 1) + 1) * n) (skipn ((i * (a + 1) + 1) * n) sig) in
         climbS (fun h x => mkA l t T_FORSTREE kp h x) a 0 (forsLeafIdx i ind) ind auth pk
                (hF HS pk (mkA l t T_FORSTREE kp 0 (forsLeafIdx i ind)) skv))
         (seq 0 (p_k P))).

  (* the FORS public key: Tl over the k tree roots (node i at height a) *)
  Definition forsPkS (l t kp : N) (sk pk : bytes) : bytes :=
    hTl HS pk (mkA l t T_FORSROOTS kp 0 0)
      (flat_map (fun i => forsNodeS l t kp sk pk (p_a P) (N.of_nat i)) (seq 0 (p_k P))).

  (* Algorithm 12: layers j = 1 .. d-1 *)
  Definition htLeaf (idxTree : N) : N := u32 (N.land idxTree (N.ones (N.of_nat (p_hp P)))).
  Definition htUp (idxTree : N) : N := N.shiftr idxTree (N.of_nat (p_hp P)).

  Fixpoint htSignS_loop (cnt j : nat) (sk pk : bytes) (idxTree : N) (root : bytes) : bytes :=
    match cnt with
    | O => []
    | S c =>
      let sigTmp := xmssSignS (N.of_nat j) (htUp idxTree) root sk (htLeaf idxTree) pk in
      sigTmp ++ htSignS_loop c (S j) sk pk (htUp idxTree)
                  (xmssPkFromSigS (N.of_nat j) (htUp idxTree) (htLeaf idxTree) sigTmp root pk)
    end.

  Definition htSignS (msg sk pk : bytes) (idxTree idxLeaf : N) : bytes :=
    let s0 := xmssSignS 0 idxTree msg sk idxLeaf pk in
    s0 ++ htSignS_loop (p_d P - 1) 1 sk pk idxTree (xmssPkFromSigS 0 idxTree idxLeaf s0 msg pk).

  (* Algorithm 13 *)
  Definition xmssSigSize : nat := ((p_hp P + p_len P) * n)%nat.

  Fixpoint htVerifyS_loop (cnt j : nat) (sigHT pk : bytes) (idxTree : N) (node : bytes) : bytes :=
    match cnt with
    | O => node
    | S c =>
      let sigTmp := firstn xmssSigSize (skipn (j * xmssSigSize) sigHT) in
      htVerifyS_loop c (S j) sigHT pk (htUp idxTree)
        (xmssPkFromSigS (N.of_nat j) (htUp idxTree) (htLeaf idxTree) sigTmp node pk)
    end.

  Definition htVerifyS (msg sigHT pk : bytes) (idxTree idxLeaf : N) (pkRoot : bytes) : bool :=
    beq (htVerifyS_loop (p_d P - 1) 1 sigHT pk idxTree
           (xmssPkFromSigS 0 idxTree idxLeaf (firstn xmssSigSize sigHT) msg pk)) pkRoot.

  (* the public root: top tree (layer d-1, tree 0), node 0 at height hp *)
  Definition pkRootS (sk pk : bytes) : bytes := xmssNodeS (N.of_nat (p_d P - 1)) 0 sk pk (p_hp P) 0.
End SPEC.
