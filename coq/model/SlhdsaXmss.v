(* Model of internal/signature/slhdsa/xmss.go (address threaded as in Go). *)
From Coq Require Import List NArith Bool Arith.
From Tink Require Import Bytes SlhdsaSupport SlhdsaAddr SlhdsaBase SlhdsaWots.
Import ListNotations.
Open Scope N_scope.

Section XMSS.
  Variable P : params.
  Variable HS : hashes.

  (* recursion on the height z; i<<1 is 2*i (no uint32 overflow: i < 2^(hp-z)) *)
  Fixpoint xmssNode (z : nat) (skSeed : bytes) (i : N) (pk : bytes) (ad : address) : bytes * address :=
    match z with
    | O => wotsPkGen P HS skSeed pk (setKeyPairAddress i (setTypeAndClear T_WOTSHASH ad))
    | S z' =>
      let '(lnode, ad1) := xmssNode z' skSeed (2 * i) pk ad in
      let '(rnode, ad2) := xmssNode z' skSeed (2 * i + 1) pk ad1 in
      let ad3 := setTreeIndex i (setTreeHeight (N.of_nat z) (setTypeAndClear T_TREE ad2)) in
      (hH HS pk ad3 (lnode ++ rnode), ad3)
    end.

  (* for j := range hp { k := (idx >> j) ^ 1; auth = append(auth, xmssNode(k, j)...) } *)
  Fixpoint xmssAuth_loop (cnt : nat) (j : nat) (skSeed : bytes) (idx : N) (pk : bytes) (ad : address)
    (auth : bytes) : bytes * address :=
    match cnt with
    | O => (auth, ad)
    | S c =>
      let k := N.lxor (N.shiftr idx (N.of_nat j)) 1 in
      let '(v, ad1) := xmssNode j skSeed k pk ad in
      xmssAuth_loop c (S j) skSeed idx pk ad1 (auth ++ v)
    end.

  Definition xmssSign (msg skSeed : bytes) (idx : N) (pk : bytes) (ad : address) : bytes * address :=
    let '(auth, ad1) := xmssAuth_loop (p_hp P) 0 skSeed idx pk ad [] in
    let ad2 := setKeyPairAddress idx (setTypeAndClear T_WOTSHASH ad1) in
    let '(sig, ad3) := wotsSign P HS msg skSeed pk ad2 in
    (sig ++ auth, ad3).

  (* the climb: setTreeHeight(k+1); setTreeIndex(treeIndex()>>1); H on (node,auth_k) ordered by bit k of idx *)
  Fixpoint xmssClimb_loop (cnt : nat) (k : nat) (idx : N) (auth pk : bytes) (ad : address) (node : bytes)
    : bytes * address :=
    match cnt with
    | O => (node, ad)
    | S c =>
      let ad1 := setTreeHeight (N.of_nat k + 1) ad in
      let ad2 := setTreeIndex (N.shiftr (treeIndex ad1) 1) ad1 in
      let authK := firstn (p_n P) (skipn (k * p_n P) auth) in
      let node' := if N.eqb (N.land (N.shiftr idx (N.of_nat k)) 1) 0
                   then hH HS pk ad2 (node ++ authK)
                   else hH HS pk ad2 (authK ++ node) in
      xmssClimb_loop c (S k) idx auth pk ad2 node'
    end.

  Definition xmssPkFromSig (idx : N) (sigXmss msg pk : bytes) (ad : address) : bytes * address :=
    let ad1 := setKeyPairAddress idx (setTypeAndClear T_WOTSHASH ad) in
    let sig := firstn (p_len P * p_n P) sigXmss in
    let auth := skipn (p_len P * p_n P) sigXmss in
    let '(node, ad2) := wotsPkFromSig P HS sig msg pk ad1 in
    let ad3 := setTreeIndex idx (setTypeAndClear T_TREE ad2) in
    xmssClimb_loop (p_hp P) 0 idx auth pk ad3 node.
End XMSS.
