(* Executable model of hybrid/internal/xwing/xwing.go (X-Wing KEM:
   ML-KEM-768 + X25519 combined with SHA3-256), written after the Go control
   flow.  SHAKE-256, SHA3-256, ML-KEM-768 and X25519 are Section variables
   (stdlib oracles).  No proofs here: proofs/HpkeProofs.v. *)
From Coq Require Import List NArith Bool Arith.
From Tink Require Import Bytes.
Import ListNotations.
Open Scope N_scope.

(* xWingLabel = `\.//^\`  *)
Definition xwing_label : bytes := [92; 46; 47; 47; 94; 92].
Definition xw_secret_key_size : nat := 32.
Definition xw_public_key_size : nat := 1216.
Definition xw_ciphertext_size : nat := 1120.
Definition mlkem768_ek_size : nat := 1184.   (* mlkem.EncapsulationKeySize768 *)
Definition mlkem768_ct_size : nat := 1088.   (* mlkem.CiphertextSize768 *)

Section XWING.
  Variable shake256 : bytes -> nat -> bytes.
  Variable sha3_256 : bytes -> bytes.
  (* ML-KEM-768: decapsulation from the 64-byte seed; encapsulation with
     explicit coins; public (encapsulation) key of a seed *)
  Variable m_decap : bytes -> bytes -> option bytes.
  Variable m_encap : bytes -> bytes -> option (bytes * bytes).   (* pk coins -> (ss, ct) *)
  Variable m_pub : bytes -> option bytes.
  (* X25519: scalar multiplication (None: bad length or all-zero output), public key *)
  Variable x_dh : bytes -> bytes -> option bytes.
  Variable x_pub : bytes -> option bytes.

  (* combiner: SHA3-256(ssM || ssX || ctX || pkX || label) *)
  Definition xw_combiner (ssM ssX ctX pkX : bytes) : bytes :=
    sha3_256 (ssM ++ ssX ++ ctX ++ pkX ++ xwing_label).

  (* expandDecapsulationKey: SHAKE-256(sk) read as 64 bytes then 32 bytes *)
  Definition xw_expand (sk : bytes) : outcome (bytes * bytes) :=
    if negb (Nat.eqb (length sk) xw_secret_key_size) then Err else
    let e := shake256 sk 96 in
    Ok (firstn 64 e, firstn 32 (skipn 64 e)).

  (* Encapsulate with explicit randomness: eph = ekX (32 bytes) || ML-KEM coins *)
  Definition xw_encap (pk eph : bytes) : outcome (bytes * bytes) :=
    if negb (Nat.eqb (length pk) xw_public_key_size) then Err else
    bind (slice 0 mlkem768_ek_size pk) (fun pkM =>
    bind (slice mlkem768_ek_size (length pk) pk) (fun pkX =>
    let ekX := firstn 32 eph in
    let coins := skipn 32 eph in
    match x_pub ekX with None => Err | Some ctX =>
    match x_dh ekX pkX with None => Err | Some ssX =>
    match m_encap pkM coins with None => Err | Some (ssM, ctM) =>
      Ok (xw_combiner ssM ssX ctX pkX, ctM ++ ctX)
    end end end)).

  Definition xw_decap (ct sk : bytes) : outcome bytes :=
    if negb (Nat.eqb (length ct) xw_ciphertext_size) then Err else
    bind (xw_expand sk) (fun '(seedM, skX) =>
    bind (slice 0 mlkem768_ct_size ct) (fun ctM =>
    bind (slice mlkem768_ct_size (length ct) ct) (fun ctX =>
    match m_decap seedM ctM with None => Err | Some ssM =>
    match x_dh skX ctX with None => Err | Some ssX =>
    match x_pub skX with None => Err | Some pkX =>
      Ok (xw_combiner ssM ssX ctX pkX)
    end end end))).

  (* PublicFromSecret *)
  Definition xw_public (sk : bytes) : outcome bytes :=
    bind (xw_expand sk) (fun '(seedM, skX) =>
    match m_pub seedM with None => Err | Some pkM =>
    match x_pub skX with None => Err | Some pkX => Ok (pkM ++ pkX) end end).
End XWING.
