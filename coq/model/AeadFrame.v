(* C01/C02 — output prefixes and the framing  prefix || iv || Seal(...)  of the
   AEAD key types that delegate to a standard AEAD (AES-GCM, ChaCha20-Poly1305,
   XChaCha20-Poly1305), written after
     internal/outputprefix/outputprefix.go
     aead/aesgcm/aead.go, aead/chacha20poly1305/aead.go,
     aead/xchacha20poly1305/aead.go, aead/subtle/{aes_gcm,chacha20poly1305,xchacha20poly1305}.go
   The standard AEAD (cipher.AEAD Seal/Open) is a pair of Section variables
   (stdlib oracle).  Every Go slice expression is a checked [slice]; the
   panics of the stdlib Seal/Open on over-long inputs are part of the model
   (seal_max / open_max), because whether Tink panics depends on them.
   No proofs here: proofs/AeadFrameProofs.v. *)
From Coq Require Import List NArith Bool Arith.
From Tink Require Import Bytes.
Import ListNotations.
Open Scope N_scope.

(* ---- output prefixes (internal/outputprefix, key.OutputPrefix of each AEAD key type) ---- *)
Inductive variant := VTink | VCrunchy | VLegacy | VRaw.

(* calculatePrefixBytes: start byte || be32(id).  For AEAD keys the proto
   prefix type LEGACY is mapped to the CRUNCHY variant (protoserialization.go). *)
Definition output_prefix (v : variant) (id : N) : bytes :=
  match v with
  | VTink => 1 :: be_bytes 4 id
  | VCrunchy | VLegacy => 0 :: be_bytes 4 id
  | VRaw => []
  end.

Definition lenN (b : bytes) : N := N.of_nat (length b).

(* math.MaxInt / math.MaxInt32 on the 64-bit platforms the check runs on *)
Definition MaxInt : N := 9223372036854775807.
Definition MaxInt32 : N := 2147483647.

(* bytes.HasPrefix(s, p) = len(s) >= len(p) && bytes.Equal(s[:len(p)], p) *)
Definition has_prefix (s p : bytes) : bool :=
  Nat.leb (length p) (length s) && beq (firstn (length p) s) p.

Definition of_open (o : option bytes) : outcome bytes :=
  match o with Some p => Ok p | None => Err end.

Section NonceAead.
  (* cipher.AEAD of the standard algorithm: key nonce ad plaintext / ciphertext *)
  Variable seal : bytes -> bytes -> bytes -> bytes -> bytes.
  Variable open_ : bytes -> bytes -> bytes -> bytes -> option bytes.
  Variables (ivlen taglen : nat).
  (* stdlib Seal panics when len(plaintext) > seal_max; stdlib Open panics
     (x/crypto chacha20poly1305) when len(ciphertext) > open_max *)
  Variable seal_max : N.
  Variable open_max : option N.
  (* Tink's own bound on len(ciphertext||tag), checked right before Open and
     answered with an error (internalaead.CheckChaCha20Poly1305CiphertextSize);
     None = no such check (AES-GCM: crypto/cipher's Open returns an error itself) *)
  Variable ct_max : option N.

  Definition seal_o (key iv ad p : bytes) : outcome bytes :=
    if seal_max <? lenN p then Panic else Ok (seal key iv ad p).

  Definition open_o (key iv ad c : bytes) : outcome bytes :=
    if Nat.ltb (length c) taglen then Err
    else match open_max with
         | Some m => if m <? lenN c then Panic else of_open (open_ key iv ad c)
         | None => of_open (open_ key iv ad c)
         end.

  Definition open_t (key iv ad c : bytes) : outcome bytes :=
    match ct_max with
    | Some m => if m <? lenN c then Err else open_o key iv ad c
    | None => open_o key iv ad c
    end.

  (* Encrypt with the IV the tape supplies:
       if len(plaintext) > <tink bound> { return error }
       dst := make(prefix+iv); copy(dst, prefix); MustRand(iv); Seal(dst, iv, p, ad) *)
  Definition na_enc (tink_max : N) (prefix key iv p ad : bytes) : outcome bytes :=
    if tink_max <? lenN p then Err
    else bind (seal_o key iv ad p) (fun s => Ok (prefix ++ iv ++ s)).

  (* make([]byte, 0, n) with n < 0 panics *)
  Definition make_cap (have need : nat) : outcome unit :=
    if Nat.ltb have need then Panic else Ok tt.

  (* aesgcm.fullAEAD.Decrypt: length check, prefix slice + Equal, slices, Open *)
  Definition na_dec_lenfirst (prefix key c ad : bytes) : outcome bytes :=
    let pl := length prefix in
    if Nat.ltb (length c) (pl + ivlen + taglen) then Err
    else bind (slice 0 pl c) (fun pre =>
      if negb (beq pre prefix) then Err
      else bind (slice pl (pl + ivlen) c) (fun iv =>
           bind (slice (pl + ivlen) (length c) c) (fun cwt =>
           bind (make_cap (length cwt) taglen) (fun _ =>
           open_t key iv ad cwt)))).

  (* chacha20poly1305.fullAEAD.Decrypt: HasPrefix, slice, length check, slices, Open *)
  Definition na_dec_prefixfirst (prefix key c ad : bytes) : outcome bytes :=
    let pl := length prefix in
    if negb (has_prefix c prefix) then Err
    else bind (slice pl (length c) c) (fun cnp =>
      if Nat.ltb (length cnp) (ivlen + taglen) then Err
      else bind (slice 0 ivlen cnp) (fun nonce =>
           bind (slice ivlen (length cnp) cnp) (fun cat =>
           open_t key nonce ad cat))).

  (* xchacha20poly1305.aead.Decrypt: length check (min, then max = MaxInt), HasPrefix, slices, Open *)
  Definition na_dec_lenprefix (prefix key c ad : bytes) : outcome bytes :=
    let pl := length prefix in
    if Nat.ltb (length c) (pl + ivlen + taglen) then Err
    else if MaxInt <? lenN c then Err
    else if negb (has_prefix c prefix) then Err
    else bind (slice pl (length c) c) (fun cnp =>
         bind (slice 0 ivlen cnp) (fun nonce =>
         bind (slice ivlen (length cnp) cnp) (fun cat =>
         open_t key nonce ad cat))).

  (* the three bodies compute this function (proved) *)
  Definition na_dec_canon (prefix key c ad : bytes) : outcome bytes :=
    let pl := length prefix in
    if Nat.leb (pl + ivlen + taglen) (length c) && beq (firstn pl c) prefix then
      open_t key (firstn ivlen (skipn pl c)) ad (skipn (pl + ivlen) c)
    else Err.
End NonceAead.

(* ---- instantiation constants ---- *)
(* crypto/cipher GCM: Seal panics above (2^32-2)*16 bytes; Open returns an error *)
Definition gcm_seal_max : N := (2 ^ 32 - 2) * 16.
(* internal/aead.CheckAESGCMPlaintextSize: min(MaxInt-12-16, 2^36-31) *)
Definition gcm_tink_max : N := N.min (MaxInt - 12 - 16) (2 ^ 36 - 31).
(* x/crypto chacha20poly1305: Seal panics above 2^38-64, Open above 2^38-48 *)
Definition chacha_seal_max : N := 2 ^ 38 - 64.
Definition chacha_open_max : N := 2 ^ 38 - 48.
(* internal/aead/chacha20poly1305.go: CheckChaCha20Poly1305SealSize / ...CiphertextSize *)
Definition chacha_tink_seal_max : N := 2 ^ 38 - 64.
Definition chacha_tink_ct_max : N := 2 ^ 38 - 48.
(* Encrypt makes two successive checks, each returning an error:
   len(p) > MaxInt - len(prefix) - NonceSize - Overhead  (xchacha / subtle: without the prefix),
   then CheckChaCha20Poly1305SealSize; together: len(p) > min of the two bounds *)
Definition chacha_tink_max (prefix : bytes) : N := N.min (MaxInt - lenN prefix - 12 - 16) chacha_tink_seal_max.
Definition chacha_subtle_tink_max : N := N.min (MaxInt - 12 - 16) chacha_tink_seal_max.
Definition xchacha_tink_max : N := N.min (MaxInt - 24 - 16) chacha_tink_seal_max.

Section Instances.
  Variable gcm_seal : bytes -> bytes -> bytes -> bytes -> bytes.
  Variable gcm_open : bytes -> bytes -> bytes -> bytes -> option bytes.
  Variable cc_seal : bytes -> bytes -> bytes -> bytes -> bytes.
  Variable cc_open : bytes -> bytes -> bytes -> bytes -> option bytes.
  Variable xcc_seal : bytes -> bytes -> bytes -> bytes -> bytes.
  Variable xcc_open : bytes -> bytes -> bytes -> bytes -> option bytes.

  (* aead/aesgcm (and aead/subtle.AESGCM = the same object with an empty prefix) *)
  Definition aesgcm_enc := na_enc gcm_seal gcm_seal_max gcm_tink_max.
  Definition aesgcm_dec := na_dec_lenfirst gcm_open 12 16 None None.

  (* aead/chacha20poly1305 *)
  Definition chacha_enc (prefix : bytes) := na_enc cc_seal chacha_seal_max (chacha_tink_max prefix) prefix.
  Definition chacha_dec := na_dec_prefixfirst cc_open 12 16 (Some chacha_open_max) (Some chacha_tink_ct_max).
  (* aead/subtle.ChaCha20Poly1305: length check then slices (no prefix) *)
  Definition chacha_subtle_enc := na_enc cc_seal chacha_seal_max chacha_subtle_tink_max [].
  Definition chacha_subtle_dec := na_dec_lenfirst cc_open 12 16 (Some chacha_open_max) (Some chacha_tink_ct_max) [].

  (* aead/xchacha20poly1305 and aead/subtle.XChaCha20Poly1305 *)
  Definition xchacha_enc := na_enc xcc_seal chacha_seal_max xchacha_tink_max.
  Definition xchacha_dec := na_dec_lenprefix xcc_open 24 16 (Some chacha_open_max) (Some chacha_tink_ct_max).
  Definition xchacha_subtle_dec := na_dec_lenfirst xcc_open 24 16 (Some chacha_open_max) (Some chacha_tink_ct_max) [].
End Instances.

(* Length-only prediction for ciphertexts too long to materialise: Some Err /
   Some Panic when the outcome of the nonce-based Decrypt bodies is determined by
   the lengths and the prefix test alone, None when it depends on the content
   (proved in AeadFrameProofs.na_dec_len_only_spec) *)
Definition na_dec_len_only (open_max ct_max : option N) (pl ivlen taglen : nat) (clen : N) (prefix_ok : bool)
  : option (outcome unit) :=
  if negb prefix_ok || (clen <? N.of_nat (pl + ivlen + taglen)) then Some Err
  else
    let rest := clen - N.of_nat pl - N.of_nat ivlen in
    match ct_max with
    | Some m => if m <? rest then Some Err
                else match open_max with Some m' => if m' <? rest then Some Panic else None | None => None end
    | None => match open_max with Some m' => if m' <? rest then Some Panic else None | None => None end
    end.
