(* Declarative reading of property C09: the rules a compact token, a key and a
   validator must satisfy, written as propositions directly from the property
   text.  proofs/JwtProofs.v shows that the executable model (model/Jwt.v)
   decides exactly this conjunction.  No proofs here. *)
From Coq Require Import List NArith ZArith Bool.
From Tink Require Import Bytes Base64url Jwt.
Import ListNotations.
Open Scope N_scope.

Definition nodot (s : bytes) : Prop := ~ In dot s.

(* the header names exactly the key's algorithm, has no crit, and satisfies
   the key's kid rule: key-ID-derived kid required and equal; custom kid equal
   when present; ignored otherwise *)
Definition header_rule (k : jkey) (hdr : fields) : Prop :=
  lookup s_alg hdr = Some (JStr (kalg k))
  /\ lookup s_crit hdr = None
  /\ match kkid k with
     | KTink id => lookup s_kid hdr = Some (JStr (tink_kid id))
     | KCustom c => lookup s_kid hdr = None \/ lookup s_kid hdr = Some (JStr c)
     | KIgnored => True
     end.

(* typ: absent, or a string (which becomes the token's type header) *)
Definition typ_rule (hdr : fields) (typ : option bytes) : Prop :=
  match typ with
  | None => lookup s_typ hdr = None
  | Some t => lookup s_typ hdr = Some (JStr t)
  end.

Definition is_utf8_string (j : json) : Prop := exists s, j = JStr s /\ utf8_valid s = true.

(* registered claims have their types; times are within [0, 253402300799] *)
Definition payload_rule (pl : fields) : Prop :=
  (forall k v, In (k, v) pl -> In k [s_iss; s_sub; s_jti] -> is_utf8_string v)
  /\ (forall k v, In (k, v) pl -> In k [s_exp; s_nbf; s_iat] ->
        exists t r, v = JNum t r /\ (0 <= t <= ts_max)%Z)
  /\ (forall a, lookup s_aud pl = Some a ->
        is_utf8_string a \/ exists l, a = JArr l /\ l <> [] /\ forall e, In e l -> is_utf8_string e).

(* NewValidator: what it refuses, and the validator it builds *)
Definition options_rule (o v : vopts) : Prop :=
  let aud := match o_auds o with Some a => Some a | None => o_aud o end in
  ~ (o_auds o <> None /\ o_aud o <> None)
  /\ ~ (o_typ o <> None /\ o_ign_typ o = true)
  /\ ~ (o_iss o <> None /\ o_ign_iss o = true)
  /\ ~ (aud <> None /\ o_ign_aud o = true)
  /\ (o_skew o <= max_skew_ns)%Z
  /\ v = mkV (o_typ o) (o_iss o) aud (o_ign_typ o) (o_ign_aud o) (o_ign_iss o)
             (o_allow_noexp o) (o_iat_past o) (o_skew o) (o_now o) None.

(* expected / ignore / present: ignored, or (nothing expected and absent), or
   (expected, present and matching) *)
Definition presence_rule (ignore : bool) (expected : option bytes) (present : Prop)
           (matches : bytes -> Prop) : Prop :=
  ignore = true
  \/ (ignore = false /\ match expected with
                        | None => ~ present
                        | Some e => present /\ matches e
                        end).

(* the validator's typ, iss, aud, exp, nbf, iat and clock-skew rules (times in ns) *)
Definition validator_rule (v : vopts) (typ : option bytes) (pl : fields) : Prop :=
  (lookup s_exp pl = None -> o_allow_noexp v = true)
  /\ (forall t r, lookup s_exp pl = Some (JNum t r) -> (ns t > o_now v - o_skew v)%Z)
  /\ (forall t r, lookup s_nbf pl = Some (JNum t r) -> (ns t <= o_now v + o_skew v)%Z)
  /\ (o_iat_past v = true ->
        exists t r, lookup s_iat pl = Some (JNum t r) /\ (ns t <= o_now v + o_skew v)%Z)
  /\ presence_rule (o_ign_typ v) (o_typ v) (typ <> None) (fun e => typ = Some e)
  /\ presence_rule (o_ign_aud v) (o_aud v) (lookup s_aud pl <> None)
       (fun e => lookup s_aud pl = Some (JStr e)
                 \/ exists l, lookup s_aud pl = Some (JArr l) /\ In (JStr e) l)
  /\ presence_rule (o_ign_iss v) (o_iss v) (lookup s_iss pl <> None)
       (fun e => lookup s_iss pl = Some (JStr e)).

Section Spec.
  Variable sig_valid : N -> bytes -> bytes -> bool.
  Variable json_parse : bytes -> option fields.

  (* The property: tok = h.p.s (three dot-free parts), s decodes to a non-empty
     signature that is valid for "h.p" under an ENABLED key whose header rule
     holds, h and p decode to JSON objects, and the typ / payload / validator
     rules hold.  The verified token is (typ header, decoded payload). *)
  Definition accepts (keys : list jkey) (o : vopts) (tok : bytes) (r : rawjwt) : Prop :=
    exists v, options_rule o v /\
    exists h p s sg hb pb hdr,
      tok = h ++ dot :: p ++ dot :: s
      /\ nodot h /\ nodot p /\ nodot s
      /\ b64_decode s = Some sg /\ sg <> []
      /\ b64_decode h = Some hb /\ json_parse hb = Some hdr
      /\ b64_decode p = Some pb /\ json_parse pb = Some (r_payload r)
      /\ (exists k, In k keys /\ kenabled k = true
                    /\ sig_valid (kref k) sg (h ++ dot :: p) = true /\ header_rule k hdr)
      /\ typ_rule hdr (r_typ r)
      /\ payload_rule (r_payload r)
      /\ validator_rule v (r_typ r) (r_payload r).
End Spec.
