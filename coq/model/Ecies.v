(* Executable model of Tink's ECIES-AEAD-HKDF: hybrid/subtle/{elliptic_curves,
   ecies_hkdf_sender_kem,ecies_hkdf_recipient_kem,ecies_aead_hkdf_hybrid_encrypt,
   ecies_aead_hkdf_hybrid_decrypt}.go, hybrid/internal/ecies/dem_helper.go,
   hybrid/ecies/{hybrid_encrypt,hybrid_decrypt}.go, subtle.ComputeHKDF, and the
   framing of the DEM primitives (aead/aesgcm, aead/aesctrhmac, daead/aessiv,
   NO_PREFIX keys), written after the Go control flow.  Points handed between
   functions are in uncompressed SEC1 form 04||X||Y (fixed width), which is how
   the coordinates of the Go big.Int pairs are projected.  Every Go slice
   expression is a checked [slice]; error returns are Err.  Group operations,
   HKDF, AES-GCM, AES-CTR, HMAC and AES-SIV are Section variables (stdlib oracles).
   No proofs here: proofs/EciesProofs.v. *)
From Coq Require Import List NArith Bool Arith.
From Tink Require Import Bytes Hpke.
Import ListNotations.
Open Scope N_scope.

(* ecies.CurveType; X25519 is accepted by ecies.NewParameters but subtle.GetCurve
   rejects it, so no primitive exists for it *)
Inductive curve := NIST_P256 | NIST_P384 | NIST_P521 | CURVE_X25519.
Inductive pformat := COMPRESSED | UNCOMPRESSED | LEGACY_UNCOMPRESSED | UNSPECIFIED_FORMAT.
(* the allowed DEM parameters (ecies/parameters.go); XChaCha20-Poly1305 is allowed
   there but unknown to NewDEMHelper *)
Inductive dem := AES128_GCM | AES256_GCM | AES256_SIV | XCHACHA20_POLY1305
               | AES128_CTR_HMAC_SHA256 | AES256_CTR_HMAC_SHA256.

(* fieldSizeInBytes *)
Definition field_size (c : curve) : nat :=
  match c with NIST_P256 => 32 | NIST_P384 => 48 | NIST_P521 => 66 | CURVE_X25519 => 32 end%nat.

(* encodingSizeInBytes *)
Definition encoding_size (c : curve) (f : pformat) : outcome nat :=
  match f with
  | UNCOMPRESSED => Ok (2 * field_size c + 1)%nat
  | LEGACY_UNCOMPRESSED => Ok (2 * field_size c)%nat
  | COMPRESSED => Ok (field_size c + 1)%nat
  | UNSPECIFIED_FORMAT => Err
  end.

(* DEMHelper.GetSymmetricKeySize *)
Definition dem_key_size (d : dem) : nat :=
  match d with
  | AES128_GCM => 16 | AES256_GCM => 32 | AES256_SIV => 64 | XCHACHA20_POLY1305 => 32
  | AES128_CTR_HMAC_SHA256 => 48 | AES256_CTR_HMAC_SHA256 => 64
  end%nat.
Definition dem_aes_key_size (d : dem) : nat :=
  match d with AES128_CTR_HMAC_SHA256 => 16 | _ => 32 end%nat.
Definition dem_tag_size (d : dem) : nat :=
  match d with AES256_CTR_HMAC_SHA256 => 32 | _ => 16 end%nat.
(* bytes of randomness the DEM draws (its IV) *)
Definition dem_iv_size (d : dem) : nat :=
  match d with
  | AES128_GCM | AES256_GCM => 12 | AES256_SIV => 0 | XCHACHA20_POLY1305 => 24
  | AES128_CTR_HMAC_SHA256 | AES256_CTR_HMAC_SHA256 => 16
  end%nat.

(* NewHybridEncrypt / NewHybridDecrypt succeed exactly for these *)
Definition primitive_supported (c : curve) (f : pformat) (d : dem) : bool :=
  match c with CURVE_X25519 => false | _ =>
  match f with UNSPECIFIED_FORMAT => false | _ =>
  match d with XCHACHA20_POLY1305 => false | _ => true end end end.

Definition coord_x (c : curve) (P : bytes) : bytes := firstn (field_size c) (skipn 1 P).
Definition coord_y (c : curve) (P : bytes) : bytes := firstn (field_size c) (skipn (1 + field_size c) P).

Section ECIES.
  (* crypto/elliptic + math/big on the curve *)
  Variable ec_dh : curve -> bytes -> bytes -> option bytes.        (* sk, point 04||X||Y -> x coordinate *)
  Variable ec_pub : curve -> bytes -> option bytes.                (* sk -> 04||X||Y *)
  Variable ec_oncurve : curve -> bytes -> bytes -> bool.           (* X, Y (fixed width) *)
  Variable ec_decompress : curve -> bytes -> option bytes.         (* 02/03||X -> 04||X||Y, None: x >= p or no root *)
  (* x/crypto hkdf.New(hash, ikm, salt, info) read for n bytes *)
  Variable hkdf : hash -> bytes -> bytes -> bytes -> nat -> bytes.
  (* DEM primitives *)
  Variable gcm_seal : bytes -> bytes -> bytes -> bytes -> bytes.           (* key iv ad pt *)
  Variable gcm_open : bytes -> bytes -> bytes -> bytes -> option bytes.    (* key iv ad ct *)
  Variable aes_ctr : bytes -> bytes -> bytes -> bytes.                     (* key iv16 data *)
  Variable hmac_sha256 : bytes -> bytes -> bytes.                          (* key msg *)
  Variable siv_seal : bytes -> bytes -> bytes -> bytes.                    (* key ad pt *)
  Variable siv_open : bytes -> bytes -> bytes -> option bytes.             (* key ad ct *)

  (* ---- elliptic_curves.go ---- *)
  (* PointEncode (the point is given as 04||X||Y) *)
  Definition point_encode (c : curve) (f : pformat) (P : bytes) : outcome bytes :=
    let x := coord_x c P in
    let y := coord_y c P in
    if negb (ec_oncurve c x y) then Err else
    match f with
    | UNCOMPRESSED => Ok (4 :: x ++ y)
    | LEGACY_UNCOMPRESSED => Ok (x ++ y)
    | COMPRESSED => Ok ((if N.odd (last y 0) then 3 else 2) :: x)
    | UNSPECIFIED_FORMAT => Err
    end.

  (* PointDecode: the decoded point, as 04||X||Y *)
  Definition point_decode (c : curve) (f : pformat) (e : bytes) : outcome bytes :=
    let cs := field_size c in
    match f with
    | UNCOMPRESSED =>
        if negb (Nat.eqb (length e) (2 * cs + 1)) then Err else
        if negb (N.eqb (hd 0 e) 4) then Err else
        bind (slice 1 (cs + 1) e) (fun x =>
        bind (slice (cs + 1) (length e) e) (fun y =>
        if ec_oncurve c x y then Ok (4 :: x ++ y) else Err))
    | LEGACY_UNCOMPRESSED =>
        if negb (Nat.eqb (length e) (2 * cs)) then Err else
        bind (slice 0 cs e) (fun x =>
        bind (slice cs (length e) e) (fun y =>
        if ec_oncurve c x y then Ok (4 :: x ++ y) else Err))
    | COMPRESSED =>
        if negb (Nat.eqb (length e) (cs + 1)) then Err else
        if negb (N.eqb (hd 0 e) 2 || N.eqb (hd 0 e) 3) then Err else
        match ec_decompress c e with Some P => Ok P | None => Err end
    | UNSPECIFIED_FORMAT => Err
    end.

  (* ComputeSharedSecret *)
  Definition compute_shared_secret (c : curve) (P sk : bytes) : outcome bytes :=
    if negb (ec_oncurve c (coord_x c P) (coord_y c P)) then Err else
    match ec_dh c sk P with Some s => Ok s | None => Err end.

  (* subtle.ComputeHKDF *)
  Definition compute_hkdf (h : hash) (ikm salt info : bytes) (n : nat) : outcome bytes :=
    if Nat.ltb (255 * hash_len h) n then Err else
    if Nat.ltb n 10 then Err else
    Ok (hkdf h ikm (if Nat.eqb (length salt) 0 then zeros (hash_len h) else salt) info n).

  (* ---- ecies_hkdf_sender_kem.go / ecies_hkdf_recipient_kem.go ---- *)
  (* encapsulate with the ephemeral scalar made explicit: (kem bytes, symmetric key) *)
  Definition ecies_encapsulate (c : curve) (h : hash) (f : pformat) (salt info : bytes) (n : nat)
      (pkR eph : bytes) : outcome (bytes * bytes) :=
    match ec_pub c eph with None => Err | Some ephP =>
    bind (compute_shared_secret c pkR eph) (fun secret =>
    bind (point_encode c f ephP) (fun sdata =>
    bind (compute_hkdf h (sdata ++ secret) salt info n) (fun key =>
    Ok (sdata, key)))) end.

  Definition ecies_decapsulate (c : curve) (h : hash) (f : pformat) (salt info : bytes) (n : nat)
      (skR kem : bytes) : outcome bytes :=
    bind (point_decode c f kem) (fun P =>
    bind (compute_shared_secret c P skR) (fun secret =>
    compute_hkdf h (kem ++ secret) salt info n)).

  (* ---- DEM: dem_helper.go + the NO_PREFIX primitives, associated data = [] ---- *)
  Definition aad_size_in_bits (ad : bytes) : bytes := be_bytes 8 (8 * N.of_nat (length ad)).

  Definition dem_encrypt (d : dem) (key iv pt : bytes) : outcome bytes :=
    if negb (Nat.eqb (length key) (dem_key_size d)) then Err else
    match d with
    | AES128_GCM | AES256_GCM =>
        if N.ltb gcm_max_plaintext (N.of_nat (length pt)) then Err else
        Ok (iv ++ gcm_seal key iv [] pt)
    | AES256_SIV => Ok (siv_seal key [] pt)
    | AES128_CTR_HMAC_SHA256 | AES256_CTR_HMAC_SHA256 =>
        bind (slice 0 (dem_aes_key_size d) key) (fun ka =>
        bind (slice (dem_aes_key_size d) (length key) key) (fun kh =>
        let ct := iv ++ aes_ctr ka iv pt in
        let tag := firstn (dem_tag_size d) (hmac_sha256 kh ([] ++ ct ++ aad_size_in_bits [])) in
        Ok (ct ++ tag)))
    | XCHACHA20_POLY1305 => Err
    end.

  (* the DEM wire format as a total function (no size check): what dem_encrypt
     returns when it succeeds, and exactly what dem_decrypt accepts *)
  Definition dem_frame (d : dem) (key iv pt : bytes) : bytes :=
    match d with
    | AES128_GCM | AES256_GCM => iv ++ gcm_seal key iv [] pt
    | AES256_SIV => siv_seal key [] pt
    | AES128_CTR_HMAC_SHA256 | AES256_CTR_HMAC_SHA256 =>
        let ka := firstn (dem_aes_key_size d) key in
        let kh := skipn (dem_aes_key_size d) key in
        let ct := iv ++ aes_ctr ka iv pt in
        ct ++ firstn (dem_tag_size d) (hmac_sha256 kh ([] ++ ct ++ aad_size_in_bits []))
    | XCHACHA20_POLY1305 => []
    end.

  Definition dem_decrypt (d : dem) (key ct : bytes) : outcome bytes :=
    if negb (Nat.eqb (length key) (dem_key_size d)) then Err else
    match d with
    | AES128_GCM | AES256_GCM =>
        if Nat.ltb (length ct) (12 + 16) then Err else
        bind (slice 0 12 ct) (fun iv =>
        bind (slice 12 (length ct) ct) (fun body =>
        match gcm_open key iv [] body with Some p => Ok p | None => Err end))
    | AES256_SIV =>
        match siv_open key [] ct with Some p => Ok p | None => Err end
    | AES128_CTR_HMAC_SHA256 | AES256_CTR_HMAC_SHA256 =>
        bind (slice 0 (dem_aes_key_size d) key) (fun ka =>
        bind (slice (dem_aes_key_size d) (length key) key) (fun kh =>
        if Nat.ltb (length ct) (16 + dem_tag_size d) then Err else
        bind (slice 0 (length ct - dem_tag_size d) ct) (fun payload =>
        bind (slice (length ct - dem_tag_size d) (length ct) ct) (fun tag =>
        let expected := firstn (dem_tag_size d) (hmac_sha256 kh ([] ++ payload ++ aad_size_in_bits [])) in
        if negb (beq expected tag) then Err else
        if Nat.ltb (length payload) 16 then Err else
        bind (slice 0 16 payload) (fun iv =>
        bind (slice 16 (length payload) payload) (fun body =>
        Ok (aes_ctr ka iv body)))))))
    | XCHACHA20_POLY1305 => Err
    end.

  (* ---- ecies_aead_hkdf_hybrid_encrypt.go / _decrypt.go (raw) ---- *)
  Definition ecies_raw_encrypt (c : curve) (h : hash) (f : pformat) (d : dem) (salt pkR eph iv info pt : bytes)
    : outcome bytes :=
    bind (ecies_encapsulate c h f salt info (dem_key_size d) pkR eph) (fun '(kem, key) =>
    bind (dem_encrypt d key iv pt) (fun ct =>
    Ok (kem ++ ct))).

  Definition ecies_raw_decrypt (c : curve) (h : hash) (f : pformat) (d : dem) (salt skR ct info : bytes)
    : outcome bytes :=
    bind (encoding_size c f) (fun hs =>
    if Nat.ltb (length ct) hs then Err else
    bind (slice 0 hs ct) (fun kem =>
    bind (slice hs (length ct) ct) (fun body =>
    bind (ecies_decapsulate c h f salt info (dem_key_size d) skR kem) (fun key =>
    dem_decrypt d key body)))).

  (* ---- hybrid/ecies/hybrid_encrypt.go, hybrid_decrypt.go (with output prefix) ---- *)
  Definition ecies_encrypt (c : curve) (h : hash) (f : pformat) (d : dem) (salt prefix pkR eph iv info pt : bytes)
    : outcome bytes :=
    if negb (primitive_supported c f d) then Err else
    bind (ecies_raw_encrypt c h f d salt pkR eph iv info pt) (fun raw => Ok (prefix ++ raw)).

  Definition ecies_decrypt (c : curve) (h : hash) (f : pformat) (d : dem) (salt prefix skR ct info : bytes)
    : outcome bytes :=
    if negb (primitive_supported c f d) then Err else
    if Nat.ltb (length ct) (length prefix) then Err else
    bind (slice 0 (length prefix) ct) (fun p =>
    if negb (beq prefix p) then Err else
    bind (slice (length prefix) (length ct) ct) (fun rest =>
    ecies_raw_decrypt c h f d salt skR rest info)).

  (* the ciphertext recomputed by the recipient from the KEM bytes and the DEM IV
     found in ct (correspondence: must equal Tink's ciphertext byte for byte) *)
  Definition ecies_recompute (c : curve) (h : hash) (f : pformat) (d : dem) (salt prefix skR ct info pt : bytes)
    : outcome bytes :=
    bind (encoding_size c f) (fun hs =>
    bind (slice (length prefix) (length prefix + hs) ct) (fun kem =>
    bind (slice (length prefix + hs) (length prefix + hs + dem_iv_size d) ct) (fun iv =>
    bind (ecies_decapsulate c h f salt info (dem_key_size d) skR kem) (fun key =>
    bind (dem_encrypt d key iv pt) (fun body =>
    Ok (prefix ++ kem ++ body)))))).
End ECIES.
