(* Executable model of the tink-go PRF stack, written after the code:
     prf/subtle/hmac.go      NewHMACPRF, ValidateHMACPRFParams, ComputePRF
     prf/subtle/hkdf.go      NewHKDFPRF, ValidateHKDFPRFParams, ComputePRF
     prf/subtle/aes_cmac.go  NewAESCMACPRF, ValidateAESCMACPRFParams, ComputePRF
     prf/{hmacprf,hkdfprf,aescmacprf}/{parameters,key}.go   NewParameters, NewKey, primitiveConstructor
     prf/prf_set.go, prf/prf_set_factory.go                  Set, NewPRFSet
     subtle/hkdf.go          ComputeHKDF
   HMAC / HKDF are the RFC transcriptions of model/Hmac.v, model/Hkdf.v; CMAC
   is the model of the Go loop in model/Cmac.v.  No proofs here: proofs/PrfProofs.v. *)
From Coq Require Import List NArith Bool Arith.
From Tink Require Import Bytes Cmac Hmac Hkdf.
Import ListNotations.
Open Scope N_scope.

(* a PRF primitive: ComputePRF(input, outputLength) *)
Definition prf := bytes -> nat -> outcome bytes.

Inductive prf_kind :=
| KHmac (h : option hash_alg)
| KHkdf (h : option hash_alg) (salt : bytes)
| KCmac.

Inductive prf_status := PEnabled | PDisabled.

Section PRF.
  Variable Hash : hash_alg -> bytes -> bytes.
  Variable AES : bytes -> bytes -> bytes.

  (* prf/subtle/hmac.go ComputePRF: outputLength > mac.Size() -> error; Sum[:outputLength] *)
  Definition hmac_prf (h : hash_alg) (key : bytes) : prf :=
    fun data n =>
      if Nat.ltb (digest_size h) n then Err
      else Ok (firstn n (hmac (Hash h) (block_size h) key data)).

  (* prf/subtle/aes_cmac.go ComputePRF: outputLength > 16 -> error; Compute(data)[:outputLength] *)
  Definition cmac_prf (key : bytes) : prf :=
    fun data n =>
      if Nat.ltb 16 n then Err
      else Ok (firstn n (cmac_impl (AES key) data)).

  (* prf/subtle/hkdf.go ComputePRF: hkdf.New(h, key, salt, data), read outputLength bytes *)
  Definition hkdf_prf (h : hash_alg) (key salt : bytes) : prf :=
    fun data n =>
      match hkdf (Hash h) (block_size h) (digest_size h) salt key data n with
      | Some o => Ok o
      | None => Err
      end.

  (* the subtle constructors: hash given by name (None = unknown name) *)
  Definition subtle_new (k : prf_kind) (key : bytes) : outcome prf :=
    match k with
    | KHmac None => Err
    | KHmac (Some h) => Ok (hmac_prf h key)
    | KHkdf None _ => Err
    | KHkdf (Some h) salt => Ok (hkdf_prf h key salt)
    | KCmac =>
        if negb (Nat.eqb (length key) 32 || Nat.eqb (length key) 24 || Nat.eqb (length key) 16) then Err
        else Ok (cmac_prf key)
    end.

  (* NewParameters + NewKey of the three key types (key size of the parameters = |key|) *)
  Definition prf_key_ok (k : prf_kind) (keysize : nat) : bool :=
    match k with
    | KHmac None | KHkdf None _ => false
    | KHmac (Some _) | KHkdf (Some _) _ => negb (Nat.ltb keysize 16)
    | KCmac => Nat.eqb keysize 16 || Nat.eqb keysize 32
    end.

  (* primitiveConstructor of the three key types: Validate*Params, then the subtle constructor *)
  Definition key_prf (k : prf_kind) (key : bytes) : outcome prf :=
    let valid :=
      match k with
      | KHmac h => negb (Nat.ltb (length key) 16) && match h with Some _ => true | None => false end
      | KHkdf h _ =>
          negb (Nat.ltb (length key) 32)
          && match h with Some SHA256 | Some SHA512 => true | _ => false end
      | KCmac => Nat.eqb (length key) 32
      end in
    if negb valid then Err else subtle_new k key.

  (* prf.NewPRFSet over a keyset: entries (id, status, kind, key) in keyset
     order with the id of the primary.  PRFs = map id -> primitive over the
     enabled entries; a later entry with the same id overwrites (map assignment). *)
  Definition prf_entry := (N * prf_status * prf_kind * bytes)%type.

  Record prfset := mkSet { primary_id : N; prfs : list (N * prf) }.

  Fixpoint set_insert (m : list (N * prf)) (id : N) (p : prf) : list (N * prf) :=
    match m with
    | [] => [(id, p)]
    | (id', p') :: t => if N.eqb id id' then (id, p) :: t else (id', p') :: set_insert t id p
    end.

  Fixpoint set_lookup (m : list (N * prf)) (id : N) : option prf :=
    match m with
    | [] => None
    | (id', p) :: t => if N.eqb id id' then Some p else set_lookup t id
    end.

  Fixpoint build_prfs (es : list prf_entry) (acc : list (N * prf)) : option (list (N * prf)) :=
    match es with
    | [] => Some acc
    | (id, st, k, key) :: rest =>
        match st with
        | PDisabled => build_prfs rest acc
        | PEnabled =>
            match key_prf k key with
            | Ok p => build_prfs rest (set_insert acc id p)
            | _ => None
            end
        end
    end.

  Definition new_prf_set (es : list prf_entry) (primary : N) : option prfset :=
    match es with
    | [] => None                                   (* empty keyset handle *)
    | _ => match build_prfs es [] with
           | Some m => Some (mkSet primary m)
           | None => None
           end
    end.

  (* Set.ComputePrimaryPRF *)
  Definition compute_primary (s : prfset) (input : bytes) (n : nat) : outcome bytes :=
    match set_lookup (prfs s) (primary_id s) with
    | Some p => p input n
    | None => Err
    end.

  (* subtle.ComputeHKDF(hashAlg, key, salt, info, tagSize) *)
  Definition compute_hkdf (h : option hash_alg) (key salt info : bytes) (tag : nat) : outcome bytes :=
    match h with
    | None => Err
    | Some a =>
        if Nat.ltb (255 * digest_size a) tag then Err          (* tag size too big *)
        else if Nat.ltb tag 10 then Err                        (* tag size too small *)
        else
          let salt' := if Nat.eqb (length salt) 0 then zeros (digest_size a) else salt in
          match hkdf (Hash a) (block_size a) (digest_size a) salt' key info tag with
          | Some o => Ok o
          | None => Err
          end
    end.

  (* the standard full-width value a PRF truncates, and its maximum output length *)
  Definition prf_max (k : prf_kind) : nat :=
    match k with
    | KHmac (Some h) => digest_size h
    | KHkdf (Some h) _ => (255 * digest_size h)%nat
    | KCmac => 16%nat
    | _ => 0%nat
    end.

  Definition prf_std (k : prf_kind) (key data : bytes) : bytes :=
    match k with
    | KHmac (Some h) => hmac (Hash h) (block_size h) key data
    | KHkdf (Some h) salt =>
        hkdf_blocks (Hash h) (block_size h)
          (hkdf_extract (Hash h) (block_size h) salt key) data [] 1 255
    | KCmac => cmac_spec (AES key) data
    | _ => []
    end.
End PRF.
