(* HMAC as the Go code computes it (go1.25 crypto/hmac = crypto/internal/fips140/hmac,
   and Tink's wrapper internal/mac/hmac/hmac.go), written after the code and
   kept apart from the RFC 2104 transcription model/Hmac.v.  The two are proved
   equal in proofs/HmacCodeProofs.v.

   Go                                              model
   hash.Hash (h(), Write, Sum(in), Reset,          an abstract state type S with h_init, h_write,
     BlockSize)                                      h_sum (Sum(nil); Sum(in) = in ++ h_sum), B
   hmac.HMAC{opad, ipad, outer, inner, marshaled}  hmac_st
   MarshalBinary / UnmarshalBinary of a hash       saving / restoring a state value (hs_osaved,
     state (the Reset optimisation)                  hs_isaved); `marshalable` = the hash supports it
   hmac.New: blocksize pads, key > blocksize is    hm_new (copy_into, xor_const)
     hashed with outer, copy, xor 0x36 / 0x5c
   Write / Sum / Reset                             hm_write / hm_sum / hm_reset
   internal/mac/hmac.ComputeMAC(data...)           tink_hmac_compute (Write per argument, Sum(nil),
                                                     tag[:tagSize])
   hmac.Equal = subtle.ConstantTimeCompare == 1    ct_compare / ct_byte_eq (the byte loop; only its
                                                     result is modelled, not its timing)
   No proofs here. *)
From Coq Require Import List NArith Bool Arith.
From Tink Require Import Bytes.
Import ListNotations.
Open Scope N_scope.

(* copy(dst, src): the first min(|dst|,|src|) bytes of dst are replaced *)
Definition copy_into (dst src : bytes) : bytes :=
  firstn (length dst) src ++ skipn (length src) dst.

(* for i := range b { b[i] ^= c } *)
Definition xor_const (c : N) (b : bytes) : bytes := map (fun x => N.lxor x c) b.

(* subtle.ConstantTimeByteEq(x, y) = int((uint32(x^y) - 1) >> 31) *)
Definition ct_byte_eq (x y : N) : N := (((N.lxor x y) + 4294967296 - 1) mod 4294967296) / 2147483648.

(* subtle.ConstantTimeCompare: 0 on different lengths; v |= x[i]^y[i]; ConstantTimeByteEq(v, 0) *)
Fixpoint ct_acc (v : N) (x y : bytes) : N :=
  match x, y with
  | a :: x', b :: y' => ct_acc (N.lor v (N.lxor a b)) x' y'
  | _, _ => v
  end.

Definition ct_compare (x y : bytes) : N :=
  if negb (Nat.eqb (length x) (length y)) then 0 else ct_byte_eq (ct_acc 0 x y) 0.

Section HmacCode.
  Variable S : Type.                        (* state of a hash.Hash *)
  Variable h_init : S.                      (* h()  and the state after Reset() *)
  Variable h_write : S -> bytes -> S.       (* Write(p) *)
  Variable h_sum : S -> bytes.              (* Sum(nil); does not change the state *)
  Variable B : nat.                         (* BlockSize() *)
  Variable marshalable : bool.              (* inner and outer implement Marshal/UnmarshalBinary *)

  (* after the first Reset of a marshalable hash the Go fields ipad/opad hold the
     marshaled states instead of the pads; here both are kept (hs_isaved/hs_osaved) *)
  Record hmac_st := mkHm {
    hs_opad : bytes; hs_ipad : bytes; hs_outer : S; hs_inner : S;
    hs_marshaled : bool; hs_osaved : S; hs_isaved : S }.

  (* hmac.New(h, key) *)
  Definition hm_new (key : bytes) : hmac_st :=
    let outer := h_init in
    let inner := h_init in
    let ipad0 := zeros B in
    let opad0 := zeros B in
    let outer_key :=
      if Nat.ltb B (length key)
      then let o := h_write outer key in (o, h_sum o)      (* outer.Write(key); key = outer.Sum(nil) *)
      else (outer, key) in
    let ipad := xor_const 54 (copy_into ipad0 (snd outer_key)) in
    let opad := xor_const 92 (copy_into opad0 (snd outer_key)) in
    mkHm opad ipad (fst outer_key) (h_write inner ipad) false h_init h_init.

  (* Write(p) = inner.Write(p) *)
  Definition hm_write (h : hmac_st) (p : bytes) : hmac_st :=
    mkHm (hs_opad h) (hs_ipad h) (hs_outer h) (h_write (hs_inner h) p)
         (hs_marshaled h) (hs_osaved h) (hs_isaved h).

  (* Sum(in): in = inner.Sum(in); outer restored / reset + opad; outer.Write(in[origLen:]);
     outer.Sum(in[:origLen]) *)
  Definition hm_sum (h : hmac_st) (inp : bytes) : hmac_st * bytes :=
    let orig := length inp in
    let in1 := inp ++ h_sum (hs_inner h) in
    let outer1 := if hs_marshaled h then hs_osaved h else h_write h_init (hs_opad h) in
    let outer2 := h_write outer1 (skipn orig in1) in
    (mkHm (hs_opad h) (hs_ipad h) outer2 (hs_inner h) (hs_marshaled h) (hs_osaved h) (hs_isaved h),
     firstn orig in1 ++ h_sum outer2).

  (* Reset() *)
  Definition hm_reset (h : hmac_st) : hmac_st :=
    if hs_marshaled h then
      mkHm (hs_opad h) (hs_ipad h) (hs_outer h) (hs_isaved h) true (hs_osaved h) (hs_isaved h)
    else
      let inner1 := h_write h_init (hs_ipad h) in
      if marshalable then
        let outer1 := h_write h_init (hs_opad h) in
        mkHm (hs_opad h) (hs_ipad h) outer1 inner1 true outer1 inner1
      else
        mkHm (hs_opad h) (hs_ipad h) (hs_outer h) inner1 false (hs_osaved h) (hs_isaved h).

  (* a client's use of one HMAC object *)
  Inductive hm_op := HWrite (p : bytes) | HSum (inp : bytes) | HReset.

  Fixpoint hm_run (h : hmac_st) (ops : list hm_op) : hmac_st * list bytes :=
    match ops with
    | [] => (h, [])
    | HWrite p :: t => hm_run (hm_write h p) t
    | HSum inp :: t => let '(h1, o) := hm_sum h inp in
                       let '(h2, os) := hm_run h1 t in (h2, o :: os)
    | HReset :: t => hm_run (hm_reset h) t
    end.

  (* one-shot use: New, Write each piece, Sum(nil) *)
  Definition hmac_code (key : bytes) (data : list bytes) : bytes :=
    snd (hm_sum (fold_left hm_write data (hm_new key)) []).

  (* internal/mac/hmac.HMAC.ComputeMAC(data...) : tag[:h.tagSize] *)
  Definition tink_hmac_compute (key : bytes) (tagsize : nat) (data : list bytes) : bytes :=
    firstn tagsize (hmac_code key data).

  (* internal/mac/hmac.HMAC.VerifyMAC(mac, data...) : hmac.Equal(expectedMAC, mac) *)
  Definition tink_hmac_verify (key : bytes) (tagsize : nat) (mac : bytes) (data : list bytes) : bool :=
    N.eqb (ct_compare (tink_hmac_compute key tagsize data) mac) 1.

  (* prf/subtle/hmac.go HMACPRF.ComputePRF(data, outputLength): mac := hmac.New(h, key);
     outputLength > mac.Size() -> error; mac.Write(data); mac.Sum(nil)[:outputLength] *)
  Definition tink_hmac_prf_code (Size : nat) (key data : bytes) (n : nat) : outcome bytes :=
    if Nat.ltb Size n then Err else Ok (firstn n (hmac_code key [data])).
End HmacCode.

(* The instance used for running the model: a hash.Hash over a one-shot hash
   function accumulates what was written. *)
Definition acc_init : bytes := [].
Definition acc_write (s p : bytes) : bytes := s ++ p.
