(* C01/C02 — XAES-256-GCM (https://c2sp.org/XAES-256-GCM), written after
   aead/xaesgcm/aead.go: derivePerMessageKey (two AES-CMAC computations through
   prf/subtle.AESCMACPRF = internal/mac/aescmac, model: Cmac.cmac_impl),
   Encrypt, Decrypt.  aes = AES block encryption, gcm_seal/gcm_open = stdlib
   AES-GCM (oracles).  Every slice expression is checked. *)
From Coq Require Import List NArith Bool Arith.
From Tink Require Import Bytes AeadFrame Cmac.
Import ListNotations.
Open Scope N_scope.

Section XAES.
  Variable aes : bytes -> bytes -> bytes.
  Variable gcm_seal : bytes -> bytes -> bytes -> bytes -> bytes.
  Variable gcm_open : bytes -> bytes -> bytes -> bytes -> option bytes.

  (* AESCMACPRF.ComputePRF(data, 16): cmac.Compute(data)[:16] *)
  Definition compute_prf (key data : bytes) (n : nat) : outcome bytes :=
    if Nat.ltb 16 n then Err else slice 0 n (cmac_impl (aes key) data).

  (* derivationBlock{1,2}Prefix = {0x00, 0x0i, 'X', 0x00}; paddedSalt: [12]byte with copy(salt) *)
  Definition padded_salt (salt : bytes) : bytes := firstn 12 salt ++ zeros (12 - length salt).
  Definition derive_per_message_key (key salt : bytes) : outcome bytes :=
    bind (compute_prf key ([0; 1; 88; 0] ++ padded_salt salt) 16) (fun k1 =>
    bind (compute_prf key ([0; 2; 88; 0] ++ padded_salt salt) 16) (fun k2 =>
    Ok (k1 ++ k2))).

  (* Encrypt: MaxInt - (ivSize + tagSize + saltSize + len(prefix)) bound, then
     prefix || salt || iv || GCM-Seal(perMessageKey, iv, p, ad); saltiv = the bytes drawn *)
  Definition xaes_enc (saltsize : nat) (prefix key saltiv p ad : bytes) : outcome bytes :=
    if MaxInt - (12 + 16 + N.of_nat saltsize + lenN prefix) <? lenN p then Err
    else bind (slice 0 saltsize saltiv) (fun salt =>
         bind (slice saltsize (length saltiv) saltiv) (fun iv =>
         bind (derive_per_message_key key salt) (fun pmk =>
         bind (seal_o gcm_seal gcm_seal_max pmk iv ad p) (fun s =>
         Ok (prefix ++ saltiv ++ s))))).

  Definition xaes_dec (saltsize : nat) (prefix key c ad : bytes) : outcome bytes :=
    let pl := length prefix in
    if Nat.ltb (length c) (pl + saltsize + 12 + 16) then Err
    else bind (slice 0 pl c) (fun pre =>
      if negb (beq pre prefix) then Err
      else bind (slice pl (length c) c) (fun cnp =>
           bind (slice 0 saltsize cnp) (fun salt =>
           bind (slice saltsize (saltsize + 12) cnp) (fun iv =>
           bind (slice (saltsize + 12) (length cnp) cnp) (fun cwt =>
           bind (derive_per_message_key key salt) (fun pmk =>
           bind (make_cap (length cwt) 16) (fun _ =>
           open_o gcm_open 16 None pmk iv ad cwt))))))).
End XAES.
