(* HKDF as the Go code computes it: golang.org/x/crypto/hkdf (v0.53: Extract via
   crypto/hkdf.Extract = crypto/internal/fips140/hkdf.Extract, Expand = the
   stateful hkdfReader) over crypto/hmac as coded (model/HmacCode.v), and
   Tink's callers prf/subtle/hkdf.go (HKDFPRF.ComputePRF), subtle/hkdf.go
   (ComputeHKDF) and keyderivation/internal/streamingprf (Compute + the
   io.ReadFull of a key deriver).  Kept apart from the RFC 5869 transcription
   model/Hkdf.v; the two are proved equal in proofs/HkdfCodeProofs.v.

   Go                                         model
   hkdfReader{expander, size, info, counter,  reader (rd_counter is a BYTE: `255-f.counter+1`
     prev, buf}                                 and `f.counter++` are computed modulo 256)
   Read(p), len(p) = need                     rd_read f need : the new reader and Some bytes,
                                                or the unchanged reader and None ("entropy limit reached")
   for len(p) > 0 { ... }                     rd_fill (fuel = bytes still wanted)
   f.prev = expander.Sum(f.prev[:0]);         values only: the aliasing of prev/buf with one
     f.buf = f.prev; f.buf = f.buf[n:]          backing array is not modelled (the leftover is
                                                copied out before the array is overwritten)
   salt == nil (fips140/hkdf.Extract)         salt : option bytes, None = nil
   io.ReadFull / io.ReadAtLeast(r, buf, len)  read_full: no Read call for an empty buffer, else one
                                                Read (hkdfReader.Read returns all or nothing)
   No proofs here. *)
From Coq Require Import List NArith Bool Arith.
From Tink Require Import Bytes HmacCode.
Import ListNotations.
Open Scope N_scope.

Definition byte_add (a b : N) : N := (a + b) mod 256.
Definition byte_sub (a b : N) : N := (a + 256 - b) mod 256.

Section HkdfCode.
  Variable S : Type.
  Variable h_init : S.
  Variable h_write : S -> bytes -> S.
  Variable h_sum : S -> bytes.
  Variable B : nat.
  Variable marshalable : bool.
  Variable Size : nat.                       (* h().Size() *)

  Notation hm_new := (hm_new S h_init h_write h_sum B).
  Notation hm_write := (hm_write S h_write).
  Notation hm_sum := (hm_sum S h_init h_write h_sum).
  Notation hm_reset := (hm_reset S h_init h_write marshalable).

  (* fips140/hkdf.Extract(h, secret, salt) *)
  Definition extract_code (secret : bytes) (salt : option bytes) : bytes :=
    let salt' := match salt with None => zeros Size | Some s => s end in
    let extractor := hm_new salt' in
    let extractor := hm_write extractor secret in
    snd (hm_sum extractor []).

  Record reader := mkRd {
    rd_exp : hmac_st S; rd_size : nat; rd_info : bytes; rd_counter : N; rd_prev : bytes; rd_buf : bytes }.

  (* hkdf.Expand(hash, prk, info) *)
  Definition expand_code (prk info : bytes) : reader :=
    mkRd (hm_new prk) Size info 1 [] [].

  (* hkdf.New(hash, secret, salt, info) *)
  Definition new_code (secret : bytes) (salt : option bytes) (info : bytes) : reader :=
    expand_code (extract_code secret salt) info.

  (* the loop `for len(p) > 0`; rem = len(p), out = what was copied so far, n = last copy count *)
  Fixpoint rd_fill (fuel : nat) (f : reader) (rem : nat) (out : bytes) (n : nat) : reader * bytes * nat :=
    match fuel with
    | O => (f, out, n)
    | Datatypes.S fuel' =>
        if Nat.eqb rem 0 then (f, out, n) else
        let e0 := if N.ltb 1 (rd_counter f) then hm_reset (rd_exp f) else rd_exp f in
        let e1 := hm_write e0 (rd_prev f) in
        let e2 := hm_write e1 (rd_info f) in
        let e3 := hm_write e2 [rd_counter f] in
        let r := hm_sum e3 (firstn 0 (rd_prev f)) in        (* Sum(f.prev[:0]) *)
        let prev := snd r in
        let counter := byte_add (rd_counter f) 1 in          (* f.counter++ *)
        let buf := prev in                                   (* f.buf = f.prev *)
        let n' := Nat.min rem (length buf) in                (* n = copy(p, f.buf) *)
        rd_fill fuel' (mkRd (fst r) (rd_size f) (rd_info f) counter prev buf)
                (rem - n') (out ++ firstn n' buf) n'
    end.

  Definition rd_read (f : reader) (need : nat) : reader * option bytes :=
    let remains := (length (rd_buf f)
                    + N.to_nat (byte_add (byte_sub 255 (rd_counter f)) 1) * rd_size f)%nat in
    if Nat.ltb remains need then (f, None)
    else
      let n := Nat.min need (length (rd_buf f)) in           (* n := copy(p, f.buf) *)
      let r := rd_fill (need - n) f (need - n) (firstn n (rd_buf f)) n in
      let f1 := fst (fst r) in
      (mkRd (rd_exp f1) (rd_size f1) (rd_info f1) (rd_counter f1) (rd_prev f1)
            (skipn (snd r) (rd_buf f1)),                     (* f.buf = f.buf[n:] *)
       Some (snd (fst r))).

  (* a client reading with buffers of the given sizes, one Read per size *)
  Fixpoint rd_reads (f : reader) (sizes : list nat) : reader * list (option bytes) :=
    match sizes with
    | [] => (f, [])
    | n :: t => let r := rd_read f n in
                let r' := rd_reads (fst r) t in
                (fst r', snd r :: snd r')
    end.

  (* io.ReadFull(r, buf) = io.ReadAtLeast(r, buf, len(buf)) on this reader *)
  Definition read_full (f : reader) (len : nat) : reader * option bytes :=
    if Nat.eqb len 0 then (f, Some []) else rd_read f len.

  (* prf/subtle/hkdf.go HKDFPRF.ComputePRF(data, outputLength) *)
  Definition tink_hkdf_prf_code (key : bytes) (salt : option bytes) (data : bytes) (n : nat) : outcome bytes :=
    let kdf := new_code key salt data in
    match snd (read_full kdf n) with
    | Some o => Ok (firstn n o)                              (* output[:outputLength] *)
    | None => Err
    end.

  (* subtle/hkdf.go ComputeHKDF after the hash name was resolved (digestSize = Size) *)
  Definition tink_compute_hkdf_code (key salt info : bytes) (tag : nat) : outcome bytes :=
    if Nat.ltb (255 * Size) tag then Err                     (* tag size too big *)
    else if Nat.ltb tag 10 then Err                          (* tag size too small *)
    else
      (* if len(salt) == 0 { salt = make([]byte, digestSize) }: never nil afterwards *)
      let salt' := if Nat.eqb (length salt) 0 then zeros Size else salt in
      let kdf := new_code key (Some salt') info in
      match snd (read_full kdf tag) with
      | Some o => if Nat.eqb (length o) tag then Ok o else Err     (* n != len(result) *)
      | None => Err
      end.

  (* keyderivation: streamingprf.Compute(salt) = hkdf.New(h, key, prfsalt, salt), then the key
     deriver's io.ReadFull(reader, keyBytes) *)
  Definition tink_derive_bytes_code (key : bytes) (prfsalt : option bytes) (salt : bytes) (n : nat)
    : option bytes := snd (read_full (new_code key prfsalt salt) n).
End HkdfCode.
