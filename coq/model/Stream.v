(* Executable model of tink-go streaming AEAD (property C07).  No proofs here:
   proofs/StreamProofs.v.

   Go                                                    model
   streamingaead/subtle/noncebased/noncebased.go
     generateSegmentNonce                                gen_nonce
     Writer{plaintext[:plaintextPos], encryptedSegmentCnt,
            closed, w}                                   wst{wbuf, wcnt, wclosed, wsink}
     NewWriter / Writer.Write / Writer.Close             new_writer / wwrite (wloop) / wclose
     Reader{plaintext, plaintextPos,
            ciphertext[:ciphertextPos],
            decryptedSegmentCnt, lastSegmentDecrypted, r} rst{rpt, rpos, rcarry, rcnt, rlast, rsrc}
     NewReader / Reader.Read                             new_reader / read
     SegmentEncrypter / SegmentDecrypter                 Section variables encs / decs
     io.Writer that fails persistently from byte k on    sink / sink_write
     io.ReadFull over an io.Reader (any short reads)     rfull : SRC -> nat -> SRC * bytes * rfk
                                                         (concrete: src / read_full)
   streamingaead/subtle/aes_gcm_hkdf.go, aes_ctr_hmac.go
     NewAESGCMHKDF / NewAESCTRHMAC (validation)          key_valid
     deriveKey(s), segment encrypter/decrypter           derive, seg_enc, seg_dec  (over stdlib oracles)
     NewEncryptingWriter / NewDecryptingReader           new_enc_writer / new_dec_reader
   streamingaead/decrypt_reader.go
     unreader                                            ureader / urfull / unread
     decryptReader.Read                                  dr_read
   streamingaead/streamingaead_factory.go                enabled entries in keyset order, primary encrypts

   Every Go slice expression whose bounds depend on the parameters is a
   checked slice here: an out-of-range one yields WPanic / RPanic.  The Write
   loop has explicit fuel (WFuel = the Go loop would still be running). *)
From Coq Require Import List NArith Bool Arith.
From Tink Require Import Bytes.
Import ListNotations.
Open Scope nat_scope.

(* ------------------------------------------------------------------ *)
(* nonce = prefix || be32(counter) || last-flag || zero padding        *)
(* ------------------------------------------------------------------ *)
Definition max_segments : N := 4294967295%N.   (* math.MaxUint32 *)

Definition nonce_of (size : nat) (prefix : bytes) (cnt : N) (last : bool) : bytes :=
  prefix ++ be_bytes 4 cnt ++ [if last then 1%N else 0%N] ++ zeros (size - length prefix - 5).

Definition gen_nonce (size : nat) (prefix : bytes) (cnt : N) (last : bool) : option bytes :=
  if (max_segments <=? cnt)%N then None            (* ErrTooManySegments *)
  else Some (nonce_of size prefix cnt last).

(* ------------------------------------------------------------------ *)
(* the underlying io.Writer: accepts bytes until sfail bytes in total  *)
(* ------------------------------------------------------------------ *)
Record sink := mkSink { sout : bytes; sfail : option nat }.

Definition sink_write (k : sink) (c : bytes) : sink * bool :=
  match sfail k with
  | None => (mkSink (sout k ++ c) None, true)
  | Some f =>
      if length (sout k) + length c <=? f then (mkSink (sout k ++ c) (Some f), true)
      else (mkSink (sout k ++ firstn (f - length (sout k)) c) (Some f), false)
  end.

(* ------------------------------------------------------------------ *)
(* the underlying io.Reader seen through io.ReadFull                   *)
(* ------------------------------------------------------------------ *)
Inductive rfk := RFok | RFeof | RFuneof | RFfail.   (* nil | io.EOF | io.ErrUnexpectedEOF | other *)

(* remaining data; sfailr = Some k: the reader fails (non-EOF error) once k
   more bytes have been delivered *)
Record src := mkSrc { srem : bytes; sfailr : option nat }.

Definition src_adv (s : src) (n : nat) : src :=
  mkSrc (skipn n (srem s)) (match sfailr s with Some k => Some (k - n) | None => None end).

Definition read_full (s : src) (want : nat) : src * bytes * rfk :=
  let avail := length (srem s) in
  let limit := match sfailr s with Some k => Nat.min k avail | None => avail end in
  if want <=? limit then (src_adv s want, firstn want (srem s), RFok)
  else (src_adv s limit, firstn limit (srem s),
        if match sfailr s with Some k => k <=? avail | None => false end then RFfail
        else if limit =? 0 then RFeof else RFuneof).

Section Machine.
  Variable encs : bytes -> bytes -> bytes.            (* nonce, plaintext segment  -> ciphertext segment *)
  Variable decs : bytes -> bytes -> option bytes.     (* nonce, ciphertext segment -> plaintext segment  *)

  (* ---------------------------- Writer ---------------------------- *)
  Record wparams := mkWP { w_nonce_size : nat; w_prefix : bytes; w_seg : nat; w_off : nat }.
  Record wst := mkW { wbuf : bytes; wcnt : N; wclosed : bool; wsink : sink }.
  Inductive wres := WOk (n : nat) | WErr (n : nat) | WPanic | WFuel.

  Definition new_writer (P : wparams) (k : sink) : option wst :=
    if w_nonce_size P - length (w_prefix P) <? 5 then None    (* ErrNonceSizeTooShort *)
    else Some (mkW [] 0%N false k).

  (* ptLim; None = the slice bound len(plaintext) - offset is negative *)
  Definition wlim (P : wparams) (cnt : N) : option nat :=
    if (cnt =? 0)%N then (if w_off P <=? w_seg P then Some (w_seg P - w_off P) else None)
    else Some (w_seg P).

  Fixpoint wloop (fuel : nat) (P : wparams) (st : wst) (p : bytes) (pos : nat) : wst * wres :=
    match fuel with
    | O => (st, WFuel)
    | S f =>
      match wlim P (wcnt st) with
      | None => (st, WPanic)
      | Some lim =>
        if lim <? length (wbuf st) then (st, WPanic) else
        let n := Nat.min (lim - length (wbuf st)) (length p) in
        let st1 := mkW (wbuf st ++ firstn n p) (wcnt st) (wclosed st) (wsink st) in
        match skipn n p with
        | [] => (st1, WOk (pos + n))
        | p' =>
          match gen_nonce (w_nonce_size P) (w_prefix P) (wcnt st) false with
          | None => (st1, WErr (pos + n))
          | Some nonce =>
            (* w.plaintext[:ptLim]: the buffer is full here *)
            let c := encs nonce (wbuf st1) in
            match sink_write (wsink st) c with
            | (k', false) => (mkW (wbuf st1) (wcnt st) (wclosed st) k', WErr (pos + n))
            | (k', true) => wloop f P (mkW [] (wcnt st + 1)%N (wclosed st) k') p' (pos + n)
            end
          end
        end
      end
    end.

  Definition wwrite (P : wparams) (st : wst) (p : bytes) : wst * wres :=
    if wclosed st then (st, WErr 0) else wloop (length p + 2) P st p 0.

  (* true = nil error *)
  Definition wclose (P : wparams) (st : wst) : wst * bool :=
    if wclosed st then (st, true) else
    match gen_nonce (w_nonce_size P) (w_prefix P) (wcnt st) true with
    | None => (st, false)
    | Some nonce =>
      match sink_write (wsink st) (encs nonce (wbuf st)) with
      | (k', false) => (mkW (wbuf st) (wcnt st) false k', false)
      | (k', true) => (mkW [] (wcnt st + 1)%N true k', true)
      end
    end.

  (* a whole history of Write calls followed by Close *)
  Fixpoint wwrites (P : wparams) (st : wst) (chunks : list bytes) : wst * list wres :=
    match chunks with
    | [] => (st, [])
    | c :: cs => let '(st1, r) := wwrite P st c in
                 let '(st2, rs) := wwrites P st1 cs in (st2, r :: rs)
    end.

  (* ---------------------------- Reader ---------------------------- *)
  Record rparams := mkRP { r_nonce_size : nat; r_prefix : bytes; r_ctseg : nat; r_off : nat }.
  Inductive rres := RData (b : bytes) | REof | RErr | RPanic.

  Section Reader.
    Variable SRC : Type.
    Variable rfull : SRC -> nat -> SRC * bytes * rfk.

    Record rst := mkR { rpt : bytes; rpos : nat; rcarry : bytes; rcnt : N; rlast : bool; rsrc : SRC }.

    Definition new_reader (P : rparams) (s : SRC) : option rst :=
      if r_nonce_size P - length (r_prefix P) <? 5 then None
      else Some (mkR [] 0 [] 0%N false s).

    (* ctLim; None = negative slice bound *)
    Definition rlim (P : rparams) (cnt : N) : option nat :=
      if (cnt =? 0)%N then (if r_off P <=? r_ctseg P + 1 then Some (r_ctseg P + 1 - r_off P) else None)
      else Some (r_ctseg P + 1).

    (* Reader.Read(p) with len(p) = n *)
    Definition read (P : rparams) (st : rst) (n : nat) : rst * rres :=
      if rpos st <? length (rpt st) then
        let k := Nat.min n (length (rpt st) - rpos st) in
        (mkR (rpt st) (rpos st + k) (rcarry st) (rcnt st) (rlast st) (rsrc st),
         RData (firstn k (skipn (rpos st) (rpt st))))
      else if rlast st then (st, REof)
      else
        let st0 := mkR [] 0 (rcarry st) (rcnt st) (rlast st) (rsrc st) in
        match rlim P (rcnt st) with
        | None => (st0, RPanic)
        | Some ctlim =>
          if ctlim <? length (rcarry st) then (st0, RPanic) else
          let '(s', got, k) := rfull (rsrc st) (ctlim - length (rcarry st)) in
          match k with
          | RFfail => (mkR [] 0 (rcarry st) (rcnt st) (rlast st) s', RErr)
          | _ =>
            let last := match k with RFok => false | _ => true end in
            let buf := rcarry st ++ got in
            if negb last && (length buf =? 0) then
              (mkR [] 0 (rcarry st) (rcnt st) (rlast st) s', RErr)    (* ErrCiphertextSegmentTooShort *)
            else
            let segm := if last then buf else removelast buf in
            let st1 := mkR [] 0 (rcarry st) (rcnt st) last s' in
            match gen_nonce (r_nonce_size P) (r_prefix P) (rcnt st) last with
            | None => (st1, RErr)
            | Some nonce =>
              match decs nonce segm with
              | None => (st1, RErr)
              | Some pt =>
                let m := Nat.min n (length pt) in
                (mkR pt m (if last then rcarry st else [List.last buf 0%N])
                     (rcnt st + 1)%N last s',
                 RData (firstn m pt))
              end
            end
          end
        end.

    (* every call of a list of Read sizes, all results *)
    Fixpoint reads (P : rparams) (st : rst) (sizes : list nat) : rst * list rres :=
      match sizes with
      | [] => (st, [])
      | n :: ns => let '(st1, r) := read P st n in
                   let '(st2, rs) := reads P st1 ns in (st2, r :: rs)
      end.

    (* what a caller like io.ReadAll sees: data until the first EOF / error *)
    Inductive fin := Pending | AtEof | Failed | Panicked.
    Fixpoint drive (P : rparams) (sizes : list nat) (st : rst) (acc : bytes) : bytes * fin :=
      match sizes with
      | [] => (acc, Pending)
      | n :: ns =>
        match read P st n with
        | (st', RData b) => drive P ns st' (acc ++ b)
        | (_, REof) => (acc, AtEof)
        | (_, RErr) => (acc, Failed)
        | (_, RPanic) => (acc, Panicked)
        end
      end.
  End Reader.
End Machine.

Arguments mkR {SRC}. Arguments rpt {SRC}. Arguments rpos {SRC}. Arguments rcarry {SRC}.
Arguments rcnt {SRC}. Arguments rlast {SRC}. Arguments rsrc {SRC}.
Arguments new_reader {SRC}. Arguments read decs {SRC}. Arguments reads decs {SRC}.
Arguments drive decs {SRC}.

(* ------------------------------------------------------------------ *)
(* The documented format: header || segment_0 || ... || segment_k      *)
(* ------------------------------------------------------------------ *)
Section Format.
  Variable encs : bytes -> bytes -> bytes.
  Variable nsize : nat.        (* nonce size *)
  Variable prefix : bytes.     (* nonce prefix *)
  Variable seg : nat.          (* plaintext segment size *)
  Variable off : nat.          (* first segment is shorter by off *)

  Definition lim (i : N) : nat := if (i =? 0)%N then seg - off else seg.

  (* split p into plaintext segments: all but the last exactly full, the last
     one non-empty unless p is empty *)
  Fixpoint segs_from (fuel : nat) (i : N) (p : bytes) : list bytes :=
    match fuel with
    | O => [p]
    | S f => if length p <=? lim i then [p]
             else firstn (lim i) p :: segs_from f (i + 1)%N (skipn (lim i) p)
    end.
  Definition segments (p : bytes) : list bytes := segs_from (length p) 0%N p.

  Fixpoint enc_from (i : N) (ss : list bytes) : bytes :=
    match ss with
    | [] => []
    | [s] => encs (nonce_of nsize prefix i true) s
    | s :: rest => encs (nonce_of nsize prefix i false) s ++ enc_from (i + 1)%N rest
    end.

  Definition encode_stream (p : bytes) : bytes := enc_from 0%N (segments p).
End Format.

(* ------------------------------------------------------------------ *)
(* toy segment cipher used by the correspondence run (harness: toyEnc)  *)
(* ------------------------------------------------------------------ *)
Definition toy_kb (nonce : bytes) : N := ((fold_left N.add nonce 7) mod 256)%N.
(* FNV-1a, 32 bit *)
Definition toy_sum (b : bytes) : N :=
  fold_left (fun h x => ((N.lxor h x * 16777619) mod 4294967296)%N) b 2166136261%N.
Definition toy_encs (nonce s : bytes) : bytes :=
  map (fun x => N.lxor x (toy_kb nonce)) s ++ be_bytes 4 (toy_sum (nonce ++ s)).
Definition toy_decs (nonce c : bytes) : option bytes :=
  if length c <? 4 then None else
  let body := firstn (length c - 4) c in
  let tag := skipn (length c - 4) c in
  let s := map (fun x => N.lxor x (toy_kb nonce)) body in
  if beq tag (be_bytes 4 (toy_sum (nonce ++ s))) then Some s else None.

(* ------------------------------------------------------------------ *)
(* AES-GCM-HKDF and AES-CTR-HMAC streaming keys over stdlib oracles     *)
(* ------------------------------------------------------------------ *)
Inductive hash := SHA1 | SHA256 | SHA512.
Definition digest_size (h : hash) : nat := match h with SHA1 => 20 | SHA256 => 32 | SHA512 => 64 end.

Inductive skey :=
| GcmHkdf (mainkey : bytes) (h : hash) (dk : nat) (cseg : nat) (foff : nat)
| CtrHmac (mainkey : bytes) (h : hash) (dk : nat) (th : hash) (tag : nat) (cseg : nat) (foff : nat).

Definition k_dk (k : skey) := match k with GcmHkdf _ _ d _ _ => d | CtrHmac _ _ d _ _ _ _ => d end.
Definition k_cseg (k : skey) := match k with GcmHkdf _ _ _ c _ => c | CtrHmac _ _ _ _ _ c _ => c end.
Definition k_foff (k : skey) := match k with GcmHkdf _ _ _ _ o => o | CtrHmac _ _ _ _ _ _ o => o end.
Definition k_tag (k : skey) := match k with GcmHkdf _ _ _ _ _ => 16 | CtrHmac _ _ _ _ t _ _ => t end.
Definition k_nonce_size (k : skey) := match k with GcmHkdf _ _ _ _ _ => 12 | CtrHmac _ _ _ _ _ _ _ => 16 end.
Definition k_main (k : skey) := match k with GcmHkdf m _ _ _ _ => m | CtrHmac m _ _ _ _ _ _ => m end.
Definition nonce_prefix_size := 7.
Definition hdr_len (k : skey) : nat := 1 + k_dk k + nonce_prefix_size.

(* NewAESGCMHKDF / NewAESCTRHMAC argument validation (non-negative offsets) *)
Definition key_valid (k : skey) : bool :=
  (16 <=? length (k_main k)) && (k_dk k <=? length (k_main k)) &&
  ((k_dk k =? 16) || (k_dk k =? 32)) &&
  (k_foff k + hdr_len k + k_tag k <? k_cseg k) &&
  match k with
  | GcmHkdf _ _ _ _ _ => true
  | CtrHmac _ _ _ th t _ _ => (10 <=? t) && (t <=? digest_size th)
  end.

Section Keys.
  Variable hkdf : hash -> bytes -> bytes -> bytes -> nat -> bytes.   (* hash ikm salt info len *)
  Variable gcm_seal : bytes -> bytes -> bytes -> bytes.               (* key nonce plaintext (empty AD) *)
  Variable gcm_open : bytes -> bytes -> bytes -> option bytes.        (* key nonce ciphertext *)
  Variable aes_ctr : bytes -> bytes -> bytes -> bytes.                (* key iv16 data *)
  Variable hmac : hash -> bytes -> bytes -> bytes.                    (* hash key msg *)

  (* per-stream session keys: (aes key, hmac key) *)
  Definition derive (k : skey) (salt aad : bytes) : bytes * bytes :=
    match k with
    | GcmHkdf mk h dk _ _ => (hkdf h mk salt aad dk, [])
    | CtrHmac mk h dk _ _ _ _ =>
        let km := hkdf h mk salt aad (dk + 32) in (firstn dk km, skipn dk km)
    end.

  Definition seg_enc (k : skey) (sk : bytes * bytes) (nonce s : bytes) : bytes :=
    match k with
    | GcmHkdf _ _ _ _ _ => gcm_seal (fst sk) nonce s
    | CtrHmac _ _ _ th tag _ _ =>
        let c := aes_ctr (fst sk) nonce s in
        c ++ firstn tag (hmac th (snd sk) (nonce ++ c))
    end.

  Definition seg_dec (k : skey) (sk : bytes * bytes) (nonce c : bytes) : option bytes :=
    match k with
    | GcmHkdf _ _ _ _ _ => if length c <? 16 then None else gcm_open (fst sk) nonce c
    | CtrHmac _ _ _ th tag _ _ =>
        if length c <? tag then None else
        let body := firstn (length c - tag) c in
        let t := skipn (length c - tag) c in
        if beq t (firstn tag (hmac th (snd sk) (nonce ++ body))) then Some (aes_ctr (fst sk) nonce body)
        else None
    end.

  Definition header (k : skey) (salt prefix : bytes) : bytes :=
    [(N.of_nat (hdr_len k) mod 256)%N] ++ salt ++ prefix.

  Definition k_wparams (k : skey) (prefix : bytes) : wparams :=
    mkWP (k_nonce_size k) prefix (k_cseg k - k_tag k) (k_foff k + hdr_len k).
  Definition k_rparams (k : skey) (prefix : bytes) : rparams :=
    mkRP (k_nonce_size k) prefix (k_cseg k) (k_foff k + hdr_len k).

  (* NewEncryptingWriter: tape = the bytes crypto/rand delivers (salt, then nonce prefix) *)
  Definition new_enc_writer (k : skey) (tape aad : bytes) (w : sink)
    : option (bytes * bytes * bytes * wst) * sink :=      (* (session keys, prefix, state) *)
    let salt := firstn (k_dk k) tape in
    let prefix := firstn nonce_prefix_size (skipn (k_dk k) tape) in
    let sk := derive k salt aad in
    match sink_write w (header k salt prefix) with
    | (w', false) => (None, w')
    | (w', true) =>
      match new_writer (k_wparams k prefix) w' with
      | None => (None, w')
      | Some st => (Some (fst sk, snd sk, prefix, st), w')
      end
    end.

  Section DecReader.
    Variable SRC : Type.
    Variable rfull : SRC -> nat -> SRC * bytes * rfk.

    (* NewDecryptingReader; the source is returned in every case (bytes were consumed) *)
    Definition new_dec_reader (k : skey) (aad : bytes) (s : SRC)
      : option (bytes * bytes * bytes * rst SRC) * SRC :=
      let '(s1, hl, k1) := rfull s 1 in
      match k1 with
      | RFok =>
        if negb (beq hl [(N.of_nat (hdr_len k) mod 256)%N]) then (None, s1) else
        let '(s2, salt, k2) := rfull s1 (k_dk k) in
        match k2 with
        | RFok =>
          let '(s3, prefix, k3) := rfull s2 nonce_prefix_size in
          match k3 with
          | RFok =>
            let sk := derive k salt aad in
            match new_reader (k_rparams k prefix) s3 with
            | None => (None, s3)
            | Some st => (Some (fst sk, snd sk, prefix, st), s3)
            end
          | _ => (None, s3)
          end
        | _ => (None, s2)
        end
      | _ => (None, s1)
      end.
  End DecReader.

  (* ------------------ keyset level: decrypt_reader.go ------------------ *)
  Record ureader := mkU { ubuf : bytes; upos : nat; udis : bool; usrc : src }.

  (* io.ReadFull over an unreader: replay the buffered bytes first, then the
     wrapped reader (recording what it delivers unless disabled) *)
  Definition urfull (u : ureader) (want : nat) : ureader * bytes * rfk :=
    let avail := skipn (upos u) (ubuf u) in
    if want <=? length avail then
      (mkU (ubuf u) (upos u + want) (udis u) (usrc u), firstn want avail, RFok)
    else
      let '(s', got, k) := read_full (usrc u) (want - length avail) in
      let b' := if udis u then [] else ubuf u ++ got in
      (mkU b' (length b') (udis u) s', avail ++ got,
       match k with RFeof => if length avail =? 0 then RFeof else RFuneof | _ => k end).

  Definition unread (u : ureader) : ureader := mkU (ubuf u) 0 (udis u) (usrc u).
  Definition udisable (u : ureader) : ureader := mkU (ubuf u) (upos u) true (usrc u).

  (* matched reader: key, session keys, nonce prefix, reader state *)
  Record matched := mkM { m_key : skey; m_sk : bytes * bytes; m_prefix : bytes; m_st : rst ureader }.
  Record drst := mkDR { dr_attempted : bool; dr_m : option matched; dr_cr : src }.

  Definition set_src (st : rst ureader) (u : ureader) : rst ureader :=
    mkR (rpt st) (rpos st) (rcarry st) (rcnt st) (rlast st) u.

  (* the loop over the primitives of the keyset *)
  Fixpoint dr_try (keys : list skey) (aad : bytes) (u : ureader) (n : nat)
    : option matched * ureader * rres :=
    match keys with
    | [] => (None, u, RErr)                                    (* errKeyNotFound *)
    | k :: ks =>
      match new_dec_reader ureader urfull k aad u with
      | (None, u1) => dr_try ks aad (unread u1) n
      | (Some (k1, k2, prefix, st), _) =>
        match read (seg_dec k (k1, k2)) urfull (k_rparams k prefix) st n with
        | (st', RData b) =>
            (Some (mkM k (k1, k2) prefix (set_src st' (udisable (rsrc st')))), rsrc st', RData b)
        | (st', RPanic) => (None, rsrc st', RPanic)
        | (st', _) => dr_try ks aad (unread (rsrc st')) n
        end
      end
    end.

  Definition dr_new (cr : src) : drst := mkDR false None cr.

  Definition dr_read (keys : list skey) (aad : bytes) (d : drst) (n : nat) : drst * rres :=
    match dr_m d with
    | Some m =>
      let '(st', r) := read (seg_dec (m_key m) (m_sk m)) urfull (k_rparams (m_key m) (m_prefix m)) (m_st m) n in
      (mkDR true (Some (mkM (m_key m) (m_sk m) (m_prefix m) st')) (dr_cr d), r)
    | None =>
      if dr_attempted d then (d, RErr) else
      let '(m, u, r) := dr_try keys aad (mkU [] 0 false (dr_cr d)) n in
      (mkDR true m (usrc u), r)
    end.
End Keys.
