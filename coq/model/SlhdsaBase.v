(* The `params` struct of internal/signature/slhdsa/slhdsa.go: the eight
   table parameters, the derived values computed by newParams, and the six
   hash functions (abstract here: a record of functions; the SHA2 / SHAKE
   instantiations of hash.go are in SlhdsaHash.v). *)
From Coq Require Import List NArith Bool Arith.
From Tink Require Import Bytes SlhdsaAddr.
Import ListNotations.

(* paramsOpts: all small counts, kept in nat (lengths, heights, loop bounds) *)
Record params := mkParams {
  p_n : nat; p_h : nat; p_d : nat; p_hp : nat; p_a : nat; p_k : nat; p_lgw : nat; p_m : nat
}.

(* newParams: w = 1<<lgw; len1 = (8n+lgw-1)/lgw;
   len2 = log2(len1*(w-1))/lgw + 1 with log2 x = bits.Len(x)-1; len = len1+len2 *)
Definition p_w (P : params) : nat := 2 ^ p_lgw P.
Definition p_len1 (P : params) : nat := (8 * p_n P + p_lgw P - 1) / p_lgw P.
Definition p_len2 (P : params) : nat := Nat.log2 (p_len1 P * (p_w P - 1)) / p_lgw P + 1.
Definition p_len (P : params) : nat := p_len1 P + p_len2 P.

(* hHMsg hPrf hPrfMsg hF hH hTl (already applied to p.m / p.n) *)
Record hashes := mkHashes {
  hHMsg : bytes -> bytes -> bytes -> bytes -> bytes;      (* r pkSeed pkRoot msg *)
  hPrf : bytes -> bytes -> address -> bytes;              (* pkSeed skSeed adrs *)
  hPrfMsg : bytes -> bytes -> bytes -> bytes;             (* skPrf optRand msg *)
  hF : bytes -> address -> bytes -> bytes;                (* pkSeed adrs m1 *)
  hH : bytes -> address -> bytes -> bytes;                (* pkSeed adrs m2 *)
  hTl : bytes -> address -> bytes -> bytes                (* pkSeed adrs ml *)
}.
