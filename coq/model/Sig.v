(* Executable model of the classical signature primitives of tink-go:

     signature/ecdsa/{signer,verifier}.go, signature/subtle/ecdsa*.go,
     internal/signature/ecdsa/encoding.go           (ECDSA, DER and IEEE P1363)
     signature/ed25519/{signer,verifier}.go, signature/subtle/ed25519*.go
     signature/rsassapkcs1/*.go, signature/rsassapss/*.go,
     internal/signature/rsa*.go                     (RSA-SSA-PKCS1 / PSS)

   Everything tink-go adds around the standard algorithms is modelled: the
   output prefix and its check, the LEGACY 0x00 message suffix, the choice of
   hash, the signature encodings and their strict decoders, the length rules,
   the key-construction rules (hash/curve table, modulus >= 2048 bits,
   e = 65537).  The standard algorithms themselves (hash functions, raw ECDSA
   verification of (r,s), Ed25519, RSASSA verification) are Section variables;
   at run time they are answered by the stdlib oracle.

   Every Go slice expression is a checked [slice], so "Verify never panics"
   is a theorem about these functions.  accept = Ok tt, reject = Err.
   No proofs here: proofs/SigProofs.v. *)
From Coq Require Import List NArith ZArith Bool.
From Tink Require Import Bytes DER.
Import ListNotations.
Open Scope N_scope.

Inductive variant := VTink | VCrunchy | VLegacy | VRaw.
Inductive curve := P256 | P384 | P521.
Inductive hasht := SHA1 | SHA224 | SHA256 | SHA384 | SHA512.
Inductive sigenc := DER | P1363.

(* calculateOutputPrefix of every signature key type *)
Definition prefix (v : variant) (id : N) : bytes :=
  match v with
  | VTink => 1 :: be_bytes 4 id
  | VCrunchy | VLegacy => 0 :: be_bytes 4 id
  | VRaw => []
  end.

(* LEGACY: h.Write([]byte{0}) / slices.Concat(data, []byte{0}) *)
Definition suffix (v : variant) : bytes :=
  match v with VLegacy => [0] | _ => [] end.

(* bytes.HasPrefix *)
Definition has_prefix (p s : bytes) : bool := beq (firstn (length p) s) p.

(* s[len(p):] *)
Definition strip (p s : bytes) : outcome bytes := slice (length p) (length s) s.

(* ---- IEEE P1363 ---- *)
Definition field_size (c : curve) : nat :=
  match c with P256 => 32 | P384 => 48 | P521 => 66 end.
(* ieeeSignatureSize: 64 / 96 / 132 *)
Definition p1363_size (c : curve) : nat := (2 * field_size c)%nat.

(* IEEEP1363Encode: BitLen bound, then FillBytes into the two halves *)
Definition p1363_encode (c : curve) (r s : N) : option bytes :=
  let w := field_size c in
  if (r <? 256 ^ N.of_nat w) && (s <? 256 ^ N.of_nat w)
  then Some (be_bytes w r ++ be_bytes w s) else None.

Definition split_halves (b : bytes) : outcome (N * N) :=
  bind (slice 0 (length b / 2) b) (fun x =>
  bind (slice (length b / 2) (length b) b) (fun y =>
  Ok (be_val x, be_val y))).

(* IEEEP1363DecodeWithCurve *)
Definition p1363_decode (c : curve) (b : bytes) : outcome (N * N) :=
  if Nat.eqb (length b) (p1363_size c) then split_halves b else Err.

(* IEEEP1363Decode (curve-less, signature/subtle.DecodeECDSASignature) *)
Definition p1363_decode_any (b : bytes) : outcome (N * N) :=
  if (Nat.eqb (length b) 64 || Nat.eqb (length b) 96 || Nat.eqb (length b) 132)%bool
  then split_halves b else Err.

(* ---- parameter rules ---- *)
(* ecdsa.checkValidHashForCurve / subtle.ValidateECDSAParams *)
Definition ecdsa_params_ok (c : curve) (h : hasht) : bool :=
  match c, h with
  | P256, SHA256 | P384, SHA384 | P384, SHA512 | P521, SHA512 => true
  | _, _ => false
  end.

(* HashSafeForSignature *)
Definition hash_safe (h : hasht) : bool :=
  match h with SHA256 | SHA384 | SHA512 => true | _ => false end.

(* validRSAPublicKey: N.BitLen() >= 2048, E == 65537; modulus as big-endian bytes *)
Definition rsa_key_ok (n : bytes) (e : N) : bool :=
  (2048 <=? N.size (be_val n)) && (e =? 65537).

(* New_RSA_SSA_PKCS1_Verifier / New_RSA_SSA_PSS_Verifier succeed *)
Definition rsa_ctor_ok (h : hasht) (n : bytes) (e : N) : bool :=
  rsa_key_ok n e && hash_safe h.

(* crypto/rsa signature size: the modulus length in bytes *)
Definition rsa_sig_len (n : bytes) : nat := length (be_min (be_val n)).

(* crypto/rsa.VerifyPKCS1v15 and VerifyPSS (Go 1.25: crypto/internal/fips140/rsa
   pkcs1v15.go verifyPKCS1v15 `if pub.Size() != len(sig) { return ErrVerification }`,
   pkcs1v22.go VerifyPSS `if len(sig) != pub.Size() { return ErrVerification }`)
   compare the signature length with the modulus length in bytes BEFORE the
   RSA operation; tink-go adds no length check of its own.  [core] is the rest
   of the standard verification (an oracle). *)
Definition std_pkcs1 (core : bytes -> N -> hasht -> bytes -> bytes -> bool)
    (n : bytes) (e : N) (h : hasht) (d sig : bytes) : bool :=
  Nat.eqb (length sig) (rsa_sig_len n) && core n e h d sig.
Definition std_pss (core : bytes -> N -> hasht -> N -> bytes -> bytes -> bool)
    (n : bytes) (e : N) (h : hasht) (salt : N) (d sig : bytes) : bool :=
  Nat.eqb (length sig) (rsa_sig_len n) && core n e h salt d sig.

Record ecdsa_key := {
  ek_curve : curve; ek_hash : hasht; ek_enc : sigenc;
  ek_variant : variant; ek_id : N; ek_pub : bytes }.

Record rsa_key := {
  rk_hash : hasht; rk_variant : variant; rk_id : N;
  rk_n : bytes; rk_e : N; rk_salt : N (* PSS only *) }.

Section Sig.
  (* stdlib oracles *)
  Variable H : hasht -> bytes -> bytes.
  Variable ecdsa_verify_rs : curve -> bytes -> bytes -> N -> N -> bool. (* curve pub digest r s *)
  Variable ed25519_raw : bytes -> bytes -> bytes -> bool.               (* pub msg sig64 *)
  Variable rsa_pkcs1_raw : bytes -> N -> hasht -> bytes -> bytes -> bool.       (* n e hash digest sig *)
  Variable rsa_pss_raw : bytes -> N -> hasht -> N -> bytes -> bytes -> bool.    (* n e hash saltlen digest sig *)

  (* crypto/ecdsa.VerifyASN1 = parseSignature, then the raw verification *)
  Definition verify_asn1 (c : curve) (pub hashed b : bytes) : outcome unit :=
    match parse_sig b with
    | Some (r, s) => if ecdsa_verify_rs c pub hashed r s then Ok tt else Err
    | None => Err
    end.

  (* signature/ecdsa verifier.Verify; signature/subtle.ECDSAVerifier.Verify is
     the instance with variant RAW *)
  Definition ecdsa_verify (k : ecdsa_key) (sig msg : bytes) : outcome unit :=
    let p := prefix (ek_variant k) (ek_id k) in
    if negb (has_prefix p sig) then Err
    else
      bind (strip p sig) (fun raw =>
        let hashed := H (ek_hash k) (msg ++ suffix (ek_variant k)) in
        match ek_enc k with
        | DER => verify_asn1 (ek_curve k) (ek_pub k) hashed raw
        | P1363 =>
          bind (p1363_decode (ek_curve k) raw) (fun rs =>
            verify_asn1 (ek_curve k) (ek_pub k) hashed (der_encode_N (fst rs) (snd rs)))
        end).

  (* the bytes Sign returns for a raw signature (r, s): prefix || encoding *)
  Definition ecdsa_encode (k : ecdsa_key) (r s : N) : option bytes :=
    match ek_enc k with
    | DER => Some (der_encode_N r s)
    | P1363 => p1363_encode (ek_curve k) r s
    end.
  Definition ecdsa_frame (k : ecdsa_key) (r s : N) : option bytes :=
    match ecdsa_encode k r s with
    | Some e => Some (prefix (ek_variant k) (ek_id k) ++ e)
    | None => None
    end.

  (* signature/ed25519 verifier.Verify (subtle.ED25519Verifier = variant RAW) *)
  Definition ed25519_verify (v : variant) (id : N) (pub sig msg : bytes) : outcome unit :=
    let p := prefix v id in
    if negb (has_prefix p sig) then Err
    else
      bind (strip p sig) (fun raw =>
        if negb (Nat.eqb (length raw) 64) then Err
        else if ed25519_raw pub (msg ++ suffix v) raw then Ok tt else Err).

  (* signature/rsassapkcs1 verifier.Verify over internal RSA_SSA_PKCS1_Verifier *)
  Definition pkcs1_verify (k : rsa_key) (sig msg : bytes) : outcome unit :=
    let p := prefix (rk_variant k) (rk_id k) in
    if negb (has_prefix p sig) then Err
    else
      bind (strip p sig) (fun raw =>
        let hashed := H (rk_hash k) (msg ++ suffix (rk_variant k)) in
        if rsa_pkcs1_raw (rk_n k) (rk_e k) (rk_hash k) hashed raw then Ok tt else Err).

  (* signature/rsassapss verifier.Verify over internal RSA_SSA_PSS_Verifier;
     the key's salt length is passed to the standard verification *)
  Definition pss_verify (k : rsa_key) (sig msg : bytes) : outcome unit :=
    let p := prefix (rk_variant k) (rk_id k) in
    if negb (has_prefix p sig) then Err
    else
      bind (strip p sig) (fun raw =>
        let hashed := H (rk_hash k) (msg ++ suffix (rk_variant k)) in
        if rsa_pss_raw (rk_n k) (rk_e k) (rk_hash k) (rk_salt k) hashed raw then Ok tt else Err).

  (* framing done by the signers: prefix || raw signature over msg || suffix *)
  Definition frame (v : variant) (id : N) (raw : bytes) : bytes := prefix v id ++ raw.

  (* ---- signers: the standard signing operation is an oracle as well ---- *)
  Variable ecdsa_sign_rs : curve -> bytes -> bytes -> bytes -> N * N.   (* curve priv digest randomness -> (r, s) *)
  Variable ed25519_sign_raw : bytes -> bytes -> bytes.                  (* seed msg -> sig64 *)
  Variable rsa_pkcs1_sign_raw : bytes -> hasht -> bytes -> bytes.       (* priv hash digest *)
  Variable rsa_pss_sign_raw : bytes -> hasht -> N -> bytes -> bytes -> bytes. (* priv hash saltlen digest randomness *)

  (* signer.Sign: hash(data [|| 0]), ecdsa.Sign / SignASN1, encode, prefix *)
  Definition ecdsa_sign (k : ecdsa_key) (sk rnd msg : bytes) : option bytes :=
    let rs := ecdsa_sign_rs (ek_curve k) sk (H (ek_hash k) (msg ++ suffix (ek_variant k))) rnd in
    ecdsa_frame k (fst rs) (snd rs).

  Definition ed25519_sign (v : variant) (id : N) (seed msg : bytes) : outcome bytes :=
    let r := ed25519_sign_raw seed (msg ++ suffix v) in
    if negb (Nat.eqb (length r) 64) then Err else Ok (frame v id r).

  Definition pkcs1_sign (k : rsa_key) (sk msg : bytes) : bytes :=
    frame (rk_variant k) (rk_id k)
      (rsa_pkcs1_sign_raw sk (rk_hash k) (H (rk_hash k) (msg ++ suffix (rk_variant k)))).

  Definition pss_sign (k : rsa_key) (sk rnd msg : bytes) : bytes :=
    frame (rk_variant k) (rk_id k)
      (rsa_pss_sign_raw sk (rk_hash k) (rk_salt k) (H (rk_hash k) (msg ++ suffix (rk_variant k))) rnd).
End Sig.

(* observation helpers for the driver *)
Definition accepted (o : outcome unit) : N :=
  match o with Ok _ => 1 | Err => 0 | Panic => 2 end.
