(* Executable model of kwp/subtle/kwp.go (AES-KWP, RFC 5649 / SP 800-38F) as
   coded, over the AES block oracles E (encrypt) and D (decrypt) under the
   wrapping key; separately the RFC 3394 / RFC 5649 text with the step index
   t = n*j + i.  The data is kept as the Go code keeps it: an 8-byte
   integrity register (buf[:8]) and the 8-byte blocks of wrapped[8:].
   No proofs here: proofs/KwpProofs.v. *)
From Coq Require Import List NArith Bool Arith.
From Tink Require Import Bytes.
Import ListNotations.
Open Scope N_scope.

Definition MinWrapSize : N := 16.
Definition MaxWrapSize : N := 8192.
Definition roundCount : nat := 6.
Definition ivPrefix : N := 2790873510.      (* 0xA65959A6 *)

(* wrappingSize as coded *)
Definition wrappingSize (inputSize : nat) : nat :=
  let paddingSize := (7 - (inputSize + 7) mod 8)%nat in
  (inputSize + paddingSize + 8)%nat.

(* the same on N: Unwrap applies it to an attacker-chosen 32-bit value *)
Definition wrappingSizeN (inputSize : N) : N :=
  inputSize + (7 - (inputSize + 7) mod 8) + 8.

(* NewKWP: key size 16 or 32 *)
Definition kwp_key_ok (klen : nat) : bool := Nat.eqb klen 16 || Nat.eqb klen 32.

(* the 8-byte blocks of a byte string whose length is a multiple of 8 *)
Fixpoint blocks8 (n : nat) (b : bytes) : list bytes :=
  match n with
  | O => []
  | S n' => firstn 8 b :: blocks8 n' (skipn 8 b)
  end.

(* buf[4:8] ^= be32(t)   (buf[:8] is the integrity register A) *)
Definition xor_ctr (A : bytes) (t : N) : bytes :=
  firstn 4 A ++ xorb (skipn 4 A) (be_bytes 4 t).

Section KWP.
  Variable E : bytes -> bytes.
  Variable D : bytes -> bytes.

  (* ---- Wrap: one pass of the inner loop over the blocks R_1..R_n with the
     running uint32 roundCounter ---- *)
  Fixpoint wrap_pass (A : bytes) (rc : N) (rs : list bytes) : bytes * N * list bytes :=
    match rs with
    | [] => (A, rc, [])
    | r :: rest =>
        let b := E (A ++ r) in                   (* copy(buf[8:], ri); Encrypt(buf, buf) *)
        let rc := (rc + 1) mod 2 ^ 32 in           (* roundCounter++ *)
        let A := xor_ctr (firstn 8 b) rc in      (* XORBytes(buf[4:8], buf[4:8], be32(rc)) *)
        let '(A', rc', out) := wrap_pass A rc rest in
        (A', rc', skipn 8 b :: out)              (* copy(ri, buf[8:]) *)
    end.

  Fixpoint wrap_rounds (k : nat) (A : bytes) (rc : N) (rs : list bytes) : bytes * list bytes :=
    match k with
    | O => (A, rs)
    | S k' => let '(A', rc', rs') := wrap_pass A rc rs in wrap_rounds k' A' rc' rs'
    end.

  Definition aiv (len : nat) : bytes := be_bytes 4 ivPrefix ++ be_bytes 4 (N.of_nat len).

  (* the function W on a padded input: integrity register + blocks *)
  Definition W_impl (A : bytes) (rs : list bytes) : bytes :=
    let '(A', rs') := wrap_rounds roundCount A 0 rs in A' ++ concat rs'.

  Definition kwp_wrap (data : bytes) : outcome bytes :=
    if N.ltb (N.of_nat (length data)) MinWrapSize then Err
    else if N.ltb MaxWrapSize (N.of_nat (length data)) then Err
    else
      let size := wrappingSize (length data) in
      (* wrapped = make(size); copy(wrapped[8:], data) *)
      let body := data ++ zeros (size - 8 - length data) in
      Ok (W_impl (aiv (length data)) (blocks8 ((size - 8) / 8) body)).

  (* ---- invertW: i = 5..0, j = blockCount-1..0, roundConst = i*blockCount+j+1.
     The blocks are passed in reverse order (last block first); j is the
     number of blocks still ahead. ---- *)
  Fixpoint unwrap_pass (i n : nat) (A : bytes) (rs_rev : list bytes) : bytes * list bytes :=
    match rs_rev with
    | [] => (A, [])
    | r :: rest =>
        let j := length rest in
        let t := N.of_nat (i * n + j + 1) in
        let b := D (xor_ctr A t ++ r) in
        let '(A', out) := unwrap_pass i n (firstn 8 b) rest in
        (A', skipn 8 b :: out)
    end.

  (* rounds i = k-1 .. 0 *)
  Fixpoint unwrap_rounds (k n : nat) (A : bytes) (rs_rev : list bytes) : bytes * list bytes :=
    match k with
    | O => (A, rs_rev)
    | S k' => let '(A', rs') := unwrap_pass k' n A rs_rev in unwrap_rounds k' n A' rs'
    end.

  Definition invertW (wrapped : bytes) : outcome bytes :=
    if (Nat.ltb (length wrapped) 24 || negb (Nat.eqb (length wrapped mod 8) 0))%bool then Err
    else
      let blockCount := (length wrapped / 8 - 1)%nat in
      let '(A, rs_rev) := unwrap_rounds roundCount blockCount (firstn 8 wrapped)
                             (rev (blocks8 blockCount (skipn 8 wrapped))) in
      Ok (A ++ concat (rev rs_rev)).

  Fixpoint all_zero (b : bytes) : bool :=
    match b with [] => true | x :: t => N.eqb x 0 && all_zero t end.

  Definition kwp_unwrap (data : bytes) : outcome bytes :=
    if N.ltb (N.of_nat (length data)) (wrappingSizeN MinWrapSize) then Err
    else if N.ltb (wrappingSizeN MaxWrapSize) (N.of_nat (length data)) then Err
    else if negb (Nat.eqb (length data mod 8) 0) then Err
    else
      bind (invertW data) (fun unwrapped =>
      bind (slice 0 4 unwrapped) (fun p =>
      if negb (N.eqb (be_val p) ivPrefix) then Err else
      bind (slice 4 8 unwrapped) (fun l =>
      if negb (N.eqb (wrappingSizeN (be_val l)) (N.of_nat (length unwrapped))) then Err else
      let encodedSize := N.to_nat (be_val l) in
      (* for i := 8+encodedSize; i < len(unwrapped); i++ *)
      if negb (all_zero (skipn (8 + encodedSize) unwrapped)) then Err else
      slice 8 (8 + encodedSize) unwrapped))).

  (* ================= RFC 3394 section 2.2.1 / RFC 5649 section 4.1 ================= *)
  (* A xor t with t the 64-bit big-endian step counter *)
  Definition xor_t (A : bytes) (t : N) : bytes := xorb A (be_bytes 8 t).

  (* For i = 1..n : B = AES(K, A | R[i]); A = MSB(64,B) xor t, t = n*j+i; R[i] = LSB(64,B) *)
  Fixpoint rfc_pass (n j i : nat) (A : bytes) (rs : list bytes) : bytes * list bytes :=
    match rs with
    | [] => (A, [])
    | r :: rest =>
        let B := E (A ++ r) in
        let A := xor_t (firstn 8 B) (N.of_nat (n * j + i)) in
        let '(A', out) := rfc_pass n j (S i) A rest in
        (A', skipn 8 B :: out)
    end.

  (* For j = 0 .. 5 *)
  Fixpoint rfc_rounds (k n j : nat) (A : bytes) (rs : list bytes) : bytes * list bytes :=
    match k with
    | O => (A, rs)
    | S k' => let '(A', rs') := rfc_pass n j 1 A rs in rfc_rounds k' n (S j) A' rs'
    end.

  Definition W_rfc3394 (A : bytes) (rs : list bytes) : bytes :=
    let '(A', rs') := rfc_rounds 6 (length rs) 0 A rs in A' ++ concat rs'.

  (* RFC 5649 section 4.1 for n >= 2 blocks (plaintext longer than 8 bytes):
     AIV = A65959A6 || MLI, zero padding to a multiple of 8 *)
  Definition wrap_rfc5649 (data : bytes) : bytes :=
    let padlen := ((8 - length data mod 8) mod 8)%nat in
    let P := data ++ zeros padlen in
    let n := (length P / 8)%nat in
    W_rfc3394 (be_bytes 4 ivPrefix ++ be_bytes 4 (N.of_nat (length data))) (blocks8 n P).
End KWP.

(* ---- the API as a function of the wrapping-key BYTES: NewKWP followed by
   Wrap / Unwrap.  None = NewKWP returned an error (no primitive exists).
   AESenc / AESdec : key -> block -> block are the AES block functions
   (crypto/aes), consulted only for key sizes NewKWP lets through. ---- *)
Section KWPApi.
  Variable AESenc AESdec : bytes -> bytes -> bytes.

  Definition kwp_api_wrap (kek data : bytes) : option (outcome bytes) :=
    if kwp_key_ok (length kek) then Some (kwp_wrap (AESenc kek) data) else None.

  Definition kwp_api_unwrap (kek data : bytes) : option (outcome bytes) :=
    if kwp_key_ok (length kek) then Some (kwp_unwrap (AESdec kek) data) else None.
End KWPApi.
