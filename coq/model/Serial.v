(* C12 — key, parameters and keyset serialisation of tink-go, as executable
   Gallina over the wire codec of ProtoWire.v.

   * internal/ec.BigIntBytesToFixedSizeBuffer, internal/signature.Pad and
     big.Int.Bytes (leading-zero handling of big integers), and the per-type
     normalisation parse-then-serialize applies to EC coordinates / private
     scalars and RSA integers;
   * the generic shape of every */*/protoserialization.go: key <->
     (type URL, key material type, output prefix type, id requirement, proto
     fields), with the variant <-> OutputPrefixType tables of SerialTables.v;
   * internal/protoserialization.NewKeySerialization / IDRequirement;
   * keyset/handle.go entriesToProtoKeyset, keysetToEntries, newFromEntries,
     Public, keyset/validation.go Validate, the binary writer/reader
     (keyset/binary_io.go) in cleartext and encrypted form.
   No proofs here. *)
From Coq Require Import List NArith Bool.
From Tink Require Import Bytes ProtoWire SerialTables.
Import ListNotations.
Open Scope N_scope.

(* ------------------------------------------------------------------ *)
(* small helpers                                                       *)
(* ------------------------------------------------------------------ *)
Fixpoint lookup (t : list (N * N)) (k : N) : option N :=
  match t with
  | [] => None
  | (a, b) :: r => if a =? k then Some b else lookup r k
  end.
Fixpoint lookup_bytes {A} (t : list (bytes * A)) (k : bytes) : option A :=
  match t with
  | [] => None
  | (a, b) :: r => if beq a k then Some b else lookup_bytes r k
  end.

(* ------------------------------------------------------------------ *)
(* big integers as big-endian byte strings                             *)
(* ------------------------------------------------------------------ *)
(* new(big.Int).SetBytes(b).Bytes() *)
Fixpoint strip_zeros (b : bytes) : bytes :=
  match b with
  | 0 :: t => strip_zeros t
  | _ => b
  end.
(* internal/signature.Pad *)
Definition pad_left (b : bytes) (size : nat) : option bytes :=
  if Nat.leb (length b) size then Some (zeros (size - length b) ++ b) else None.
(* internal/ec.BigIntBytesToFixedSizeBuffer *)
Definition fixed_size_buffer (b : bytes) (size : nat) : option bytes :=
  if Nat.eqb (length b) size then Some b
  else if Nat.ltb (length b) size then Some (zeros (size - length b) ++ b)
  else if forallb (N.eqb 0) (firstn (length b - size) b) then Some (skipn (length b - size) b)
  else None.

(* what serialize (parse b) yields for an EC coordinate or private scalar:
   parse: fixed_size_buffer b cs; serialize: fixed_size_buffer _ (cs + 1) *)
Definition ec_coord_norm (cs : nat) (b : bytes) : option bytes :=
  match fixed_size_buffer b cs with
  | Some x => fixed_size_buffer x (cs + 1)
  | None => None
  end.

(* ------------------------------------------------------------------ *)
(* field access by number on a message with its schema                 *)
(* ------------------------------------------------------------------ *)
Definition get_bytes (s : schema) (m : msg) (num : N) : option bytes :=
  match get_field s m num with Some (TBytes, VBytes b) => Some b | _ => None end.
Definition get_int (s : schema) (m : msg) (num : N) : option N :=
  match get_field s m num with Some (_, VInt n) => Some n | _ => None end.
(* Go getters on a nil sub-message return defaults: absent = all defaults *)
Definition get_sub (s : schema) (m : msg) (num : N) : option (schema * msg) :=
  match get_field s m num with
  | Some (TMsg s', VMsg (Some m')) => Some (s', m')
  | Some (TMsg s', VMsg None) => Some (s', default_msg s')
  | _ => None
  end.
Definition map_bytes (s : schema) (m : msg) (num : N) (f : bytes -> option bytes) : option msg :=
  match get_bytes s m num with
  | Some b => match f b with Some b' => Some (set_field s m num (VBytes b')) | None => None end
  | None => None
  end.

(* ------------------------------------------------------------------ *)
(* per-type big-integer normalisation (field numbers from proto/*.proto:
   public keys  x = 3, y = 4 | n = 3, e = 4;  private keys public_key = 2,
   key_value = 3 | d = 3, p = 4, q = 5, dp = 6, dq = 7, crt = 8)        *)
(* ------------------------------------------------------------------ *)
Definition ec_pub_norm (cs : nat) (s : schema) (m : msg) : option msg :=
  match map_bytes s m 3 (ec_coord_norm cs) with
  | Some m1 => map_bytes s m1 4 (ec_coord_norm cs)
  | None => None
  end.
Definition ec_priv_norm (cs : nat) (s : schema) (m : msg) : option msg :=
  match get_field s m 2 with
  | Some (TMsg ps, VMsg pm) =>
      let pm0 := match pm with Some x => x | None => default_msg ps end in
      match ec_pub_norm cs ps pm0 with
      | Some pm' => map_bytes s (set_field s m 2 (VMsg (Some pm'))) 3 (ec_coord_norm cs)
      | None => None
      end
  | _ => None
  end.

(* signature/rsassa*: the modulus goes through big.Int (leading zeros dropped);
   jwt/jwtrsassa*: the modulus bytes are kept as given (strip_n = false) *)
Definition rsa_pub_norm (strip_n : bool) (s : schema) (m : msg) : option msg :=
  match map_bytes s m 3 (fun b => Some (if strip_n then strip_zeros b else b)) with
  | Some m1 => map_bytes s m1 4 (fun b => Some (strip_zeros b))
  | None => None
  end.
(* signature.AdjustEncodingLengths after big.Int.Bytes(): d to |n|, dp and crt to |p|, dq to |q| *)
Definition rsa_priv_norm (strip_n : bool) (s : schema) (m : msg) : option msg :=
  match get_field s m 2 with
  | Some (TMsg ps, VMsg pm) =>
      let pm0 := match pm with Some x => x | None => default_msg ps end in
      match rsa_pub_norm strip_n ps pm0 with
      | Some pm' =>
          match get_bytes ps pm' 3, get_bytes s m 4, get_bytes s m 5 with
          | Some n, Some p, Some q =>
              let p' := strip_zeros p in
              let q' := strip_zeros q in
              let m1 := set_field s m 2 (VMsg (Some pm')) in
              let m2 := set_field s (set_field s m1 4 (VBytes p')) 5 (VBytes q') in
              match map_bytes s m2 3 (fun b => pad_left (strip_zeros b) (length n)) with
              | Some m3 =>
                  match map_bytes s m3 6 (fun b => pad_left (strip_zeros b) (length p')) with
                  | Some m4 =>
                      match map_bytes s m4 7 (fun b => pad_left (strip_zeros b) (length q')) with
                      | Some m5 => map_bytes s m5 8 (fun b => pad_left (strip_zeros b) (length p'))
                      | None => None
                      end
                  | None => None
                  end
              | None => None
              end
          | _, _, _ => None
          end
      | None => None
      end
  | _ => None
  end.

(* coordinate size from the proto enum through the regenerated tables *)
Definition size_via (from_proto size_tab : list (N * N)) (e : N) : option nat :=
  match lookup from_proto e with
  | Some g => match lookup size_tab g with Some n => Some (N.to_nat n) | None => None end
  | None => None
  end.

Definition ecdsa_cs (ps : schema) (pm : msg) : option nat :=
  match get_sub ps pm 2 with
  | Some (qs, qm) =>
      match get_int qs qm 2 with
      | Some c => size_via signature_ecdsa_curveTypeFromProto signature_ecdsa_coordinateSizeForCurve c
      | None => None
      end
  | None => None
  end.
Definition jwtecdsa_cs (ps : schema) (pm : msg) : option nat :=
  match get_int ps pm 2 with
  | Some a => size_via jwt_jwtecdsa_algorithmFromProto jwt_jwtecdsa_coordinateSizeFromAlgorithm a
  | None => None
  end.
Definition curve25519 : N := 5.
(* Some None = X25519 (no normalisation) *)
Definition ecies_cs (ps : schema) (pm : msg) : option (option nat) :=
  match get_sub ps pm 2 with
  | Some (qs, qm) =>
      match get_sub qs qm 1 with
      | Some (ks, km) =>
          match get_int ks km 1 with
          | Some c =>
              if c =? curve25519 then Some None
              else match size_via hybrid_ecies_curveTypeFromProto hybrid_ecies_coordinateSizeForCurve c with
                   | Some n => Some (Some n)
                   | None => None
                   end
          | None => None
          end
      | None => None
      end
  | None => None
  end.

Definition on_pub (s : schema) (m : msg) : option (schema * msg) := get_sub s m 2.

Inductive norm_kind :=
| NKNone | NKEcdsaPub | NKEcdsaPriv | NKJwtEcdsaPub | NKJwtEcdsaPriv
| NKEciesPub | NKEciesPriv | NKRsaPub | NKRsaPriv | NKJwtRsaPub | NKJwtRsaPriv.

Definition normalise (k : norm_kind) (s : schema) (m : msg) : option msg :=
  match k with
  | NKNone => Some m
  | NKEcdsaPub => match ecdsa_cs s m with Some cs => ec_pub_norm cs s m | None => None end
  | NKEcdsaPriv =>
      match on_pub s m with
      | Some (ps, pm) => match ecdsa_cs ps pm with Some cs => ec_priv_norm cs s m | None => None end
      | None => None
      end
  | NKJwtEcdsaPub => match jwtecdsa_cs s m with Some cs => ec_pub_norm cs s m | None => None end
  | NKJwtEcdsaPriv =>
      match on_pub s m with
      | Some (ps, pm) => match jwtecdsa_cs ps pm with Some cs => ec_priv_norm cs s m | None => None end
      | None => None
      end
  | NKEciesPub =>
      match ecies_cs s m with
      | Some (Some cs) => ec_pub_norm cs s m
      | Some None => Some m
      | None => None
      end
  | NKEciesPriv =>
      match on_pub s m with
      | Some (ps, pm) =>
          match ecies_cs ps pm with
          | Some (Some cs) => ec_priv_norm cs s m
          | Some None => Some m
          | None => None
          end
      | None => None
      end
  | NKRsaPub => rsa_pub_norm true s m
  | NKRsaPriv => rsa_priv_norm true s m
  | NKJwtRsaPub => rsa_pub_norm false s m
  | NKJwtRsaPriv => rsa_priv_norm false s m
  end.

(* ------------------------------------------------------------------ *)
(* generic key <-> key serialisation                                   *)
(* ------------------------------------------------------------------ *)
Definition prefix_raw : N := 3.

(* internal/protoserialization.KeySerialization *)
Record kser := mkKser { ks_url : bytes; ks_value : bytes; ks_mat : N; ks_prefix : N; ks_id : N }.

(* NewKeySerialization: a RAW key cannot carry an id requirement *)
Definition new_key_serialization (url value : bytes) (mat prefix id : N) : option kser :=
  if (prefix =? prefix_raw) && negb (id =? 0) then None
  else Some (mkKser url value mat prefix id).

(* a key object, generically: parameters and material are the proto fields *)
Record gkey := mkGkey { gk_url : bytes; gk_mat : N; gk_variant : N; gk_id : N; gk_fields : msg }.

(* how a type treats the output prefix *)
Inductive prefix_kind :=
| PTables (to_proto from_proto : list (N * N))   (* variant <-> OutputPrefixType switch maps *)
| PJwt (custom : N) (to_proto from_proto from_proto_kid : list (N * N)) (kid_path : list N)
      (* JWT: kidStrategyFromOutputPrefixType(prefix, hasCustomKID); a custom kid
         (the sub-message at kid_path) is only allowed with the CustomKID strategy *)
| PIgnored.                                      (* streaming AEAD: the parser never looks at it, the serializer emits RAW / id 0 *)

(* is the sub-message at the path (field numbers) present? *)
Fixpoint has_path (s : schema) (m : msg) (path : list N) : bool :=
  match path with
  | [] => true
  | a :: rest =>
      match get_field s m a with
      | Some (TMsg s', VMsg (Some m')) => has_path s' m' rest
      | _ => false
      end
  end.

Record ktype := mkKtype { kt_schema : schema; kt_prefix : prefix_kind; kt_norm : norm_kind }.

Definition serialize_key (T : ktype) (k : gkey) : option kser :=
  match kt_prefix T with
  | PTables to_proto _ =>
      match lookup to_proto (gk_variant k) with
      | Some p => new_key_serialization (gk_url k) (encode (kt_schema T) (gk_fields k)) (gk_mat k) p (gk_id k)
      | None => None
      end
  | PJwt _ to_proto _ _ _ =>
      match lookup to_proto (gk_variant k) with
      | Some p => new_key_serialization (gk_url k) (encode (kt_schema T) (gk_fields k)) (gk_mat k) p (gk_id k)
      | None => None
      end
  | PIgnored => new_key_serialization (gk_url k) (encode (kt_schema T) (gk_fields k)) (gk_mat k) prefix_raw 0
  end.

Definition parse_key (T : ktype) (s : kser) : option gkey :=
  match decode (kt_schema T) (ks_value s) with
  | Some m =>
      match normalise (kt_norm T) (kt_schema T) m with
      | Some m' =>
          match kt_prefix T with
          | PTables _ from_proto =>
              match lookup from_proto (ks_prefix s) with
              | Some v => Some (mkGkey (ks_url s) (ks_mat s) v (ks_id s) m')
              | None => None
              end
          | PJwt custom _ from_proto from_proto_kid path =>
              let kid := has_path (kt_schema T) m' path in
              match lookup (if kid then from_proto_kid else from_proto) (ks_prefix s) with
              | Some v =>
                  if kid && negb (v =? custom) then None
                  else Some (mkGkey (ks_url s) (ks_mat s) v (ks_id s) m')
              | None => None
              end
          | PIgnored => Some (mkGkey (ks_url s) (ks_mat s) 0 0 m')
          end
      | None => None
      end
  | None => None
  end.

(* parameters <-> KeyTemplate, same shape without material / id *)
Record ktemplate := mkKtemplate { tp_url : bytes; tp_value : bytes; tp_prefix : N }.
Record gparams := mkGparams { gp_url : bytes; gp_variant : N; gp_fields : msg }.
Definition serialize_params (T : ktype) (p : gparams) : option ktemplate :=
  match kt_prefix T with
  | PTables to_proto _ =>
      match lookup to_proto (gp_variant p) with
      | Some pr => Some (mkKtemplate (gp_url p) (encode (kt_schema T) (gp_fields p)) pr)
      | None => None
      end
  | PJwt _ to_proto _ _ _ =>
      match lookup to_proto (gp_variant p) with
      | Some pr => Some (mkKtemplate (gp_url p) (encode (kt_schema T) (gp_fields p)) pr)
      | None => None
      end
  | PIgnored => Some (mkKtemplate (gp_url p) (encode (kt_schema T) (gp_fields p)) prefix_raw)
  end.
Definition parse_params (T : ktype) (t : ktemplate) : option gparams :=
  match decode (kt_schema T) (tp_value t) with
  | Some m =>
      match kt_prefix T with
      | PTables _ from_proto =>
          match lookup from_proto (tp_prefix t) with
          | Some v => Some (mkGparams (tp_url t) v m)
          | None => None
          end
      | PJwt _ _ from_proto _ _ =>
          match lookup from_proto (tp_prefix t) with
          | Some v => Some (mkGparams (tp_url t) v m)
          | None => None
          end
      | PIgnored => if tp_prefix t =? prefix_raw then Some (mkGparams (tp_url t) 0 m) else None
      end
  | None => None
  end.

(* ------------------------------------------------------------------ *)
(* tink.proto messages                                                 *)
(* ------------------------------------------------------------------ *)
Definition keydata_schema : schema :=
  SCons 1 TString (SCons 2 TBytes (SCons 3 TEnum SNil)).
Definition keytemplate_schema : schema :=
  SCons 1 TString (SCons 2 TBytes (SCons 3 TEnum SNil)).
Definition keyset_key_schema : schema :=
  SCons 1 (TMsg keydata_schema) (SCons 2 TEnum (SCons 3 TU32 (SCons 4 TEnum SNil))).
Definition keyset_schema : schema :=
  SCons 1 TU32 (SCons 2 (TRep keyset_key_schema) SNil).
Definition keyinfo_schema : schema :=
  SCons 1 TString (SCons 2 TEnum (SCons 3 TU32 (SCons 4 TEnum SNil))).
Definition keysetinfo_schema : schema :=
  SCons 1 TU32 (SCons 2 (TRep keyinfo_schema) SNil).
Definition encrypted_keyset_schema : schema :=
  SCons 2 TBytes (SCons 3 (TMsg keysetinfo_schema) SNil).

Record pkeydata := mkKeyData { kd_url : bytes; kd_value : bytes; kd_mat : N }.
Record pkey := mkPkey { pk_data : option pkeydata; pk_status : N; pk_id : N; pk_prefix : N }.
Record pkeyset := mkPkeyset { pks_primary : N; pks_keys : list pkey }.

Definition keydata_msg (d : pkeydata) : msg := [VBytes (kd_url d); VBytes (kd_value d); VInt (kd_mat d)].
Definition pkey_msg (k : pkey) : msg :=
  [VMsg (option_map keydata_msg (pk_data k)); VInt (pk_status k); VInt (pk_id k); VInt (pk_prefix k)].
Definition keyset_msg (ks : pkeyset) : msg := [VInt (pks_primary ks); VRep (map pkey_msg (pks_keys ks))].

Definition msg_keydata (m : msg) : option pkeydata :=
  match m with
  | [VBytes u; VBytes v; VInt t] => Some (mkKeyData u v t)
  | _ => None
  end.
Definition msg_pkey (m : msg) : option pkey :=
  match m with
  | [VMsg None; VInt st; VInt id; VInt p] => Some (mkPkey None st id p)
  | [VMsg (Some d); VInt st; VInt id; VInt p] =>
      match msg_keydata d with Some kd => Some (mkPkey (Some kd) st id p) | None => None end
  | _ => None
  end.
Definition msg_keyset (m : msg) : option pkeyset :=
  match m with
  | [VInt pr; VRep ks] =>
      match all_some (map msg_pkey ks) with Some l => Some (mkPkeyset pr l) | None => None end
  | _ => None
  end.

(* keyset/binary_io.go *)
Definition write_keyset (ks : pkeyset) : bytes := encode keyset_schema (keyset_msg ks).
Definition read_keyset (b : bytes) : option pkeyset :=
  match decode keyset_schema b with Some m => msg_keyset m | None => None end.

(* ------------------------------------------------------------------ *)
(* keyset/validation.go Validate                                       *)
(* ------------------------------------------------------------------ *)
Definition st_enabled : N := 1.
Definition st_disabled : N := 2.
Definition st_destroyed : N := 3.
Definition known_status (s : N) : bool := (s =? 1) || (s =? 2) || (s =? 3).
(* TINK, LEGACY, RAW, CRUNCHY: the prefix types every key type may use; the only
   ones internal/protoserialization calculateOutputPrefix (fallback key) knows *)
Definition legacy_prefix (p : N) : bool := (p =? 1) || (p =? 2) || (p =? 3) || (p =? 4).
(* validateKey also accepts WITH_ID_REQUIREMENT (5) since /repo 4b80d2c (before,
   a keyset holding an ML-DSA key of variant NoPrefixWithPrehashID could be
   written but not read) *)
Definition known_prefix (p : N) : bool := legacy_prefix p || (p =? 5).

Definition validate_key (k : pkey) : bool :=
  match pk_data k with None => false | Some _ => known_prefix (pk_prefix k) && known_status (pk_status k) end.

Definition validate (ks : pkeyset) : bool :=
  let keys := pks_keys ks in
  let pr := pks_primary ks in
  negb (match keys with [] => true | _ => false end)
  && forallb validate_key keys
  && nodupb (map pk_id keys)
  && forallb (fun k => (pk_status k =? st_enabled) || negb (pk_id k =? pr)) keys
  && existsb (fun k => pk_status k =? st_enabled) keys
  && existsb (fun k => (pk_status k =? st_enabled) && (pk_id k =? pr)) keys.

(* ------------------------------------------------------------------ *)
(* keyset/handle.go: entries <-> proto keyset                          *)
(* ------------------------------------------------------------------ *)
Inductive kstatus := Unknown | Enabled | Disabled | Destroyed.
Definition status_to_proto (s : kstatus) : option N :=
  match s with Enabled => Some 1 | Disabled => Some 2 | Destroyed => Some 3 | Unknown => None end.
Definition status_from_proto (s : N) : option kstatus :=
  if s =? 1 then Some Enabled else if s =? 2 then Some Disabled else if s =? 3 then Some Destroyed else None.

Section Keyset.
  (* the key objects of a handle and their (de)serialisation: instantiated by
     serialize_key / parse_key per registered type, or by the fallback key *)
  Variable K : Type.
  Variable ser_k : K -> option kser.
  Variable par_k : kser -> option K.

  Record entry := mkEntry { e_key : K; e_primary : bool; e_id : N; e_status : kstatus }.

  Definition entry_to_proto_key (e : entry) : option pkey :=
    match status_to_proto (e_status e), ser_k (e_key e) with
    | Some st, Some s =>
        Some (mkPkey (Some (mkKeyData (ks_url s) (ks_value s) (ks_mat s))) st (e_id e) (ks_prefix s))
    | _, _ => None
    end.

  (* the last primary entry sets primary_key_id *)
  Fixpoint primary_of (es : list entry) (acc : N) : N :=
    match es with
    | [] => acc
    | e :: r => primary_of r (if e_primary e then e_id e else acc)
    end.

  Definition entries_to_proto_keyset (es : list entry) : option pkeyset :=
    match es with
    | [] => None
    | _ =>
        match all_some (map entry_to_proto_key es) with
        | Some ks => Some (mkPkeyset (primary_of es 0) ks)
        | None => None
        end
    end.

  Definition proto_key_to_entry (primary : N) (k : pkey) : option entry :=
    match pk_data k with
    | None => None
    | Some d =>
        let idreq := if pk_prefix k =? prefix_raw then 0 else pk_id k in
        match new_key_serialization (kd_url d) (kd_value d) (kd_mat d) (pk_prefix k) idreq with
        | Some s =>
            match par_k s, status_from_proto (pk_status k) with
            | Some key, Some st => Some (mkEntry key (pk_id k =? primary) (pk_id k) st)
            | _, _ => None
            end
        | None => None
        end
    end.

  Definition keyset_to_entries (ks : pkeyset) : option (list entry) :=
    if validate ks then all_some (map (proto_key_to_entry (pks_primary ks)) (pks_keys ks)) else None.

  (* newFromEntries: a primary entry exists and no status is Unknown *)
  Definition new_from_entries (es : list entry) : option (list entry) :=
    if existsb e_primary es
       && forallb (fun e => match e_status e with Unknown => false | _ => true end) es
    then Some es else None.

  Definition handle_from_proto (ks : pkeyset) : option (list entry) :=
    match keyset_to_entries ks with Some es => new_from_entries es | None => None end.

  (* insecurecleartextkeyset.Write / Read with the binary writer / reader *)
  Definition write_cleartext (es : list entry) : option bytes :=
    option_map write_keyset (entries_to_proto_keyset es).
  Definition read_cleartext (b : bytes) : option (list entry) :=
    match read_keyset b with
    | Some ks => match pks_keys ks with [] => None | _ => handle_from_proto ks end
    | None => None
    end.

  (* Handle.WriteWithAssociatedData / keyset.ReadWithAssociatedData with the
     binary writer (which drops keyset_info) and reader *)
  Variable aead_enc : bytes -> bytes -> bytes.          (* associated data, plaintext *)
  Variable aead_dec : bytes -> bytes -> option bytes.   (* associated data, ciphertext *)

  Definition write_encrypted (es : list entry) (ad : bytes) : option bytes :=
    match entries_to_proto_keyset es with
    | Some ks => Some (encode encrypted_keyset_schema [VBytes (aead_enc ad (write_keyset ks)); VMsg None])
    | None => None
    end.
  Definition read_encrypted (b ad : bytes) : option (list entry) :=
    match decode encrypted_keyset_schema b with
    | Some [VBytes ct; _] =>
        match aead_dec ad ct with
        | Some pt => match read_keyset pt with Some ks => handle_from_proto ks | None => None end
        | None => None
        end
    | _ => None
    end.

  (* Handle.Public *)
  Variable pub_k : K -> option K.
  Definition public_handle (es : list entry) : option (list entry) :=
    match es with
    | [] => None
    | _ =>
        match all_some (map (fun e => match pub_k (e_key e) with
                                       | Some pk => Some (mkEntry pk (e_primary e) (e_id e) (e_status e))
                                       | None => None
                                       end) es) with
        | Some es' => new_from_entries es'
        | None => None
        end
    end.
End Keyset.

(* ------------------------------------------------------------------ *)
(* the public key of a private key, on serialisations: the private-key
   message carries the public-key message in field [pubfield] (2 or 3
   depending on the type; read from the descriptor by the harness)      *)
(* ------------------------------------------------------------------ *)
Definition mat_private : N := 2.
Definition mat_public : N := 3.
Definition public_of (T : ktype) (pubfield : N) (pub_url : bytes) (k : gkey) : option (schema * gkey) :=
  match get_field (kt_schema T) (gk_fields k) pubfield with
  | Some (TMsg ps, VMsg (Some pm)) => Some (ps, mkGkey pub_url mat_public (gk_variant k) (gk_id k) pm)
  | _ => None
  end.

(* ------------------------------------------------------------------ *)
(* the keys of a handle with a registry of types: a registered type URL
   parses into a generic key, any other into the fallback key that wraps
   its serialisation (internal/protoserialization.ParseKey)             *)
(* ------------------------------------------------------------------ *)
Inductive dkey := DK (T : ktype) (k : gkey) | DFallback (s : kser).
Definition dser (k : dkey) : option kser :=
  match k with DK T g => serialize_key T g | DFallback s => Some s end.
Definition dpar (reg : bytes -> option ktype) (s : kser) : option dkey :=
  match reg (ks_url s) with
  | Some T => match parse_key T s with Some g => Some (DK T g) | None => None end
  | None =>
      (* NewFallbackProtoKey -> calculateOutputPrefix: error outside TINK/LEGACY/RAW/CRUNCHY *)
      if legacy_prefix (ks_prefix s) then Some (DFallback s) else None
  end.
Definition dpub (reg : bytes -> option ktype) (pub_url : bytes -> option (bytes * N)) (k : dkey) : option dkey :=
  match k with
  | DK T g =>
      match pub_url (gk_url g) with
      | Some (pu, pf) =>
          match public_of T pf pu g, reg pu with
          | Some (_, pg), Some TP => Some (DK TP pg)
          | _, _ => None
          end
      | None => None
      end
  | DFallback _ => None
  end.

(* ------------------------------------------------------------------ *)
(* which types re-encode big integers (type URL -> normalisation)      *)
(* ------------------------------------------------------------------ *)
Require Import Coq.Strings.String Coq.Strings.Ascii.
Definition bytes_of_string (s : string) : bytes := List.map N_of_ascii (list_ascii_of_string s).
Definition tink_url (name : string) : bytes :=
  bytes_of_string (String.append "type.googleapis.com/google.crypto.tink." name).
Definition norm_table : list (bytes * norm_kind) := Eval vm_compute in
  [ (tink_url "EcdsaPublicKey", NKEcdsaPub); (tink_url "EcdsaPrivateKey", NKEcdsaPriv);
    (tink_url "JwtEcdsaPublicKey", NKJwtEcdsaPub); (tink_url "JwtEcdsaPrivateKey", NKJwtEcdsaPriv);
    (tink_url "EciesAeadHkdfPublicKey", NKEciesPub); (tink_url "EciesAeadHkdfPrivateKey", NKEciesPriv);
    (tink_url "RsaSsaPkcs1PublicKey", NKRsaPub); (tink_url "RsaSsaPkcs1PrivateKey", NKRsaPriv);
    (tink_url "RsaSsaPssPublicKey", NKRsaPub); (tink_url "RsaSsaPssPrivateKey", NKRsaPriv);
    (tink_url "JwtRsaSsaPkcs1PublicKey", NKJwtRsaPub); (tink_url "JwtRsaSsaPkcs1PrivateKey", NKJwtRsaPriv);
    (tink_url "JwtRsaSsaPssPublicKey", NKJwtRsaPub); (tink_url "JwtRsaSsaPssPrivateKey", NKJwtRsaPriv) ].
Definition norm_kind_of (url : bytes) : norm_kind :=
  match lookup_bytes norm_table url with Some k => k | None => NKNone end.

(* where the custom kid sits in the JWT key messages (proto/jwt_*.proto) *)
Definition jwt_kid_paths : list (bytes * list N) := Eval vm_compute in
  [ (tink_url "JwtEcdsaPublicKey", [5]); (tink_url "JwtEcdsaPrivateKey", [2; 5]);
    (tink_url "JwtRsaSsaPkcs1PublicKey", [5]); (tink_url "JwtRsaSsaPkcs1PrivateKey", [2; 5]);
    (tink_url "JwtRsaSsaPssPublicKey", [5]); (tink_url "JwtRsaSsaPssPrivateKey", [2; 5]);
    (tink_url "JwtMlDsaPublicKey", [4]); (tink_url "JwtMlDsaPrivateKey", [3; 4]);
    (tink_url "JwtHmacKey", [4]) ].

(* type URL -> prefix treatment (SerialTables.prefix_maps) *)
Definition prefix_kind_of (url : bytes) : option prefix_kind :=
  match lookup_bytes prefix_maps url with
  | Some (kind, (custom, (to_proto, (from_proto, from_proto_kid)))) =>
      if kind =? 1 then Some PIgnored
      else if kind =? 2 then
        match lookup_bytes jwt_kid_paths url with
        | Some path => Some (PJwt custom to_proto from_proto from_proto_kid path)
        | None => None
        end
      else Some (PTables to_proto from_proto)
  | None => None
  end.

(* the type of a registered URL, given the schema of its key message *)
Definition ktype_of (url : bytes) (s : schema) : option ktype :=
  match prefix_kind_of url with
  | Some pk => Some (mkKtype s pk (norm_kind_of url))
  | None => None
  end.

(* a named URL for examples *)
Definition aesgcm_url : bytes := Eval vm_compute in tink_url "AesGcmKey".
