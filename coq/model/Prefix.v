(* Output prefixes: internal/outputprefix/outputprefix.go, core/cryptofmt/cryptofmt.go
   (OutputPrefix), internal/protoserialization (calculateOutputPrefix) and the
   per-key-type calculateOutputPrefix functions all compute

     TINK            0x01 || be32(id)
     CRUNCHY, LEGACY 0x00 || be32(id)
     RAW             empty

   No proofs here: proofs/FactoryProofs.v. *)
From Coq Require Import List NArith Bool.
From Tink Require Import Bytes.
Import ListNotations.
Open Scope N_scope.

Inductive ptype := PTink | PCrunchy | PLegacy | PRaw.

Definition ptype_eqb (a b : ptype) : bool :=
  match a, b with
  | PTink, PTink | PCrunchy, PCrunchy | PLegacy, PLegacy | PRaw, PRaw => true
  | _, _ => false
  end.

Definition is_raw (p : ptype) : bool := match p with PRaw => true | _ => false end.

(* cryptofmt.NonRawPrefixSize, TinkStartByte, LegacyStartByte *)
Definition nonraw_prefix_size : nat := 5.
Definition tink_start_byte : N := 1.
Definition legacy_start_byte : N := 0.

(* calculatePrefixBytes(startByte, id): startByte || BigEndian.PutUint32(id) *)
Definition calc_prefix (start : N) (id : N) : bytes := start :: be_bytes 4 id.

Definition prefix_bytes (p : ptype) (id : N) : bytes :=
  match p with
  | PTink => calc_prefix tink_start_byte id
  | PCrunchy | PLegacy => calc_prefix legacy_start_byte id
  | PRaw => []
  end.
