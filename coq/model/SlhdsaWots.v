(* Model of internal/signature/slhdsa/wots.go, following the Go control flow:
   every function takes the (mutable) address and returns it next to its
   result, exactly as the Go code leaves it behind. *)
From Coq Require Import List NArith Bool Arith.
From Tink Require Import Bytes SlhdsaSupport SlhdsaAddr SlhdsaBase.
Import ListNotations.
Open Scope N_scope.

Section WOTS.
  Variable P : params.
  Variable HS : hashes.

  (* for j := i; j < i+s; j++ { adrs.setHashAddress(j); tmp = F(pkSeed, adrs, tmp) } *)
  Fixpoint chain (x : bytes) (i : N) (s : nat) (pk : bytes) (ad : address) : bytes * address :=
    match s with
    | O => (x, ad)
    | S s' => let ad' := setHashAddress i ad in
              chain (hF HS pk ad' x) (i + 1) s' pk ad'
    end.

  Fixpoint wotsPkGen_loop (cnt : nat) (i : nat) (skSeed pk : bytes) (skA ad : address) (tmp : bytes)
    : bytes * address :=
    match cnt with
    | O => (tmp, ad)
    | S c =>
      let skA' := setChainAddress (N.of_nat i) skA in
      let sk := hPrf HS pk skSeed skA' in
      let ad1 := setChainAddress (N.of_nat i) ad in
      let '(v, ad2) := chain sk 0 (p_w P - 1) pk ad1 in
      wotsPkGen_loop c (S i) skSeed pk skA' ad2 (tmp ++ v)
    end.

  Definition wotsPkGen (skSeed pk : bytes) (ad : address) : bytes * address :=
    let skA := setKeyPairAddress (keyPairAddress ad) (setTypeAndClear T_WOTSPRF ad) in
    let '(tmp, ad') := wotsPkGen_loop (p_len P) 0 skSeed pk skA ad [] in
    let pkA := setKeyPairAddress (keyPairAddress ad') (setTypeAndClear T_WOTSPK ad') in
    (hTl HS pk pkA tmp, ad').

  (* csum = csum + w - 1 - msgb[i] in uint32 *)
  Definition csum_of (msgb : list N) : N :=
    fold_left (fun c d => u32 (c + N.of_nat (p_w P) - 1 - d)) msgb 0.

  Definition wotsChecksum (msg : bytes) : list N :=
    let msgb := base2b msg (p_lgw P) (p_len1 P) in
    let csum := csum_of msgb in
    (* csum <<= (8 - ((len2*lgw) & 7)) & 7 *)
    let sh := ((8 - ((p_len2 P * p_lgw P) mod 8)) mod 8)%nat in
    let csum := u32 (N.shiftl csum (N.of_nat sh)) in
    let buf := toByte csum ((p_len2 P * p_lgw P + 7) / 8)%nat in
    msgb ++ base2b buf (p_lgw P) (p_len2 P).

  Fixpoint wotsSign_loop (cnt : nat) (i : nat) (msgw : list N) (skSeed pk : bytes) (skA ad : address)
    (sig : bytes) : bytes * address :=
    match cnt with
    | O => (sig, ad)
    | S c =>
      let skA' := setChainAddress (N.of_nat i) skA in
      let sk := hPrf HS pk skSeed skA' in
      let ad1 := setChainAddress (N.of_nat i) ad in
      let '(v, ad2) := chain sk 0 (N.to_nat (nth i msgw 0)) pk ad1 in
      wotsSign_loop c (S i) msgw skSeed pk skA' ad2 (sig ++ v)
    end.

  Definition wotsSign (msg skSeed pk : bytes) (ad : address) : bytes * address :=
    let msgw := wotsChecksum msg in
    let skA := setKeyPairAddress (keyPairAddress ad) (setTypeAndClear T_WOTSPRF ad) in
    wotsSign_loop (p_len P) 0 msgw skSeed pk skA ad [].

  Fixpoint wotsPkFromSig_loop (cnt : nat) (i : nat) (msgw : list N) (sig pk : bytes) (ad : address)
    (tmp : bytes) : bytes * address :=
    match cnt with
    | O => (tmp, ad)
    | S c =>
      let ad1 := setChainAddress (N.of_nat i) ad in
      let sigI := firstn (p_n P) (skipn (i * p_n P) sig) in
      let mi := nth i msgw 0 in
      let '(v, ad2) := chain sigI mi (N.to_nat (N.of_nat (p_w P) - 1 - mi)) pk ad1 in
      wotsPkFromSig_loop c (S i) msgw sig pk ad2 (tmp ++ v)
    end.

  Definition wotsPkFromSig (sig msg pk : bytes) (ad : address) : bytes * address :=
    let msgw := wotsChecksum msg in
    let '(tmp, ad') := wotsPkFromSig_loop (p_len P) 0 msgw sig pk ad [] in
    let pkA := setKeyPairAddress (keyPairAddress ad') (setTypeAndClear T_WOTSPK ad') in
    (hTl HS pk pkA tmp, ad').
End WOTS.
