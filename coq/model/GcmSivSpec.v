(* C01 — AES-GCM-SIV as RFC 8452 sections 3-4 specify it, written from the text of
   the RFC and NOT from internal/aead/aesgcmsiv.go: no running counter state, no
   Update/Finish, no byte poking.  128-bit quantities are little-endian integers
   (the RFC's reading of a block), POLYVAL is the field-level polyval_spec of
   Polyval.v (GF(2^128) arithmetic on N), the counter mode is given block by block
   as a function of the block index.  aes k b = AES block encryption.
   No proofs here: proofs/GcmSivSpecProofs.v shows that the model of the code
   (GcmSiv.siv_enc) produces exactly this for all inputs within the code's limits. *)
From Coq Require Import List NArith Bool Arith.
From Tink Require Import Bytes Polyval.
Import ListNotations.
Open Scope N_scope.

Section RFC8452.
  Variable aes : bytes -> bytes -> bytes.     (* key block *)

  (* derive_keys: the i-th 8-byte piece is the first half of
     AES(key_generating_key, little_endian_uint32(i) ++ nonce) *)
  Definition rfc_piece (K nonce : bytes) (i : N) : bytes :=
    firstn 8 (aes K (le_bytes 4 i ++ nonce)).
  Definition rfc_auth_key (K nonce : bytes) : bytes := flat_map (rfc_piece K nonce) [0; 1].
  Definition rfc_enc_key (K nonce : bytes) : bytes :=
    flat_map (rfc_piece K nonce) (if Nat.eqb (length K) 32 then [2; 3; 4; 5] else [2; 3]).

  (* length_block = little_endian_uint64(bytelen(additional_data) * 8) ++
                    little_endian_uint64(bytelen(plaintext) * 8) *)
  Definition rfc_length_block (pt ad : bytes) : bytes :=
    le_bytes 8 (8 * N.of_nat (length ad)) ++ le_bytes 8 (8 * N.of_nat (length pt)).

  (* S_s = POLYVAL(message_authentication_key,
                   right_pad_16(additional_data) ++ right_pad_16(plaintext) ++ length_block),
     over the 16-byte blocks of that string, as a 128-bit little-endian integer *)
  Definition rfc_S (K nonce pt ad : bytes) : N :=
    le_val (polyval_spec (rfc_auth_key K nonce)
                         (chunks 16 (pad16 ad ++ pad16 pt ++ rfc_length_block pt ad))).

  (* "for i = 0; i < 12; i++ { S_s[i] ^= nonce[i] };  S_s[15] &= 0x7f;
     tag = AES(message_encryption_key, S_s)":  XOR with the 96-bit nonce in the low
     bits, clear bit 127 *)
  Definition rfc_tag (K nonce pt ad : bytes) : bytes :=
    aes (rfc_enc_key K nonce)
        (le_bytes 16 (N.land (N.lxor (rfc_S K nonce pt ad) (le_val nonce)) (N.ones 127))).

  (* AES_CTR with initial counter block = tag with bit 127 set: block number i is
     little_endian_uint32((first 32 bits + i) mod 2^32) ++ the other 96 bits unchanged *)
  Definition rfc_counter_block (tag : bytes) (i : N) : bytes :=
    let cb := N.lor (le_val tag) (2 ^ 127) in
    le_bytes 4 ((cb mod 2 ^ 32 + i) mod 2 ^ 32) ++ le_bytes 12 (cb / 2 ^ 32).
  Definition rfc_keystream (Kenc tag : bytes) (nblocks : nat) : bytes :=
    flat_map (fun i => aes Kenc (rfc_counter_block tag (N.of_nat i))) (seq 0 nblocks).
  (* output = input XOR the first bytelen(input) keystream bytes (xorb stops at the shorter) *)
  Definition rfc_ctr (Kenc tag inp : bytes) : bytes :=
    xorb inp (rfc_keystream Kenc tag ((length inp + 15) / 16)).

  (* encrypt(key_generating_key, nonce, plaintext, additional_data) = ciphertext ++ tag *)
  Definition rfc8452_encrypt (K nonce pt ad : bytes) : bytes :=
    let tag := rfc_tag K nonce pt ad in
    rfc_ctr (rfc_enc_key K nonce) tag pt ++ tag.
End RFC8452.
