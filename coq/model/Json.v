(* JSON TEXT layer of property C09: an executable, total parser from bytes to
   the json values of model/Jwt.v, written from RFC 8259 and from the parser
   the jwt package really calls:

     structpb.Struct.UnmarshalJSON = protojson.Unmarshal on google.protobuf.Struct
       google.golang.org/protobuf v1.36.11 (the version /repo's go.mod pins)
       internal/encoding/json/decode.go         Decoder.Read / parseNext / consume
       internal/encoding/json/decode_string.go  parseString
       internal/encoding/json/decode_number.go  parseNumber
       encoding/protojson/decode.go             unmarshal, unmarshalMessage, unmarshalMap,
                                                unmarshalList, unmarshalFloat
       encoding/protojson/well_known_types.go   unmarshalStruct / ListValue / KnownValue

   Two stages, as in the library: a context-free tokenizer (lex: whitespace =
   the four bytes 20 09 0A 0D; literals and numbers must be followed by a
   delimiter or the end of input; strings are validated as UTF-8 rune by rune,
   control characters below 0x20 refused, the eight simple escapes, \uXXXX with
   exactly four hex digits, a surrogate escape only as a high+low pair) and a
   consumer of the token sequence (pvalue / pelems / pmembers: RFC 8259
   structure, no trailing comma, a member name already present in the same
   object is an error, every google.protobuf.Value costs one level of the
   recursion budget 10000 of which the top-level Struct takes the first, the
   top level must be an object, and nothing but whitespace may follow).  null
   is a value (NullValue) everywhere inside a Struct / ListValue.

   Every failure of the library is one verdict here (None): the library stops
   at the first error, the model tokenizes everything and then consumes; the
   accepted set and the value are the same.

   Numbers.  The literal is kept as exact decimal data (numlit).  json_parse_text
   is generic in a number oracle num_of_literal and converts by itself only a
   literal without fraction and exponent whose magnitude is below 2^53
   (lit_plain; "-0" is read as the integer 0: the view of model/Jwt.v does not
   distinguish the float -0 from 0, and neither does the harness, whose
   canonical text of a float f is int64(f) + a residual text that is empty for
   every integral f of magnitude below 2^53, -0 included).  Property C09 runs
   json_parse_x num = json_parse_text (num_x num) (end of the Section Parse):
   num_x decides INSIDE the model, by exact integer arithmetic on the decimal
   data (lit_class), every literal - in ANY spelling: fraction digits, exponent,
   1700003600.0, 17000036e2, 1.7000036E+9, 100e-2, 0e99, 1e-400 - whose
   rational value is an integer of magnitude below 2^53 (exactly representable,
   so the correctly rounded float64 is that integer and int64 of it is that
   integer), whose value rounds to +-0 (0 < |value| <= 2^-1075: accepted by
   strconv.ParseFloat without error, read as 0), or whose value rounds to
   +-Inf (|value| >= 2^1024 - 2^970: strconv.ParseFloat reports a range error
   and protojson refuses the text).  Only the REST - values that are not
   integers, and integers of magnitude >= 2^53 below the overflow bound - goes
   to the oracle num (strconv.ParseFloat(.,64) followed by the view of
   model/Jwt.v: int64(value) and the shortest decimal text), answered per
   literal at run time.  There the model FOLLOWS the oracle; in particular
   int64(f) for |f| >= 2^63 is whatever the Go compiler's conversion yields on
   the platform of the run (the language leaves it implementation-defined), and
   two kinds of literal are left to the oracle ALTOGETHER, because there
   strconv.ParseFloat does not return the correctly rounded value of the
   literal (go1.25.11, the toolchain /repo pins; the first also reproduced on
   1.23.5 and 1.26.8):
     (1) an integer part of more than 800 digits: the 800-digit decimal buffer
         drops the excess integer digits without adjusting the decimal point
         when the fast paths do not apply ("17000036" ++ 900 zeros ++ "1e-899"
         is read as 1.7000036e-100);
     (2) a non-zero mantissa with an exponent of magnitude >= 10000: the
         exponent is accumulated with  if e < 10000 { e = e*10 + d } , so its
         digits from the point where it reaches 10000 on are DROPPED ("1e100000"
         is read as 1e10000, and  "0." ++ 99999 zeros ++ "1e100000", whose value
         is 1, is read as 0 without error).  A zero mantissa is read as 0
         whatever the exponent, so 0e999999999999 stays decided.
   The exact decisions of the model therefore hold within a DIGIT BUDGET:
   at most 800 integer digits (int_digits_ok) and, unless the mantissa is zero,
   an exponent of magnitude below 10000 (exp_digits_ok).

   json_print_text is a printer for the round-trip theorem (compact, names in
   list order; it is NOT protojson's output format, which is deliberately
   unstable).  No proofs here: proofs/JsonProofs.v. *)
From Coq Require Import List NArith ZArith Bool.
From Tink Require Import Bytes Base64url Jwt Jwk.
Import ListNotations.
Open Scope N_scope.

(* ================= tokens ================= *)
Inductive token :=
| TNull
| TBool (b : bool)
| TNum (t : Z) (repr : bytes)
| TStr (s : bytes)
| TLBrace | TRBrace | TLBrack | TRBrack | TComma | TColon.

(* sign, integer digits, fraction digits, exponent (sign, digits); digits are
   kept as their ASCII bytes *)
Record numlit := mkLit {
  nl_neg : bool; nl_int : bytes; nl_frac : bytes; nl_exp : option (bool * bytes) }.

(* consume: ' ', '\n', '\r', '\t' *)
Definition is_ws (c : N) : bool := (c =? 32) || (c =? 10) || (c =? 13) || (c =? 9).
Fixpoint skip_ws (s : bytes) : bytes :=
  match s with
  | c :: t => if is_ws c then skip_ws t else s
  | [] => []
  end.

Definition is_digit (c : N) : bool := (48 <=? c) && (c <=? 57).

(* isNotDelim: - + . _ a-z A-Z 0-9 *)
Definition is_not_delim (c : N) : bool :=
  (c =? 45) || (c =? 43) || (c =? 46) || (c =? 95)
  || ((97 <=? c) && (c <=? 122)) || ((65 <=? c) && (c <=? 90)) || is_digit c.
(* matchWithDelim / the last test of parseNumber: end of input, or a delimiter *)
Definition delim_next (s : bytes) : bool :=
  match s with [] => true | c :: _ => negb (is_not_delim c) end.

(* ---- strings (parseString) ---- *)
Definition hexval (c : N) : option N :=
  if is_digit c then Some (c - 48)
  else if (97 <=? c) && (c <=? 102) then Some (c - 87)
  else if (65 <=? c) && (c <=? 70) then Some (c - 55)
  else None.
Definition hex4 (a b c d : N) : option N :=
  match hexval a, hexval b, hexval c, hexval d with
  | Some x, Some y, Some z, Some w => Some (((x * 16 + y) * 16 + z) * 16 + w)
  | _, _, _, _ => None
  end.

(* utf16.IsSurrogate; DecodeRune accepts only high (D800-DBFF) then low (DC00-DFFF) *)
Definition is_surrogate (u : N) : bool := (55296 <=? u) && (u <? 57344).
Definition is_high (u : N) : bool := (55296 <=? u) && (u <? 56320).
Definition is_low (u : N) : bool := (56320 <=? u) && (u <? 57344).
Definition pair_cp (hi lo : N) : N := 65536 + (hi - 55296) * 1024 + (lo - 56320).

(* append(out, string(rune)...) for a code point that is not a surrogate *)
Definition utf8_enc (u : N) : bytes :=
  if u <? 128 then [u]
  else if u <? 2048 then [192 + u / 64; 128 + u mod 64]
  else if u <? 65536 then [224 + u / 4096; 128 + (u / 64) mod 64; 128 + u mod 64]
  else [240 + u / 262144; 128 + (u / 4096) mod 64; 128 + (u / 64) mod 64; 128 + u mod 64].

(* quote, backslash, slash, b f n r t *)
Definition simple_escape (e : N) : option N :=
  if e =? 34 then Some 34 else if e =? 92 then Some 92 else if e =? 47 then Some 47
  else if e =? 98 then Some 8 else if e =? 102 then Some 12 else if e =? 110 then Some 10
  else if e =? 114 then Some 13 else if e =? 116 then Some 9 else None.

Definition push (pre : bytes) (r : option (bytes * bytes)) : option (bytes * bytes) :=
  match r with Some (s, rest) => Some (pre ++ s, rest) | None => None end.

(* the text after the opening quote -> (decoded string, text after the closing
   quote).  The raw-byte branches are utf8.DecodeRune (same case split as
   Jwt.utf8_valid: no overlongs, no encoded surrogates, <= U+10FFFF). *)
Fixpoint lex_string (s : bytes) : option (bytes * bytes) :=
  match s with
  | [] => None
  | x :: t =>
    if x =? 34 then Some ([], t)
    else if x =? 92 then
      match t with
      | [] => None
      | e :: t1 =>
        match simple_escape e with
        | Some c => push [c] (lex_string t1)
        | None =>
          if e =? 117 then
            match t1 with
            | a :: b :: c :: d :: t2 =>
              match hex4 a b c d with
              | None => None
              | Some u =>
                if is_surrogate u then
                  match t2 with
                  | bs :: uu :: a2 :: b2 :: c2 :: d2 :: t3 =>
                    if (bs =? 92) && (uu =? 117) then
                      match hex4 a2 b2 c2 d2 with
                      | Some lo =>
                        if is_high u && is_low lo then push (utf8_enc (pair_cp u lo)) (lex_string t3)
                        else None
                      | None => None
                      end
                    else None
                  | _ => None
                  end
                else push (utf8_enc u) (lex_string t2)
              end
            | _ => None
            end
          else None
        end
      end
    else if x <? 32 then None
    else if x <? 128 then push [x] (lex_string t)
    else if inr 194 223 x then
      match t with
      | y :: t1 => if cont y then push [x; y] (lex_string t1) else None
      | _ => None
      end
    else if inr 224 239 x then
      match t with
      | y :: z :: t2 =>
        if (if x =? 224 then inr 160 191 y else if x =? 237 then inr 128 159 y else cont y) && cont z
        then push [x; y; z] (lex_string t2) else None
      | _ => None
      end
    else if inr 240 244 x then
      match t with
      | y :: z :: w :: t3 =>
        if (if x =? 240 then inr 144 191 y else if x =? 244 then inr 128 143 y else cont y)
           && cont z && cont w
        then push [x; y; z; w] (lex_string t3) else None
      | _ => None
      end
    else None
  end.

(* ---- numbers (parseNumber) ---- *)
Fixpoint span_digits (s : bytes) : bytes * bytes :=
  match s with
  | c :: t => if is_digit c then let (ds, r) := span_digits t in (c :: ds, r) else ([], s)
  | [] => ([], [])
  end.

(* "0" | [1-9][0-9]* *)
Definition lex_int (s : bytes) : option (bytes * bytes) :=
  match s with
  | c :: t =>
    if c =? 48 then Some ([48], t)
    else if is_digit c then let (ds, r) := span_digits t in Some (c :: ds, r)
    else None
  | [] => None
  end.

(* '.' followed by one or more digits, else nothing is consumed *)
Definition lex_frac (s : bytes) : bytes * bytes :=
  match s with
  | p :: d :: t =>
    if (p =? 46) && is_digit d then let (ds, r) := span_digits t in (d :: ds, r) else ([], s)
  | _ => ([], s)
  end.

(* e|E, optional sign, one or more digits, else nothing is consumed.  (The
   library also cuts "1e" / "1e+" off as a Number token when a delimiter
   follows and refuses it in strconv.ParseFloat; here the 'e' stays and fails
   the delimiter test: the same verdict.) *)
Definition lex_exp (s : bytes) : option (bool * bytes) * bytes :=
  match s with
  | e :: c :: t1 =>
    if (e =? 101) || (e =? 69) then
      if is_digit c then let (ds, r) := span_digits t1 in (Some (false, c :: ds), r)
      else if (c =? 43) || (c =? 45) then
        match t1 with
        | d :: t2 =>
          if is_digit d then let (ds, r) := span_digits t2 in (Some (c =? 45, d :: ds), r)
          else (None, s)
        | [] => (None, s)
        end
      else (None, s)
    else (None, s)
  | _ => (None, s)
  end.

Definition lex_number (s : bytes) : option (numlit * bytes) :=
  let (neg, s1) := match s with
                   | c :: t => if c =? 45 then (true, t) else (false, s)
                   | [] => (false, s)
                   end in
  match lex_int s1 with
  | None => None
  | Some (ip, s2) =>
    let (fr, s3) := lex_frac s2 in
    let (ex, s4) := lex_exp s3 in
    if delim_next s4 then Some (mkLit neg ip fr ex, s4) else None
  end.

Definition digit_val (c : N) : N := c - 48.
Definition dec_val (ds : bytes) : N := fold_left (fun a c => a * 10 + digit_val c) ds 0.

Definition two53 : N := 9007199254740992.

(* the exact path: an integer literal of magnitude < 2^53 is its own float64
   value (the length test only keeps dec_val off absurdly long literals: 17
   digits without a leading zero are >= 10^16 > 2^53) *)
Definition lit_plain (l : numlit) : option Z :=
  match nl_frac l, nl_exp l with
  | [], None =>
    if (length (nl_int l) <=? 16)%nat && (dec_val (nl_int l) <? two53)
    then Some (if nl_neg l then (- Z.of_N (dec_val (nl_int l)))%Z else Z.of_N (dec_val (nl_int l)))
    else None
  | _, _ => None
  end.

(* strip_prefix p s = Some r  iff  s = p ++ r *)
Fixpoint strip_prefix (p s : bytes) : option bytes :=
  match p with
  | [] => Some s
  | a :: p' => match s with
               | b :: s' => if a =? b then strip_prefix p' s' else None
               | [] => None
               end
  end.

Definition lit_ull : bytes := [117; 108; 108].
Definition lit_rue : bytes := [114; 117; 101].
Definition lit_alse : bytes := [97; 108; 115; 101].

Section Parse.
  (* strconv.ParseFloat(literal, 64) seen through model/Jwt.v's number view:
     Some (int64(f), shortest decimal text of f, empty when f is an integer
     below 2^53 in magnitude); None when ParseFloat reports a range error *)
  Variable num_of_literal : numlit -> option (Z * bytes).

  Definition num_value (l : numlit) : option (Z * bytes) :=
    match lit_plain l with
    | Some z => Some (z, [])
    | None => num_of_literal l
    end.

  Definition lex_literal (rest_name : bytes) (tok : token) (t : bytes) : option (token * bytes) :=
    match strip_prefix rest_name t with
    | Some r => if delim_next r then Some (tok, r) else None
    | None => None
    end.

  (* parseNext on a non-empty input c :: t that does not start with whitespace *)
  Definition lex_one (c : N) (t : bytes) : option (token * bytes) :=
    if c =? 123 then Some (TLBrace, t)
    else if c =? 125 then Some (TRBrace, t)
    else if c =? 91 then Some (TLBrack, t)
    else if c =? 93 then Some (TRBrack, t)
    else if c =? 44 then Some (TComma, t)
    else if c =? 58 then Some (TColon, t)
    else if c =? 34 then
      match lex_string t with Some (s, r) => Some (TStr s, r) | None => None end
    else if c =? 110 then lex_literal lit_ull TNull t
    else if c =? 116 then lex_literal lit_rue (TBool true) t
    else if c =? 102 then lex_literal lit_alse (TBool false) t
    else if (c =? 45) || is_digit c then
      match lex_number (c :: t) with
      | Some (l, r) => match num_value l with
                       | Some (z, x) => Some (TNum z x, r)
                       | None => None
                       end
      | None => None
      end
    else None.

  (* every token consumes at least one byte: fuel = S (length s) is enough *)
  Fixpoint lex_f (fuel : nat) (s : bytes) : option (list token) :=
    match fuel with
    | O => None
    | S f =>
      match skip_ws s with
      | [] => Some []
      | c :: t =>
        match lex_one c t with
        | None => None
        | Some (tok, rest) =>
          match lex_f f rest with
          | Some ts => Some (tok :: ts)
          | None => None
          end
        end
      end
    end.
  Definition lex (s : bytes) : option (list token) := lex_f (S (length s)) s.

  (* ================= the consumer (protojson on Struct / Value / ListValue) ================= *)

  (* d = what is left of the recursion budget: a Value needs one level *)
  Fixpoint pvalue (fuel d : nat) (ts : list token) {struct fuel} : option (json * list token) :=
    match fuel, d with
    | S f, S d' =>
      match ts with
      | TNull :: r => Some (JNull, r)
      | TBool b :: r => Some (JBool b, r)
      | TNum t x :: r => Some (JNum t x, r)
      | TStr s :: r => Some (JStr s, r)
      | TLBrack :: r =>
        match r with
        | TRBrack :: r' => Some (JArr [], r')
        | _ => match pelems f d' r with
               | Some (l, r') => Some (JArr l, r')
               | None => None
               end
        end
      | TLBrace :: r =>
        match r with
        | TRBrace :: r' => Some (JObj [], r')
        | _ => match pmembers f d' r with
               | Some (m, r') => Some (JObj m, r')
               | None => None
               end
        end
      | _ => None
      end
    | _, _ => None
    end
  (* one or more values separated by commas, then ']' *)
  with pelems (fuel d : nat) (ts : list token) {struct fuel} : option (list json * list token) :=
    match fuel with
    | S f =>
      match pvalue f d ts with
      | Some (v, TComma :: r) =>
        match pelems f d r with
        | Some (l, r') => Some (v :: l, r')
        | None => None
        end
      | Some (v, TRBrack :: r) => Some ([v], r)
      | _ => None
      end
    | O => None
    end
  (* one or more  name : value  separated by commas, then '}'; a name that
     occurs twice in the same object is an error (mmap.Has(pkey)) *)
  with pmembers (fuel d : nat) (ts : list token) {struct fuel} : option (fields * list token) :=
    match fuel with
    | S f =>
      match ts with
      | TStr k :: TColon :: r =>
        match pvalue f d r with
        | Some (v, TComma :: r') =>
          match pmembers f d r' with
          | Some (m, r'') => if has k m then None else Some ((k, v) :: m, r'')
          | None => None
          end
        | Some (v, TRBrace :: r') => Some ([(k, v)], r')
        | _ => None
        end
      | _ => None
      end
    | O => None
    end.

  (* protowire.DefaultRecursionLimit *)
  Definition recursion_limit : nat := N.to_nat 10000.

  (* protojson.Unmarshal into a Struct: one object, then EOF *)
  Definition parse_tokens (ts : list token) : option fields :=
    match pvalue (S (length ts)) recursion_limit ts with
    | Some (JObj m, []) => Some m
    | _ => None
    end.

  (* structpb.Struct.UnmarshalJSON *)
  Definition json_parse_text (s : bytes) : option fields :=
    match lex s with
    | Some ts => parse_tokens ts
    | None => None
    end.

  (* ---- the two uses in /repo ---- *)
  (* jwt: jsonToStruct (header) and NewRawJWTFromJSON (payload) *)
  Definition verify_text (sig_valid : N -> bytes -> bytes -> bool) :=
    verify sig_valid json_parse_text.
  (* internal/jwk ToPublicKeysetHandle: jwk.UnmarshalJSON(jwkSet), then the keys *)
  Definition jwk_import_text (on_curve : hsz -> bytes -> bool) (s : bytes) : option (list pubkey) :=
    match json_parse_text s with
    | Some f => jwk_import on_curve (JObj f)
    | None => None
    end.
  Definition jwk_import_handle_text (on_curve : hsz -> bytes -> bool) (ids : list N) (s : bytes)
    : option (keyset * N) :=
    match json_parse_text s with
    | Some f => jwk_import_handle on_curve ids (JObj f)
    | None => None
    end.
End Parse.

(* ================= the number literals the model decides itself ================= *)
(* The rational value of a literal is  (-1)^neg * lit_num l / lit_den l  with
     lit_mant  = the integer written by the integer digits followed by the fraction digits
     lit_exp10 = (the signed exponent, 0 when absent) - (number of fraction digits)
     lit_num   = lit_mant * 10^max(lit_exp10, 0)      lit_den = 10^max(-lit_exp10, 0).
   float64 facts used (IEEE 754 binary64, round to nearest even, which is what a
   correctly rounded strconv.ParseFloat returns):
     an integer of magnitude < 2^53 is representable: the result is that integer;
     0 < |v| <= 2^-1075 rounds to +-0 (the tie goes to the even mantissa 0): no error;
     |v| >= 2^1024 - 2^970 = f64_over rounds to +-Inf: ParseFloat reports ErrRange. *)
Inductive numclass :=
| NCInt (z : Z)      (* the float64 is the integer z, |z| < 2^53 (z = 0 also for -0 and for underflow) *)
| NCOverflow         (* out of the float64 range: the text is refused *)
| NCOracle.          (* anything else: the oracle answers *)

Definition lit_digits (l : numlit) : bytes := nl_int l ++ nl_frac l.
Definition lit_mant (l : numlit) : N := dec_val (lit_digits l).
Definition exp_val (ex : option (bool * bytes)) : Z :=
  match ex with
  | None => 0%Z
  | Some (neg, ds) => if neg then (- Z.of_N (dec_val ds))%Z else Z.of_N (dec_val ds)
  end.
Definition lit_exp10 (l : numlit) : Z := (exp_val (nl_exp l) - Z.of_nat (length (nl_frac l)))%Z.
Definition lit_num (l : numlit) : N := lit_mant l * 10 ^ Z.to_N (lit_exp10 l).
Definition lit_den (l : numlit) : N := 10 ^ Z.to_N (- lit_exp10 l).
Definition lit_sign (l : numlit) (v : N) : Z := if nl_neg l then (- Z.of_N v)%Z else Z.of_N v.

(* the smallest magnitude that rounds to infinity: halfway between the largest
   finite float64 (2^1024 - 2^971) and 2^1024 *)
Definition f64_over : N := 2 ^ 1024 - 2 ^ 970.
(* the decimal buffer of strconv (800 digits) is exact for the integer part up to here *)
Definition max_int_digits : nat := 800.
(* strconv reads the exponent with  if e < 10000 { e = e*10 + digit } : below
   this magnitude no digit of the exponent is dropped *)
Definition max_exp10 : Z := 10000.

(* Outside the digit budget (more than 800 integer digits; exponent magnitude
   >= 10000 on a non-zero mantissa) the literal goes to the oracle.  Inside it,
   two guards keep the powers of ten small: a non-zero literal with exponent
   above 400 is >= 10^401 > f64_over; one whose exponent is below
   -(number of digits + 400) is < 10^-400 < 2^-1075.  Between them 10^|e| has
   at most (number of digits + 401) digits. *)
Definition lit_class (l : numlit) : numclass :=
  if (max_int_digits <? length (nl_int l))%nat then NCOracle
  else
    let m := lit_mant l in
    if m =? 0 then NCInt 0
    else if (max_exp10 <=? Z.abs (exp_val (nl_exp l)))%Z then NCOracle
    else
      let e := lit_exp10 l in
      if (400 <? e)%Z then NCOverflow
      else if (e <? - (Z.of_nat (length (lit_digits l)) + 400))%Z then NCInt 0
      else
        let a := m * 10 ^ Z.to_N e in
        let b := 10 ^ Z.to_N (- e) in
        if (a mod b =? 0) && (a / b <? two53) then NCInt (lit_sign l (a / b))
        else if N.shiftl a 1075 <=? b then NCInt 0
        else if f64_over * b <=? a then NCOverflow
        else NCOracle.

(* the number oracle property C09 runs with: num is consulted for NCOracle only *)
Definition num_x (num : numlit -> option (Z * bytes)) (l : numlit) : option (Z * bytes) :=
  match lit_class l with
  | NCInt z => Some (z, [])
  | NCOverflow => None
  | NCOracle => num l
  end.

(* structpb.Struct.UnmarshalJSON as property C09 models it *)
Definition json_parse_x (num : numlit -> option (Z * bytes)) : bytes -> option fields :=
  json_parse_text (num_x num).

(* ================= protojson's number TOKEN on the INTEGER path ================= *)
(* internal/encoding/json/decode_number.go parseNumber consumes, after the
   integer and fraction parts, 'e' / 'E' (when at least one more byte of input
   follows), an optional sign and ZERO or more digits, and then only tests that a
   delimiter (or the end) follows.  So "1e" followed by a delimiter is a Number
   token.  What becomes of it depends on the consumer:
     Token.Float (structpb, property C09): strconv.ParseFloat("1e") fails - the
       text is refused, as lex_exp above has it;
     Token.Uint / Token.Int (uint32 and enum fields of a schema: the keyset JSON
       reader, properties C12 / C14): parseNumberParts("1e") does not read the
       exponent part (its own test is len(s) >= 2 on the TOKEN) and returns the
       parts of "1": the value is 1.  With a sign ("1e+", "1e-") parseNumberParts
       fails, so only the bare marker matters.
   lex_dangling reads such a token and returns the literal WITHOUT exponent (what
   parseNumberParts makes of it) and the text from the delimiter on; the marker
   must be followed by a byte (a delimiter).  lex_one_pj is lex_one with that
   fallback, json_parse_text_pj the text parser on top of it.  Used by
   model/JsonKeyset.v only; for which texts it differs from json_parse_text:
   proofs/JsonPjProofs.v. *)
Definition lex_dangling_u (neg : bool) (s1 : bytes) : option (numlit * bytes) :=
  match lex_int s1 with
  | None => None
  | Some (ip, s2) =>
    let (fr, s3) := lex_frac s2 in
    match s3 with
    | e :: c :: t =>
      if ((e =? 101) || (e =? 69)) && negb (is_not_delim c) then Some (mkLit neg ip fr None, c :: t) else None
    | _ => None
    end
  end.
Definition lex_dangling (s : bytes) : option (numlit * bytes) :=
  match s with
  | c :: t => if c =? 45 then lex_dangling_u true t else lex_dangling_u false s
  | [] => None
  end.
(* the first Number token of a text as Token.Uint / Token.Int see it *)
Definition lex_number_pj (s : bytes) : option (numlit * bytes) :=
  match lex_number s with
  | Some r => Some r
  | None => lex_dangling s
  end.

Section ParsePj.
  Variable num_of_literal : numlit -> option (Z * bytes).

  Definition lex_one_pj (c : N) (t : bytes) : option (token * bytes) :=
    match lex_one num_of_literal c t with
    | Some x => Some x
    | None =>
      match lex_dangling (c :: t) with
      | Some (l, r) => match num_value num_of_literal l with
                       | Some (z, x) => Some (TNum z x, r)
                       | None => None
                       end
      | None => None
      end
    end.

  Fixpoint lex_f_pj (fuel : nat) (s : bytes) : option (list token) :=
    match fuel with
    | O => None
    | S f =>
      match skip_ws s with
      | [] => Some []
      | c :: t =>
        match lex_one_pj c t with
        | None => None
        | Some (tok, rest) =>
          match lex_f_pj f rest with
          | Some ts => Some (tok :: ts)
          | None => None
          end
        end
      end
    end.
  Definition lex_pj (s : bytes) : option (list token) := lex_f_pj (S (length s)) s.

  Definition json_parse_text_pj (s : bytes) : option fields :=
    match lex_pj s with
    | Some ts => parse_tokens ts
    | None => None
    end.
End ParsePj.

(* ================= the value side: tokens of a value, its shape ================= *)
Fixpoint join_comma (ls : list (list token)) : list token :=
  match ls with
  | [] => []
  | x :: r => match r with [] => x | _ => x ++ TComma :: join_comma r end
  end.

(* the one token sequence that spells a value (members in list order) *)
Fixpoint toks (v : json) : list token :=
  match v with
  | JNull => [TNull]
  | JBool b => [TBool b]
  | JNum t x => [TNum t x]
  | JStr s => [TStr s]
  | JArr l => TLBrack :: join_comma (map toks l) ++ [TRBrack]
  | JObj f => TLBrace :: join_comma (map (fun kv => TStr (fst kv) :: TColon :: toks (snd kv)) f) ++ [TRBrace]
  end.

(* no member name occurs twice in one object, at any depth *)
Fixpoint names_unique (f : fields) : bool :=
  match f with
  | [] => true
  | (k, _) :: r => negb (has k r) && names_unique r
  end.
Fixpoint nodup_names (v : json) : bool :=
  match v with
  | JArr l => forallb nodup_names l
  | JObj f => names_unique f && forallb (fun kv => nodup_names (snd kv)) f
  | _ => true
  end.

(* nesting: a scalar is 1 *)
Fixpoint jdepth (v : json) : nat :=
  match v with
  | JArr l => S (list_max (map jdepth l))
  | JObj f => S (list_max (map (fun kv => jdepth (snd kv)) f))
  | _ => 1
  end.

(* ================= a printer ================= *)
(* decimal digits of n < 10^fuel *)
Fixpoint digits_f (fuel : nat) (n : N) : bytes :=
  match fuel with
  | O => []
  | S f => if n <? 10 then [48 + n] else digits_f f (n / 10) ++ [48 + n mod 10]
  end.
Definition print_nat (n : N) : bytes := digits_f 20 n.
Definition print_zint (z : Z) : bytes :=
  match z with
  | Zneg p => 45 :: print_nat (Npos p)
  | _ => print_nat (Z.to_N z)
  end.

Definition hexdigit (x : N) : N := if x <? 10 then 48 + x else 87 + x.
(* quote and backslash escaped, control characters as \u00XX, everything else raw *)
Fixpoint escape (s : bytes) : bytes :=
  match s with
  | [] => []
  | x :: t =>
    if x =? 34 then 92 :: 34 :: escape t
    else if x =? 92 then 92 :: 92 :: escape t
    else if x <? 32 then 92 :: 117 :: 48 :: 48 :: hexdigit (x / 16) :: hexdigit (x mod 16) :: escape t
    else x :: escape t
  end.
Definition print_jstr (s : bytes) : bytes := 34 :: escape s ++ [34].

Fixpoint join_bytes (sep : N) (ls : list bytes) : bytes :=
  match ls with
  | [] => []
  | x :: r => match r with [] => x | _ => x ++ sep :: join_bytes sep r end
  end.

(* a number outside the exact path prints its residual text (the shortest
   decimal text of the float); the round-trip theorem is about the exact path *)
Fixpoint print_value (v : json) : bytes :=
  match v with
  | JNull => [110; 117; 108; 108]
  | JBool true => [116; 114; 117; 101]
  | JBool false => [102; 97; 108; 115; 101]
  | JNum t x => match x with [] => print_zint t | _ => x end
  | JStr s => print_jstr s
  | JArr l => 91 :: join_bytes 44 (map print_value l) ++ [93]
  | JObj f => 123 :: join_bytes 44 (map (fun kv => print_jstr (fst kv) ++ 58 :: print_value (snd kv)) f) ++ [125]
  end.
Definition json_print_text (f : fields) : bytes := print_value (JObj f).

(* the printer's domain: strings and names valid UTF-8, no duplicate names,
   numbers on the exact path, nesting within the recursion budget *)
Fixpoint nums_exact (v : json) : bool :=
  match v with
  | JNum t x => match x with [] => (Z.abs t <? Z.of_N two53)%Z | _ => false end
  | JArr l => forallb nums_exact l
  | JObj f => forallb (fun kv => nums_exact (snd kv)) f
  | _ => true
  end.
Definition printable (v : json) : bool :=
  json_utf8 v && nodup_names v && nums_exact v && (jdepth v <=? recursion_limit)%nat.
