(* A model of Go byte slices: arrays with identity, slices = (array, offset,
   length, capacity), and the operations whose aliasing behaviour property C19
   is about: s[lo:hi], s[lo:hi:max], s[i] = v, append (in place when capacity
   allows), copy, slices.Concat, bytes.Clone.  Executable; validated against the
   Go runtime on random slice programs (harness/p/c19).  No proofs here. *)
From Coq Require Import List NArith Arith Bool.
Import ListNotations.

Definition heap := list (list N).          (* array id = position *)
Record slice := mkSlice { arr : nat; off : nat; len : nat; cap : nat }.

Definition array (h : heap) (a : nat) : list N := nth a h [].

(* the bytes visible through a slice, and through its full capacity *)
Definition read (h : heap) (s : slice) : list N := firstn (len s) (skipn (off s) (array h (arr s))).
Definition read_cap (h : heap) (s : slice) : list N := firstn (cap s) (skipn (off s) (array h (arr s))).

Fixpoint set_nth {A} (i : nat) (v : A) (l : list A) : list A :=
  match l, i with
  | [], _ => []
  | _ :: t, O => v :: t
  | x :: t, S i' => x :: set_nth i' v t
  end.

(* write the bytes vs into array a starting at position p (clipped to the array) *)
Fixpoint write_at (p : nat) (vs : list N) (l : list N) : list N :=
  match vs with
  | [] => l
  | v :: vs' => write_at (S p) vs' (set_nth p v l)
  end.

Definition heap_write (h : heap) (a p : nat) (vs : list N) : heap :=
  set_nth a (write_at p vs (array h a)) h.

(* make([]byte, n, c) *)
Definition make (h : heap) (n c : nat) : heap * slice :=
  (h ++ [repeat 0%N c], mkSlice (length h) 0 n c).

(* s[lo:hi]  (None = Go would panic) *)
Definition sub (s : slice) (lo hi : nat) : option slice :=
  if (lo <=? hi) && (hi <=? cap s) then Some (mkSlice (arr s) (off s + lo) (hi - lo) (cap s - lo)) else None.

(* s[lo:hi:max] *)
Definition sub3 (s : slice) (lo hi mx : nat) : option slice :=
  if (lo <=? hi) && (hi <=? mx) && (mx <=? cap s) then Some (mkSlice (arr s) (off s + lo) (hi - lo) (mx - lo)) else None.

(* s[i] = v *)
Definition set (h : heap) (s : slice) (i : nat) (v : N) : option heap :=
  if i <? len s then Some (heap_write h (arr s) (off s + i) [v]) else None.

(* append(s, vs...): in place when len+|vs| <= cap, otherwise a fresh array of
   capacity newcap (the runtime's growth policy, supplied by the caller of the
   model; at least the new length) holding the old contents followed by vs *)
Definition append (h : heap) (s : slice) (vs : list N) (newcap : nat) : heap * slice :=
  if len s + length vs <=? cap s then
    (heap_write h (arr s) (off s + len s) vs, mkSlice (arr s) (off s) (len s + length vs) (cap s))
  else
    let n := len s + length vs in
    let c := Nat.max newcap n in
    (h ++ [read h s ++ vs ++ repeat 0%N (c - n)], mkSlice (length h) 0 n c).

(* copy(dst, src): min(len) bytes, in place; source read before any write *)
Definition copy (h : heap) (dst src : slice) : heap :=
  let n := Nat.min (len dst) (len src) in
  heap_write h (arr dst) (off dst) (firstn n (read h src)).

(* slices.Concat(ss...): always a fresh array (capacity newcap >= total length
   from the runtime's size classes) *)
Definition concat (h : heap) (ss : list slice) (newcap : nat) : heap * slice :=
  let bs := flat_map (read h) ss in
  let c := Nat.max newcap (length bs) in
  (h ++ [bs ++ repeat 0%N (c - length bs)], mkSlice (length h) 0 (length bs) c).

(* bytes.Clone(s): fresh array (capacity newcap >= len from the runtime) *)
Definition clone (h : heap) (s : slice) (newcap : nat) : heap * slice :=
  let c := Nat.max newcap (len s) in
  (h ++ [read h s ++ repeat 0%N (c - len s)], mkSlice (length h) 0 (len s) c).

(* a slice is well-formed in a heap *)
Definition wf_slice (h : heap) (s : slice) : Prop :=
  arr s < length h /\ len s <= cap s /\ off s + cap s <= length (array h (arr s)).

(* ---- random slice programs (for the correspondence with the Go runtime) ---- *)
Inductive instr :=
| IMake (n c : nat)                       (* v_new := make([]byte, n, c), then filled with marker bytes *)
| ISub (v lo hi : nat)                    (* v_new := v[lo:hi] *)
| ISub3 (v lo hi mx : nat)                (* v_new := v[lo:hi:mx] *)
| ISet (v i : nat) (x : N)                (* v[i] = x *)
| IAppend (v : nat) (xs : list N) (newcap : nat)   (* v_new := append(v, xs...) *)
| ICopy (d s : nat)                       (* copy(d, s) *)
| IConcat (vs : list nat) (newcap : nat)  (* v_new := slices.Concat(vs...) *)
| IClone (v newcap : nat).                (* v_new := bytes.Clone(v) *)

(* state: heap and the list of slice variables (index = variable number).
   An instruction whose Go counterpart would panic is skipped (None). *)
Definition exec (st : heap * list slice) (i : instr) : option (heap * list slice) :=
  let '(h, vars) := st in
  let var v := nth_error vars v in
  match i with
  | IMake n c =>
      if n <=? c then
        let '(h1, s) := make h n c in
        let mark := map (fun k => N.of_nat ((length vars * 16 + k) mod 256)) (seq 0 c) in
        Some (heap_write h1 (arr s) 0 mark, vars ++ [s])
      else None
  | ISub v lo hi => match var v with Some s => match sub s lo hi with Some r => Some (h, vars ++ [r]) | None => None end | None => None end
  | ISub3 v lo hi mx => match var v with Some s => match sub3 s lo hi mx with Some r => Some (h, vars ++ [r]) | None => None end | None => None end
  | ISet v i x => match var v with Some s => match set h s i x with Some h' => Some (h', vars) | None => None end | None => None end
  | IAppend v xs nc => match var v with Some s => let '(h', r) := append h s xs nc in Some (h', vars ++ [r]) | None => None end
  | ICopy d s => match var d, var s with Some ds, Some ss => Some (copy h ds ss, vars) | _, _ => None end
  | IConcat vs nc =>
      match fold_right (fun v acc => match acc, var v with Some l, Some s => Some (s :: l) | _, _ => None end) (Some []) vs with
      | Some ss => let '(h', r) := concat h ss nc in Some (h', vars ++ [r])
      | None => None
      end
  | IClone v nc => match var v with Some s => let '(h', r) := clone h s nc in Some (h', vars ++ [r]) | None => None end
  end.

Fixpoint run_prog (st : heap * list slice) (p : list instr) : heap * list slice :=
  match p with
  | [] => st
  | i :: p' => match exec st i with Some st' => run_prog st' p' | None => run_prog st p' end
  end.

(* observation: for every variable its length and the bytes up to its capacity *)
Definition observe (st : heap * list slice) : list (nat * list N) :=
  map (fun s => (len s, read_cap (fst st) s)) (snd st).
