(* Step-level model of the io.Reader under the streaming-AEAD readers (property
   C07, "a source that may return short reads").  No proofs here:
   proofs/StreamIOProofs.v.

   Go                                                    model
   an io.Reader over a byte string that returns any
   number of bytes per call, may return io.EOF (or its
   persistent failure) TOGETHER with the last bytes      sched / ssrc / sread
   io.ReadFull = io.ReadAtLeast(r, buf, len(buf))        rf_loop / read_full_loop  (generic in the reader)
   streamingaead/decrypt_reader.go unreader.Read         sureader / uread
   io.ReadFull over an unreader                          uread_full_loop

   model/Stream.v treats io.ReadFull atomically (read_full over src, urfull over
   ureader).  proofs/StreamIOProofs.v shows that the loops defined here compute
   exactly those atomic functions for every schedule of positive sizes. *)
From Coq Require Import List NArith Bool Arith.
From Tink Require Import Bytes Stream.
Import ListNotations.
Open Scope nat_scope.

(* error value of one Read call: nil | io.EOF | other (persistent) *)
Inductive rerr := Enil | Eeof | Efail.

(* The behaviour of the source, call by call: call i hands out at most sz i
   bytes; if ewd i is set and that call delivers the last bytes before the end
   of the data (or before the point of persistent failure), the terminal
   condition is returned together with those bytes (the io.Reader contract
   allows both (n, io.EOF) and (n, nil) followed by (0, io.EOF)). *)
Record sched := mkSched { sz : nat -> nat; ewd : nat -> bool }.

(* a source = number of Read calls made so far + what is left (Stream.src) *)
Record ssrc := mkSS { ss_calls : nat; ss_src : src }.

(* the source has reached its point of persistent failure *)
Definition src_failed (d : src) : bool := match sfailr d with Some 0 => true | _ => false end.

(* r.Read(p) with len(p) = n *)
Definition sread (sc : sched) (s : ssrc) (n : nat) : ssrc * bytes * rerr :=
  let d := ss_src s in
  let i := ss_calls s in
  if n =? 0 then (s, [], Enil) else
  if src_failed d then (mkSS (S i) d, [], Efail) else
  if length (srem d) =? 0 then (mkSS (S i) d, [], Eeof) else
  let avail := length (srem d) in
  let lim := match sfailr d with Some k => Nat.min k avail | None => avail end in
  let m := Nat.min (Nat.min n (sz sc i)) lim in
  let d' := src_adv d m in
  (mkSS (S i) d', firstn m (srem d),
   if ewd sc i then
     if src_failed d' then Efail
     else if length (srem d') =? 0 then Eeof else Enil
   else Enil).

(* ------------------------------------------------------------------ *)
(* io.ReadAtLeast(r, buf, min) with len(buf) = min, as coded:
     for n < min && err == nil { nn, err = r.Read(buf[n:]); n += nn }
     if n >= min { err = nil } else if n > 0 && err == EOF { err = ErrUnexpectedEOF }
   acc = buf[:n].  fuel = iterations left (None = the Go loop would still be
   running: only possible if Read keeps returning (0, nil)).               *)
(* ------------------------------------------------------------------ *)
Section ReadFull.
  Variable ST : Type.
  Variable rd : ST -> nat -> ST * bytes * rerr.

  Fixpoint rf_loop (fuel : nat) (s : ST) (min : nat) (acc : bytes) {struct fuel} : option (ST * bytes * rfk) :=
    if min <=? length acc then Some (s, acc, RFok) else
    match fuel with
    | O => None
    | S f =>
      let '(s', got, e) := rd s (min - length acc) in
      let acc' := acc ++ got in
      match e with
      | Enil => rf_loop f s' min acc'
      | Eeof => Some (s', acc', if min <=? length acc' then RFok
                                else if length acc' =? 0 then RFeof else RFuneof)
      | Efail => Some (s', acc', if min <=? length acc' then RFok else RFfail)
      end
    end.

  (* every call that returns nil delivers at least one byte, so want iterations suffice *)
  Definition read_full_loop (s : ST) (want : nat) : option (ST * bytes * rfk) := rf_loop want s want [].

  (* total version usable as the rfull parameter of Stream.read / new_dec_reader *)
  Definition read_full_total (s : ST) (want : nat) : ST * bytes * rfk :=
    match read_full_loop s want with Some r => r | None => (s, [], RFfail) end.
End ReadFull.

Arguments rf_loop {ST}. Arguments read_full_loop {ST}. Arguments read_full_total {ST}.

(* ------------------------------------------------------------------ *)
(* decrypt_reader.go: unreader.Read over a short-read source            *)
(* ------------------------------------------------------------------ *)
Record sureader := mkSU { su_buf : bytes; su_pos : nat; su_dis : bool; su_src : ssrc }.

(* func (u *unreader) Read(buf []byte) with len(buf) = n *)
Definition uread (sc : sched) (u : sureader) (n : nat) : sureader * bytes * rerr :=
  if negb (length (su_buf u) =? su_pos u) then
    let got := firstn n (skipn (su_pos u) (su_buf u)) in             (* copy(buf, u.buf[u.pos:]) *)
    (mkSU (su_buf u) (su_pos u + length got) (su_dis u) (su_src u), got, Enil)
  else
    let '(s', got, e) := sread sc (su_src u) n in
    let b' := if su_dis u then [] else su_buf u ++ got in
    (mkSU b' (length b') (su_dis u) s', got, e).

Definition su_unread (u : sureader) : sureader := mkSU (su_buf u) 0 (su_dis u) (su_src u).
Definition su_disable (u : sureader) : sureader := mkSU (su_buf u) (su_pos u) true (su_src u).

(* forgetting the call counter *)
Definition su_forget (u : sureader) : ureader := mkU (su_buf u) (su_pos u) (su_dis u) (ss_src (su_src u)).

(* ------------------------------------------------------------------ *)
(* What the caller of ONE streaming key sees: NewDecryptingReader, then  *)
(* Read calls of the listed sizes until the first EOF / error            *)
(* (constructor error = Failed with no byte delivered).                  *)
(* ------------------------------------------------------------------ *)
Section KeyRead.
  Variable hkdf : hash -> bytes -> bytes -> bytes -> nat -> bytes.
  Variable gcm_open : bytes -> bytes -> bytes -> option bytes.
  Variable aes_ctr : bytes -> bytes -> bytes -> bytes.
  Variable hmac : hash -> bytes -> bytes -> bytes.
  Variable SRC : Type.
  Variable rfull : SRC -> nat -> SRC * bytes * rfk.

  Definition key_read (k : skey) (aad : bytes) (s : SRC) (sizes : list nat) : bytes * fin :=
    match new_dec_reader hkdf SRC rfull k aad s with
    | (None, _) => ([], Failed)
    | (Some (k1, k2, pre, r0), _) =>
        drive (seg_dec gcm_open aes_ctr hmac k (k1, k2)) rfull (k_rparams k pre) sizes r0 []
    end.
End KeyRead.

(* the same for the keyset-level reader: outcome of a list of Read results *)
Fixpoint outcome (acc : bytes) (rs : list rres) : bytes * fin :=
  match rs with
  | [] => (acc, Pending)
  | RData b :: rs' => outcome (acc ++ b) rs'
  | REof :: _ => (acc, AtEof)
  | RErr :: _ => (acc, Failed)
  | RPanic :: _ => (acc, Panicked)
  end.
