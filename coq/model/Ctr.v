(* C01/C02 — counter-mode keystream application, in two forms:
   [ctr_loop]  the loop of the Go code (encrypt a counter block, bump the
               counter, XOR min(len(in), 16) bytes, advance), used both for
               crypto/cipher.NewCTR (big-endian 128-bit counter; the reference
               for internal/aead/aesctr.go) and for aesCTR of
               internal/aead/aesgcmsiv.go (little-endian 32-bit counter);
   [ks_xor]    the specification: data XOR E(blk c0) || E(blk (next c0)) || ...
   E is the block cipher under the key (stdlib oracle).  No proofs here. *)
From Coq Require Import List NArith Bool Arith.
From Tink Require Import Bytes.
Import ListNotations.
Open Scope N_scope.

Section CTR.
  Variable E : bytes -> bytes.       (* one block encryption under the key *)
  Variable blk : N -> bytes.         (* counter value -> 16-byte counter block *)
  Variable next : N -> N.            (* counter increment (with its wrap) *)

  Fixpoint ctr_loop (fuel : nat) (c : N) (inp : bytes) : bytes :=
    match fuel with
    | O => []
    | S f =>
      match inp with
      | [] => []
      | _ =>
        let o := xorb inp (E (blk c)) in          (* subtle.XORBytes: min length *)
        o ++ ctr_loop f (next c) (skipn (length o) inp)
      end
    end.

  Definition ctr_apply (c0 : N) (data : bytes) : bytes := ctr_loop (length data) c0 data.

  Fixpoint keystream (n : nat) (c : N) : bytes :=
    match n with O => [] | S k => E (blk c) ++ keystream k (next c) end.

  Definition ks_xor (c0 : N) (data : bytes) : bytes := xorb data (keystream (length data) c0).
End CTR.

(* crypto/cipher.NewCTR(block, iv16): 128-bit big-endian counter starting at iv16 *)
Definition be128_blk (c : N) : bytes := be_bytes 16 c.
Definition be128_next (c : N) : N := (c + 1) mod 2 ^ 128.

(* internal/aead/aesctr.go newCipher: an IV shorter than the block is padded with zeros *)
Definition pad_iv (iv : bytes) : bytes := iv ++ zeros (16 - length iv).

Definition aes_ctr (E : bytes -> bytes) (iv data : bytes) : bytes :=
  ctr_apply E be128_blk be128_next (be_val (pad_iv iv)) data.
