(* C14 (stretch) — the TYPE of the table of panic sites on the untrusted-keyset
   path of /repo.  The table itself (proofs/UntrustedPanicSitesTable.v: its
   entries carry the propositions that cover them AND their proofs, so it
   type-checks only if the no-panic facts exist) was made
   BY HAND from a reading of
     keyset/validation.go, keyset/handle.go, keyset/keyset.go, keyset/binary_io.go,
     keyset/json_io.go, insecurecleartextkeyset/insecurecleartextkeyset.go,
     internal/protoserialization/protoserialization.go,
     the protoserialization.go / key.go / parameters.go of the 37 modelled key
     types, and the helpers they call with attacker data (internal/ec,
     internal/signature/rsa.go, internal/signature/slhdsa, hybrid/internal/xwing,
     internal/outputprefix, the signer.go / verifier.go constructors).

   What was looked for (every expression Go or the standard library can make
   panic when the attacker controls the data): slice and index expressions,
   nil dereferences (direct field access on proto messages, method calls on
   possibly-nil pointers), integer conversions that wrap, make() with
   attacker-controlled sizes, math/big operations, type assertions without
   ", ok", explicit panic() and standard-library calls that panic on bad
   arguments.

   Findings of the reading, in one paragraph: the 30 protoserialization.go files
   read proto messages ONLY through the generated nil-safe getters (no direct
   field access on a decoded message; grep for `\.[A-Z][A-Za-z]*\b[^(]` on the
   message variables finds none), contain no index expression on attacker data
   and only the slice expressions listed below; the keyset layer uses direct
   field access (keyset.Key, key.KeyId, key.KeyData, key.Status) only after the
   nil checks of Validate / validateKey.  NO UNGUARDED SITE was found.  The
   malformed stream of harness/p/c14/gen6.go (every varint field of every bank
   key at the overflow edges, every length-delimited field removed / emptied /
   non-message / with 300 leading zeros / one byte short / one byte long, nil
   keyset / key / key data through the proto-message API, degenerate
   EncryptedKeyset messages: 3322 + 566 cases in the thorough tier) produced no
   PANIC and no model mismatch.

   The LIST of sites is hand-made: a site the reading missed is not in it (the
   malformed stream and the PANIC observation of the harness are the net under
   it).  What Coq checks is the COVERAGE column of the listed sites, and only
   for the two constructors below.  Both take the function that contains the
   site as a functional of a GUARD SWITCH and of the panicking operation
   (fifth audit, C1-1; the shapes of the fourth audit - F without the switch,
   with `reach : exists a, F (fun _ => Panic) a = Panic` - were still inhabited
   by `fun op _ => op c` for a harmless constant c: no guard, no input reaching
   the operation):

     CModel op F necessary f same pf
        op : X -> outcome Y   the checked operation of the model standing for the
                              Go expression (encode_point, Bytes.slice, ...)
        F : bool -> (X -> outcome Y) -> A -> outcome B   the body of the model
                              function with the operation abstracted; the boolean
                              switches the test(s) in front of the expression:
                              F true = with them, F false = the same statements
                              with those tests deleted
        necessary : exists a, F false op a = Panic   WITHOUT the tests the REAL
                              operation panics on some input of the function: the
                              guard is needed and that input reaches the operation
        f : A -> outcome B    a function of model/Untrusted*.v, by name
        same : forall a, F true op a = f a     ... which IS the guarded body
        pf : forall a, f a <> Panic            and never panics
     CLemma raw F necessary pf
        raw : X -> outcome Y  the raw Go operation with machine integers
                              (make_z, index_z, slice_z of model/UntrustedSites.v)
        F : bool -> (X -> outcome Y) -> A -> outcome B   the statements AS WRITTEN
                              in the Go function over the raw operation, with the
                              same switch
        necessary : exists a, F false raw a = Panic
        pf : forall a, F true raw a <> Panic

   What a constructor guarantees: there is a function with a switchable test
   such that the operation panics on some input when the test is off and on
   none when it is on.  A function that applies the operation to a harmless
   constant does not fit (necessary fails), nor does one that never lets an
   input through to the operation.  What remains READING, not type: that
   F true transcribes the Go function and that the switched test is the one
   the Go code has (a made-up pair "test / operation" with these two properties
   is still an inhabitant - it is then a true statement about a made-up
   function); for CModel, `same` ties F true to a function of the model, which
   the correspondence run ties to the code.  The other three constructors carry
   NO theorem:

     CArgued w       argued in prose (w).  Used for: constant bounds, static
                     types, values tink-go built itself, range loops; sites whose
                     model function has no Panic constructor to reach (nil-safe
                     getters = total getters of the model, length tests in front
                     of library calls); sites where no test is needed because the
                     arithmetic cannot leave the range (a loop index below its
                     bound, make with a constant-derived size); sites whose only
                     checked operation sits inside a callee that has its own
                     entry; guards established by another function; integer
                     conversions, which wrap rather than panic (the comparisons
                     after them are theorem C14_wrapping_conversions_are_rejected,
                     named in w, not checked by the table)
     CStdlib w       inside the Go standard library; w names the trusted behaviour
     CHarnessOnly w  only the harness decides (PANIC observation = violation) *)
From Coq Require Import String List.
From Tink Require Import Bytes.
Import ListNotations.
Open Scope string_scope.

Inductive site_kind :=
| KSlice | KIndex | KNilDeref | KIntConv | KMake | KBigInt | KTypeAssert | KStdlib | KExplicitPanic.

Inductive coverage : Type :=
| CModel {X Y A B : Type} (op : X -> outcome Y)
         (F : bool -> (X -> outcome Y) -> A -> outcome B)
         (necessary : exists a, F false op a = Panic)
         (f : A -> outcome B) (same : forall a, F true op a = f a)
         (pf : forall a, f a <> Panic)
| CLemma {X Y A B : Type} (raw : X -> outcome Y)
         (F : bool -> (X -> outcome Y) -> A -> outcome B)
         (necessary : exists a, F false raw a = Panic)
         (pf : forall a, F true raw a <> Panic)
| CArgued (why : string)
| CStdlib (trusted : string)
| CHarnessOnly (exercised_by : string).

Record site := mkSite {
  s_file : string; s_func : string; s_expr : string; s_kind : site_kind;
  s_guard : string;      (* documentation: the check in front of the expression, verbatim *)
  s_cov : coverage }.

Definition by_model_theorem (s : site) : bool := match s_cov s with CModel _ _ _ _ _ _ => true | _ => false end.
Definition by_site_lemma (s : site) : bool := match s_cov s with CLemma _ _ _ _ => true | _ => false end.
Definition argued_only (s : site) : bool := match s_cov s with CArgued _ => true | _ => false end.
Definition is_stdlib (s : site) : bool := match s_cov s with CStdlib _ => true | _ => false end.
Definition is_harness_only (s : site) : bool := match s_cov s with CHarnessOnly _ => true | _ => false end.
Definition count (f : site -> bool) (l : list site) : nat := length (filter f l).
