(* C14 (stretch) — TABLE OF PANIC SITES on the untrusted-keyset path of /repo,
   made BY HAND from a reading of
     keyset/validation.go, keyset/handle.go, keyset/keyset.go, keyset/binary_io.go,
     keyset/json_io.go, insecurecleartextkeyset/insecurecleartextkeyset.go,
     internal/protoserialization/protoserialization.go,
     the protoserialization.go / key.go / parameters.go of the 37 modelled key
     types, and the helpers they call with attacker data (internal/ec,
     internal/signature/rsa.go, internal/signature/slhdsa, hybrid/internal/xwing,
     internal/outputprefix, the signer.go / verifier.go constructors).

   What was looked for (every expression Go or the standard library can make
   panic when the attacker controls the data): slice and index expressions,
   nil dereferences (direct field access on proto messages, method calls on
   possibly-nil pointers), integer conversions that wrap, make() with
   attacker-controlled sizes, math/big operations, type assertions without
   ", ok", explicit panic() and standard-library calls that panic on bad
   arguments.

   Findings of the reading, in one paragraph: the 30 protoserialization.go files
   read proto messages ONLY through the generated nil-safe getters (no direct
   field access on a decoded message; grep for `\.[A-Z][A-Za-z]*\b[^(]` on the
   message variables finds none), contain no index expression on attacker data
   and only the slice expressions listed below; the keyset layer uses direct
   field access (keyset.Key, key.KeyId, key.KeyData, key.Status) only after the
   nil checks of Validate / validateKey.  NO UNGUARDED SITE was found.  The
   malformed stream of harness/p/c14/gen6.go (every varint field of every bank
   key at the overflow edges, every length-delimited field removed / emptied /
   non-message / with 300 leading zeros / one byte short / one byte long, nil
   keyset / key / key data through the proto-message API, degenerate
   EncryptedKeyset messages: 3322 + 566 cases in the thorough tier) produced no
   PANIC and no model mismatch.

   Coverage legend (field s_cov):
     CModel c   the site is a checked operation of model/Untrusted.v (clause c);
                C14_readers_never_panic / C14_parser_and_constructor_never_panic cover it
     CLemma l   small as-written model in model/UntrustedSites.v, lemma l of
                proofs/UntrustedSitesProofs.v shows the guard suffices for all inputs
     CTotal w   the model computes the same value with a total function (nil-safe
                getter = get_sub / get_u32 / get_len on an absent field; a range loop);
                nothing can panic, w says why
     CTyped w   no attacker-controlled value reaches the expression (w)
     CStdlib w  inside the Go standard library: answered by the record `stdlib` of
                the model; the guard in front of the call is listed, w names the
                library behaviour that is trusted
     CHarness c only the harness decides (PANIC observation = violation); c = what
                exercises it *)
From Coq Require Import String List.
Import ListNotations.
Open Scope string_scope.

Inductive site_kind :=
| KSlice | KIndex | KNilDeref | KIntConv | KMake | KBigInt | KTypeAssert | KStdlib | KExplicitPanic.

Inductive coverage :=
| CModel (clause : string)
| CLemma (lemma : string)
| CTotal (why : string)
| CTyped (why : string)
| CStdlib (trusted : string)
| CHarness (exercised_by : string).

Record site := mkSite {
  s_file : string; s_func : string; s_expr : string; s_kind : site_kind;
  s_guard : string; s_cov : coverage }.

Definition panic_sites : list site := [
  (* ---------------- keyset layer ---------------- *)
  mkSite "keyset/validation.go" "Validate" "keyset.Key, keyset.PrimaryKeyId (direct field access)" KNilDeref
    "if keyset == nil { return error } (first statement)" (CModel "validate None = false; read_proto / handle_no_secrets on None");
  mkSite "keyset/validation.go" "Validate" "key.KeyId, key.Status in the loop over keyset.Key" KNilDeref
    "validateKey(key) returns an error for key == nil before any field is read" (CModel "validate_key None = false (ks_keys : list (option pkey)); C14_nil_parts_rejected");
  mkSite "keyset/validation.go" "validateKey" "key.KeyData, key.OutputPrefixType, key.Status" KNilDeref
    "if key == nil { return error }" (CModel "validate_key");
  mkSite "keyset/validation.go" "Validate" "keyIDs[key.KeyId] = true (map write)" KNilDeref
    "keyIDs := make(map[uint32]bool) four lines above" (CTyped "the map is allocated unconditionally");
  mkSite "keyset/handle.go" "keysetToEntries" "entries := make([]*Entry, len(ks.GetKey())); entries[i] = ..." KMake
    "Validate(ks) succeeded (ks non-nil); i ranges over the same slice" (CTotal "to_entries is a map over ks_keys; the size is a len()");
  mkSite "keyset/handle.go" "keysetToEntries" "protoKey.GetKeyData(), GetKeyId(), GetOutputPrefixType(), GetStatus()" KNilDeref
    "generated getters are nil safe; Validate already rejected nil keys and nil key data" (CTotal "entry_of reads k_data / k_id / k_prefix / k_status of a Some pkey");
  mkSite "keyset/handle.go" "hasSecrets" "protoKey.GetKeyData().GetKeyMaterialType() inside slices.ContainsFunc(ks.GetKey(), ...)" KNilDeref
    "getters only (ks, protoKey and KeyData may all be nil)" (CModel "has_secrets; read_no_secrets_np, handle_no_secrets_np");
  mkSite "keyset/handle.go" "newFromEntries" "entry.IsPrimary(), entry.KeyStatus(), entry.KeyID() on each entry" KNilDeref
    "entries come from keysetToEntries: every element was assigned newUnmonitoredEntry(...)" (CTotal "new_from_entries over a list of entries");
  mkSite "keyset/handle.go" "decrypt / decryptWithContext" "encryptedKeyset.GetEncryptedKeyset(); keyEncryptionAEAD.Decrypt(...)" KNilDeref
    "if encryptedKeyset == nil || keyEncryptionAEAD == nil { return error }" (CModel "read_encrypted (decode_encrypted = None => Err); read_encrypted_np");
  mkSite "keyset/handle.go" "Handle.Entry" "h.entries[i]" KIndex
    "if h == nil { error }; if i < 0 || i >= h.Len() { error }" (CLemma "entry_go_np");
  mkSite "keyset/handle.go" "Handle.Primary / Len / Public" "h.primaryKeyEntry, h.entries" KNilDeref
    "if h == nil { return error / 0 }" (CTyped "a handle returned by a reader is non-nil whenever err == nil");
  mkSite "keyset/handle.go" "Handle.Public" "entries[i] = ... (make([]*Entry, h.Len()))" KIndex
    "i ranges over h.entries, whose length is h.Len()" (CTotal "range loop over the allocated length");
  mkSite "keyset/handle.go" "Handle.KeysetInfo" "panic(err) when entriesToKeysetInfo fails" KExplicitPanic
    "entries non-empty (newFromEntries found a primary); keyStatusToProto fails only for Unknown, rejected by newFromEntries; protoserialization.SerializeKey(entry.Key()) must succeed for every key a parser accepted"
    (CHarness "c14.go calls h.KeysetInfo() and h.Public() on EVERY accepted handle of every case (wellFormed / info checks); no model of the 37 serializers on this path");
  mkSite "keyset/handle.go" "getKeysetInfo / getKeyInfo" "panic(nil keyset); key.KeyData.TypeUrl (direct)" KExplicitPanic
    "only called from encrypt() with the keyset built by entriesToProtoKeyset from a live handle" (CTyped "write path: the keyset is produced by tink-go, not read from input");
  mkSite "insecurecleartextkeyset/insecurecleartextkeyset.go" "Read" "len(ks.Key)" KNilDeref
    "if r == nil { error }; err != nil || ks == nil || len(ks.Key) == 0 (short-circuit order)" (CModel "read_proto None = Err; C14_nil_and_empty_rejected");
  mkSite "keyset/binary_io.go, keyset/json_io.go" "BinaryReader.Read / JSONReader.Read" "proto.Unmarshal / protojson.Unmarshal on arbitrary bytes" KStdlib
    "none needed: the libraries return errors" (CStdlib "protobuf-go wire decoder and protojson do not panic on any input (transcribed as fields / wire_ok / utf8_valid and compared on every case; huge length prefixes 2^31-1 in gen6.go)");
  (* ---------------- internal/protoserialization ---------------- *)
  mkSite "internal/protoserialization/protoserialization.go" "ParseKey" "keySerialization.KeyData().GetTypeUrl() / GetKeyMaterialType()" KNilDeref
    "keySerialization is the non-nil result of NewKeySerialization; KeyData() getters are nil safe" (CModel "parse_key dispatch on kd_url; fallback PFallback");
  mkSite "internal/protoserialization/protoserialization.go" "KeySerialization.clone" "proto.Clone(k.keyData).(*tinkpb.KeyData)" KTypeAssert
    "proto.Clone returns a message of the dynamic type of its argument (also for a typed nil pointer)" (CTyped "the asserted type is the static type of the argument");
  mkSite "internal/protoserialization/protoserialization.go" "FallbackProtoPrivateKey.PublicKey" "keyManager.(registry.PrivateKeyManager) with ', ok'" KTypeAssert
    "two-value form" (CTyped "checked assertion");
  mkSite "internal/protoserialization/protoserialization.go" "NewFallbackProtoKey" "calculateOutputPrefix(outputPrefixType, id)" KStdlib
    "default: return error for an unknown prefix type (Validate rejected it before)" (CModel "fallback branch of parse_key: known_prefix");
  (* ---------------- helpers ---------------- *)
  mkSite "internal/ec/ec.go" "BigIntBytesToFixedSizeBuffer" "make([]byte, size-len(bigIntBytes), size)" KMake
    "if len(bigIntBytes) < size (so 0 < size-len <= size)" (CLemma "fixed_size_go_np, fixed_size_go_is_model (premise 0 <= size: callers pass 32/48/66 or +1; Example fixed_size_go_negative_size_panics)");
  mkSite "internal/ec/ec.go" "BigIntBytesToFixedSizeBuffer" "bigIntBytes[i] for i < len(bigIntBytes)-size" KIndex
    "reached only when len(bigIntBytes) > size >= 0, so 0 <= i < len" (CLemma "strip_loop_spec, fixed_size_go_np");
  mkSite "internal/ec/ec.go" "BigIntBytesToFixedSizeBuffer" "bigIntBytes[len(bigIntBytes)-size:]" KSlice
    "len(bigIntBytes) > size >= 0" (CModel "fixed_size (Bytes.slice); fixed_size_np");
  mkSite "internal/outputprefix/outputprefix.go" "Tink / Legacy" "binary.BigEndian.PutUint32(prefix[1:], id)" KSlice
    "prefix := make([]byte, 5): constant size" (CTyped "constant bounds");
  mkSite "internal/signature/rsa.go" "ValidateRSAPublicKeyParams" "int(e.Int64())" KIntConv
    "if !e.IsInt64() { return error } (commit 067e856)" (CModel "rsa_exponent (be_val e < 2^63); C14_rsa_exponent_truncation_rejected");
  mkSite "internal/signature/rsa.go" "Pad" "make([]byte, encodingLength); padded[encodingLength-len(toPad):]" KSlice
    "if len(toPad) > encodingLength { error }; == returns early" (CTyped "serialisation path of an accepted key; encodingLength is a byte length of the modulus");
  (* ---------------- ECDSA ---------------- *)
  mkSite "signature/ecdsa/protoserialization.go" "encodePoint" "make([]byte, 1+2*coordinateSize); encodedPoint[0] = 0x04" KMake
    "coordinateSize in {32, 48, 66} (coordinateSizeForCurve errors otherwise)" (CLemma "encode_point_go_ok");
  mkSite "signature/ecdsa/protoserialization.go" "encodePoint" "encodedPoint[xStartPos:], encodedPoint[yStartPos:] with xStartPos = 1+c-len(x)" KSlice
    "x, y are results of BigIntBytesToFixedSizeBuffer(., c): exactly c bytes" (CModel "encode_point; encode_point_ok; also CLemma encode_point_after_fixed_size_np (Example encode_point_go_long_coordinate_panics without the guard)");
  mkSite "signature/ecdsa/protoserialization.go" "newPublicKeyFromProto" "protoECDSAKey.GetParams().GetCurve() etc. (nil params sub-message)" KNilDeref
    "getters" (CTotal "get_sub 2 fs = [] and get_u32 _ [] = 0 for an absent sub-message: curve 0 = UNKNOWN_CURVE is rejected by curveTypeFromProto");
  mkSite "signature/ecdsa/protoserialization.go" "createProtoECDSAPublicKey (serializer)" "publicPoint[1:], xy[:coordinateSize], xy[coordinateSize:]" KSlice
    "the key was built by NewPublicKey, which validated the point with crypto/ecdh: len = 1+2c" (CLemma "point_coords_go_np");
  mkSite "signature/ecdsa/signer.go, verifier.go" "NewSigner / NewVerifier" "publicPoint[1:], xy[:len(xy)/2], xy[len(xy)/2:]" KSlice
    "NewPublicKey validated the point (len >= 1)" (CModel "prim_ok, PEcdsa clause: slice 1 (length pt) pt, halves; also CLemma point_halves_go_np (Example point_halves_go_empty_point_panics)");
  mkSite "signature/ecdsa/key.go" "NewPublicKey / NewPrivateKeyFromPublicKey" "ecdh curve.NewPublicKey(point), curve.NewPrivateKey(scalar)" KStdlib
    "none needed: crypto/ecdh returns errors for wrong lengths, off-curve points, the point at infinity, out-of-range scalars" (CStdlib "ec_point_ok / ec_pub_of_priv of the record stdlib (oracle ops c14_ecdh_point, c14_ecdh_pub)");
  (* ---------------- Ed25519 ---------------- *)
  mkSite "signature/ed25519/key.go" "NewPrivateKey / NewPrivateKeyWithPublicKey" "ed25519.NewKeyFromSeed(seed) (panics unless len(seed) == 32)" KStdlib
    "if privateKeyBytes.Len() != 32 { return error }; if pubKey == nil { return error }" (CModel "ed25519_from_seed (Panic unless 32 bytes) behind the length test of parse_ed25519_priv; parse_key_np");
  mkSite "signature/ed25519/key.go" "NewPrivateKey" "privKey.Public().(ed25519.PublicKey)" KTypeAssert
    "ed25519.PrivateKey.Public always returns ed25519.PublicKey" (CTyped "documented dynamic type");
  mkSite "signature/ed25519/signer.go" "NewSigner" "ed25519.NewKeyFromSeed(privateKey.PrivateKeyBytes())" KStdlib
    "a *PrivateKey only exists with a 32-byte seed (constructors above)" (CModel "prim_ok PEd25519Priv");
  (* ---------------- RSA ---------------- *)
  mkSite "signature/rsassapkcs1/protoserialization.go, rsassapss, jwt/jwtrsassapkcs1, jwt/jwtrsassapss" "parsePublicKey / ParseKey" "int(exponent.Int64())" KIntConv
    "if !exponent.IsInt64() { return error }" (CModel "rsa_exponent / rsa_exponent_parse_ok");
  mkSite "signature/rsassapss/protoserialization.go" "ParseKey" "int(protoKey.GetParams().GetSaltLength()) (int32 field, may be negative)" KIntConv
    "NewParameters: SaltLengthBytes < 0 is an error" (CLemma "int32_positive_is_go (the model's int32_positive is the Go comparison on the sign-extended value)");
  mkSite "signature/rsassa*/key.go, jwt/jwtrsassa*/key.go" "NewPublicKey" "new(big.Int).SetBytes(modulus).BitLen()" KBigInt
    "SetBytes / BitLen are total" (CTotal "be_val and bit length of a byte string");
  mkSite "signature/rsassa*/key.go, jwt/jwtrsassa*/key.go" "NewPrivateKey" "publicKey.parameters (publicKey may be nil for API callers)" KNilDeref
    "on the parse path publicKey is the non-nil result of NewPublicKey (err checked)" (CTyped "parser passes a checked value");
  mkSite "signature/rsassa*/key.go, jwt/jwtrsassa*/key.go" "NewPrivateKey" "privateKey.Validate(); privateKey.Precompute() with attacker P, Q, D (zero, one, even, non-prime)" KStdlib
    "Validate() error is returned before Precompute" (CStdlib "rsa_crt: crypto/rsa Validate returns an error (never panics) on any big integers; oracle op c14_rsa_crt; gen2.go rsaTweak and gen6.go (P, Q, D empty / ff / 300 zeros)");
  mkSite "signature/rsassa*/key.go" "PrivateKey.DP / DQ / QInv" "k.privateKey.Precomputed.Dp.Bytes() (nil if Precompute left the key unmodified)" KNilDeref
    "NewPrivateKey returned only after Validate() == nil, and in Go >= 1.24 Validate runs the same precompute and returns its error" (CStdlib "rsa_crt = Some (dp, dq, qinv) exactly when Validate succeeds");
  mkSite "signature/rsassa*/key.go" "privateKeySelfCheck" "signer.Sign / verifier.Verify on the fresh key" KStdlib
    "errors are returned" (CStdlib "rsa_selfcheck (oracle op c14_rsa_selfcheck)");
  (* ---------------- SLH-DSA / ML-DSA ---------------- *)
  mkSite "signature/slhdsa/protoserialization.go" "ParseKey" "int(protoKey.GetParams().GetKeySize()) (int32 field)" KIntConv
    "NewParameters accepts only the listed (hash, key size, sig type) combinations" (CModel "parse_slhdsa_pub / parse_slhdsa_priv: key size in {64, 96, 128}");
  mkSite "internal/signature/slhdsa/slhdsa.go" "DecodePublicKey" "pkEnc[0:p.n], pkEnc[p.n:2*p.n]" KSlice
    "if len(pkEnc) != p.PublicKeyLength() { return error }" (CLemma "slh_decode_go_np");
  mkSite "internal/signature/slhdsa/slhdsa.go" "DecodeSecretKey" "skEnc[0:n], [n:2n], [2n:3n], [3n:4n]" KSlice
    "if len(skEnc) != p.SecretKeyLength() { return error }" (CModel "parse_slhdsa_priv: slice (2n) (3n), slice (3n) (4n); also CLemma slh_decode_go_np");
  mkSite "signature/mldsa/key.go, jwt/jwtmldsa/key.go" "NewPublicKey" "checkPublicKeyLengthForInstance(len(keyBytes), instance)" KStdlib
    "length compared before DecodePublicKey" (CModel "parse_mldsa_pub / parse_jwt_mldsa_pub: exact public key length");
  (* ---------------- ECIES / HPKE ---------------- *)
  mkSite "hybrid/ecies/protoserialization.go" "parseParameters" "proto.Clone(protoParams.GetDemParams().GetAeadDem()).(*tinkpb.KeyTemplate); demTemplate.OutputPrefixType = RAW" KTypeAssert
    "if GetDemParams() == nil { error }; if GetAeadDem() == nil { error } (two lines above)" (CModel "parse_ecies_*: has_sub checks on DEM params and AEAD DEM; nil injections d2-ecies in gen5.go and site-nil in gen6.go");
  mkSite "hybrid/ecies/protoserialization.go" "parseParameters" "protoserialization.ParseParameters(demTemplate) on an attacker-chosen template (any registered type URL, any value)" KStdlib
    "every parameters parser returns errors; NewParameters accepts only six DEM parameter sets" (CModel "ecies_dem (the six accepted DEM templates); gen3.go demTemplate");
  mkSite "hybrid/ecies/protoserialization.go" "parsePublicKey" "slices.Concat([]byte{0x04}, x, y)" KSlice
    "x, y from BigIntBytesToFixedSizeBuffer" (CModel "parse_ecies_pub: bind (fixed_size x c) ...");
  mkSite "hybrid/ecies/protoserialization.go" "ParseKey (private)" "publicKey.Parameters().(*Parameters).CurveType()" KTypeAssert
    "publicKey was built by this package's NewPublicKey with a *Parameters" (CTyped "static construction");
  mkSite "hybrid/ecies/protoserialization.go" "publicKeyToProtoPublicKey (serializer)" "publicKey.PublicKeyBytes()[1:], xy[:coordinateSize], xy[coordinateSize:]" KSlice
    "NIST-curve key bytes are 0x04 || x || y with |x| = |y| = c by construction" (CLemma "point_coords_go_np");
  mkSite "hybrid/ecies/parameters.go" "package-level DEM parameter table" "panic(failed to create ... parameters)" KExplicitPanic
    "arguments are constants" (CTyped "no input");
  mkSite "hybrid/hpke/key.go" "NewPublicKey" "parameters.Variant() (nil *Parameters for API callers)" KNilDeref
    "parser passes the result of parseParameters (err checked)" (CTyped "parser passes a checked value");
  mkSite "hybrid/hpke/key.go" "validateXWingPublicKey / validateMLKEMPublicKey / NewPrivateKeyFromPublicKey" "mlkem.NewDecapsulationKey768/1024(seed), xwing.PublicFromSecret(sk)" KStdlib
    "both return errors for a wrong length (xwing: len != 32 checked first)" (CStdlib "mlkem_pub / xwing_pub of the record stdlib");
  mkSite "hybrid/internal/xwing/xwing.go" "Encapsulate / Decapsulate" "publicKey[:1184], publicKey[1184:]; ciphertext[:1088], ciphertext[1088:]" KSlice
    "if len(publicKey) != 1216 { error }; if len(ciphertext) != 1120 { error }" (CTyped "constant bounds behind an exact length test (use path, not parse path)");
  (* ---------------- JWT ---------------- *)
  mkSite "jwt/jwtecdsa/protoserialization.go" "ParseKey" "BigIntBytesToFixedSizeBuffer(x, c), slices.Concat(0x04, x, y)" KSlice
    "as ECDSA" (CModel "parse_jwt_ecdsa_*");
  mkSite "jwt/jwtecdsa/protoserialization.go" "serializer" "k.PublicPoint()[1:], xy[:coordinateSize], xy[coordinateSize:]" KSlice
    "NewPublicKey validated the point with crypto/ecdh" (CLemma "point_coords_go_np");
  mkSite "jwt/jwt*/key.go" "computeKID" "make([]byte, 4); binary.BigEndian.PutUint32(buf, idRequirement)" KMake
    "constant size" (CTyped "constant bounds");
  mkSite "jwt/jwt*/protoserialization.go" "ParseKey" "protoKey.GetCustomKid().GetValue() (nil CustomKid)" KNilDeref
    "getters; presence tested with GetCustomKid() != nil / HasCustomKid" (CModel "has_sub 4/…: custom kid present or absent; gen4.go kidChoice");
  (* ---------------- symmetric key types ---------------- *)
  mkSite "aead/aesctrhmac/protoserialization.go (and all symmetric parsers)" "ParseKey" "protoKey.GetAesCtrKey().GetParams().GetIvSize() on nil sub-messages" KNilDeref
    "getters" (CTotal "get_sub of an absent field is the empty message, its scalars are 0 and are then rejected by the size checks (iv 0 < 12, tag 0 < 10)");
  mkSite "aead/*, mac/*, prf/*, daead/aessiv protoserialization.go" "ParseKey" "int(protoKey.GetParams().GetTagSize()), int(GetIvSize()), int(format.GetKeySize()) (uint32 -> int)" KIntConv
    "64-bit platform: lossless; the values are then compared with small constants / with len(key)" (CLemma "int_of_u32 is the identity; on 32-bit the wrapped value is negative and below every minimum: int_of_u32_32bit_wrapped_is_negative (not the platform of the check)");
  mkSite "aead/aesgcm/key.go etc." "NewKey" "keyBytes.Len() != int(parameters.KeySizeInBytes())" KIntConv
    "KeySizeInBytes was validated to be 16 / 32 (24 rejected)" (CModel "parse_aes_gcm etc.: key length tests");
  mkSite "streamingaead/aesctrhmac/protoserialization.go" "ParseKey" "int32(paramsProto.GetCiphertextSegmentSize()) (uint32 -> int32 wraps)" KIntConv
    "NewParameters: SegmentSizeInBytes < minCiphertextSegmentSize is an error, min > 0" (CLemma "seg_check_ctr_go_sound, seg_check_ctr_go_is_model (= int32_at_least of the model)");
  mkSite "streamingaead/aesctrhmac/parameters.go" "NewParameters" "int32(DerivedKeySizeInBytes + 7 + 1 + HmacTagSizeInBytes + 1) (int -> int32 wraps)" KIntConv
    "derived key size in {16, 32} and 10 <= tag <= 20/32/64 are checked BEFORE the sum is formed" (CLemma "seg_check_ctr_go_sound (Example seg_check_needs_the_tag_bound: without the bound a tag size of 2^32-25 passes)");
  mkSite "streamingaead/aesgcmhkdf/protoserialization.go, parameters.go" "ParseKey / validateOpts" "int32(paramsProto.GetCiphertextSegmentSize()); int32(DerivedKeySizeInBytes + 24 + 1)" KIntConv
    "derived key size in {16, 32} checked first; SegmentSizeInBytes < minSegmentSize is an error" (CLemma "seg_check_gcm_go_sound");
  mkSite "streamingaead/*/key.go" "primitive constructor" "int(params.SegmentSizeInBytes()), uint32(keyBytes.Len())" KIntConv
    "segment size > 0 after NewParameters; Len() is a length" (CModel "prim_ok PStreamGcmHkdf / PStreamCtrHmac");
  mkSite "secretdata/secretdata.go" "NewBytesFromData" "bytes.Clone(data)" KStdlib
    "total" (CTotal "identity on byte strings")
].

(* ---- sanity of the table ------------------------------------------------- *)

Definition guarded (s : site) : bool := negb (String.eqb (s_guard s) "NONE").

(* no site of the table is without a guard *)
Lemma every_site_has_a_guard : forallb guarded panic_sites = true.
Proof. vm_compute. reflexivity. Qed.

Definition is_harness_only (s : site) : bool := match s_cov s with CHarness _ => true | _ => false end.
Definition is_stdlib (s : site) : bool := match s_cov s with CStdlib _ => true | _ => false end.

(* how the 67 sites are covered: 1 by the harness alone (KeysetInfo's
   panic(err)), 6 inside the standard library (trusted behaviour named), the
   rest by a model clause, a lemma, totality or typing *)
Lemma coverage_counts :
  length panic_sites = 67 /\
  length (filter is_harness_only panic_sites) = 1 /\
  length (filter is_stdlib panic_sites) = 6.
Proof. vm_compute. repeat split. Qed.
