(* C14 (stretch) — the TYPE of the table of panic sites on the untrusted-keyset
   path of /repo.  The table itself (proofs/UntrustedPanicSitesTable.v: its
   entries carry the propositions that cover them AND their proofs, so it
   type-checks only if the no-panic facts exist) was made
   BY HAND from a reading of
     keyset/validation.go, keyset/handle.go, keyset/keyset.go, keyset/binary_io.go,
     keyset/json_io.go, insecurecleartextkeyset/insecurecleartextkeyset.go,
     internal/protoserialization/protoserialization.go,
     the protoserialization.go / key.go / parameters.go of the 37 modelled key
     types, and the helpers they call with attacker data (internal/ec,
     internal/signature/rsa.go, internal/signature/slhdsa, hybrid/internal/xwing,
     internal/outputprefix, the signer.go / verifier.go constructors).

   What was looked for (every expression Go or the standard library can make
   panic when the attacker controls the data): slice and index expressions,
   nil dereferences (direct field access on proto messages, method calls on
   possibly-nil pointers), integer conversions that wrap, make() with
   attacker-controlled sizes, math/big operations, type assertions without
   ", ok", explicit panic() and standard-library calls that panic on bad
   arguments.

   Findings of the reading, in one paragraph: the 30 protoserialization.go files
   read proto messages ONLY through the generated nil-safe getters (no direct
   field access on a decoded message; grep for `\.[A-Z][A-Za-z]*\b[^(]` on the
   message variables finds none), contain no index expression on attacker data
   and only the slice expressions listed below; the keyset layer uses direct
   field access (keyset.Key, key.KeyId, key.KeyData, key.Status) only after the
   nil checks of Validate / validateKey.  NO UNGUARDED SITE was found.  The
   malformed stream of harness/p/c14/gen6.go (every varint field of every bank
   key at the overflow edges, every length-delimited field removed / emptied /
   non-message / with 300 leading zeros / one byte short / one byte long, nil
   keyset / key / key data through the proto-message API, degenerate
   EncryptedKeyset messages: 3322 + 566 cases in the thorough tier) produced no
   PANIC and no model mismatch.

   The LIST of sites is hand-made: a site the reading missed is not in it (the
   malformed stream and the PANIC observation of the harness are the net under
   it).  What Coq checks is the COVERAGE column of the listed sites, and only
   for the two constructors below.  Both take the function that contains the
   site as a FUNCTIONAL of the panicking operation, so that an entry cannot
   be inhabited by an unrelated function or by a guard nobody establishes
   (fourth audit, C1: the earlier shapes `CModel op w f pf` / `CLemma raw w
   guard pf` did not relate f to op and left guard free - `fun _ => Err` and
   `guard := False` type-checked; see the Fail tests at the end of
   proofs/UntrustedPanicSitesTable.v):

     CModel op w F reach f same pf
        op : X -> outcome Y   the checked operation of the model standing for the
                              Go expression (Bytes.slice, encode_point, ...)
        w : exists x, op x = Panic        it CAN panic
        F : (X -> outcome Y) -> A -> outcome B   the body of the model function
                              with the operation abstracted
        reach : exists a, F (fun _ => Panic) a = Panic   the operation is really
                              REACHED: with an always-panicking operation in its
                              place the function panics on some input
        f : A -> outcome B    a function of model/Untrusted*.v, by name
        same : forall a, F op a = f a     ... which IS that body over op
        pf : forall a, f a <> Panic       and never panics: whatever guard stands
                              in front of the operation inside F suffices
     CLemma raw w F reach pf
        raw : X -> outcome Y  the raw Go operation with machine integers
                              (make_z, index_z, slice_z of model/UntrustedSites.v)
        w : exists x, raw x = Panic
        F : (X -> outcome Y) -> A -> outcome B   the statements AS WRITTEN in the
                              Go function, the test in front of the expression
                              included, over the raw operation
        reach, pf : as above, for F raw

   Neither can be inhabited without a function that calls the operation on
   some input and never lets it panic.  What the type does NOT say: that op /
   raw / F are the right transcriptions of the Go source (read off the source),
   and - for CModel - nothing beyond f being a function of the model (it is
   tied to the code by the correspondence run).  The other three constructors
   carry NO theorem:

     CArgued w       argued in prose (w).  Used for: constant bounds, static
                     types, values tink-go built itself, range loops; sites whose
                     model function has no Panic constructor to reach (nil-safe
                     getters = total getters of the model, length tests in front
                     of library calls); sites whose only checked operation sits
                     inside a callee that has its own entry (the parsers calling
                     fixed_size); guards established by another function; integer
                     conversions, which wrap rather than panic (the comparisons
                     after them are theorem C14_wrapping_conversions_are_rejected,
                     named in w, not checked by the table)
     CStdlib w       inside the Go standard library; w names the trusted behaviour
     CHarnessOnly w  only the harness decides (PANIC observation = violation) *)
From Coq Require Import String List.
From Tink Require Import Bytes.
Import ListNotations.
Open Scope string_scope.

Inductive site_kind :=
| KSlice | KIndex | KNilDeref | KIntConv | KMake | KBigInt | KTypeAssert | KStdlib | KExplicitPanic.

Inductive coverage : Type :=
| CModel {X Y A B : Type} (op : X -> outcome Y) (w : exists x, op x = Panic)
         (F : (X -> outcome Y) -> A -> outcome B)
         (reach : exists a, F (fun _ => Panic) a = Panic)
         (f : A -> outcome B) (same : forall a, F op a = f a)
         (pf : forall a, f a <> Panic)
| CLemma {X Y A B : Type} (raw : X -> outcome Y) (w : exists x, raw x = Panic)
         (F : (X -> outcome Y) -> A -> outcome B)
         (reach : exists a, F (fun _ => Panic) a = Panic)
         (pf : forall a, F raw a <> Panic)
| CArgued (why : string)
| CStdlib (trusted : string)
| CHarnessOnly (exercised_by : string).

Record site := mkSite {
  s_file : string; s_func : string; s_expr : string; s_kind : site_kind;
  s_guard : string;      (* documentation: the check in front of the expression, verbatim *)
  s_cov : coverage }.

Definition by_model_theorem (s : site) : bool := match s_cov s with CModel _ _ _ _ _ _ _ => true | _ => false end.
Definition by_site_lemma (s : site) : bool := match s_cov s with CLemma _ _ _ _ _ => true | _ => false end.
Definition argued_only (s : site) : bool := match s_cov s with CArgued _ => true | _ => false end.
Definition is_stdlib (s : site) : bool := match s_cov s with CStdlib _ => true | _ => false end.
Definition is_harness_only (s : site) : bool := match s_cov s with CHarnessOnly _ => true | _ => false end.
Definition count (f : site -> bool) (l : list site) : nat := length (filter f l).
