(* C14 (stretch) — the TYPE of the table of panic sites on the untrusted-keyset
   path of /repo.  The table itself (proofs/UntrustedPanicSitesTable.v: its
   entries carry the propositions that cover them AND their proofs, so it
   type-checks only if the lemmas exist and state what the entry says) was made
   BY HAND from a reading of
     keyset/validation.go, keyset/handle.go, keyset/keyset.go, keyset/binary_io.go,
     keyset/json_io.go, insecurecleartextkeyset/insecurecleartextkeyset.go,
     internal/protoserialization/protoserialization.go,
     the protoserialization.go / key.go / parameters.go of the 37 modelled key
     types, and the helpers they call with attacker data (internal/ec,
     internal/signature/rsa.go, internal/signature/slhdsa, hybrid/internal/xwing,
     internal/outputprefix, the signer.go / verifier.go constructors).

   What was looked for (every expression Go or the standard library can make
   panic when the attacker controls the data): slice and index expressions,
   nil dereferences (direct field access on proto messages, method calls on
   possibly-nil pointers), integer conversions that wrap, make() with
   attacker-controlled sizes, math/big operations, type assertions without
   ", ok", explicit panic() and standard-library calls that panic on bad
   arguments.

   Findings of the reading, in one paragraph: the 30 protoserialization.go files
   read proto messages ONLY through the generated nil-safe getters (no direct
   field access on a decoded message; grep for `\.[A-Z][A-Za-z]*\b[^(]` on the
   message variables finds none), contain no index expression on attacker data
   and only the slice expressions listed below; the keyset layer uses direct
   field access (keyset.Key, key.KeyId, key.KeyData, key.Status) only after the
   nil checks of Validate / validateKey.  NO UNGUARDED SITE was found.  The
   malformed stream of harness/p/c14/gen6.go (every varint field of every bank
   key at the overflow edges, every length-delimited field removed / emptied /
   non-message / with 300 leading zeros / one byte short / one byte long, nil
   keyset / key / key data through the proto-message API, degenerate
   EncryptedKeyset messages: 3322 + 566 cases in the thorough tier) produced no
   PANIC and no model mismatch.

   The LIST of sites is hand-made: a site the reading missed is not in it (the
   malformed stream and the PANIC observation of the harness are the net under
   it).  What Coq checks is the COVERAGE column of the listed sites.

   Coverage (field s_cov):
     CModel P pf   the site is a checked operation inside a function of
                   model/Untrusted.v; P is the no-panic (or rejection) theorem of
                   that function, pf its proof (proofs/UntrustedProofs.v)
     CLemma P pf   the code is transcribed AS WRITTEN with Go machine integers in
                   model/UntrustedSites.v; P says the guard makes it safe for all
                   inputs, pf is its proof (proofs/UntrustedSitesProofs.v)
     CArgued w     NO THEOREM: the reading argues (w) that no attacker-controlled
                   value reaches the expression (constant bounds, static types,
                   a value tink-go built itself, a range loop over an allocated length)
     CStdlib w     NO THEOREM: inside the Go standard library; the guard in front
                   of the call is listed, w names the library behaviour trusted
                   (in the model the answer is an arbitrary function: record stdlib)
     CHarnessOnly w  NO THEOREM and no model: only the harness decides (PANIC
                   observation = violation); w = what exercises it *)
From Coq Require Import String List.
Import ListNotations.
Open Scope string_scope.

Inductive site_kind :=
| KSlice | KIndex | KNilDeref | KIntConv | KMake | KBigInt | KTypeAssert | KStdlib | KExplicitPanic.

Inductive coverage : Type :=
| CModel (P : Prop) (pf : P)
| CLemma (P : Prop) (pf : P)
| CArgued (why : string)
| CStdlib (trusted : string)
| CHarnessOnly (exercised_by : string).

Record site := mkSite {
  s_file : string; s_func : string; s_expr : string; s_kind : site_kind;
  s_guard : string;      (* documentation: the check in front of the expression, verbatim *)
  s_cov : coverage }.

Definition by_model_theorem (s : site) : bool := match s_cov s with CModel _ _ => true | _ => false end.
Definition by_site_lemma (s : site) : bool := match s_cov s with CLemma _ _ => true | _ => false end.
Definition argued_only (s : site) : bool := match s_cov s with CArgued _ => true | _ => false end.
Definition is_stdlib (s : site) : bool := match s_cov s with CStdlib _ => true | _ => false end.
Definition is_harness_only (s : site) : bool := match s_cov s with CHarnessOnly _ => true | _ => false end.
Definition count (f : site -> bool) (l : list site) : nat := length (filter f l).
