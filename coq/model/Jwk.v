(* Executable model of JWK export / import of JWT public keysets:

     internal/jwk/jwk.go     FromPublicKeysetHandle, esPublicKeyToStruct,
                             rsPublicKeyToStruct, psPublicKeyToStruct, setKeyID,
                             ToPublicKeysetHandle, keysetKeyFromStruct,
                             algorithmPrefix, esPublicKeyDataFromStruct,
                             rsPublicKeyDataFromStruct, psPublicKeyDataFromStruct,
                             rsaPubKeyFromStruct, validateUseIsSig,
                             validateKeyOPSIsVerify, stringItem, listValue,
                             hasItem, decodeItem, base64Decode
     jwt/jwk_converter.go    both directions with Ed25519SupportNone
     jwt/jwtecdsa            NewParameters, NewPublicKey (point validation)
     jwt/jwtrsassapkcs1, jwt/jwtrsassapss   NewParameters (modulus >= 2048 bit,
                             65537 <= e <= 2^31-1, e odd), NewPublicKey

   A JWK set is a PARSED JSON value (the json ADT of model/Jwt.v; an object is
   an association list read only through lookup/has, so member order does not
   matter).  JSON text <-> value (protojson) is outside the model.

   What a key object holds is what the Go key object holds:
     jwtecdsa.PublicKey       algorithm, uncompressed point 04||x||y, kid strategy
     jwtrsassa*.PublicKey     algorithm, modulus bytes exactly as given to
                              NewPublicKey (leading zero bytes are KEPT: the
                              constructor only checks BitLen), public exponent,
                              kid strategy
   kid strategy = kidrule of model/Jwt.v: KTink id (Base64EncodedKeyIDAsKID, id
   requirement), KCustom kid, KIgnored.

   Outside the model (Section variable): on_curve a pt, the answer of
   crypto/ecdh's Curve.NewPublicKey on a point of the right length that starts
   with 0x04 (coordinates below p, curve equation).
   No proofs here: proofs/JwkProofs.v. *)
From Coq Require Import List NArith ZArith Bool.
From Tink Require Import Bytes Base64url Jwt.
Import ListNotations.
Open Scope N_scope.

(* ---- keys ---- *)
Inductive hsz := H256 | H384 | H512.          (* ..256 / ..384 / ..512 *)
Inductive rsafam := RS | PS.                  (* jwtrsassapkcs1 / jwtrsassapss *)

Inductive pubkey :=
| PubES (a : hsz) (point : bytes) (kid : kidrule)
| PubRSA (fam : rsafam) (a : hsz) (modulus : bytes) (e : N) (kid : kidrule).

(* the dynamic type of keyset.Entry.Key() as FromPublicKeysetHandle sees it *)
Inductive tkey :=
| KPub (p : pubkey)                           (* *jwtecdsa.PublicKey, *jwtrsassapkcs1.PublicKey, *jwtrsassapss.PublicKey *)
| KPriv (p : pubkey) (secret : list bytes)    (* the three *PrivateKey types: public key + private material (scalar | d, p, q) *)
| KOther (what : N).                          (* every other type: jwthmac.Key, jwtmldsa keys, ed25519.PublicKey
                                                 (Ed25519SupportNone), non-JWT keys *)

Inductive kstatus := Enabled | Disabled | Destroyed.
Record entry := mkEntry { e_key : tkey; e_status : kstatus; e_id : N }.
Definition keyset := list entry.

Definition pk_kid (k : pubkey) : kidrule :=
  match k with PubES _ _ kid => kid | PubRSA _ _ _ _ kid => kid end.

(* ---- names ---- *)
Definition s_keys : bytes := [107; 101; 121; 115].
Definition s_kty : bytes := [107; 116; 121].
Definition s_crv : bytes := [99; 114; 118].
Definition s_x : bytes := [120].
Definition s_y : bytes := [121].
Definition s_n : bytes := [110].
Definition s_e : bytes := [101].
Definition s_d : bytes := [100].
Definition s_p : bytes := [112].
Definition s_q : bytes := [113].
Definition s_dp : bytes := [100; 112].
Definition s_dq : bytes := [100; 113].
Definition s_qi : bytes := [113; 105].
Definition s_use : bytes := [117; 115; 101].
Definition s_sig : bytes := [115; 105; 103].
Definition s_key_ops : bytes := [107; 101; 121; 95; 111; 112; 115].
Definition s_verify : bytes := [118; 101; 114; 105; 102; 121].
Definition s_EC : bytes := [69; 67].
Definition s_RSA : bytes := [82; 83; 65].
Definition s_ES : bytes := [69; 83].
Definition s_RS : bytes := [82; 83].
Definition s_PS : bytes := [80; 83].

Definition digits (a : hsz) : bytes :=
  match a with H256 => [50; 53; 54] | H384 => [51; 56; 52] | H512 => [53; 49; 50] end.
(* "P-256" "P-384" "P-521" *)
Definition crv_name (a : hsz) : bytes :=
  match a with H256 => [80; 45; 50; 53; 54] | H384 => [80; 45; 51; 56; 52] | H512 => [80; 45; 53; 50; 49] end.
Definition fam_prefix (f : rsafam) : bytes := match f with RS => s_RS | PS => s_PS end.
Definition es_name (a : hsz) : bytes := s_ES ++ digits a.
Definition rsa_name (f : rsafam) (a : hsz) : bytes := fam_prefix f ++ digits a.
Definition alg_name (k : pubkey) : bytes :=
  match k with PubES a _ _ => es_name a | PubRSA f a _ _ _ => rsa_name f a end.

(* coordinate width in bytes: 32 / 48 / 66 *)
Definition coord_size (a : hsz) : nat :=
  match a with H256 => 32%nat | H384 => 48%nat | H512 => 66%nat end.

(* new(big.Int).SetBytes(b).BitLen() *)
Definition bitlen (b : bytes) : N := N.size (be_val b).
(* big.Int.Bytes(): minimal big-endian encoding (empty for 0) *)
Definition min_be (x : N) : bytes := be_bytes (N.to_nat ((N.size x + 7) / 8)) x.

(* ================= export: FromPublicKeysetHandle ================= *)

(* setKeyID.  Its error branch (ID requirement together with a custom kid)
   needs KIDStrategy = CustomKID and HasIDRequirement at once, which no
   Parameters value has: kidrule has no such constructor. *)
Definition kid_field (r : kidrule) : fields :=
  match r with
  | KTink id => [(s_kid, JStr (tink_kid id))]
  | KCustom c => [(s_kid, JStr c)]
  | KIgnored => []
  end.

Definition common_fields : fields := [(s_use, JStr s_sig); (s_key_ops, JArr [JStr s_verify])].

(* es/rs/psPublicKeyToStruct.  For an ES key: publicPoint[1:] is cut at the
   coordinate width, and a coordinate whose BitLen exceeds 8*width is refused
   (never the case for a width-byte slice; kept because the code has it). *)
Definition export_key (k : pubkey) : option fields :=
  match k with
  | PubES a pt kid =>
    let sz := coord_size a in
    let x := firstn sz (tl pt) in
    let y := skipn sz (tl pt) in
    if (8 * N.of_nat sz <? bitlen x) || (8 * N.of_nat sz <? bitlen y) then None
    else Some ([(s_crv, JStr (crv_name a)); (s_alg, JStr (es_name a)); (s_kty, JStr s_EC);
                (s_x, JStr (b64_encode x)); (s_y, JStr (b64_encode y))] ++ common_fields ++ kid_field kid)
  | PubRSA f a n e kid =>
    Some ([(s_alg, JStr (rsa_name f a)); (s_kty, JStr s_RSA);
           (s_e, JStr (b64_encode (min_be e))); (s_n, JStr (b64_encode n))] ++ common_fields ++ kid_field kid)
  end.

(* the loop: entries that are not ENABLED are skipped BEFORE the type switch;
   an enabled entry of any other type than the three public key types aborts *)
Fixpoint export_entries (ks : keyset) : option (list json) :=
  match ks with
  | [] => Some []
  | en :: t =>
    match e_status en with
    | Enabled =>
      match e_key en with
      | KPub p =>
        match export_key p, export_entries t with
        | Some f, Some r => Some (JObj f :: r)
        | _, _ => None
        end
      | _ => None
      end
    | _ => export_entries t
    end
  end.

(* {"keys":[...]}; MarshalJSON refuses strings that are not valid UTF-8 (only
   a custom kid can be one) *)
Definition jwk_export (ks : keyset) : option json :=
  match export_entries ks with
  | None => None
  | Some l => let out := JObj [(s_keys, JArr l)] in
              if json_utf8 out then Some out else None
  end.

(* ================= import: ToPublicKeysetHandle ================= *)

(* stringItem *)
Definition str_item (f : fields) (name : bytes) : option bytes :=
  match lookup name f with
  | Some (JStr s) => Some s
  | _ => None
  end.

(* listValue: present, a list, and not empty *)
Definition list_value (f : fields) (name : bytes) : option (list json) :=
  match lookup name f with
  | Some (JArr (v :: l)) => Some (v :: l)
  | _ => None
  end.

(* expectStringItem *)
Definition expect_str (f : fields) (name value : bytes) : bool :=
  match str_item f name with
  | Some s => beq s value
  | None => false
  end.

(* decodeItem *)
Definition decode_item (f : fields) (name : bytes) : option bytes :=
  match str_item f name with
  | Some s => b64_decode s
  | None => None
  end.

(* validateUseIsSig / validateKeyOPSIsVerify *)
Definition use_ok (f : fields) : bool :=
  if has s_use f then expect_str f s_use s_sig else true.
Definition key_ops_ok (f : fields) : bool :=
  if has s_key_ops f then
    match list_value f s_key_ops with
    | Some [JStr s] => beq s s_verify
    | _ => false
    end
  else true.

(* "kid": absent -> IgnoredKID; a string -> CustomKID; anything else -> error *)
Definition import_kid (f : fields) : option kidrule :=
  if has s_kid f then
    match str_item f s_kid with
    | Some c => Some (KCustom c)
    | None => None
    end
  else Some KIgnored.

(* switch alg { case "<prefix>256": .. case "<prefix>384": .. case "<prefix>512": .. default: error } *)
Definition alg_of (prefix alg : bytes) : option hsz :=
  if beq alg (prefix ++ digits H256) then Some H256
  else if beq alg (prefix ++ digits H384) then Some H384
  else if beq alg (prefix ++ digits H512) then Some H512
  else None.

(* the alg / crv table of esPublicKeyDataFromStruct *)
Definition es_alg_of (alg crv : bytes) : option hsz :=
  match alg_of s_ES alg with
  | Some a => if beq crv (crv_name a) then Some a else None
  | None => None
  end.

Definition rsa_private_names : list bytes := [s_p; s_q; s_dq; s_dp; s_d; s_qi].

(* IsInt64, then NewParameters: modulus size, exponent range, exponent odd *)
Definition rsa_params_ok (n : bytes) (e : N) : bool :=
  (e <? 9223372036854775808) && (2048 <=? bitlen n) && (65537 <=? e) && (e <=? 2147483647) && N.odd e.

Section Import.
  Variable on_curve : hsz -> bytes -> bool.

  (* ecdh Curve.NewPublicKey: uncompressed, right length, on the curve *)
  Definition ec_point_ok (a : hsz) (pt : bytes) : bool :=
    Nat.eqb (length pt) (1 + 2 * coord_size a) && (hd 0 pt =? 4) && on_curve a pt.

  Definition import_es (f : fields) : option pubkey :=
    match str_item f s_alg, str_item f s_crv with
    | Some alg, Some crv =>
      match es_alg_of alg crv with
      | None => None
      | Some a =>
        if has s_d f then None
        else if negb (expect_str f s_kty s_EC) then None
        else if negb (use_ok f) then None
        else if negb (key_ops_ok f) then None
        else
          match decode_item f s_x, decode_item f s_y with
          | Some x, Some y =>
            match import_kid f with
            | None => None
            | Some kid =>
              let pt := 4 :: x ++ y in
              if ec_point_ok a pt then Some (PubES a pt kid) else None
            end
          | _, _ => None
          end
      end
    | _, _ => None
    end.

  (* rs/psPublicKeyDataFromStruct + rsaPubKeyFromStruct *)
  Definition import_rsa (fam : rsafam) (f : fields) : option pubkey :=
    match str_item f s_alg with
    | None => None
    | Some alg =>
      match alg_of (fam_prefix fam) alg with
      | None => None
      | Some a =>
        if existsb (fun nm => has nm f) rsa_private_names then None
        else if negb (expect_str f s_kty s_RSA) then None
        else if negb (use_ok f) then None
        else if negb (key_ops_ok f) then None
        else
          match decode_item f s_e, decode_item f s_n with
          | Some eb, Some n =>
            match import_kid f with
            | None => None
            | Some kid =>
              let e := be_val eb in
              if rsa_params_ok n e then Some (PubRSA fam a n e kid) else None
            end
          | _, _ => None
          end
      end
    end.

  (* keysetKeyFromStruct with Ed25519SupportNone: the "Ed" prefix is an error
     like every prefix other than ES, RS, PS *)
  Definition import_key (v : json) : option pubkey :=
    match v with
    | JObj f =>
      match str_item f s_alg with
      | None => None
      | Some alg =>
        if (length alg <? 2)%nat then None
        else
          let p := firstn 2 alg in
          if beq p s_ES then import_es f
          else if beq p s_RS then import_rsa RS f
          else if beq p s_PS then import_rsa PS f
          else None
      end
    | _ => None
    end.

  (* ToPublicKeysetHandle on the parsed set: the first bad key aborts.  The
     result lists the keys in order; the handle holds them all ENABLED under
     fresh random key ids, the last one primary (jwk_import_handle). *)
  Definition jwk_import (j : json) : option (list pubkey) :=
    match j with
    | JObj f =>
      match list_value f s_keys with
      | Some l => map_opt import_key l
      | None => None
      end
    | _ => None
    end.

  (* the handle: ids = the random ids the manager draws, in order *)
  Definition jwk_import_handle (ids : list N) (j : json) : option (keyset * N) :=
    match jwk_import j with
    | None => None
    | Some pks =>
      let ks := map (fun ki => mkEntry (KPub (fst ki)) Enabled (snd ki)) (combine pks ids) in
      Some (ks, last (map e_id ks) 0)
    end.
End Import.

(* ================= what verification sees of a key ================= *)

(* the public material a raw verifier is built from *)
Inductive material :=
| MatES (a : hsz) (point : bytes)
| MatRSA (fam : rsafam) (a : hsz) (modulus : bytes) (e : N).

Definition pk_material (k : pubkey) : material :=
  match k with
  | PubES a pt _ => MatES a pt
  | PubRSA f a n e _ => MatRSA f a n e
  end.

(* the kid rule after a JWK round trip: a key-ID-derived kid becomes a custom kid *)
Definition jwk_kid (r : kidrule) : kidrule :=
  match r with KTink id => KCustom (tink_kid id) | _ => r end.
Definition jwk_pub (k : pubkey) : pubkey :=
  match k with
  | PubES a pt kid => PubES a pt (jwk_kid kid)
  | PubRSA f a n e kid => PubRSA f a n e (jwk_kid kid)
  end.

(* the public keys of the ENABLED entries, in order *)
Fixpoint enabled_pubs (ks : keyset) : list pubkey :=
  match ks with
  | [] => []
  | en :: t =>
    match e_status en, e_key en with
    | Enabled, KPub p => p :: enabled_pubs t
    | _, _ => enabled_pubs t
    end
  end.

Definition is_enabled (en : entry) : bool :=
  match e_status en with Enabled => true | _ => false end.

Section View.
  (* the raw verifier is a function of the public material only *)
  Variable kref_of : material -> N.

  Definition jkey_of (enabled : bool) (k : pubkey) : jkey :=
    mkKey (kref_of (pk_material k)) enabled (alg_name k) (pk_kid k).

  (* the jkeys of a public keyset (entries that hold public keys) *)
  Fixpoint keyset_view (ks : keyset) : list jkey :=
    match ks with
    | [] => []
    | en :: t =>
      match e_key en with
      | KPub p => jkey_of (is_enabled en) p :: keyset_view t
      | _ => keyset_view t
      end
    end.
End View.

(* ================= declarative reading ================= *)

(* what the Go constructors guarantee of a key object *)
Definition kid_wf (r : kidrule) : Prop :=
  match r with
  | KTink id => id < 4294967296
  | KCustom c => wfb c
  | KIgnored => True
  end.

Definition pubkey_wf (on_curve : hsz -> bytes -> bool) (k : pubkey) : Prop :=
  match k with
  | PubES a pt kid =>
      wfb pt /\ length pt = (1 + 2 * coord_size a)%nat /\ hd 0 pt = 4 /\ on_curve a pt = true /\ kid_wf kid
  | PubRSA _ _ n e kid =>
      wfb n /\ 2048 <= bitlen n /\ 65537 <= e <= 2147483647 /\ N.odd e = true /\ kid_wf kid
  end.

(* MarshalJSON can print the key: its custom kid (if any) is valid UTF-8 *)
Definition kid_utf8 (r : kidrule) : bool :=
  match r with KCustom c => utf8_valid c | _ => true end.

(* an absent member, or exactly this value *)
Definition absent_or (f : fields) (name : bytes) (v : json) : Prop :=
  lookup name f = None \/ lookup name f = Some v.

Definition kid_rule_of (f : fields) (r : kidrule) : Prop :=
  match r with
  | KIgnored => lookup s_kid f = None
  | KCustom c => lookup s_kid f = Some (JStr c)
  | KTink _ => False
  end.

(* the JWK objects that import accepts, and the key each one yields *)
Definition jwk_key_rule (on_curve : hsz -> bytes -> bool) (v : json) (k : pubkey) : Prop :=
  exists f, v = JObj f
  /\ absent_or f s_use (JStr s_sig)
  /\ absent_or f s_key_ops (JArr [JStr s_verify])
  /\ kid_rule_of f (pk_kid k)
  /\ match k with
     | PubES a pt _ =>
         lookup s_alg f = Some (JStr (es_name a))
         /\ lookup s_crv f = Some (JStr (crv_name a))
         /\ lookup s_kty f = Some (JStr s_EC)
         /\ lookup s_d f = None
         /\ exists xs ys x y,
              lookup s_x f = Some (JStr xs) /\ b64_decode xs = Some x
              /\ lookup s_y f = Some (JStr ys) /\ b64_decode ys = Some y
              /\ pt = 4 :: x ++ y
              /\ length pt = (1 + 2 * coord_size a)%nat
              /\ on_curve a pt = true
     | PubRSA fam a n e _ =>
         lookup s_alg f = Some (JStr (rsa_name fam a))
         /\ lookup s_kty f = Some (JStr s_RSA)
         /\ (forall nm, In nm rsa_private_names -> lookup nm f = None)
         /\ exists ns es eb,
              lookup s_n f = Some (JStr ns) /\ b64_decode ns = Some n
              /\ lookup s_e f = Some (JStr es) /\ b64_decode es = Some eb
              /\ e = be_val eb
              /\ 2048 <= bitlen n /\ 65537 <= e <= 2147483647 /\ N.odd e = true
     end.
