(* FIPS 204 (Module-Lattice-Based Digital Signature Standard, August 2024)
   transcribed from the text of the standard, algorithm by algorithm,
   INDEPENDENTLY of the Go code and of the implementation model
   (model/Mldsa*.v, gen/MldsaScalar.v): this file imports nothing of them
   (only `bytes = list N` of lib/Bytes.v).  Everything lives in the module
   FIPS (FIPS.NTT, FIPS.ExpandA, FIPS.Sign_internal, ...), never imported, so
   that no name of the implementation model is shadowed.

   Shape, as in the standard:
   - integers are unbounded (Z); a mod q is the non-negative remainder,
     m mod+- alpha is the unique m' = m (mod alpha) with
     -ceil(alpha/2) < m' <= floor(alpha/2)  (section 2.3);
   - polynomials are the arrays of 256 INTEGER coefficients of the pseudocode:
     s1, s2 (in [-eta, eta]), t0 (in (-2^12, 2^12]), y, c (in {-1,0,1}) are
     SIGNED where the standard has them signed, elements of R_q that come out
     of NTT / NTT^-1 / the mod-q vector arithmetic are canonical in [0, q),
     and "z mod+- q" is applied where Algorithm 7 line 33 applies it (the
     implementation model keeps canonical representatives everywhere);
   - bit strings are lists of bool where the standard uses bit strings
     (Algorithms 9, 10, 12, 13, 16-19, 43, SampleInBall's h);
   - zetas[k] = zeta^BitRev8(k) mod q with zeta = 1753 (section 7.5), not a
     table;
   - H = SHAKE256 and G = SHAKE128 are abstract functions (input bytes,
     requested output length in bytes) -> bytes.  The incremental interface
     of section 3.7 (Init / Absorb / Squeeze) is defined from them: a context
     is the absorbed string and the number of bytes already squeezed, and
     Squeeze(ctx, l) returns bytes [pos, pos+l) of the output stream (the
     theorems assume the one law that makes this well defined: a shorter
     request returns a prefix of a longer one);
   - for-loops are `for_ lo cnt body` ("for i from lo to lo+cnt-1") carrying
     exactly the variables the pseudocode assigns; arrays filled index by
     index by such a loop are `array n f`; the while loops of Algorithms 41/42
     have the number of rounds they provably make; the UNBOUNDED rejection
     loops of Algorithms 29, 30, 31 and 7 take a bound on the number of
     Squeeze calls / signing rounds (FIPS 204 Appendix C permits bounding
     them) and return None ("out of stream") when it is exceeded;
   - M' is a byte string: the standard's bit string M' is BytesToBits of it
     and H absorbs BytesToBits(tr) || M' = the bytes tr || M'. *)
From Coq Require Import List ZArith NArith Bool Arith.
From Tink Require Import Bytes.
Import ListNotations.
Open Scope Z_scope.

Module FIPS.

(* ---- section 4, Table 1 ---- *)
Definition q : Z := 8380417.
Definition zeta : Z := 1753.
Definition d : Z := 13.

Record params := mkParams {
  tau : nat; lambda : nat; gamma1 : Z; gamma2 : Z; k : nat; l : nat; eta : Z; beta : Z; omega : nat }.

Definition ML_DSA_44 : params := mkParams 39 128 (2 ^ 17) ((q - 1) / 88) 4 4 2 78 80.
Definition ML_DSA_65 : params := mkParams 49 192 (2 ^ 19) ((q - 1) / 32) 6 5 4 196 55.
Definition ML_DSA_87 : params := mkParams 60 256 (2 ^ 19) ((q - 1) / 32) 8 7 2 120 75.

(* ---- pseudocode conventions (section 2.3 / 2.4) ---- *)
Definition poly := list Z.

(* for i from lo to lo + cnt - 1 do st <- body i st *)
Fixpoint for_ {St : Type} (lo cnt : nat) (body : nat -> St -> St) (st : St) : St :=
  match cnt with
  | O => st
  | S c => for_ (S lo) c body (body lo st)
  end.

(* while cond do st <- body st, at most [rounds] rounds *)
Fixpoint while_ {St : Type} (rounds : nat) (cond : St -> bool) (body : St -> St) (st : St) : St :=
  match rounds with
  | O => st
  | S r => if cond st then while_ r cond body (body st) else st
  end.

(* a[i] <- f(i) for i from 0 to n-1 *)
Definition array {A} (n : nat) (f : nat -> A) : list A := for_ 0 n (fun i a => a ++ [f i]) [].
(* the same when f(i) may be "out of stream" *)
Definition array_opt {A} (n : nat) (f : nat -> option A) : option (list A) :=
  for_ 0 n (fun i a => match a, f i with Some a, Some x => Some (a ++ [x]) | _, _ => None end) (Some []).

Definition obind {A B} (o : option A) (f : A -> option B) : option B :=
  match o with None => None | Some a => f a end.

(* X[i], ..., X[j-1] *)
Definition sl {A} (X : list A) (i j : nat) : list A := firstn (j - i) (skipn i X).

(* a[i] <- v *)
Fixpoint set_nth {A} (i : nat) (v : A) (a : list A) : list A :=
  match a with
  | [] => []
  | x :: t => match i with O => v :: t | S i' => x :: set_nth i' v t end
  end.

Fixpoint zip_with {A B C} (f : A -> B -> C) (a : list A) (b : list B) : list C :=
  match a, b with
  | x :: a', y :: b' => f x y :: zip_with f a' b'
  | _, _ => []
  end.

(* bitlen a: the number of bits of a (a >= 0) *)
Definition bitlen (a : Z) : nat := if a <=? 0 then O else S (Z.to_nat (Z.log2 a)).

(* m mod+- alpha *)
Definition modpm (m alpha : Z) : Z := let r := m mod alpha in if r <=? alpha / 2 then r else r - alpha.

Definition b2z (b : bool) : Z := if b then 1 else 0.

(* ------------------------------------------------------------------ *)
(* section 7.1: conversions (Algorithms 9-13)                           *)
(* ------------------------------------------------------------------ *)
(* Algorithm 9: x' <- x; for i: y[i] <- x' mod 2; x' <- floor(x'/2) *)
Definition IntegerToBits (x : Z) (alpha : nat) : list bool :=
  snd (for_ 0 alpha (fun _ '(x', y) => (x' / 2, y ++ [x' mod 2 =? 1])) (x, [])).

(* Algorithm 10: x <- 0; for i from 1 to alpha: x <- 2x + y[alpha - i] *)
Definition BitsToInteger (y : list bool) (alpha : nat) : Z :=
  for_ 1 alpha (fun i x => 2 * x + b2z (nth (alpha - i) y false)) 0.

(* Algorithm 11: x' <- x; for i: y[i] <- x' mod 256; x' <- floor(x'/256) *)
Definition IntegerToBytes (x : Z) (alpha : nat) : bytes :=
  snd (for_ 0 alpha (fun _ '(x', y) => (x' / 256, y ++ [Z.to_N (x' mod 256)])) (x, [])).

(* Algorithm 12: z[floor(i/8)] <- z[floor(i/8)] + y[i] * 2^(i mod 8), i.e.
   byte kk collects the bits 8kk .. 8kk+7 (missing bits are 0), ceil(|y|/8) bytes *)
Definition BitsToBytes (y : list bool) : bytes :=
  array ((length y + 7) / 8) (fun kk =>
    Z.to_N (for_ 0 8 (fun j s => s + b2z (nth (8 * kk + j) y false) * 2 ^ Z.of_nat j) 0)).

(* Algorithm 13: for each byte, 8 times: y[8i+j] <- z'[i] mod 2; z'[i] <- floor(z'[i]/2) *)
Definition BytesToBits (z : bytes) : list bool :=
  for_ 0 (length z) (fun i y => y ++ IntegerToBits (Z.of_N (nth i z 0%N)) 8) [].

(* Algorithm 14 *)
Definition CoeffFromThreeBytes (b0 b1 b2 : Z) : option Z :=
  let b2' := if 127 <? b2 then b2 - 128 else b2 in
  let z := 2 ^ 16 * b2' + 2 ^ 8 * b1 + b0 in
  if z <? q then Some z else None.

(* Algorithm 15 *)
Definition CoeffFromHalfByte (eta : Z) (b : Z) : option Z :=
  if (eta =? 2) && (b <? 15) then Some (2 - (b mod 5))
  else if (eta =? 4) && (b <? 9) then Some (4 - b)
  else None.

(* ------------------------------------------------------------------ *)
(* section 7.1: packing (Algorithms 16-19)                              *)
(* ------------------------------------------------------------------ *)
(* Algorithm 16: z <- z || IntegerToBits(w_i, bitlen b) for i = 0..255; BitsToBytes(z) *)
Definition SimpleBitPack (w : poly) (b : Z) : bytes :=
  BitsToBytes (for_ 0 256 (fun i z => z ++ IntegerToBits (nth i w 0) (bitlen b)) []).

(* Algorithm 17: z <- z || IntegerToBits(b - w_i, bitlen (a + b)) *)
Definition BitPack (w : poly) (a b : Z) : bytes :=
  BitsToBytes (for_ 0 256 (fun i z => z ++ IntegerToBits (b - nth i w 0) (bitlen (a + b))) []).

(* Algorithm 18: c <- bitlen b; z <- BytesToBits(v); w_i <- BitsToInteger((z[ic], .., z[ic+c-1]), c) *)
Definition SimpleBitUnpack (v : bytes) (b : Z) : poly :=
  let c := bitlen b in
  let z := BytesToBits v in
  array 256 (fun i => BitsToInteger (sl z (i * c) (i * c + c)) c).

(* Algorithm 19: w_i <- b - BitsToInteger(...) *)
Definition BitUnpack (v : bytes) (a b : Z) : poly :=
  let c := bitlen (a + b) in
  let z := BytesToBits v in
  array 256 (fun i => b - BitsToInteger (sl z (i * c) (i * c + c)) c).

(* ------------------------------------------------------------------ *)
(* section 7.5: NTT (Algorithms 41-43)                                  *)
(* ------------------------------------------------------------------ *)
(* Algorithm 43 *)
Definition BitRev8 (m : nat) : Z :=
  let b := IntegerToBits (Z.of_nat m) 8 in
  let brev := array 8 (fun i => nth (7 - i) b false) in
  BitsToInteger brev 8.

(* zetas[k] = zeta^BitRev8(k) mod q *)
Definition zetas (m : nat) : Z := (zeta ^ BitRev8 m) mod q.

(* Algorithm 41.  State of the outer while: (w^, m, len); of the inner
   while: (w^, m, start).  len takes the 8 values 128, 64, .., 1; start the
   256/(2 len) <= 128 values 0, 2 len, .. *)
Definition NTT (w : poly) : poly :=
  let '(wh, _, _) :=
    while_ 8 (fun '(wh, m, len) => Nat.leb 1 len)
      (fun '(wh, m, len) =>
         let '(wh, m, _) :=
           while_ 128 (fun '(wh, m, start) => Nat.ltb start 256)
             (fun '(wh, m, start) =>
                let m := S m in
                let z := zetas m in
                let wh := for_ start len (fun j wh =>
                            let t := (z * nth (j + len) wh 0) mod q in
                            let wj := nth j wh 0 in
                            let wh := set_nth (j + len) ((wj - t) mod q) wh in
                            set_nth j ((wj + t) mod q) wh) wh in
                (wh, m, (start + 2 * len)%nat))
             (wh, m, O) in
         (wh, m, Nat.div len 2))
      (w, O, 128%nat) in
  wh.

(* Algorithm 42 *)
Definition NTT_inv (wh : poly) : poly :=
  let '(w, _, _) :=
    while_ 8 (fun '(w, m, len) => Nat.ltb len 256)
      (fun '(w, m, len) =>
         let '(w, m, _) :=
           while_ 128 (fun '(w, m, start) => Nat.ltb start 256)
             (fun '(w, m, start) =>
                let m := Nat.pred m in
                let z := - zetas m in
                let w := for_ start len (fun j w =>
                           let t := nth j w 0 in
                           let w := set_nth j ((t + nth (j + len) w 0) mod q) w in
                           let w := set_nth (j + len) ((t - nth (j + len) w 0) mod q) w in
                           set_nth (j + len) ((z * nth (j + len) w 0) mod q) w) w in
                (w, m, (start + 2 * len)%nat))
             (w, m, O) in
         (w, m, (2 * len)%nat))
      (wh, 256%nat, 1%nat) in
  let f := 8347681 in
  array 256 (fun j => (f * nth j w 0) mod q).

(* Algorithms 44-48 (arithmetic under NTT); MatrixVectorNTT: w^ <- 0;
   w^[i] <- w^[i] + M^[i,j] o v^[j] *)
Definition AddNTT (a b : poly) : poly := array 256 (fun i => (nth i a 0 + nth i b 0) mod q).
Definition MultiplyNTT (a b : poly) : poly := array 256 (fun i => (nth i a 0 * nth i b 0) mod q).
Definition AddVectorNTT (v w : list poly) : list poly := zip_with AddNTT v w.
Definition ScalarVectorNTT (c : poly) (v : list poly) : list poly := map (MultiplyNTT c) v.
Definition MatrixVectorNTT (kk ll : nat) (M : list (list poly)) (v : list poly) : list poly :=
  array kk (fun i => for_ 0 ll (fun j wi => AddNTT wi (MultiplyNTT (nth j (nth i M []) []) (nth j v []))) (repeat 0 256)).

(* arithmetic of R_q on vectors (section 2.3: coefficientwise, mod q) *)
Definition AddPoly (a b : poly) : poly := zip_with (fun x y => (x + y) mod q) a b.
Definition SubPoly (a b : poly) : poly := zip_with (fun x y => (x - y) mod q) a b.
Definition NegPoly (a : poly) : poly := map (fun x => (- x) mod q) a.
Definition AddVector (v w : list poly) : list poly := zip_with AddPoly v w.
Definition SubVector (v w : list poly) : list poly := zip_with SubPoly v w.
Definition NegVector (v : list poly) : list poly := map NegPoly v.

(* ||w||_inf = max |w_i mod+- q| (section 2.3), of a polynomial and of a vector *)
Definition norm_poly (w : poly) : Z := fold_right Z.max 0 (map (fun x => Z.abs (modpm x q)) w).
Definition norm_vec (v : list poly) : Z := fold_right Z.max 0 (map norm_poly v).

(* ------------------------------------------------------------------ *)
(* section 7.4: rounding (Algorithms 35-40), for one gamma2             *)
(* ------------------------------------------------------------------ *)
(* Algorithm 35 *)
Definition Power2Round (r : Z) : Z * Z :=
  let rp := r mod q in
  let r0 := modpm rp (2 ^ d) in
  ((rp - r0) / 2 ^ d, r0).

(* Algorithm 36 *)
Definition Decompose (g2 : Z) (r : Z) : Z * Z :=
  let rp := r mod q in
  let r0 := modpm rp (2 * g2) in
  if rp - r0 =? q - 1 then (0, r0 - 1) else ((rp - r0) / (2 * g2), r0).

(* Algorithms 37, 38 *)
Definition HighBits (g2 r : Z) : Z := fst (Decompose g2 r).
Definition LowBits (g2 r : Z) : Z := snd (Decompose g2 r).

(* Algorithm 39: [[r1 <> v1]] *)
Definition MakeHint (g2 z r : Z) : Z :=
  let r1 := HighBits g2 r in
  let v1 := HighBits g2 (r + z) in
  if r1 =? v1 then 0 else 1.

(* Algorithm 40 *)
Definition UseHint (g2 h r : Z) : Z :=
  let m := (q - 1) / (2 * g2) in
  let '(r1, r0) := Decompose g2 r in
  if (h =? 1) && (0 <? r0) then (r1 + 1) mod m
  else if (h =? 1) && (r0 <=? 0) then (r1 - 1) mod m
  else r1.

(* ------------------------------------------------------------------ *)
(* section 3.7: the XOFs and their incremental interface                *)
(* ------------------------------------------------------------------ *)
Definition xof := bytes -> nat -> bytes.           (* XOF(str, l): l bytes *)
Definition xof_ctx := (bytes * nat)%type.          (* absorbed so far, bytes squeezed so far *)
Definition Init : xof_ctx := ([], O).
Definition Absorb (ctx : xof_ctx) (str : bytes) : xof_ctx := (fst ctx ++ str, snd ctx).
Definition Squeeze (X : xof) (ctx : xof_ctx) (len : nat) : xof_ctx * bytes :=
  ((fst ctx, (snd ctx + len)%nat), sl (X (fst ctx) (snd ctx + len)%nat) (snd ctx) (snd ctx + len)).

Section WithXOF.
  Variable H : xof.       (* SHAKE256 *)
  Variable G : xof.       (* SHAKE128 *)
  Variable P : params.
  (* bounds on the number of Squeeze calls of the rejection loops of
     Algorithms 30 (3 bytes each), 31 (1 byte each), 29 (1 byte each) *)
  Variable bound_RejNTT bound_RejBounded bound_SampleInBall : nat.

  (* ---------------------------------------------------------------- *)
  (* section 7.3: sampling (Algorithms 29-34)                          *)
  (* ---------------------------------------------------------------- *)
  (* Algorithm 29, lines 7-9: (ctx, j) <- Squeeze(ctx, 1); while j > i do
     (ctx, j) <- Squeeze(ctx, 1).  [n] Squeeze calls are left. *)
  Fixpoint squeeze_until_le (n : nat) (ctx : xof_ctx) (i : nat) : option (xof_ctx * nat * nat) :=
    match n with
    | O => None
    | S n' =>
        let '(ctx, s) := Squeeze H ctx 1 in
        let j := N.to_nat (nth 0 s 0%N) in
        if Nat.ltb i j then squeeze_until_le n' ctx i else Some (ctx, j, n')
    end.

  (* Algorithm 29 *)
  Definition SampleInBall (rho : bytes) : option poly :=
    let c := repeat 0 256 in
    let ctx := Init in
    let ctx := Absorb ctx rho in
    let '(ctx, s) := Squeeze H ctx 8 in
    let h := BytesToBits s in
    obind
      (for_ (256 - tau P) (tau P) (fun i st =>
         obind st (fun '(c, ctx, n) =>
         obind (squeeze_until_le n ctx i) (fun '(ctx, j, n) =>
           let c := set_nth i (nth j c 0) c in
           let c := set_nth j (if nth (i + tau P - 256) h false then -1 else 1) c in
           Some (c, ctx, n))))
         (Some (c, ctx, bound_SampleInBall)))
      (fun '(c, _, _) => Some c).

  (* Algorithm 30: j <- 0; while j < 256: (ctx, s) <- Squeeze(ctx, 3);
     a^[j] <- CoeffFromThreeBytes(s[0], s[1], s[2]); if a^[j] <> bot then j++.
     [a] holds a^[0..j-1]. *)
  Fixpoint RejNTTPoly_loop (n : nat) (ctx : xof_ctx) (a : list Z) : option poly :=
    if Nat.ltb (length a) 256 then
      match n with
      | O => None
      | S n' =>
          let '(ctx, s) := Squeeze G ctx 3 in
          match CoeffFromThreeBytes (Z.of_N (nth 0 s 0%N)) (Z.of_N (nth 1 s 0%N)) (Z.of_N (nth 2 s 0%N)) with
          | Some c => RejNTTPoly_loop n' ctx (a ++ [c])
          | None => RejNTTPoly_loop n' ctx a
          end
      end
    else Some a.

  Definition RejNTTPoly (rho : bytes) : option poly :=
    RejNTTPoly_loop bound_RejNTT (Absorb Init rho) [].

  (* Algorithm 31: while j < 256: z <- Squeeze(ctx, 1); z0 <- CoeffFromHalfByte(z mod 16);
     z1 <- CoeffFromHalfByte(floor(z/16)); if z0 <> bot: a_j <- z0, j++;
     if z1 <> bot and j < 256: a_j <- z1, j++ *)
  Fixpoint RejBoundedPoly_loop (n : nat) (ctx : xof_ctx) (a : list Z) : option poly :=
    if Nat.ltb (length a) 256 then
      match n with
      | O => None
      | S n' =>
          let '(ctx, s) := Squeeze H ctx 1 in
          let z := Z.of_N (nth 0 s 0%N) in
          let z0 := CoeffFromHalfByte (eta P) (z mod 16) in
          let z1 := CoeffFromHalfByte (eta P) (z / 16) in
          let a := match z0 with Some c => a ++ [c] | None => a end in
          let a := match z1 with
                   | Some c => if Nat.ltb (length a) 256 then a ++ [c] else a
                   | None => a
                   end in
          RejBoundedPoly_loop n' ctx a
      end
    else Some a.

  Definition RejBoundedPoly (rho : bytes) : option poly :=
    RejBoundedPoly_loop bound_RejBounded (Absorb Init rho) [].

  (* Algorithm 32: A^[r, s] <- RejNTTPoly(rho || IntegerToBytes(s, 1) || IntegerToBytes(r, 1)) *)
  Definition ExpandA (rho : bytes) : option (list (list poly)) :=
    array_opt (k P) (fun r =>
      array_opt (l P) (fun s =>
        RejNTTPoly (rho ++ IntegerToBytes (Z.of_nat s) 1 ++ IntegerToBytes (Z.of_nat r) 1))).

  (* Algorithm 33 *)
  Definition ExpandS (rho : bytes) : option (list poly * list poly) :=
    match array_opt (l P) (fun r => RejBoundedPoly (rho ++ IntegerToBytes (Z.of_nat r) 2)),
          array_opt (k P) (fun r => RejBoundedPoly (rho ++ IntegerToBytes (Z.of_nat (r + l P)) 2)) with
    | Some s1, Some s2 => Some (s1, s2)
    | _, _ => None
    end.

  (* Algorithm 34: c <- 1 + bitlen(gamma1 - 1); rho' <- rho || IntegerToBytes(mu + r, 2);
     v <- H(rho', 32c); y[r] <- BitUnpack(v, gamma1 - 1, gamma1) *)
  Definition ExpandMask (rho : bytes) (mu : nat) : list poly :=
    let c := (1 + bitlen (gamma1 P - 1))%nat in
    array (l P) (fun r =>
      let rho' := rho ++ IntegerToBytes (Z.of_nat (mu + r)) 2 in
      let v := H rho' (32 * c)%nat in
      BitUnpack v (gamma1 P - 1) (gamma1 P)).

  (* ---------------------------------------------------------------- *)
  (* section 7.2: hint packing and the encodings (Algorithms 20-28)    *)
  (* ---------------------------------------------------------------- *)
  (* Algorithm 20 *)
  Definition HintBitPack (h : list poly) : bytes :=
    fst (for_ 0 (k P) (fun i '(y, Index) =>
           let '(y, Index) :=
             for_ 0 256 (fun j '(y, Index) =>
               if nth j (nth i h []) 0 =? 0 then (y, Index)
               else (set_nth Index (N.of_nat j) y, S Index)) (y, Index) in
           (set_nth (omega P + i) (N.of_nat Index) y, Index))
         (repeat 0%N (omega P + k P), O)).

  (* Algorithm 21, lines 7-14: while Index < y[omega + i]: if Index > First and
     y[Index - 1] >= y[Index] then bot; h[i]_{y[Index]} <- 1; Index++.
     [n] = y[omega + i] - Index rounds are left. *)
  Fixpoint HintBitUnpack_row (n : nat) (y : bytes) (First Index : nat) (hi : poly) : option (poly * nat) :=
    match n with
    | O => Some (hi, Index)
    | S n' =>
        if Nat.ltb First Index && N.leb (nth Index y 0%N) (nth (Index - 1) y 0%N) then None
        else HintBitUnpack_row n' y First (S Index) (set_nth (N.to_nat (nth Index y 0%N)) 1 hi)
    end.

  (* Algorithm 21 *)
  Definition HintBitUnpack (y : bytes) : option (list poly) :=
    obind
      (for_ 0 (k P) (fun i st =>
         obind st (fun '(h, Index) =>
           let e := N.to_nat (nth (omega P + i) y 0%N) in
           if Nat.ltb e Index || Nat.ltb (omega P) e then None else
           let First := Index in
           obind (HintBitUnpack_row (e - Index) y First Index (repeat 0 256)) (fun '(hi, Index) =>
             Some (h ++ [hi], Index))))
         (Some ([], O)))
      (fun '(h, Index) =>
         (* for i from Index to omega - 1: if y[i] <> 0 then bot *)
         for_ Index (omega P - Index) (fun i r => obind r (fun h => if N.eqb (nth i y 0%N) 0 then Some h else None)) (Some h)).

  (* Algorithm 22 *)
  Definition pkEncode (rho : bytes) (t1 : list poly) : bytes :=
    for_ 0 (k P) (fun i pk => pk ++ SimpleBitPack (nth i t1 []) (2 ^ (Z.of_nat (bitlen (q - 1)) - d) - 1)) rho.

  (* Algorithm 23 *)
  Definition pkDecode (pk : bytes) : bytes * list poly :=
    let w := (32 * (bitlen (q - 1) - Z.to_nat d))%nat in
    let rho := sl pk 0 32 in
    (rho, array (k P) (fun i => SimpleBitUnpack (sl pk (32 + i * w) (32 + i * w + w))
                                  (2 ^ (Z.of_nat (bitlen (q - 1)) - d) - 1))).

  (* Algorithm 24 *)
  Definition skEncode (rho K tr : bytes) (s1 s2 t0 : list poly) : bytes :=
    let sk := rho ++ K ++ tr in
    let sk := for_ 0 (l P) (fun i sk => sk ++ BitPack (nth i s1 []) (eta P) (eta P)) sk in
    let sk := for_ 0 (k P) (fun i sk => sk ++ BitPack (nth i s2 []) (eta P) (eta P)) sk in
    for_ 0 (k P) (fun i sk => sk ++ BitPack (nth i t0 []) (2 ^ (d - 1) - 1) (2 ^ (d - 1))) sk.

  (* Algorithm 25 *)
  Definition skDecode (sk : bytes) : bytes * bytes * bytes * list poly * list poly * list poly :=
    let we := (32 * bitlen (2 * eta P))%nat in
    let wd := (32 * Z.to_nat d)%nat in
    let rho := sl sk 0 32 in
    let K := sl sk 32 64 in
    let tr := sl sk 64 128 in
    let o1 := 128%nat in
    let o2 := (o1 + l P * we)%nat in
    let o3 := (o2 + k P * we)%nat in
    let s1 := array (l P) (fun i => BitUnpack (sl sk (o1 + i * we) (o1 + i * we + we)) (eta P) (eta P)) in
    let s2 := array (k P) (fun i => BitUnpack (sl sk (o2 + i * we) (o2 + i * we + we)) (eta P) (eta P)) in
    let t0 := array (k P) (fun i => BitUnpack (sl sk (o3 + i * wd) (o3 + i * wd + wd)) (2 ^ (d - 1) - 1) (2 ^ (d - 1))) in
    (rho, K, tr, s1, s2, t0).

  (* Algorithm 26 *)
  Definition sigEncode (ct : bytes) (z h : list poly) : bytes :=
    let sigma := ct in
    let sigma := for_ 0 (l P) (fun i sigma => sigma ++ BitPack (nth i z []) (gamma1 P - 1) (gamma1 P)) sigma in
    sigma ++ HintBitPack h.

  (* Algorithm 27 (h = None is the standard's h = bot) *)
  Definition sigDecode (sigma : bytes) : bytes * list poly * option (list poly) :=
    let wz := (32 * (1 + bitlen (gamma1 P - 1)))%nat in
    let o := (lambda P / 4)%nat in
    let ct := sl sigma 0 o in
    let z := array (l P) (fun i => BitUnpack (sl sigma (o + i * wz) (o + i * wz + wz)) (gamma1 P - 1) (gamma1 P)) in
    let y := sl sigma (o + l P * wz) (o + l P * wz + omega P + k P) in
    (ct, z, HintBitUnpack y).

  (* Algorithm 28 *)
  Definition w1Encode (w1 : list poly) : bytes :=
    for_ 0 (k P) (fun i w => w ++ SimpleBitPack (nth i w1 []) ((q - 1) / (2 * gamma2 P) - 1)) [].

  (* ---------------------------------------------------------------- *)
  (* section 6: the internal algorithms (Algorithms 6, 7, 8)           *)
  (* ---------------------------------------------------------------- *)
  Definition vNTT (v : list poly) : list poly := map NTT v.
  Definition vNTT_inv (v : list poly) : list poly := map NTT_inv v.

  (* Algorithm 6 *)
  Definition KeyGen_internal (xi : bytes) : option (bytes * bytes) :=
    let Hout := H (xi ++ IntegerToBytes (Z.of_nat (k P)) 1 ++ IntegerToBytes (Z.of_nat (l P)) 1) 128%nat in
    let rho := sl Hout 0 32 in
    let rho' := sl Hout 32 96 in
    let K := sl Hout 96 128 in
    obind (ExpandA rho) (fun Ah =>
    obind (ExpandS rho') (fun '(s1, s2) =>
      let t := AddVector (vNTT_inv (MatrixVectorNTT (k P) (l P) Ah (vNTT s1))) s2 in
      let t1 := map (map (fun r => fst (Power2Round r))) t in
      let t0 := map (map (fun r => snd (Power2Round r))) t in
      let pk := pkEncode rho t1 in
      let tr := H pk 64%nat in
      let sk := skEncode rho K tr s1 s2 t0 in
      Some (pk, sk))).

  (* Algorithm 7, lines 10-32: one round of the rejection loop is the body;
     [rounds] bounds the loop *)
  Fixpoint Sign_loop (rounds : nat) (Ah : list (list poly)) (s1h s2h t0h : list poly)
           (mu rho'' : bytes) (kappa : nat) : option bytes :=
    match rounds with
    | O => None
    | S rounds' =>
        let g2 := gamma2 P in
        let y := ExpandMask rho'' kappa in
        let w := vNTT_inv (MatrixVectorNTT (k P) (l P) Ah (vNTT y)) in
        let w1 := map (map (HighBits g2)) w in
        let ct := H (mu ++ w1Encode w1) (lambda P / 4)%nat in
        obind (SampleInBall ct) (fun c =>
          let ch := NTT c in
          let cs1 := vNTT_inv (ScalarVectorNTT ch s1h) in
          let cs2 := vNTT_inv (ScalarVectorNTT ch s2h) in
          let z := AddVector y cs1 in
          let r0 := map (map (LowBits g2)) (SubVector w cs2) in
          if (gamma1 P - beta P <=? norm_vec z) || (g2 - beta P <=? norm_vec r0) then
            Sign_loop rounds' Ah s1h s2h t0h mu rho'' (kappa + l P)
          else
            let ct0 := vNTT_inv (ScalarVectorNTT ch t0h) in
            let h := zip_with (zip_with (MakeHint g2)) (NegVector ct0) (AddVector (SubVector w cs2) ct0) in
            if (g2 <=? norm_vec ct0) || (Z.of_nat (omega P) <? fold_right Z.add 0 (map (fold_right Z.add 0) h)) then
              Sign_loop rounds' Ah s1h s2h t0h mu rho'' (kappa + l P)
            else Some (sigEncode ct (map (map (fun x => modpm x q)) z) h))
    end.

  (* Algorithm 7 from line 7 on, for a given mu (the "external mu" entry) *)
  Definition Sign_mu (rounds : nat) (sk mu rnd : bytes) : option bytes :=
    let '(rho, K, tr, s1, s2, t0) := skDecode sk in
    let s1h := vNTT s1 in
    let s2h := vNTT s2 in
    let t0h := vNTT t0 in
    obind (ExpandA rho) (fun Ah =>
      let rho'' := H (K ++ rnd ++ mu) 64%nat in
      Sign_loop rounds Ah s1h s2h t0h mu rho'' O).

  (* Algorithm 7 *)
  Definition Sign_internal (rounds : nat) (sk M' rnd : bytes) : option bytes :=
    let '(rho, K, tr, s1, s2, t0) := skDecode sk in
    let mu := H (tr ++ M') 64%nat in
    Sign_mu rounds sk mu rnd.

  (* Algorithm 8 from line 8 on, for a given mu.  None = out of stream;
     Some b = the Boolean the standard returns *)
  Definition Verify_mu (pk mu sigma : bytes) : option bool :=
    let '(rho, t1) := pkDecode pk in
    let '(ct, z, h) := sigDecode sigma in
    match h with
    | None => Some false
    | Some h =>
        obind (ExpandA rho) (fun Ah =>
        obind (SampleInBall ct) (fun c =>
          let t1d := map (map (fun x => x * 2 ^ d)) t1 in
          let w'approx := vNTT_inv (SubVector (MatrixVectorNTT (k P) (l P) Ah (vNTT z))
                                             (ScalarVectorNTT (NTT c) (vNTT t1d))) in
          let w1' := zip_with (zip_with (fun r hh => UseHint (gamma2 P) hh r)) w'approx h in
          let ct' := H (mu ++ w1Encode w1') (lambda P / 4)%nat in
          Some ((norm_vec z <? gamma1 P - beta P) && beq ct ct')))
    end.

  (* Algorithm 8 *)
  Definition Verify_internal (pk M' sigma : bytes) : option bool :=
    let tr := H pk 64%nat in
    let mu := H (tr ++ M') 64%nat in
    Verify_mu pk mu sigma.

  (* ---------------------------------------------------------------- *)
  (* section 5: Algorithms 2 and 3 (the randomness rnd is an input)    *)
  (* ---------------------------------------------------------------- *)
  Definition format_message (M ctx : bytes) : bytes :=
    IntegerToBytes 0 1 ++ IntegerToBytes (Z.of_nat (length ctx)) 1 ++ ctx ++ M.

  (* Algorithm 2: outer None = bot for |ctx| > 255 *)
  Definition Sign (rounds : nat) (sk M ctx rnd : bytes) : option (option bytes) :=
    if Nat.ltb 255 (length ctx) then None
    else Some (Sign_internal rounds sk (format_message M ctx) rnd).

  (* Algorithm 3.  NOTE: for |ctx| > 255 the standard returns bot (an error,
     distinct from the Boolean false); this transcription returns Some false
     there, i.e. it identifies that error with rejection — which is what the
     verifier of the Go code does (it returns an error in both cases). *)
  Definition Verify (pk M sigma ctx : bytes) : option bool :=
    if Nat.ltb 255 (length ctx) then Some false
    else Verify_internal pk (format_message M ctx) sigma.
End WithXOF.

End FIPS.
