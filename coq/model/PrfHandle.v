(* prf.NewPRFSet reading a keyset.Handle produced by a keyset.Manager (model/Manager.v):
   the entries the factory iterates over (factoryutil.EnabledUnmonitoredEntries) and the
   primary id it computes
       primaryKeyID := uint32(0)
       for entry := range enabled entries { if entry.IsPrimary() { primaryKeyID = entry.KeyID() } }
   `keyobj` resolves the opaque key token of a manager entry to the PRF key object
   (kind with hash/salt, key bytes).  No proofs here: proofs/PrfProofs2.v. *)
From Coq Require Import List NArith Bool Arith.
From Tink Require Import Bytes Cmac Hmac Hkdf Prf Manager.
Import ListNotations.
Open Scope N_scope.

Definition pstatus (s : status) : prf_status :=
  match s with Enabled => PEnabled | _ => PDisabled end.

Section PrfHandle.
  Variable Hash : hash_alg -> bytes -> bytes.
  Variable AES : bytes -> bytes -> bytes.
  Variable keyobj : N -> prf_kind * bytes.

  Definition handle_entries (h : handle) : list prf_entry :=
    map (fun e => (eid e, pstatus (est e), fst (keyobj (ekey e)), snd (keyobj (ekey e)))) h.

  Definition handle_primary (h : handle) : N :=
    fold_left (fun acc e => if status_eqb (est e) Enabled && eprim e then eid e else acc) h 0.

  Definition prf_set_of_handle (h : handle) : option prfset :=
    new_prf_set Hash AES (handle_entries h) (handle_primary h).
End PrfHandle.
