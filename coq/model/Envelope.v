(* C01/C02 — KMS envelope AEAD framing, written after aead/kms_envelope_aead.go:
   encryptDataAndSerializeEnvelope, parseEnvelope, Encrypt, Decrypt.
     be32(len(encDEK)) || encDEK || payload,   1 <= len(encDEK) <= 4096
   The key-encryption AEAD and the AEAD of the freshly generated data key are
   parameters (any of the AEAD models).  Every slice expression is checked. *)
From Coq Require Import List NArith Bool Arith.
From Tink Require Import Bytes AeadFrame.
Import ListNotations.
Open Scope N_scope.

Definition lenDEK : nat := 4.
Definition maxLengthEncryptedDEK : N := 4096.

(* the serialisation half of encryptDataAndSerializeEnvelope (the two length
   checks of that function, then AppendUint32 / append / append) *)
Definition build_envelope (encDEK payload : bytes) : outcome bytes :=
  if Nat.eqb (length encDEK) 0 then Err
  else if maxLengthEncryptedDEK <? lenN encDEK then Err
  else Ok (be_bytes 4 (lenN encDEK) ++ encDEK ++ payload).

(* parseEnvelope *)
Definition parse_envelope (c : bytes) : outcome (bytes * bytes) :=
  if Nat.leb (length c) lenDEK then Err
  else bind (slice 0 lenDEK c) (fun lb =>
    let n := be_val lb in                                  (* int(binary.BigEndian.Uint32(...)) *)
    if (n <=? 0) || (maxLengthEncryptedDEK <? n) || (N.of_nat (length c - lenDEK) <? n) then Err
    else bind (slice lenDEK (length c) c) (fun rest =>
         bind (slice 0 (N.to_nat n) rest) (fun encDEK =>
         bind (slice (N.to_nat n) (length rest) rest) (fun payload =>
         Ok (encDEK, payload))))).

Section ENVELOPE.
  (* kekAEAD.Encrypt with the IV the tape supplies / Decrypt *)
  Variable kek_enc : bytes -> bytes -> bytes -> outcome bytes.     (* iv p ad *)
  Variable kek_dec : bytes -> bytes -> outcome bytes.              (* c ad *)
  (* registry.Primitive(dekTypeURL, dek) then Encrypt / Decrypt; Err when the DEK does not parse *)
  Variable dek_enc : bytes -> bytes -> bytes -> bytes -> outcome bytes.  (* dek iv p ad *)
  Variable dek_dec : bytes -> bytes -> bytes -> outcome bytes.           (* dek c ad *)

  (* KMSEnvelopeAEAD.Encrypt: dek = newDEK(template) (from the tape) *)
  Definition env_enc (dek kekiv dekiv p ad : bytes) : outcome bytes :=
    bind (kek_enc kekiv dek []) (fun encDEK =>
    if Nat.eqb (length encDEK) 0 then Err
    else bind (dek_enc dek dekiv p ad) (fun payload =>
         build_envelope encDEK payload)).

  (* KMSEnvelopeAEAD.Decrypt *)
  Definition env_dec (c ad : bytes) : outcome bytes :=
    bind (parse_envelope c) (fun ep =>
    bind (kek_dec (fst ep) []) (fun dek =>
    dek_dec dek (snd ep) ad)).
End ENVELOPE.

(* serialised data keys as produced by newDEK for the single-field key protos:
   tag(key_value) len key  (AesGcmKey, AesGcmSivKey, XChaCha20Poly1305Key: field 3;
   ChaCha20Poly1305Key: field 2) *)
Definition dek_proto (tag : N) (key : bytes) : bytes := tag :: lenN key :: key.
Definition dek_key (tag : N) (dek : bytes) : option bytes :=
  match dek with
  | t :: n :: k => if (t =? tag) && (lenN k =? n) && (n <? 128) then Some k else None
  | _ => None
  end.
