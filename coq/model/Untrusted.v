(* C14 — executable model of what happens to an untrusted keyset:

     bytes --proto.Unmarshal--> tinkpb.Keyset --keyset.Validate-->
       --keysetToEntries (RAW => id requirement 0, per-type ParseKey or the
         fallback key)--> newFromEntries --> *keyset.Handle
       --PrimitiveFromKey--> primitive (per key)

   Go                                               model
   protowire.ConsumeVarint/ConsumeFieldValue        varint / fields / skip_groups
   impl.unmarshalPointerEager + field coders        wire_ok (schema) + getters
   utf8.Valid (proto3 string fields)                utf8_valid
   keyset/validation.go Validate, validateKey       validate, validate_key
   keyset/handle.go keysetToEntries/newFromEntries  to_entries / new_from_entries
   */*/protoserialization.go ParseKey + key.go      parse_key (16 key types of the first round),
                                                    parse_key_more (23 more: Ed25519 pub/priv, RSA-SSA-PKCS1/PSS
                                                    priv, ECIES pub/priv, HPKE pub/priv, the two streaming AEAD
                                                    keys, JWT HMAC / ECDSA pub+priv / RSA-PKCS1+PSS pub+priv /
                                                    ML-DSA pub, ML-DSA pub, SLH-DSA pub/priv), then the fallback key
   primitive constructors (NewAEAD, NewMAC, ...)    prim_ok
   internal/ec BigIntBytesToFixedSizeBuffer         fixed_size (checked slice)
   crypto/ecdh, ed25519, mlkem, sha3, rsa           the record stdlib (one Section variable)

   Every Go slice expression of the in-repo code on this path is a checked
   slice (Bytes.slice): "never panics" is a theorem, not an assumption.
   No proofs here: proofs/UntrustedProofs.v. *)
From Coq Require Import String Ascii List NArith Bool.
From Tink Require Import Bytes UntrustedConsts.
Import ListNotations.
Open Scope list_scope.
Open Scope N_scope.

Definition blen (b : bytes) : N := N.of_nat (length b).

Fixpoint bytes_of_string (s : string) : bytes :=
  match s with
  | EmptyString => []
  | String a t => N_of_ascii a :: bytes_of_string t
  end.

Definition inr (lo hi x : N) : bool := (lo <=? x) && (x <=? hi).

(* ------------------------------------------------------------------ *)
(* protowire                                                           *)
(* ------------------------------------------------------------------ *)

(* protowire.ConsumeVarint: at most 10 bytes, 7 bits each, little endian;
   the 10th byte must be 0 or 1; truncated / overflowing input = None. *)
Fixpoint varint_aux (fuel : nat) (idx : N) (acc : N) (b : bytes) : option (N * bytes) :=
  match fuel with
  | O => None
  | S f =>
      match b with
      | [] => None
      | x :: t =>
          if x <? 128 then
            if (idx =? 9) && negb (x <? 2) then None
            else Some (acc + x * 2 ^ (7 * idx), t)
          else varint_aux f (idx + 1) (acc + (x - 128) * 2 ^ (7 * idx)) t
      end
  end.
Definition varint (b : bytes) : option (N * bytes) := varint_aux 10 0 0 b.

(* n bytes off the front (ConsumeFixed32/64, ConsumeBytes body) *)
Definition take (n : N) (b : bytes) : option (bytes * bytes) :=
  if n <=? blen b then Some (firstn (N.to_nat n) b, skipn (N.to_nat n) b) else None.

(* non-group field value of wire type wt: returns the rest (consumeFieldValueD) *)
Definition skip_scalar (wt : N) (b : bytes) : option bytes :=
  if wt =? 0 then match varint b with Some (_, r) => Some r | None => None end
  else if wt =? 1 then match take 8 b with Some (_, r) => Some r | None => None end
  else if wt =? 2 then
    match varint b with
    | Some (m, r) => match take m r with Some (_, r') => Some r' | None => None end
    | None => None
    end
  else if wt =? 5 then match take 4 b with Some (_, r) => Some r | None => None end
  else None.

(* consumeFieldValueD for StartGroupType, iteratively with the stack of open
   group numbers (ConsumeTag: number in [1, MaxInt32]); every step consumes at
   least the tag byte, so fuel = S (length b) is never exhausted. *)
Fixpoint skip_groups (fuel : nat) (stack : list N) (b : bytes) : option bytes :=
  match stack with
  | [] => Some b
  | top :: rest =>
      match fuel with
      | O => None
      | S f =>
          match varint b with
          | None => None
          | Some (tag, b1) =>
              let num := tag / 8 in
              let wt := tag mod 8 in
              if (num <? 1) || (max_int32 <? num) then None
              else if wt =? 4 then
                if num =? top then skip_groups f rest b1 else None
              else if wt =? 3 then
                if group_depth_limit + 1 <? N.of_nat (S (length stack)) then None
                else skip_groups f (num :: stack) b1
              else match skip_scalar wt b1 with
                   | None => None
                   | Some b2 => skip_groups f stack b2
                   end
          end
      end
  end.

(* One top-level field of a message as the generated decoder sees it. *)
Inductive fval := FVar (v : N) | FLen (p : bytes) | FOther.
Definition field := (N * fval)%type.

(* impl.unmarshalPointerEager: split a message body into fields.  Field
   numbers in [1, 2^29-1]; an END_GROUP tag, wire types 6/7, a truncated or
   overflowing varint, a length beyond the input: decode error (None). *)
Fixpoint fields_aux (fuel : nat) (b : bytes) : option (list field) :=
  match b with
  | [] => Some []
  | _ =>
      match fuel with
      | O => None
      | S f =>
          match varint b with
          | None => None
          | Some (tag, b1) =>
              let num := tag / 8 in
              let wt := tag mod 8 in
              if (num <? 1) || (max_field_number <? num) then None
              else if wt =? 0 then
                match varint b1 with
                | None => None
                | Some (v, b2) =>
                    match fields_aux f b2 with Some l => Some ((num, FVar v) :: l) | None => None end
                end
              else if wt =? 2 then
                match varint b1 with
                | None => None
                | Some (m, b2) =>
                    match take m b2 with
                    | None => None
                    | Some (p, b3) =>
                        match fields_aux f b3 with Some l => Some ((num, FLen p) :: l) | None => None end
                    end
                end
              else if wt =? 3 then
                match skip_groups (S (length b1)) [num] b1 with
                | None => None
                | Some b2 =>
                    match fields_aux f b2 with Some l => Some ((num, FOther) :: l) | None => None end
                end
              else
                match skip_scalar wt b1 with   (* 1, 5; 4, 6, 7 give None *)
                | None => None
                | Some b2 =>
                    match fields_aux f b2 with Some l => Some ((num, FOther) :: l) | None => None end
                end
          end
      end
  end.
Definition fields (b : bytes) : option (list field) := fields_aux (length b) b.
Definition fields_or_nil (b : bytes) : list field :=
  match fields b with Some l => l | None => [] end.

(* unicode/utf8.Valid *)
Fixpoint utf8_aux (fuel : nat) (b : bytes) : bool :=
  match b with
  | [] => true
  | x :: t =>
      match fuel with
      | O => false
      | S f =>
          if x <? 128 then utf8_aux f t
          else if inr 194 223 x then
            match t with c1 :: t' => inr 128 191 c1 && utf8_aux f t' | _ => false end
          else if x =? 224 then
            match t with c1 :: c2 :: t' => inr 160 191 c1 && inr 128 191 c2 && utf8_aux f t' | _ => false end
          else if inr 225 236 x || inr 238 239 x then
            match t with c1 :: c2 :: t' => inr 128 191 c1 && inr 128 191 c2 && utf8_aux f t' | _ => false end
          else if x =? 237 then
            match t with c1 :: c2 :: t' => inr 128 159 c1 && inr 128 191 c2 && utf8_aux f t' | _ => false end
          else if x =? 240 then
            match t with c1 :: c2 :: c3 :: t' =>
              inr 144 191 c1 && inr 128 191 c2 && inr 128 191 c3 && utf8_aux f t' | _ => false end
          else if inr 241 243 x then
            match t with c1 :: c2 :: c3 :: t' =>
              inr 128 191 c1 && inr 128 191 c2 && inr 128 191 c3 && utf8_aux f t' | _ => false end
          else if x =? 244 then
            match t with c1 :: c2 :: c3 :: t' =>
              inr 128 143 c1 && inr 128 191 c2 && inr 128 191 c3 && utf8_aux f t' | _ => false end
          else false
      end
  end.
Definition utf8_valid (b : bytes) : bool := utf8_aux (length b) b.

(* A message schema as far as decoding can FAIL on it: which field numbers
   are sub-messages (decoded recursively) and which are proto3 strings (UTF-8
   checked).  Scalars and bytes never fail beyond the wire level; a known
   field met with another wire type is an unknown field (errUnknown). *)
Inductive sch := Sch (msgs : list (N * sch)) (strs : list N).

Definition payloads (n : N) (fs : list field) : list bytes :=
  flat_map (fun f => match f with
                     | (k, FLen p) => if k =? n then [p] else []
                     | _ => []
                     end) fs.

(* proto.Unmarshal succeeds on b for a message of schema s *)
Fixpoint wire_ok (s : sch) (b : bytes) : bool :=
  match fields b with
  | None => false
  | Some fs =>
      match s with
      | Sch msgs strs =>
          (fix go (l : list (N * sch)) : bool :=
             match l with
             | [] => true
             | (n, s') :: t => forallb (wire_ok s') (payloads n fs) && go t
             end) msgs
          && forallb (fun n => forallb utf8_valid (payloads n fs)) strs
      end
  end.

(* getters: proto3 scalar = last occurrence; singular sub-message = merge of
   all occurrences = fields of all payloads in order; repeated = one per payload *)
Definition get_var (n : N) (fs : list field) : N :=
  fold_left (fun acc f => match f with
                          | (k, FVar v) => if k =? n then v else acc
                          | _ => acc
                          end) fs 0.
Definition u32 (v : N) : N := v mod 4294967296.
Definition get_u32 (n : N) (fs : list field) : N := u32 (get_var n fs).
Definition get_len (n : N) (fs : list field) : bytes := last (payloads n fs) [].
Definition has_sub (n : N) (fs : list field) : bool :=
  match payloads n fs with [] => false | _ => true end.
Definition get_sub (n : N) (fs : list field) : list field :=
  flat_map fields_or_nil (payloads n fs).

(* ------------------------------------------------------------------ *)
(* tinkpb.Keyset                                                       *)
(* ------------------------------------------------------------------ *)
Record keydata := mkKD { kd_url : bytes; kd_value : bytes; kd_mat : N }.
(* option = a nil pointer, possible only through the proto-message API *)
Record pkey := mkPK { k_data : option keydata; k_status : N; k_id : N; k_prefix : N }.
Record keyset := mkKS { ks_primary : N; ks_keys : list (option pkey) }.

Definition sch_keydata := Sch [] [1].
Definition sch_key := Sch [(1, sch_keydata)] [].
Definition sch_keyset := Sch [(2, sch_key)] [].

Definition keydata_of (fs : list field) : keydata :=
  mkKD (get_len 1 fs) (get_len 2 fs) (get_u32 3 fs).
Definition key_of (fs : list field) : pkey :=
  mkPK (if has_sub 1 fs then Some (keydata_of (get_sub 1 fs)) else None)
       (get_u32 2 fs) (get_u32 3 fs) (get_u32 4 fs).
Definition keyset_of (fs : list field) : keyset :=
  mkKS (get_u32 1 fs) (map (fun p => Some (key_of (fields_or_nil p))) (payloads 2 fs)).

(* proto.Unmarshal(b, &tinkpb.Keyset{}) *)
Definition decode_keyset (b : bytes) : option keyset :=
  if wire_ok sch_keyset b then Some (keyset_of (fields_or_nil b)) else None.

(* tinkpb.EncryptedKeyset { bytes encrypted_keyset = 2; KeysetInfo keyset_info = 3 } *)
Definition sch_keyinfo := Sch [] [1].
Definition sch_keysetinfo := Sch [(2, sch_keyinfo)] [].
Definition sch_encrypted := Sch [(3, sch_keysetinfo)] [].
Definition decode_encrypted (b : bytes) : option bytes :=
  if wire_ok sch_encrypted b then Some (get_len 2 (fields_or_nil b)) else None.

(* ------------------------------------------------------------------ *)
(* keyset/validation.go                                                *)
(* ------------------------------------------------------------------ *)
Definition memN (x : N) (l : list N) : bool := existsb (N.eqb x) l.

Definition known_prefix (p : N) : bool :=
  (p =? pt_tink) || (p =? pt_legacy) || (p =? pt_raw) || (p =? pt_crunchy).
Definition known_status (s : N) : bool :=
  (s =? st_enabled) || (s =? st_disabled) || (s =? st_destroyed).

(* the output prefix types validateKey lets through: the four classic ones and
   WITH_ID_REQUIREMENT (5; /repo 4b80d2c - before that fix a keyset holding an
   ML-DSA key of variant NoPrefixWithPrehashID could be written and never read) *)
Definition valid_prefix (p : N) : bool := known_prefix p || (p =? pt_with_id_requirement).

(* validateKey *)
Definition validate_key (k : option pkey) : bool :=
  match k with
  | None => false
  | Some k =>
      match k_data k with
      | None => false
      | Some _ => valid_prefix (k_prefix k) && known_status (k_status k)
      end
  end.

(* the loop of Validate: seen = keyIDs, hasp = hasPrimaryKey, nen = numEnabledKeys *)
Fixpoint validate_loop (primary : N) (keys : list (option pkey))
         (seen : list N) (hasp : bool) (nen : N) : bool :=
  match keys with
  | [] => negb (nen =? 0) && hasp
  | ok :: t =>
      if negb (validate_key ok) then false else
      match ok with
      | None => false
      | Some k =>
          if memN (k_id k) seen then false
          else if negb (k_status k =? st_enabled) && (k_id k =? primary) then false
          else if negb (k_status k =? st_enabled) then validate_loop primary t (k_id k :: seen) hasp nen
          else if k_id k =? primary then
                 if hasp then false else validate_loop primary t (k_id k :: seen) true (nen + 1)
          else validate_loop primary t (k_id k :: seen) hasp (nen + 1)
      end
  end.

Definition validate (ks : option keyset) : bool :=
  match ks with
  | None => false
  | Some ks =>
      match ks_keys ks with
      | [] => false
      | keys => validate_loop (ks_primary ks) keys [] false 0
      end
  end.

(* ------------------------------------------------------------------ *)
(* per-type parsers and primitive constructors                         *)
(* ------------------------------------------------------------------ *)
(* What the model asks of the Go standard library (answered by the stdlib
   oracle at run time; every theorem holds for ARBITRARY such functions):
   ec_point_ok c pt        crypto/ecdh curve.NewPublicKey(pt) succeeds (c = 2, 3, 4: NIST P-256/384/521, 5: X25519)
   ec_pub_of_priv c d      curve.NewPrivateKey(d) succeeds; its PublicKey().Bytes()
   ed25519_pub seed        ed25519.NewKeyFromSeed(seed).Public() for a 32-byte seed
   mlkem_pub k seed        mlkem.NewDecapsulationKey768/1024(seed) succeeds; EncapsulationKey().Bytes() (k = 768, 1024)
   shake256 m n            sha3.SHAKE256 of m, n bytes of output
   rsa_crt n e d p q       rsa.PrivateKey{N,E,D,Primes:{p,q}}.Validate() succeeds; after Precompute():
                           Precomputed.Dp.Bytes(), Dq.Bytes(), Qinv.Bytes()
   mldsa_pub inst seed     internal/signature/mldsa KeyGenFromSeed(seed).Encode() of the public key for a 32-byte
                           seed (inst = proto MlDsaInstance: 1 = ML-DSA-65, 2 = ML-DSA-87, 3 = ML-DSA-44); NOT the Go
                           standard library: answered by the library's own key generation, trusted for this function
   rsa_selfcheck pss hash salt n e d p q
                           signing "Tink and Wycheproof." with the key (PKCS1v15 or PSS with that salt
                           length) succeeds and the signature verifies under (n, e) *)
Record stdlib := mkStd {
  ec_point_ok : N -> bytes -> bool;
  ec_pub_of_priv : N -> bytes -> option bytes;
  ed25519_pub : bytes -> bytes;
  mlkem_pub : N -> bytes -> option bytes;
  shake256 : bytes -> nat -> bytes;
  rsa_crt : bytes -> N -> bytes -> bytes -> bytes -> option (bytes * bytes * bytes);
  rsa_selfcheck : bool -> N -> N -> bytes -> N -> bytes -> bytes -> bytes -> bool;
  mldsa_pub : N -> bytes -> bytes
}.

Section Keys.
Variable L : stdlib.

(* the type URLs as byte strings (computed here so that the extracted code
   holds plain byte lists) *)
Definition u_hmac : bytes := Eval vm_compute in bytes_of_string url_hmac.
Definition u_aes_cmac : bytes := Eval vm_compute in bytes_of_string url_aes_cmac.
Definition u_aes_gcm : bytes := Eval vm_compute in bytes_of_string url_aes_gcm.
Definition u_aes_gcm_siv : bytes := Eval vm_compute in bytes_of_string url_aes_gcm_siv.
Definition u_aes_ctr_hmac : bytes := Eval vm_compute in bytes_of_string url_aes_ctr_hmac.
Definition u_aes_siv : bytes := Eval vm_compute in bytes_of_string url_aes_siv.
Definition u_hkdf_prf : bytes := Eval vm_compute in bytes_of_string url_hkdf_prf.
Definition u_hmac_prf : bytes := Eval vm_compute in bytes_of_string url_hmac_prf.
Definition u_aes_cmac_prf : bytes := Eval vm_compute in bytes_of_string url_aes_cmac_prf.
Definition u_ecdsa_pub : bytes := Eval vm_compute in bytes_of_string url_ecdsa_pub.
Definition u_ecdsa_priv : bytes := Eval vm_compute in bytes_of_string url_ecdsa_priv.
Definition u_rsa_pkcs1_pub : bytes := Eval vm_compute in bytes_of_string url_rsa_pkcs1_pub.
Definition u_rsa_pss_pub : bytes := Eval vm_compute in bytes_of_string url_rsa_pss_pub.
Definition u_chacha : bytes := Eval vm_compute in bytes_of_string url_chacha.
Definition u_xchacha : bytes := Eval vm_compute in bytes_of_string url_xchacha.
Definition u_xaes_gcm : bytes := Eval vm_compute in bytes_of_string url_xaes_gcm.
Definition u_ed25519_pub : bytes := Eval vm_compute in bytes_of_string url_ed25519_pub.
Definition u_ed25519_priv : bytes := Eval vm_compute in bytes_of_string url_ed25519_priv.
Definition u_rsa_pkcs1_priv : bytes := Eval vm_compute in bytes_of_string url_rsa_pkcs1_priv.
Definition u_rsa_pss_priv : bytes := Eval vm_compute in bytes_of_string url_rsa_pss_priv.
Definition u_ecies_pub : bytes := Eval vm_compute in bytes_of_string url_ecies_pub.
Definition u_ecies_priv : bytes := Eval vm_compute in bytes_of_string url_ecies_priv.
Definition u_hpke_pub : bytes := Eval vm_compute in bytes_of_string url_hpke_pub.
Definition u_hpke_priv : bytes := Eval vm_compute in bytes_of_string url_hpke_priv.
Definition u_stream_gcm_hkdf : bytes := Eval vm_compute in bytes_of_string url_stream_gcm_hkdf.
Definition u_stream_ctr_hmac : bytes := Eval vm_compute in bytes_of_string url_stream_ctr_hmac.
Definition u_jwt_hmac : bytes := Eval vm_compute in bytes_of_string url_jwt_hmac.
Definition u_jwt_ecdsa_pub : bytes := Eval vm_compute in bytes_of_string url_jwt_ecdsa_pub.
Definition u_jwt_ecdsa_priv : bytes := Eval vm_compute in bytes_of_string url_jwt_ecdsa_priv.
Definition u_jwt_rsa_pkcs1_pub : bytes := Eval vm_compute in bytes_of_string url_jwt_rsa_pkcs1_pub.
Definition u_jwt_rsa_pss_pub : bytes := Eval vm_compute in bytes_of_string url_jwt_rsa_pss_pub.
Definition u_mldsa_pub : bytes := Eval vm_compute in bytes_of_string url_mldsa_pub.
Definition u_slhdsa_pub : bytes := Eval vm_compute in bytes_of_string url_slhdsa_pub.
Definition u_slhdsa_priv : bytes := Eval vm_compute in bytes_of_string url_slhdsa_priv.
Definition u_jwt_rsa_pkcs1_priv : bytes := Eval vm_compute in bytes_of_string url_jwt_rsa_pkcs1_priv.
Definition u_jwt_rsa_pss_priv : bytes := Eval vm_compute in bytes_of_string url_jwt_rsa_pss_priv.
Definition u_jwt_mldsa_pub : bytes := Eval vm_compute in bytes_of_string url_jwt_mldsa_pub.
Definition u_mldsa_priv : bytes := Eval vm_compute in bytes_of_string url_mldsa_priv.
Definition u_jwt_mldsa_priv : bytes := Eval vm_compute in bytes_of_string url_jwt_mldsa_priv.
Definition u_composite_pub : bytes := Eval vm_compute in bytes_of_string url_composite_pub.
Definition u_composite_priv : bytes := Eval vm_compute in bytes_of_string url_composite_priv.
Definition u_c13_outside : list bytes := Eval vm_compute in map bytes_of_string c13_outside_urls.
Definition u_unmodelled : list bytes := Eval vm_compute in map bytes_of_string unmodelled_urls.

Definition url_is (kd : keydata) (u : bytes) : bool := beq (kd_url kd) u.

Definition digest_size (h : N) : option N :=
  if h =? h_sha1 then Some dg_sha1
  else if h =? h_sha224 then Some dg_sha224
  else if h =? h_sha256 then Some dg_sha256
  else if h =? h_sha384 then Some dg_sha384
  else if h =? h_sha512 then Some dg_sha512
  else None.

(* variantFromProto of every modelled type accepts exactly the four known
   prefix types; NewKey refuses a non-zero id requirement for RAW *)
Definition variant_ok (prefix idreq : N) : bool :=
  known_prefix prefix && (negb (prefix =? pt_raw) || (idreq =? 0)).

Definition aes_16_32 (n : N) : bool := (n =? aes_k16) || (n =? aes_k32).
Definition aes_16_24_32 (n : N) : bool := (n =? aes_k16) || (n =? aes_k24) || (n =? aes_k32).

(* internal/mac/hmac ValidateHMACParams *)
Definition hmac_params_ok (hash keylen tag : N) : bool :=
  match digest_size hash with
  | None => false
  | Some d => (tag <=? d) && (hmac_min_tag_prim <=? tag) && (hmac_min_key_prim <=? keylen)
  end.

(* What the parser keeps of an accepted key (enough to decide the primitive
   constructor and the strength predicate). *)
Inductive pkd :=
| PHmac (hash keylen tag : N)
| PAesCmac (keylen tag : N)
| PAesGcm (keylen : N)
| PAesGcmSiv (keylen : N)
| PAesCtrHmac (aeslen iv hash hmaclen tag : N)
| PAesSiv (keylen : N)
| PHkdfPrf (hash keylen : N)
| PHmacPrf (hash keylen : N)
| PAesCmacPrf (keylen : N)
| PEcdsaPub (curve hash enc : N) (point : bytes)
| PEcdsaPriv (curve hash enc : N) (point : bytes) (d : bytes)
| PRsaPkcs1Pub (bits e hash : N)
| PRsaPssPub (bits e hash salt : N)
| PChaCha (keylen : N)
| PXChaCha (keylen : N)
| PXAesGcm (keylen salt : N)
| PEd25519Pub
| PEd25519Priv (seed : bytes)
| PRsaPriv (pss : bool) (bits e hash salt : N)
| PEcies (private : bool) (curve dem : N) (point : bytes)
| PHpke (private : bool) (keylen : N)
| PStreamGcmHkdf (ikm derived seg : N)
| PStreamCtrHmac (ikm derived hash tag seg : N)
| PJwtHmac (alg keylen : N)
| PJwtEcdsa (private : bool) (alg : N) (point : bytes)
| PJwtRsaPub (pss : bool) (bits e : N)
| PJwtRsaPriv (pss : bool) (alg bits e : N) (n d p q : bytes)
| PJwtMlDsaPub
| PMlDsaPub
| PSlhDsa (private : bool)
| PMlDsaPriv
| PJwtMlDsaPriv
| PComposite (private : bool) (point : bytes) (seed : option bytes)
      (* composite ML-DSA: the point of a classical ECDSA key ([] otherwise), the seed of a classical Ed25519 private key *)
| PFallback (private : bool).

Definition okb (c : bool) (d : pkd) : outcome pkd := if c then Ok d else Err.

(* internal/ec BigIntBytesToFixedSizeBuffer: the final bigIntBytes[len-size:]
   is a checked slice *)
Fixpoint all_zero (b : bytes) : bool :=
  match b with [] => true | x :: t => (x =? 0) && all_zero t end.
Definition fixed_size (b : bytes) (size : nat) : outcome bytes :=
  if Nat.eqb (length b) size then Ok b
  else if Nat.ltb (length b) size then Ok (zeros (size - length b) ++ b)
  else if all_zero (firstn (length b - size) b)
       then slice (length b - size) (length b) b
       else Err.

Definition coord_size (curve : N) : option nat :=
  if curve =? c_p256 then Some (N.to_nat ec_size_p256)
  else if curve =? c_p384 then Some (N.to_nat ec_size_p384)
  else if curve =? c_p521 then Some (N.to_nat ec_size_p521)
  else None.

(* signature/ecdsa/protoserialization.go encodePoint: encodedPoint[xStartPos:]
   and encodedPoint[yStartPos:] are checked slices of the 1+2c byte buffer *)
Definition encode_point (x y : bytes) (c : nat) : outcome bytes :=
  let buf := 4 :: zeros (2 * c) in
  if Nat.ltb (1 + c) (length x) then Panic
  else bind (slice (1 + c - length x) (1 + 2 * c) buf) (fun _ =>
  if Nat.ltb (1 + 2 * c) (length y) then Panic
  else bind (slice (1 + 2 * c - length y) (1 + 2 * c) buf) (fun _ =>
  Ok (4 :: zeros (c - length x) ++ firstn c x ++ zeros (c - length y) ++ firstn c y))).

(* signature/ecdsa/key.go validateParameters *)
Definition ecdsa_params_ok (curve hash enc prefix : N) : bool :=
  ((hash =? h_sha256) || (hash =? h_sha384) || (hash =? h_sha512))
  && ((enc =? enc_der) || (enc =? enc_ieee))
  && known_prefix prefix
  && (if curve =? c_p256 then hash =? h_sha256
      else if curve =? c_p384 then (hash =? h_sha384) || (hash =? h_sha512)
      else if curve =? c_p521 then hash =? h_sha512
      else false).

(* newPublicKeyFromProto on the fields of an EcdsaPublicKey message *)
Definition ecdsa_pub_of (fs : list field) (prefix idreq : N) : outcome (N * N * N * bytes) :=
  let params := get_sub 2 fs in
  let hash := get_u32 1 params in
  let curve := get_u32 2 params in
  let enc := get_u32 3 params in
  if negb (get_u32 1 fs =? 0) then Err                       (* version > 0 *)
  else if negb (ecdsa_params_ok curve hash enc prefix) then Err
  else match coord_size curve with
       | None => Err
       | Some c =>
           bind (fixed_size (get_len 3 fs) c) (fun x =>
           bind (fixed_size (get_len 4 fs) c) (fun y =>
           bind (encode_point x y c) (fun pt =>
           if negb (negb (prefix =? pt_raw) || (idreq =? 0)) then Err
           else if ec_point_ok L curve pt then Ok (curve, hash, enc, pt) else Err)))
       end.

Definition sch_scalar := Sch [] [].
Definition sch_params2 := Sch [(2, sch_scalar)] [].     (* {version; params = 2; ...} *)
Definition sch_params3 := Sch [(3, sch_scalar)] [].     (* AesCmacKey: params = 3 *)
Definition sch_ctr_hmac := Sch [(2, sch_params2); (3, sch_params2)] [].
Definition sch_ecdsa_priv := Sch [(2, sch_params2)] [].

(* exponent := new(big.Int).SetBytes(e); !exponent.IsInt64() is an error,
   then int(exponent.Int64()); NewParameters wants f4 <= e <= maxExponent, odd *)
Definition rsa_exponent (e : bytes) : option N :=
  if be_val e <? 9223372036854775808 then Some (be_val e) else None.
Definition rsa_exponent_parse_ok (e : option N) : bool :=
  match e with
  | Some e => (rsa_f4 <=? e) && (e <=? rsa_max_exponent) && (e mod 2 =? 1)
  | None => false
  end.
Definition exponent_value (e : option N) : N := match e with Some e => e | None => 0 end.
Definition rsa_hash_ok (h : N) : bool := (h =? h_sha256) || (h =? h_sha384) || (h =? h_sha512).
(* int32 field as a signed value is > 0 *)
Definition int32_positive (v : N) : bool := (1 <=? v) && (v <? 2147483648).

(* ---- Ed25519: signature/ed25519/{protoserialization,key,signer,verifier}.go ---- *)
(* crypto/ed25519 NewKeyFromSeed panics unless the seed has 32 bytes *)
Definition ed25519_from_seed (seed : bytes) : outcome bytes :=
  if blen seed =? ed25519_seed_size then Ok (ed25519_pub L seed) else Panic.

Definition parse_ed25519_pub (kd : keydata) (prefix idreq : N) : outcome pkd :=
  let v := kd_value kd in
  let fs := fields_or_nil v in
  if negb (kd_mat kd =? km_public) then Err else
  if negb (wire_ok sch_scalar v) then Err else
  okb ((get_u32 1 fs =? 0) && variant_ok prefix idreq
       && (blen (get_len 2 fs) =? ed25519_pub_size)) PEd25519Pub.

Definition parse_ed25519_priv (kd : keydata) (prefix idreq : N) : outcome pkd :=
  let v := kd_value kd in
  let fs := fields_or_nil v in
  if negb (kd_mat kd =? km_private) then Err else
  if negb (wire_ok sch_params3 v) then Err else     (* public_key = 3 *)
  let pub := get_sub 3 fs in
  let seed := get_len 2 fs in
  if negb ((get_u32 1 fs =? 0) && (get_u32 1 pub =? 0) && variant_ok prefix idreq
           && (blen (get_len 2 pub) =? ed25519_pub_size)) then Err
  else if negb (blen seed =? ed25519_seed_size) then Err
  else bind (ed25519_from_seed seed) (fun pk =>
       if beq pk (get_len 2 pub) then Ok (PEd25519Priv seed) else Err).

(* ---- RSA-SSA-PKCS1 / RSA-SSA-PSS private keys:
   signature/rsassa{pkcs1,pss}/{protoserialization,key,signer,verifier}.go,
   internal/signature/rsa.go ---- *)
(* removeLeadingZeros = new(big.Int).SetBytes(b).Bytes() *)
Fixpoint strip_zeros (b : bytes) : bytes :=
  match b with
  | [] => []
  | x :: t => if x =? 0 then strip_zeros t else b
  end.

Definition sch_rsa_priv := Sch [(2, sch_params2)] [].    (* public_key = 2 { params = 2 } *)

Definition parse_rsa_priv (pss : bool) (kd : keydata) (prefix idreq : N) : outcome pkd :=
  let v := kd_value kd in
  let fs := fields_or_nil v in
  if negb (kd_mat kd =? km_private) then Err else
  if negb (wire_ok sch_rsa_priv v) then Err else
  let pub := get_sub 2 fs in
  let params := get_sub 2 pub in
  let hash := get_u32 1 params in
  let mgf := get_u32 2 params in
  let salt := if pss then get_u32 3 params else 0 in
  let n := get_len 3 pub in
  let bits := N.size (be_val n) in
  let eo := rsa_exponent (get_len 4 pub) in
  let e := exponent_value eo in
  let d := get_len 3 fs in
  let p := get_len 4 fs in
  let q := get_len 5 fs in
  (* version, variantFromProto, hashTypeFromProto, IsInt64, (salt length != 0,)
     NewParameters, public key version, NewPublicKey *)
  if negb ((get_u32 1 fs =? 0) && known_prefix prefix && rsa_hash_ok hash
           && (if pss then rsa_hash_ok mgf && int32_positive salt && (mgf =? hash) else true)
           && (rsa_min_bits_parse <=? bits) && rsa_exponent_parse_ok eo
           && (get_u32 1 pub =? 0) && (negb (prefix =? pt_raw) || (idreq =? 0))) then Err
  else
    (* NewPrivateKey: privateKey.Validate(); Precompute() *)
    match rsa_crt L n e d p q with
    | None => Err
    | Some (dp, dq, qinv) =>
        (* privateKeySelfCheck: NewSigner and NewVerifier apply the limits of
           the primitive constructor, then a signature is made and verified *)
        if negb ((rsa_min_bits_prim <=? bits) && (e =? rsa_exponent_prim)) then Err
        else if negb (rsa_selfcheck L pss hash salt n e d p q) then Err
        else okb (beq dp (strip_zeros (get_len 6 fs)) && beq dq (strip_zeros (get_len 7 fs))
                  && beq qinv (strip_zeros (get_len 8 fs)))
                 (PRsaPriv pss bits e hash salt)
    end.

(* ---- ECIES-AEAD-HKDF: hybrid/ecies/{protoserialization,parameters,key,
   hybrid_encrypt,hybrid_decrypt}.go, hybrid/internal/ecies/dem_helper.go ---- *)
Definition sch_keytemplate := Sch [] [1].                       (* KeyTemplate: type_url is a string *)
Definition sch_ecies_dem := Sch [(2, sch_keytemplate)] [].
Definition sch_ecies_params := Sch [(1, sch_scalar); (2, sch_ecies_dem)] [].
Definition sch_ecies_pub := Sch [(2, sch_ecies_params)] [].
Definition sch_ecies_priv := Sch [(2, sch_ecies_pub)] [].
Definition sch_ctr_hmac_format := Sch [(1, Sch [(1, sch_scalar)] []); (2, Sch [(1, sch_scalar)] [])] [].

(* protoserialization.ParseParameters on the DEM key template (its prefix
   type forced to RAW) followed by isAllowedDEMParameters: which of the six
   allowed parameter sets the template denotes.  The parameters parsers of
   AES-GCM, AES-SIV, XChaCha20-Poly1305 and AES-CTR-HMAC; any other type URL
   gives parameters that are not in the list, or no parameters at all. *)
Definition ecies_dem (tmpl : list field) : option N :=
  let url := get_len 1 tmpl in
  let v := get_len 2 tmpl in
  let f := fields_or_nil v in
  if beq url u_aes_gcm then              (* AesGcmKeyFormat { key_size = 2; version = 3 } *)
    if wire_ok sch_scalar v && (get_u32 3 f =? 0) then
      if get_u32 2 f =? dem_gcm_key_a then Some dem_aes128_gcm
      else if get_u32 2 f =? dem_gcm_key_b then Some dem_aes256_gcm else None
    else None
  else if beq url u_aes_siv then         (* AesSivKeyFormat { key_size = 1; version = 2 } *)
    if wire_ok sch_scalar v && (get_u32 2 f =? 0) && (get_u32 1 f =? dem_siv_key) then Some dem_aes256_siv else None
  else if beq url u_xchacha then         (* XChaCha20Poly1305KeyFormat { version = 1 } *)
    if wire_ok sch_scalar v && (get_u32 1 f =? 0) then Some dem_xchacha else None
  else if beq url u_aes_ctr_hmac then    (* { AesCtrKeyFormat{params{iv}=1; key_size=2} = 1; HmacKeyFormat{params{hash;tag}=1; key_size=2; version=3} = 2 } *)
    let ctr := get_sub 1 f in
    let hm := get_sub 2 f in
    if wire_ok sch_ctr_hmac_format v && (get_u32 3 hm =? 0)
       && (get_u32 2 hm =? dem_ctr_hmac_key) && (get_u32 1 (get_sub 1 ctr) =? dem_ctr_iv)
       && (get_u32 1 (get_sub 1 hm) =? h_sha256) then
      if (get_u32 2 ctr =? dem_ctr128_aes) && (get_u32 2 (get_sub 1 hm) =? dem_ctr128_tag) then Some dem_aes128_ctr_hmac
      else if (get_u32 2 ctr =? dem_ctr256_aes) && (get_u32 2 (get_sub 1 hm) =? dem_ctr256_tag) then Some dem_aes256_ctr_hmac
      else None
    else None
  else None.

Definition ecies_curve_ok (c : N) : bool :=
  (c =? c_p256) || (c =? c_p384) || (c =? c_p521) || (c =? c_x25519).
Definition ecies_format_ok (f : N) : bool :=
  (f =? pf_uncompressed) || (f =? pf_compressed) || (f =? pf_crunchy_uncompressed).

(* parsePublicKey: (curve, dem, public key bytes) *)
Definition ecies_pub_of (fs : list field) (prefix idreq : N) : outcome (N * N * bytes) :=
  let params := get_sub 2 fs in
  let kem := get_sub 1 params in
  let curve := get_u32 1 kem in
  let hash := get_u32 2 kem in
  let fmt := get_u32 3 params in
  if negb (get_u32 1 fs =? 0) then Err
  (* parseParameters *)
  else if negb (ecies_curve_ok curve
                && match digest_size hash with Some _ => true | None => false end
                && known_prefix prefix && ecies_format_ok fmt
                && has_sub 2 params && has_sub 2 (get_sub 2 params)) then Err
  else match ecies_dem (get_sub 2 (get_sub 2 params)) with
  | None => Err
  | Some dem =>
      if (curve =? c_x25519) && negb (fmt =? pf_compressed) then Err
      else
        let pk := if curve =? c_x25519 then Ok (get_len 3 fs)
                  else match coord_size curve with
                       | None => Err
                       | Some c =>
                           bind (fixed_size (get_len 3 fs) c) (fun x =>
                           bind (fixed_size (get_len 4 fs) c) (fun y => Ok (4 :: x ++ y)))
                       end in
        bind pk (fun pt =>
        (* NewPublicKey *)
        if negb (negb (prefix =? pt_raw) || (idreq =? 0)) then Err
        else if ec_point_ok L curve pt then Ok (curve, dem, pt) else Err)
  end.

Definition parse_ecies_pub (kd : keydata) (prefix idreq : N) : outcome pkd :=
  let v := kd_value kd in
  if negb (kd_mat kd =? km_public) then Err else
  if negb (wire_ok sch_ecies_pub v) then Err else
  bind (ecies_pub_of (fields_or_nil v) prefix idreq) (fun r =>
    match r with (curve, dem, pt) => Ok (PEcies false curve dem pt) end).

Definition parse_ecies_priv (kd : keydata) (prefix idreq : N) : outcome pkd :=
  let v := kd_value kd in
  let fs := fields_or_nil v in
  if negb (kd_mat kd =? km_private) then Err else
  if negb (wire_ok sch_ecies_priv v) then Err else
  if negb (get_u32 1 fs =? 0) then Err else
  bind (ecies_pub_of (get_sub 2 fs) prefix idreq) (fun r =>
    match r with (curve, dem, pt) =>
      let priv := if curve =? c_x25519 then Ok (get_len 3 fs)
                  else match coord_size curve with
                       | None => Err
                       | Some c => fixed_size (get_len 3 fs) c
                       end in
      bind priv (fun d =>
      (* NewPrivateKeyFromPublicKey *)
      match ec_pub_of_priv L curve d with
      | None => Err
      | Some pt' => if negb (ec_point_ok L curve pt) then Err
                    else if beq pt' pt then Ok (PEcies true curve dem pt) else Err
      end)
    end).

(* ---- HPKE: hybrid/hpke/{protoserialization,parameters,key,hybrid_encrypt,
   hybrid_decrypt}.go, hybrid/internal/hpke/{encrypt,decrypt}.go,
   hybrid/internal/xwing/xwing.go ---- *)
(* xwing.PublicFromSecret: expandDecapsulationKey (SHAKE256, 64 + 32 bytes),
   ML-KEM-768 key of the first part, X25519 public key of the second *)
Definition xwing_pub (sk : bytes) : option bytes :=
  if negb (blen sk =? xwing_secret_size) then None
  else let e := shake256 L sk 96 in
       match mlkem_pub L 768 (firstn 64 e) with
       | None => None
       | Some pk_m =>
           match ec_pub_of_priv L c_x25519 (firstn 32 (skipn 64 e)) with
           | None => None
           | Some pk_x => Some (pk_m ++ pk_x)
           end
       end.

Definition hpke_ecdh_curve (kem : N) : option N :=
  if kem =? kem_x25519 then Some c_x25519
  else if kem =? kem_p256 then Some c_p256
  else if kem =? kem_p384 then Some c_p384
  else if kem =? kem_p521 then Some c_p521
  else None.

(* parsePublicKey: (kem, public key bytes) *)
Definition hpke_pub_of (fs : list field) (prefix idreq : N) : outcome (N * bytes) :=
  let params := get_sub 2 fs in
  let kem := get_u32 1 params in
  let kdf := get_u32 2 params in
  let aead := get_u32 3 params in
  let pk := get_len 3 fs in
  if negb ((get_u32 1 fs =? 0)
           && inr kem_x25519 kem_mlkem1024 kem && inr 1 hpke_max_aead aead && inr 1 hpke_max_kdf kdf
           (* protoOutputPrefixTypeToVariant: no LEGACY *)
           && ((prefix =? pt_tink) || (prefix =? pt_crunchy) || (prefix =? pt_raw))
           && (negb (prefix =? pt_raw) || (idreq =? 0))) then Err
  else
    let valid :=
      match hpke_ecdh_curve kem with
      | Some c => ec_point_ok L c pk
      | None =>
          if kem =? kem_xwing then blen pk =? xwing_pub_size
          else if kem =? kem_mlkem768 then blen pk =? mlkem768_pub_size
          else blen pk =? mlkem1024_pub_size
      end in
    if valid then Ok (kem, pk) else Err.

Definition parse_hpke_pub (kd : keydata) (prefix idreq : N) : outcome pkd :=
  let v := kd_value kd in
  if negb (kd_mat kd =? km_public) then Err else
  if negb (wire_ok sch_params2 v) then Err else
  bind (hpke_pub_of (fields_or_nil v) prefix idreq) (fun r =>
    match r with (kem, pk) => Ok (PHpke false (blen pk)) end).

Definition parse_hpke_priv (kd : keydata) (prefix idreq : N) : outcome pkd :=
  let v := kd_value kd in
  let fs := fields_or_nil v in
  if negb (kd_mat kd =? km_private) then Err else
  if negb (wire_ok sch_rsa_priv v) then Err else           (* public_key = 2 { params = 2 } *)
  if negb (get_u32 1 fs =? 0) then Err else
  bind (hpke_pub_of (get_sub 2 fs) prefix idreq) (fun r =>
    match r with (kem, pk) =>
      let sk := get_len 3 fs in
      (* NewPrivateKeyFromPublicKey: the public key of the private key *)
      let pk' := match hpke_ecdh_curve kem with
                 | Some c => if ec_point_ok L c pk then ec_pub_of_priv L c sk else None
                 | None =>
                     if kem =? kem_xwing then xwing_pub sk
                     else if kem =? kem_mlkem768 then mlkem_pub L 768 sk
                     else mlkem_pub L 1024 sk
                 end in
      match pk' with
      | None => Err
      | Some p => if beq p pk then Ok (PHpke true (blen sk)) else Err
      end
    end).

(* ---- streaming AEAD keys: streamingaead/{aesgcmhkdf,aesctrhmac}/ ----
   Neither parser looks at the output prefix type or the id requirement; the
   key objects have no id requirement and serialise with prefix RAW. *)
Definition stream_hash_ok (h : N) : bool := (h =? h_sha1) || (h =? h_sha256) || (h =? h_sha512).
Definition stream_derived_ok (n : N) : bool := (n =? stream_derived_a) || (n =? stream_derived_b).
(* int32(uint32 field) >= m for a small positive m *)
Definition int32_at_least (v m : N) : bool := (v <? 2147483648) && (m <=? v).

Definition parse_stream_gcm_hkdf (kd : keydata) (prefix idreq : N) : outcome pkd :=
  let v := kd_value kd in
  let fs := fields_or_nil v in
  if negb (kd_mat kd =? km_symmetric) then Err else
  if negb (wire_ok sch_params2 v) then Err else
  let p := get_sub 2 fs in
  let seg := get_u32 1 p in
  let derived := get_u32 2 p in
  let ikm := blen (get_len 3 fs) in
  okb ((get_u32 1 fs =? 0) && stream_hash_ok (get_u32 3 p)
       && stream_derived_ok derived && (derived <=? ikm)
       && int32_at_least seg (derived + stream_gcm_overhead + 1))
      (PStreamGcmHkdf ikm derived seg).

Definition sch_stream_ctr_hmac := Sch [(2, Sch [(4, sch_scalar)] [])] [].   (* params = 2 { hmac_params = 4 } *)

Definition parse_stream_ctr_hmac (kd : keydata) (prefix idreq : N) : outcome pkd :=
  let v := kd_value kd in
  let fs := fields_or_nil v in
  if negb (kd_mat kd =? km_symmetric) then Err else
  if negb (wire_ok sch_stream_ctr_hmac v) then Err else
  let p := get_sub 2 fs in
  let seg := get_u32 1 p in
  let derived := get_u32 2 p in
  let hash := get_u32 1 (get_sub 4 p) in
  let tag := get_u32 2 (get_sub 4 p) in
  let ikm := blen (get_len 3 fs) in
  okb ((get_u32 1 fs =? 0) && stream_hash_ok (get_u32 3 p) && stream_hash_ok hash
       && stream_derived_ok derived && (derived <=? ikm)
       && (stream_min_tag <=? tag)
       && match digest_size hash with Some dg => tag <=? dg | None => false end
       && int32_at_least seg (derived + stream_ctr_overhead + tag + 1))
      (PStreamCtrHmac ikm derived hash tag seg).

(* ---- JWT keys: jwt/{jwthmac,jwtecdsa,jwtrsassapkcs1,jwtrsassapss}/, jwt/jwt_full_*.go ---- *)
Definition sch_custom_kid := Sch [] [1].                      (* CustomKid { string value = 1 } *)
Definition sch_jwt_hmac := Sch [(4, sch_custom_kid)] [].
Definition sch_jwt_pub := Sch [(5, sch_custom_kid)] [].       (* JwtEcdsaPublicKey / JwtRsaSsa*PublicKey *)
Definition sch_jwt_priv := Sch [(2, sch_jwt_pub)] [].

Definition jwt_alg_ok (a : N) : bool := (a =? jwt_alg_256) || (a =? jwt_alg_384) || (a =? jwt_alg_512).

(* kidStrategyFromOutputPrefixType + NewParameters (a strategy is known) +
   NewKey / NewPublicKey (no id requirement unless TINK) + computeKID (no
   custom kid with TINK) *)
Definition jwt_kid_ok (prefix idreq : N) (custom : bool) : bool :=
  ((prefix =? pt_tink) && negb custom) || ((prefix =? pt_raw) && (idreq =? 0)).

Definition jwt_hmac_min_key (a : N) : N :=
  if a =? jwt_alg_256 then jwt_hs256_min_key
  else if a =? jwt_alg_384 then jwt_hs384_min_key else jwt_hs512_min_key.
Definition jwt_hash (a : N) : N :=
  if a =? jwt_alg_256 then h_sha256 else if a =? jwt_alg_384 then h_sha384 else h_sha512.
Definition jwt_tag (a : N) : N :=
  if a =? jwt_alg_256 then dg_sha256 else if a =? jwt_alg_384 then dg_sha384 else dg_sha512.

Definition parse_jwt_hmac (kd : keydata) (prefix idreq : N) : outcome pkd :=
  let v := kd_value kd in
  let fs := fields_or_nil v in
  if negb (kd_mat kd =? km_symmetric) then Err else
  if negb (wire_ok sch_jwt_hmac v) then Err else
  let alg := get_u32 2 fs in
  let kl := blen (get_len 3 fs) in
  okb ((get_u32 1 fs =? 0) && jwt_alg_ok alg && (jwt_hmac_min_key alg <=? kl)
       && jwt_kid_ok prefix idreq (has_sub 4 fs))
      (PJwtHmac alg kl).

Definition jwt_curve (a : N) : N :=
  if a =? jwt_alg_256 then c_p256 else if a =? jwt_alg_384 then c_p384 else c_p521.

(* publicKeyFromProto *)
Definition jwt_ecdsa_pub_of (fs : list field) (prefix idreq : N) : outcome (N * bytes) :=
  let alg := get_u32 2 fs in
  if negb ((get_u32 1 fs =? 0) && jwt_alg_ok alg) then Err
  else match coord_size (jwt_curve alg) with
       | None => Err
       | Some c =>
           bind (fixed_size (get_len 3 fs) c) (fun x =>
           bind (fixed_size (get_len 4 fs) c) (fun y =>
           if negb (jwt_kid_ok prefix idreq (has_sub 5 fs)) then Err
           else if ec_point_ok L (jwt_curve alg) (4 :: x ++ y) then Ok (alg, 4 :: x ++ y) else Err))
       end.

Definition parse_jwt_ecdsa_pub (kd : keydata) (prefix idreq : N) : outcome pkd :=
  let v := kd_value kd in
  if negb (kd_mat kd =? km_public) then Err else
  if negb (wire_ok sch_jwt_pub v) then Err else
  bind (jwt_ecdsa_pub_of (fields_or_nil v) prefix idreq) (fun r =>
    match r with (alg, pt) => Ok (PJwtEcdsa false alg pt) end).

Definition parse_jwt_ecdsa_priv (kd : keydata) (prefix idreq : N) : outcome pkd :=
  let v := kd_value kd in
  let fs := fields_or_nil v in
  if negb (kd_mat kd =? km_private) then Err else
  if negb (wire_ok sch_jwt_priv v) then Err else
  if negb (get_u32 1 fs =? 0) then Err else
  bind (jwt_ecdsa_pub_of (get_sub 2 fs) prefix idreq) (fun r =>
    match r with (alg, pt) =>
      match coord_size (jwt_curve alg) with
      | None => Err
      | Some c =>
          bind (fixed_size (get_len 3 fs) c) (fun d =>
          match ec_pub_of_priv L (jwt_curve alg) d with
          | None => Err
          | Some pt' => if beq pt pt' then Ok (PJwtEcdsa true alg pt) else Err
          end)
      end
    end).

Definition parse_jwt_rsa_pub (pss : bool) (kd : keydata) (prefix idreq : N) : outcome pkd :=
  let v := kd_value kd in
  let fs := fields_or_nil v in
  if negb (kd_mat kd =? km_public) then Err else
  if negb (wire_ok sch_jwt_pub v) then Err else
  let bits := N.size (be_val (get_len 3 fs)) in
  let e := rsa_exponent (get_len 4 fs) in
  okb ((get_u32 1 fs =? 0) && (rsa_min_bits_parse <=? bits) && jwt_alg_ok (get_u32 2 fs)
       && rsa_exponent_parse_ok e && jwt_kid_ok prefix idreq (has_sub 5 fs))
      (PJwtRsaPub pss bits (exponent_value e)).

(* JwtRsaSsa{Pkcs1,Pss}PrivateKey: publicKeyFromProto on public_key = 2, then
   NewPrivateKey (Validate, Precompute; no self check here) and the
   comparison of dp, dq, crt *)
Definition parse_jwt_rsa_priv (pss : bool) (kd : keydata) (prefix idreq : N) : outcome pkd :=
  let v := kd_value kd in
  let fs := fields_or_nil v in
  if negb (kd_mat kd =? km_private) then Err else
  if negb (wire_ok sch_jwt_priv v) then Err else
  let pub := get_sub 2 fs in
  let n := get_len 3 pub in
  let bits := N.size (be_val n) in
  let eo := rsa_exponent (get_len 4 pub) in
  let e := exponent_value eo in
  let d := get_len 3 fs in
  let p := get_len 4 fs in
  let q := get_len 5 fs in
  if negb ((get_u32 1 fs =? 0) && (get_u32 1 pub =? 0) && (rsa_min_bits_parse <=? bits)
           && jwt_alg_ok (get_u32 2 pub) && rsa_exponent_parse_ok eo
           && jwt_kid_ok prefix idreq (has_sub 5 pub)) then Err
  else match rsa_crt L n e d p q with
       | None => Err
       | Some (dp, dq, qinv) =>
           okb (beq dp (strip_zeros (get_len 6 fs)) && beq dq (strip_zeros (get_len 7 fs))
                && beq qinv (strip_zeros (get_len 8 fs)))
               (PJwtRsaPriv pss (get_u32 2 pub) bits e n d p q)
       end.

(* JwtMlDsaPublicKey { version = 1; algorithm = 2; key_value = 3; custom_kid = 4 } *)
Definition parse_jwt_mldsa_pub (kd : keydata) (prefix idreq : N) : outcome pkd :=
  let v := kd_value kd in
  let fs := fields_or_nil v in
  if negb (kd_mat kd =? km_public) then Err else
  if negb (wire_ok sch_jwt_hmac v) then Err else
  let alg := get_u32 2 fs in
  let kl := blen (get_len 3 fs) in
  okb ((get_u32 1 fs =? 0) && jwt_kid_ok prefix idreq (has_sub 4 fs)
       && (if alg =? jwt_mldsa_44 then kl =? mldsa44_pub_size
           else if alg =? jwt_mldsa_65 then kl =? mldsa65_pub_size
           else if alg =? jwt_mldsa_87 then kl =? mldsa87_pub_size else false))
      PJwtMlDsaPub.

(* ---- ML-DSA public key: signature/mldsa/{protoserialization,key,verifier}.go ---- *)
Definition parse_mldsa_pub (kd : keydata) (prefix idreq : N) : outcome pkd :=
  let v := kd_value kd in
  let fs := fields_or_nil v in
  if negb (kd_mat kd =? km_public) then Err else
  if negb (wire_ok sch_params3 v) then Err else
  let inst := get_u32 1 (get_sub 3 fs) in
  let kl := blen (get_len 2 fs) in
  okb ((get_u32 1 fs =? 0)
       && ((prefix =? pt_tink) || (prefix =? pt_raw) || (prefix =? pt_with_id_requirement))
       && (negb (prefix =? pt_raw) || (idreq =? 0))
       && (if inst =? mldsa_44 then kl =? mldsa44_pub_size
           else if inst =? mldsa_65 then kl =? mldsa65_pub_size
           else if inst =? mldsa_87 then kl =? mldsa87_pub_size else false))
      PMlDsaPub.

(* ---- ML-DSA private key: signature/mldsa/{protoserialization,key,signer}.go ----
   MlDsaPrivateKey { version = 1; key_value = 2 (the 32-byte seed); public_key = 3 }.
   variantFromProto, instanceFromProto, NewParameters, NewPublicKey (id requirement,
   key length), then NewPrivateKeyWithPublicKey: seed length, key generation from the
   seed, comparison with the public key. *)
Definition mldsa_pub_len_ok (inst kl : N) : bool :=
  if inst =? mldsa_44 then kl =? mldsa44_pub_size
  else if inst =? mldsa_65 then kl =? mldsa65_pub_size
  else if inst =? mldsa_87 then kl =? mldsa87_pub_size else false.

Definition sch_mldsa_priv := Sch [(3, Sch [(3, Sch [] [])] [])] [].      (* public_key = 3 { params = 3 } *)

Definition parse_mldsa_priv (kd : keydata) (prefix idreq : N) : outcome pkd :=
  let v := kd_value kd in
  let fs := fields_or_nil v in
  if negb (kd_mat kd =? km_private) then Err else
  if negb (wire_ok sch_mldsa_priv v) then Err else
  let pub := get_sub 3 fs in
  let inst := get_u32 1 (get_sub 3 pub) in
  let seed := get_len 2 fs in
  if negb ((get_u32 1 fs =? 0)
           && ((prefix =? pt_tink) || (prefix =? pt_raw) || (prefix =? pt_with_id_requirement))
           && (get_u32 1 pub =? 0)
           && (negb (prefix =? pt_raw) || (idreq =? 0))
           && mldsa_pub_len_ok inst (blen (get_len 2 pub))) then Err
  else if negb (blen seed =? mldsa_seed_size) then Err
  else if beq (mldsa_pub L inst seed) (get_len 2 pub) then Ok PMlDsaPriv else Err.

(* JwtMlDsaPrivateKey { version = 1; key_value = 2; public_key = 3 { version; algorithm = 2;
   key_value = 3; custom_kid = 4 } }: publicKeyFromProto, then NewPrivateKeyFromPublicKey *)
Definition sch_jwt_mldsa_priv := Sch [(3, Sch [(4, Sch [] [1])] [])] [].

Definition jwt_mldsa_instance (alg : N) : N :=
  if alg =? jwt_mldsa_44 then mldsa_44 else if alg =? jwt_mldsa_65 then mldsa_65 else mldsa_87.

Definition parse_jwt_mldsa_priv (kd : keydata) (prefix idreq : N) : outcome pkd :=
  let v := kd_value kd in
  let fs := fields_or_nil v in
  if negb (kd_mat kd =? km_private) then Err else
  if negb (wire_ok sch_jwt_mldsa_priv v) then Err else
  let pub := get_sub 3 fs in
  let alg := get_u32 2 pub in
  let seed := get_len 2 fs in
  if negb ((get_u32 1 fs =? 0) && (get_u32 1 pub =? 0)
           && jwt_kid_ok prefix idreq (has_sub 4 pub)
           && ((alg =? jwt_mldsa_44) || (alg =? jwt_mldsa_65) || (alg =? jwt_mldsa_87))
           && mldsa_pub_len_ok (jwt_mldsa_instance alg) (blen (get_len 3 pub))) then Err
  else if negb (blen seed =? mldsa_seed_size) then Err
  else if beq (mldsa_pub L (jwt_mldsa_instance alg) seed) (get_len 3 pub) then Ok PJwtMlDsaPriv else Err.

(* ---- SLH-DSA: signature/slhdsa/{protoserialization,key,signer,verifier}.go,
   internal/signature/slhdsa DecodeSecretKey ---- *)
(* hashTypeFromProto, signatureTypeFromProto, NewParameters (the 12 supported
   sets: every hash and signature type with a private key of 64, 96 or 128
   bytes), NewPublicKey: the key size 4n *)
Definition slhdsa_pub_of (fs : list field) (prefix idreq : N) : option N :=
  let params := get_sub 3 fs in
  let ks := get_u32 1 params in
  let hash := get_u32 2 params in
  let sig := get_u32 3 params in
  if (get_u32 1 fs =? 0) && ((prefix =? pt_tink) || (prefix =? pt_raw))
     && ((hash =? 1) || (hash =? 2)) && ((sig =? 1) || (sig =? 2))
     && ((ks =? slhdsa_key_a) || (ks =? slhdsa_key_b) || (ks =? slhdsa_key_c))
     && (negb (prefix =? pt_raw) || (idreq =? 0))
     && (blen (get_len 2 fs) * 2 =? ks)
  then Some ks else None.

Definition parse_slhdsa_pub (kd : keydata) (prefix idreq : N) : outcome pkd :=
  let v := kd_value kd in
  if negb (kd_mat kd =? km_public) then Err else
  if negb (wire_ok sch_params3 v) then Err else
  match slhdsa_pub_of (fields_or_nil v) prefix idreq with
  | Some _ => Ok (PSlhDsa false)
  | None => Err
  end.

Definition sch_slhdsa_priv := Sch [(3, sch_params3)] [].      (* public_key = 3 { params = 3 } *)

Definition parse_slhdsa_priv (kd : keydata) (prefix idreq : N) : outcome pkd :=
  let v := kd_value kd in
  let fs := fields_or_nil v in
  if negb (kd_mat kd =? km_private) then Err else
  if negb (wire_ok sch_slhdsa_priv v) then Err else
  if negb (get_u32 1 fs =? 0) then Err else
  match slhdsa_pub_of (get_sub 3 fs) prefix idreq with
  | None => Err
  | Some ks =>
      let sk := get_len 2 fs in
      if negb (blen sk =? ks) then Err       (* checkPrivateKeyLengthForParameters *)
      else
        (* DecodeSecretKey: skEnc[2n:3n] and skEnc[3n:4n] are the public key *)
        let n := N.to_nat (ks / 4) in
        bind (slice (2 * n) (3 * n) sk) (fun pk_seed =>
        bind (slice (3 * n) (4 * n) sk) (fun pk_root =>
        if beq (pk_seed ++ pk_root) (get_len 2 (get_sub 3 fs)) then Ok (PSlhDsa true) else Err))
  end.

(* the key types modelled in the second round, then the fallback key: no
   parser registered = NewFallbackProtoKey / NewFallbackProtoPrivateKey, which
   only need calculateOutputPrefix to know the prefix type *)
Definition parse_key_more (kd : keydata) (prefix idreq : N) : outcome pkd :=
  if url_is kd u_ed25519_pub then parse_ed25519_pub kd prefix idreq
  else if url_is kd u_ed25519_priv then parse_ed25519_priv kd prefix idreq
  else if url_is kd u_rsa_pkcs1_priv then parse_rsa_priv false kd prefix idreq
  else if url_is kd u_rsa_pss_priv then parse_rsa_priv true kd prefix idreq
  else if url_is kd u_ecies_pub then parse_ecies_pub kd prefix idreq
  else if url_is kd u_ecies_priv then parse_ecies_priv kd prefix idreq
  else if url_is kd u_hpke_pub then parse_hpke_pub kd prefix idreq
  else if url_is kd u_hpke_priv then parse_hpke_priv kd prefix idreq
  else if url_is kd u_stream_gcm_hkdf then parse_stream_gcm_hkdf kd prefix idreq
  else if url_is kd u_stream_ctr_hmac then parse_stream_ctr_hmac kd prefix idreq
  else if url_is kd u_jwt_hmac then parse_jwt_hmac kd prefix idreq
  else if url_is kd u_jwt_ecdsa_pub then parse_jwt_ecdsa_pub kd prefix idreq
  else if url_is kd u_jwt_ecdsa_priv then parse_jwt_ecdsa_priv kd prefix idreq
  else if url_is kd u_jwt_rsa_pkcs1_pub then parse_jwt_rsa_pub false kd prefix idreq
  else if url_is kd u_jwt_rsa_pss_pub then parse_jwt_rsa_pub true kd prefix idreq
  else if url_is kd u_jwt_rsa_pkcs1_priv then parse_jwt_rsa_priv false kd prefix idreq
  else if url_is kd u_jwt_rsa_pss_priv then parse_jwt_rsa_priv true kd prefix idreq
  else if url_is kd u_jwt_mldsa_pub then parse_jwt_mldsa_pub kd prefix idreq
  else if url_is kd u_mldsa_pub then parse_mldsa_pub kd prefix idreq
  else if url_is kd u_slhdsa_pub then parse_slhdsa_pub kd prefix idreq
  else if url_is kd u_slhdsa_priv then parse_slhdsa_priv kd prefix idreq
  else if url_is kd u_mldsa_priv then parse_mldsa_priv kd prefix idreq
  else if url_is kd u_jwt_mldsa_priv then parse_jwt_mldsa_priv kd prefix idreq
  else okb (known_prefix prefix) (PFallback (kd_mat kd =? km_private)).

(* The parsers of every key type that nests no other key (39 types), or the
   fallback key.  Err = the parser returns an error. *)
Definition parse_key_base (kd : keydata) (prefix idreq : N) : outcome pkd :=
  let v := kd_value kd in
  let fs := fields_or_nil v in
  let mat := kd_mat kd in
  if url_is kd u_hmac then
    if negb (wire_ok sch_params2 v) then Err else
    let p := get_sub 2 fs in
    let hash := get_u32 1 p in let tag := get_u32 2 p in let kl := blen (get_len 3 fs) in
    okb ((get_u32 1 fs =? 0) && variant_ok prefix idreq
         && match digest_size hash with
            | None => false
            | Some d => (hmac_min_key_parse <=? kl) && (hmac_min_tag_parse <=? tag) && (tag <=? d)
            end)
        (PHmac hash kl tag)
  else if url_is kd u_aes_cmac then
    if negb (wire_ok sch_params3 v) then Err else
    let tag := get_u32 1 (get_sub 3 fs) in let kl := blen (get_len 2 fs) in
    okb ((get_u32 1 fs =? 0) && variant_ok prefix idreq
         && ((kl =? cmac_key_a) || (kl =? cmac_key_b))
         && (cmac_min_tag <=? tag) && (tag <=? cmac_max_tag))
        (PAesCmac kl tag)
  else if url_is kd u_aes_gcm then
    if negb (mat =? km_symmetric) then Err else
    if negb (wire_ok sch_scalar v) then Err else
    let kl := blen (get_len 3 fs) in
    okb ((get_u32 1 fs =? 0) && variant_ok prefix idreq && aes_16_24_32 kl) (PAesGcm kl)
  else if url_is kd u_aes_gcm_siv then
    if negb (mat =? km_symmetric) then Err else
    if negb (wire_ok sch_scalar v) then Err else
    let kl := blen (get_len 3 fs) in
    okb ((get_u32 1 fs =? 0) && variant_ok prefix idreq && aes_16_32 kl) (PAesGcmSiv kl)
  else if url_is kd u_aes_ctr_hmac then
    if negb (mat =? km_symmetric) then Err else
    if negb (wire_ok sch_ctr_hmac v) then Err else
    let ctr := get_sub 2 fs in let hm := get_sub 3 fs in
    let al := blen (get_len 3 ctr) in let iv := get_u32 1 (get_sub 2 ctr) in
    let hl := blen (get_len 3 hm) in
    let hash := get_u32 1 (get_sub 2 hm) in let tag := get_u32 2 (get_sub 2 hm) in
    okb ((get_u32 1 fs =? 0) && (get_u32 1 ctr =? 0) && (get_u32 1 hm =? 0)
         && variant_ok prefix idreq
         && aes_16_24_32 al && (ctr_min_iv <=? iv) && (iv <=? ctr_max_iv)
         && (ctrhmac_min_hmac_key <=? hl)
         && match digest_size hash with
            | None => false
            | Some d => (ctrhmac_min_tag <=? tag) && (tag <=? d)
            end)
        (PAesCtrHmac al iv hash hl tag)
  else if url_is kd u_aes_siv then
    if negb (mat =? km_symmetric) then Err else
    if negb (wire_ok sch_scalar v) then Err else
    let kl := blen (get_len 2 fs) in
    okb ((get_u32 1 fs =? 0) && variant_ok prefix idreq
         && ((kl =? siv_k32) || (kl =? siv_k48) || (kl =? siv_k64)))
        (PAesSiv kl)
  else if url_is kd u_hkdf_prf then
    if negb (prefix =? pt_raw) then Err else
    if negb (wire_ok sch_params2 v) then Err else
    let hash := get_u32 1 (get_sub 2 fs) in let kl := blen (get_len 3 fs) in
    okb ((get_u32 1 fs =? 0)
         && match digest_size hash with None => false | Some _ => true end
         && (hkdf_min_key_parse <=? kl))
        (PHkdfPrf hash kl)
  else if url_is kd u_hmac_prf then
    if negb (prefix =? pt_raw) then Err else
    if negb (wire_ok sch_params2 v) then Err else
    let hash := get_u32 1 (get_sub 2 fs) in let kl := blen (get_len 3 fs) in
    okb ((get_u32 1 fs =? 0)
         && match digest_size hash with None => false | Some _ => true end
         && (hmacprf_min_key_parse <=? kl))
        (PHmacPrf hash kl)
  else if url_is kd u_aes_cmac_prf then
    if negb (prefix =? pt_raw) then Err else
    if negb (wire_ok sch_scalar v) then Err else
    let kl := blen (get_len 2 fs) in
    okb ((get_u32 1 fs =? 0) && ((kl =? cmacprf_key_a) || (kl =? cmacprf_key_b))) (PAesCmacPrf kl)
  else if url_is kd u_ecdsa_pub then
    if negb (mat =? km_public) then Err else
    if negb (wire_ok sch_params2 v) then Err else
    bind (ecdsa_pub_of fs prefix idreq) (fun r =>
      match r with (curve, hash, enc, pt) => Ok (PEcdsaPub curve hash enc pt) end)
  else if url_is kd u_ecdsa_priv then
    if negb (mat =? km_private) then Err else
    if negb (wire_ok sch_ecdsa_priv v) then Err else
    if negb (get_u32 1 fs =? 0) then Err else
    bind (ecdsa_pub_of (get_sub 2 fs) prefix idreq) (fun r =>
      match r with (curve, hash, enc, pt) =>
        match coord_size curve with
        | None => Err
        | Some c =>
            bind (fixed_size (get_len 3 fs) c) (fun d =>
              match ec_pub_of_priv L curve d with
              | None => Err
              | Some pt' => if beq pt' pt then Ok (PEcdsaPriv curve hash enc pt d) else Err
              end)
        end
      end)
  else if url_is kd u_rsa_pkcs1_pub then
    if negb (mat =? km_public) then Err else
    if negb (wire_ok sch_params2 v) then Err else
    let hash := get_u32 1 (get_sub 2 fs) in
    let bits := N.size (be_val (get_len 3 fs)) in
    let e := rsa_exponent (get_len 4 fs) in
    okb ((get_u32 1 fs =? 0) && variant_ok prefix idreq && rsa_hash_ok hash
         && (rsa_min_bits_parse <=? bits) && rsa_exponent_parse_ok e)
        (PRsaPkcs1Pub bits (exponent_value e) hash)
  else if url_is kd u_rsa_pss_pub then
    if negb (mat =? km_public) then Err else
    if negb (wire_ok sch_params2 v) then Err else
    let p := get_sub 2 fs in
    let hash := get_u32 1 p in let mgf := get_u32 2 p in let salt := get_u32 3 p in
    let bits := N.size (be_val (get_len 3 fs)) in
    let e := rsa_exponent (get_len 4 fs) in
    okb ((get_u32 1 fs =? 0) && int32_positive salt
         && rsa_hash_ok hash && rsa_hash_ok mgf && (mgf =? hash)
         && variant_ok prefix idreq
         && (rsa_min_bits_parse <=? bits) && rsa_exponent_parse_ok e)
        (PRsaPssPub bits (exponent_value e) hash salt)
  else if url_is kd u_chacha then
    if negb (mat =? km_symmetric) then Err else
    if negb (wire_ok sch_scalar v) then Err else
    let kl := blen (get_len 2 fs) in
    okb ((get_u32 1 fs =? 0) && variant_ok prefix idreq && (kl =? chacha_key_size)) (PChaCha kl)
  else if url_is kd u_xchacha then
    if negb (mat =? km_symmetric) then Err else
    if negb (wire_ok sch_scalar v) then Err else
    let kl := blen (get_len 3 fs) in
    okb ((get_u32 1 fs =? 0) && variant_ok prefix idreq && (kl =? chacha_key_size)) (PXChaCha kl)
  else if url_is kd u_xaes_gcm then
    if negb (mat =? km_symmetric) then Err else
    if negb (wire_ok sch_params2 v) then Err else
    let kl := blen (get_len 3 fs) in let salt := get_u32 1 (get_sub 2 fs) in
    (* variantFromProto of xaesgcm knows TINK and RAW only *)
    okb ((get_u32 1 fs =? 0) && ((prefix =? pt_tink) || (prefix =? pt_raw))
         && (negb (prefix =? pt_raw) || (idreq =? 0))
         && (xaes_min_salt <=? salt) && (salt <=? xaes_max_salt) && (kl =? xaes_key_size))
        (PXAesGcm kl salt)
  else parse_key_more kd prefix idreq.

(* ---- composite ML-DSA: signature/compositemldsa/{protoserialization,key,signer,verifier}.go,
   internal/signature/compositemldsa/util.go ----
   CompositeMlDsaPublicKey  { version = 1; ml_dsa_public_key = 2 (KeyData); classical_public_key = 3 (KeyData);
                              params = 4 { ml_dsa_instance = 1; classical_algorithm = 2 } }
   CompositeMlDsaPrivateKey: the same with private key data.
   Each nested KeyData is handed to protoserialization.ParseKey with prefix RAW
   and id requirement 0, i.e. to the parser of ITS OWN type URL (or the
   fallback key; a composite key nested in a composite key recurses, each
   level on a strictly shorter value); the composite constructor then keeps
   the result only if it is an ML-DSA key (type assertion) resp. a classical
   key whose parameters equal the ones expected for the classical algorithm.
   A nested key of any other type therefore ends in an error whatever its own
   parser says: the model refuses it without parsing.  (The public composite
   key keeps all eight classical type URLs allowed: a private classical key is
   parsed and then refused by NewPublicKey.) *)
Definition sch_composite := Sch [(2, sch_keydata); (3, sch_keydata); (4, sch_scalar)] [].

(* NewParameters: supportedParameterSets *)
Definition composite_supported (inst alg : N) : bool :=
  if inst =? mldsa_65 then
    (alg =? calg_ed25519) || (alg =? calg_ecdsa_p256) || (alg =? calg_ecdsa_p384)
    || (alg =? calg_rsa3072_pss) || (alg =? calg_rsa4096_pss) || (alg =? calg_rsa3072_pkcs1) || (alg =? calg_rsa4096_pkcs1)
  else if inst =? mldsa_87 then
    (alg =? calg_ecdsa_p384) || (alg =? calg_ecdsa_p521) || (alg =? calg_rsa3072_pss) || (alg =? calg_rsa4096_pss)
  else false.

(* classicalKey.Parameters().Equal(ParametersForClassicalAlgorithm(alg)) on the
   key object the nested parser returned (variant NoPrefix holds by
   construction: the nested key was parsed with prefix RAW) *)
Definition comp_ecdsa_ok (alg curve hash enc : N) : bool :=
  (enc =? enc_der)
  && (((alg =? calg_ecdsa_p256) && (curve =? c_p256) && (hash =? h_sha256))
      || ((alg =? calg_ecdsa_p384) && (curve =? c_p384) && (hash =? h_sha384))
      || ((alg =? calg_ecdsa_p521) && (curve =? c_p521) && (hash =? h_sha512))).
Definition comp_pss_ok (alg bits e hash salt : N) : bool :=
  (e =? rsa_f4)
  && (((alg =? calg_rsa3072_pss) && (bits =? comp_rsa_bits_a) && (hash =? h_sha256) && (salt =? comp_pss_salt_a))
      || ((alg =? calg_rsa4096_pss) && (bits =? comp_rsa_bits_b) && (hash =? h_sha384) && (salt =? comp_pss_salt_b))).
Definition comp_pkcs1_ok (alg bits e hash : N) : bool :=
  (e =? rsa_f4)
  && (((alg =? calg_rsa3072_pkcs1) && (bits =? comp_rsa_bits_a) && (hash =? h_sha256))
      || ((alg =? calg_rsa4096_pkcs1) && (bits =? comp_rsa_bits_b) && (hash =? h_sha384))).

(* The composite key object made of an accepted classical key object.
   NewPrivateKey needs a classical key that exposes PublicKey(): a private key.
   NewPublicKey compares classicalKey.Parameters() with the expected parameters
   and (/repo bcdec3e; before that fix a public composite key accepted - and
   its serializer wrote out - a classical PRIVATE key, whose parameters are
   the same) refuses a key that exposes PublicKey(). *)
Definition composite_of_classical (private : bool) (alg : N) (d : pkd) : outcome pkd :=
  match d with
  | PEd25519Pub => okb (negb private && (alg =? calg_ed25519)) (PComposite private [] None)
  | PEcdsaPub curve hash enc pt => okb (negb private && comp_ecdsa_ok alg curve hash enc) (PComposite private pt None)
  | PRsaPssPub bits e hash salt => okb (negb private && comp_pss_ok alg bits e hash salt) (PComposite private [] None)
  | PRsaPkcs1Pub bits e hash => okb (negb private && comp_pkcs1_ok alg bits e hash) (PComposite private [] None)
  | PEd25519Priv seed => okb (private && (alg =? calg_ed25519)) (PComposite private [] (Some seed))
  | PEcdsaPriv curve hash enc pt _ => okb (private && comp_ecdsa_ok alg curve hash enc) (PComposite private pt None)
  | PRsaPriv true bits e hash salt => okb (private && comp_pss_ok alg bits e hash salt) (PComposite private [] None)
  | PRsaPriv false bits e hash _ => okb (private && comp_pkcs1_ok alg bits e hash) (PComposite private [] None)
  | _ => Err
  end.

Definition parse_composite (private : bool) (kd : keydata) (prefix idreq : N) : outcome pkd :=
  let v := kd_value kd in
  let fs := fields_or_nil v in
  if negb (kd_mat kd =? (if private then km_private else km_public)) then Err else
  if negb (wire_ok sch_composite v) then Err else
  let inst := get_u32 1 (get_sub 4 fs) in
  let alg := get_u32 2 (get_sub 4 fs) in
  let mkd := keydata_of (get_sub 2 fs) in            (* ml_dsa_{public,private}_key *)
  let ckd := keydata_of (get_sub 3 fs) in            (* classical_{public,private}_key *)
  if negb ((get_u32 1 fs =? 0) && ((prefix =? pt_tink) || (prefix =? pt_raw))
           && composite_supported inst alg && has_sub 2 fs && has_sub 3 fs) then Err
  else
    (* the nested ML-DSA key: its own parser, prefix RAW, no id requirement; its
       parameters must be the ones of the composite's instance *)
    let mfs := fields_or_nil (kd_value mkd) in
    let minst := if private then get_u32 1 (get_sub 3 (get_sub 3 mfs)) else get_u32 1 (get_sub 3 mfs) in
    let mres := if private
                then (if url_is mkd u_mldsa_priv then parse_mldsa_priv mkd pt_raw 0 else Err)
                else (if url_is mkd u_mldsa_pub then parse_mldsa_pub mkd pt_raw 0 else Err) in
    bind mres (fun _ =>
    let cpriv := url_is ckd u_ed25519_priv || url_is ckd u_ecdsa_priv || url_is ckd u_rsa_pss_priv || url_is ckd u_rsa_pkcs1_priv in
    let callowed := if private then cpriv
                    else cpriv || url_is ckd u_ed25519_pub || url_is ckd u_ecdsa_pub || url_is ckd u_rsa_pss_pub || url_is ckd u_rsa_pkcs1_pub in
    if negb callowed then Err
    else bind (parse_key_base ckd pt_raw 0) (fun cd =>
         if negb (minst =? inst) then Err else composite_of_classical private alg cd)).

(* protoserialization.ParseKey: the parser registered for the type URL, or
   the fallback key.  Err = the parser returns an error. *)
Definition parse_key (kd : keydata) (prefix idreq : N) : outcome pkd :=
  if url_is kd u_composite_pub then parse_composite false kd prefix idreq
  else if url_is kd u_composite_priv then parse_composite true kd prefix idreq
  else parse_key_base kd prefix idreq.

(* ecdsa.NewVerifier / NewSigner on an uncompressed point:
   xy := publicPoint[1:]; xy[:len(xy)/2]; xy[len(xy)/2:] *)
Definition ecdsa_point_slices (pt : bytes) : outcome bool :=
  bind (slice 1 (length pt) pt) (fun xy =>
  bind (slice 0 (Nat.div (length xy) 2) xy) (fun _ =>
  bind (slice (Nat.div (length xy) 2) (length xy) xy) (fun _ => Ok true))).

(* The primitive constructor registered for the key type (what
   registryconfig.PrimitiveFromKey reaches): Ok true = a primitive is
   returned, Ok false = error. *)
Definition prim_ok (d : pkd) : outcome bool :=
  match d with
  | PHmac hash kl tag => Ok (hmac_params_ok hash kl tag)
  | PAesCmac kl tag =>
      Ok ((kl =? cmac_key_prim) && (cmac_min_tag <=? tag) && (tag <=? cmac_max_tag))
  | PAesGcm kl => Ok (aes_16_32 kl)
  | PAesGcmSiv kl => Ok (aes_16_32 kl)
  | PAesCtrHmac al iv hash hl tag =>
      Ok (aes_16_32 al && (ctr_min_iv <=? iv) && (iv <=? ctr_max_iv) && hmac_params_ok hash hl tag)
  | PAesSiv kl => Ok (kl =? siv_key_prim)
  | PHkdfPrf hash kl =>
      Ok ((hkdf_min_key_prim <=? kl) && ((hash =? h_sha256) || (hash =? h_sha512)))
  | PHmacPrf hash kl =>
      Ok ((hmacprf_min_key_prim <=? kl) && match digest_size hash with None => false | Some _ => true end)
  | PAesCmacPrf kl => Ok (kl =? cmacprf_key_prim)
  | PEcdsaPub _ _ _ pt | PEcdsaPriv _ _ _ pt _ | PJwtEcdsa _ _ pt =>
      (* NewVerifier/NewSigner: xy := publicPoint[1:]; xy[:len(xy)/2]; xy[len(xy)/2:] *)
      bind (slice 1 (length pt) pt) (fun xy =>
      bind (slice 0 (Nat.div (length xy) 2) xy) (fun _ =>
      bind (slice (Nat.div (length xy) 2) (length xy) xy) (fun _ => Ok true)))
  | PRsaPkcs1Pub bits e hash | PRsaPssPub bits e hash _ =>
      Ok ((rsa_min_bits_prim <=? bits) && (e =? rsa_exponent_prim) && rsa_hash_ok hash)
  | PChaCha kl | PXChaCha kl => Ok (kl =? chacha_key_size)
  | PXAesGcm kl _ => Ok (aes_16_32 kl)          (* NewAESCMACPRF -> aescmac.New *)
  | PEd25519Pub => Ok true
  | PEd25519Priv seed => bind (ed25519_from_seed seed) (fun _ => Ok true)   (* NewSigner: NewKeyFromSeed *)
  | PRsaPriv _ bits e hash _ =>        (* New_RSA_SSA_{PKCS1,PSS}_Signer *)
      Ok ((rsa_min_bits_prim <=? bits) && (e =? rsa_exponent_prim) && rsa_hash_ok hash)
  | PEcies false curve dem pt =>
      (* NewHybridEncrypt: subtle.GetCurve knows the NIST curves only;
         xy := PublicKeyBytes()[1:]; NewDEMHelper; xy[:coordinateSize]; xy[coordinateSize:] *)
      match coord_size curve with
      | None => Ok false
      | Some c =>
          bind (slice 1 (length pt) pt) (fun xy =>
          if dem =? dem_xchacha then Ok false
          else bind (slice 0 c xy) (fun _ =>
               bind (slice c (length xy) xy) (fun _ => Ok true)))
      end
  | PEcies true curve dem _ =>       (* NewHybridDecrypt *)
      match coord_size curve with
      | None => Ok false
      | Some _ => Ok (negb (dem =? dem_xchacha))
      end
  | PHpke _ keylen => Ok (negb (keylen =? 0))      (* internal/hpke NewEncrypt / NewDecrypt *)
  | PStreamGcmHkdf ikm derived seg =>
      (* primitiveConstructor: ValidateAESKeySize(len(main key)); NewAESGCMHKDF *)
      Ok (aes_16_32 ikm && (stream_min_main_key <=? ikm) && (derived <=? ikm) && aes_16_32 derived
          && (derived + stream_gcm_overhead <? seg))
  | PStreamCtrHmac ikm derived hash tag seg =>
      (* primitiveConstructor: ValidateAESKeySize(len(main key)); NewAESCTRHMAC *)
      Ok (aes_16_32 ikm && (stream_min_main_key <=? ikm) && (derived <=? ikm) && aes_16_32 derived
          && (stream_min_tag <=? tag)
          && match digest_size hash with Some dg => tag <=? dg | None => false end
          && (derived + stream_ctr_overhead + tag <? seg))
  | PJwtHmac alg kl =>               (* createJWTHMAC: hmac.NewParameters, NewKey, NewMAC *)
      Ok (hmac_params_ok (jwt_hash alg) kl (jwt_tag alg))
  | PJwtRsaPub _ bits e =>           (* createJWTRSASSA{PKCS1,PSS}Verifier *)
      Ok ((rsa_min_bits_prim <=? bits) && (e =? rsa_exponent_prim))
  | PJwtRsaPriv pss alg bits e n d p q =>
      (* createJWTRSASSA{PKCS1,PSS}Signer: rsassa{pkcs1,pss}.NewPrivateKey on the
         same numbers: Validate again, then the self check of the plain RSA
         keys (limits of NewSigner / NewVerifier, sign, verify); PSS salt = digest size *)
      Ok (match rsa_crt L n e d p q with Some _ => true | None => false end
          && (rsa_min_bits_prim <=? bits) && (e =? rsa_exponent_prim)
          && rsa_selfcheck L pss (jwt_hash alg) (if pss then jwt_tag alg else 0) n e d p q)
  | PJwtMlDsaPub => Ok true
  | PMlDsaPub => Ok true
  | PSlhDsa _ => Ok true
  | PMlDsaPriv => Ok true            (* mldsa.NewSigner: the expanded key of the seed *)
  | PJwtMlDsaPriv => Ok true         (* createJWTMLDSASigner: mldsa.NewPrivateKey(seed) + NewSigner *)
  | PComposite _ pt seed =>
      (* compositemldsa.NewVerifier / NewSigner: the ML-DSA half, then newClassicalVerifier /
         newClassicalSigner = the constructor of the classical key (its parameters are fixed by
         the composite algorithm: RSA 3072/4096 with e = 65537, the ECDSA point, the Ed25519 seed) *)
      bind (match pt with [] => Ok true | _ => ecdsa_point_slices pt end) (fun _ =>
      match seed with
      | Some sd => bind (ed25519_from_seed sd) (fun _ => Ok true)
      | None => Ok true
      end)
  | PFallback _ => Ok false
  end.

(* the material type the serializer of a second-round key type writes
   (model/Secrets.v out_material; the fallback key keeps its own label) *)
Definition more_material (d : pkd) : N :=
  match d with
  | PEd25519Pub => km_public
  | PEd25519Priv _ | PRsaPriv _ _ _ _ _ | PEcies true _ _ _ | PHpke true _
  | PJwtEcdsa true _ _ | PSlhDsa true | PJwtRsaPriv _ _ _ _ _ _ _ _ | PMlDsaPriv | PJwtMlDsaPriv
  | PComposite true _ _ => km_private
  | PEcies false _ _ _ | PHpke false _ | PJwtEcdsa false _ _ | PJwtRsaPub _ _ _ | PMlDsaPub | PSlhDsa false
  | PJwtMlDsaPub | PComposite false _ _ => km_public
  | PStreamGcmHkdf _ _ _ | PStreamCtrHmac _ _ _ _ _ | PJwtHmac _ _ => km_symmetric
  | _ => km_unknown
  end.

Definition modelled_url (kd : keydata) : bool :=
  url_is kd u_hmac || url_is kd u_aes_cmac || url_is kd u_aes_gcm
  || url_is kd u_aes_gcm_siv || url_is kd u_aes_ctr_hmac || url_is kd u_aes_siv
  || url_is kd u_hkdf_prf || url_is kd u_hmac_prf || url_is kd u_aes_cmac_prf
  || url_is kd u_ecdsa_pub || url_is kd u_ecdsa_priv
  || url_is kd u_rsa_pkcs1_pub || url_is kd u_rsa_pss_pub
  || url_is kd u_chacha || url_is kd u_xchacha || url_is kd u_xaes_gcm
  || url_is kd u_ed25519_pub || url_is kd u_ed25519_priv
  || url_is kd u_rsa_pkcs1_priv || url_is kd u_rsa_pss_priv
  || url_is kd u_ecies_pub || url_is kd u_ecies_priv || url_is kd u_hpke_pub || url_is kd u_hpke_priv
  || url_is kd u_stream_gcm_hkdf || url_is kd u_stream_ctr_hmac || url_is kd u_jwt_hmac
  || url_is kd u_jwt_ecdsa_pub || url_is kd u_jwt_ecdsa_priv
  || url_is kd u_jwt_rsa_pkcs1_pub || url_is kd u_jwt_rsa_pss_pub
  || url_is kd u_mldsa_pub || url_is kd u_slhdsa_pub || url_is kd u_slhdsa_priv
  || url_is kd u_jwt_rsa_pkcs1_priv || url_is kd u_jwt_rsa_pss_priv || url_is kd u_jwt_mldsa_pub
  || url_is kd u_mldsa_priv || url_is kd u_jwt_mldsa_priv
  || url_is kd u_composite_pub || url_is kd u_composite_priv.
Definition unmodelled_url (kd : keydata) : bool :=
  existsb (fun u => url_is kd u) u_unmodelled.
(* outside the 16 key types C13 (model/Secrets.v) was built on *)
Definition outside_c13_url (kd : keydata) : bool :=
  existsb (fun u => url_is kd u) u_c13_outside.

(* ------------------------------------------------------------------ *)
(* keyset/handle.go keysetToEntries + newFromEntries                   *)
(* ------------------------------------------------------------------ *)
(* eurl/evalue/emat: the serialization the key object was parsed from (what
   the fallback key keeps verbatim); emod: the key type is one of the modelled
   ones (its parser and primitive constructor are transcribed above) *)
Record entry := mkE { eid : N; estatus : N; eprim : bool; ereq : option N;
                      eprefix : N; eurl : bytes; evalue : bytes; emat : N;
                      ekey : pkd; emod : bool }.
Definition handle := list entry.

Definition to_entry (primary : N) (k : pkey) : outcome entry :=
  match k_data k with
  | None => Err      (* unreachable after Validate *)
  | Some kd =>
      let idreq := if k_prefix k =? pt_raw then 0 else k_id k in
      bind (parse_key kd (k_prefix k) idreq) (fun d =>
      if negb (known_status (k_status k)) then Err    (* keyStatusFromProto *)
      else
        Ok (mkE (k_id k) (k_status k) (k_id k =? primary)
                (if k_prefix k =? pt_raw then None else Some (k_id k))
                (k_prefix k) (kd_url kd) (kd_value kd) (kd_mat kd) d (modelled_url kd)))
  end.

Fixpoint to_entries (primary : N) (keys : list (option pkey)) : outcome (list entry) :=
  match keys with
  | [] => Ok []
  | None :: _ => Err
  | Some k :: t =>
      bind (to_entry primary k) (fun e =>
      bind (to_entries primary t) (fun es => Ok (e :: es)))
  end.

(* newFromEntries: an entry with unknown status or no primary entry = error *)
Definition new_from_entries (es : list entry) : outcome handle :=
  if existsb (fun e => negb (known_status (estatus e))) es then Err
  else if existsb eprim es then Ok es else Err.

(* newKeysetHandleFromProto *)
Definition handle_from_proto (ks : option keyset) : outcome handle :=
  if validate ks then
    match ks with
    | None => Err
    | Some k => bind (to_entries (ks_primary k) (ks_keys k)) new_from_entries
    end
  else Err.

(* insecurecleartextkeyset.Read(keyset.NewBinaryReader(b)) *)
Definition read (b : bytes) : outcome handle :=
  match decode_keyset b with
  | None => Err
  | Some ks =>
      match ks_keys ks with
      | [] => Err
      | _ => handle_from_proto (Some ks)
      end
  end.

(* insecurecleartextkeyset.Read on a reader that hands over a proto message
   (keyset.MemReaderWriter): nil or empty keyset = error before Validate *)
Definition read_proto (ks : option keyset) : outcome handle :=
  match ks with
  | None => Err
  | Some k => match ks_keys k with [] => Err | _ => handle_from_proto ks end
  end.

(* The prefix type a handle reports for an entry (KeysetInfo re-serialises the
   key): the AEAD/DAEAD key types have no LEGACY variant, their
   variantFromProto maps LEGACY to VariantCrunchy. *)
Definition out_prefix (e : entry) : N :=
  match ekey e with
  | PAesGcm _ | PAesGcmSiv _ | PAesCtrHmac _ _ _ _ _ | PAesSiv _ | PChaCha _ | PXChaCha _ =>
      if eprefix e =? pt_legacy then pt_crunchy else eprefix e
  | _ => eprefix e
  end.

(* out_prefix is what model/Secrets.v (C13) is stated over and covers the 16
   first-round key types; for the key types modelled later the serializers
   do this: ECIES has no LEGACY variant either (variantFromProto maps LEGACY
   to VariantCrunchy). *)
Definition shown_prefix (e : entry) : N :=
  match ekey e with
  | PEcies _ _ _ _ => if eprefix e =? pt_legacy then pt_crunchy else eprefix e
  | PStreamGcmHkdf _ _ _ | PStreamCtrHmac _ _ _ _ _ => pt_raw     (* always serialised as RAW *)
  | _ => out_prefix e
  end.

(* the id requirement the key object reports (Key.IDRequirement): the
   streaming AEAD keys never have one *)
Definition shown_req (e : entry) : option N :=
  match ekey e with
  | PStreamGcmHkdf _ _ _ | PStreamCtrHmac _ _ _ _ _ => None
  | _ => ereq e
  end.

(* keyset/handle.go hasSecrets: only ASYMMETRIC_PUBLIC and REMOTE are free of
   secrets, every other value of the (open) enum counts as secret (nil-safe
   getters: a nil key or nil key data has material type UNKNOWN_KEYMATERIAL) *)
Definition key_material (k : option pkey) : N :=
  match k with
  | Some k => match k_data k with Some kd => kd_mat kd | None => km_unknown end
  | None => km_unknown
  end.
Definition secret_material (m : N) : bool :=
  negb ((m =? km_public) || (m =? km_remote)).
Definition has_secrets (ks : keyset) : bool :=
  existsb (fun k => secret_material (key_material k)) (ks_keys ks).

(* What a key object serialises to (protoserialization.SerializeKey): the
   serializer of every key type writes the material type of the TYPE, not the
   label the key came in with; the fallback key returns a clone of the KeyData
   it was built from. *)
Definition out_material (e : entry) : N :=
  match ekey e with
  | PHmac _ _ _ | PAesCmac _ _ | PAesGcm _ | PAesGcmSiv _ | PAesCtrHmac _ _ _ _ _ | PAesSiv _
  | PHkdfPrf _ _ | PHmacPrf _ _ | PAesCmacPrf _ | PChaCha _ | PXChaCha _ | PXAesGcm _ _ => km_symmetric
  | PEcdsaPub _ _ _ _ | PRsaPkcs1Pub _ _ _ | PRsaPssPub _ _ _ _ => km_public
  | PEcdsaPriv _ _ _ _ _ => km_private
  | PFallback _ => emat e
  | d => more_material d      (* Ed25519, RSA private, ECIES, HPKE, streaming AEAD, JWT, ML-DSA public, SLH-DSA *)
  end.

(* hasSecrets on entriesToProtoKeyset(h.entries): some key object serialises
   to material that is not public or remote *)
Definition handle_has_secrets (h : handle) : bool :=
  existsb (fun e => secret_material (out_material e)) h.

(* keyset.NewHandleWithNoSecrets (/repo b141c20): the label test, then the
   construction of the handle, then the same test on the keyset re-serialised
   from the parsed keys - what WriteWithNoSecrets looks at (ks = nil:
   hasSecrets(nil) = false, then Validate(nil) fails) *)
Definition handle_no_secrets (ks : option keyset) : outcome handle :=
  match ks with
  | None => Err
  | Some k =>
      if has_secrets k then Err
      else bind (handle_from_proto ks) (fun h => if handle_has_secrets h then Err else Ok h)
  end.

(* keyset.ReadWithNoSecrets(keyset.NewBinaryReader(b)) *)
Definition read_no_secrets (b : bytes) : outcome handle :=
  match decode_keyset b with
  | None => Err
  | Some ks => handle_no_secrets (Some ks)
  end.

(* keyset.ReadWithAssociatedData(keyset.NewBinaryReader(b), kek, ad); kek_dec
   is the key-encryption AEAD's Decrypt *)
Definition read_encrypted (kek_dec : bytes -> bytes -> option bytes) (b ad : bytes) : outcome handle :=
  match decode_encrypted b with
  | None => Err
  | Some ct =>
      match kek_dec ct ad with
      | None => Err
      | Some pt =>
          match decode_keyset pt with
          | None => Err
          | Some ks => handle_from_proto (Some ks)
          end
      end
  end.

(* a decoded keyset contains a key type whose parser is not transcribed *)
Definition any_unmodelled (ks : keyset) : bool :=
  existsb (fun k => match k with
                    | Some k => match k_data k with Some kd => unmodelled_url kd | None => false end
                    | None => false
                    end) (ks_keys ks).

Definition any_outside_c13 (ks : keyset) : bool :=
  existsb (fun k => match k with
                    | Some k => match k_data k with Some kd => outside_c13_url kd | None => false end
                    | None => false
                    end) (ks_keys ks).

(* "usable": the key is accepted by its parser and a primitive is created *)
Definition usable (kd : keydata) (prefix idreq : N) : bool :=
  match parse_key kd prefix idreq with
  | Ok d => match prim_ok d with Ok true => true | _ => false end
  | _ => false
  end.

End Keys.
