(* Executable model of the key-selection rule of the keyset-primitive
   factories.  No proofs here: proofs/FactoryProofs.v.

   Go                                                   model
   keyset.Handle entries (ordered)                      list fentry
   factoryutil.EnabledUnmonitoredEntries                enabled_entries
   factoryutil.OutputPrefix(entry.Key())                prefix_of  (computed from the KEY's
                                                        prefix type and id requirement, not from
                                                        entry.KeyID())
   prefixmap.PrefixMap (map[string][]P)                 pmap  (association list, buckets keep
                                                        insertion order as append does)
   PrefixMap.PrimitivesMatchingPrefix + Iterator        pm_matching
   wrapped*.Decrypt/Verify loops                        accept_o / mac_accept_o / accept_all
   full*Adapter (legacy, "non-full" primitives)         entry_valid / entry_produce
   `if entry.IsPrimary() { primary = a }` loops         primary_loop
   handle.Primary()  (newFromEntries)                   primary_handle
   prf_set_factory (map[uint32]PRF, PrimaryID)          prf_map / prf_primary_id
   logger.Log(keyID, ..)                                fid of the entry returned

   The single-key primitives themselves are Section variables:
     raw_valid e x d    the primitive built from entry e's key accepts input x
                        (ciphertext / tag / signature / token / stream) for the
                        second argument d (associated data / message / context)
     raw_produce e m    what that primitive produces for m
   For a full primitive x is the whole input; for a legacy primitive the
   adapter strips the prefix first, exactly as each factory does. *)
From Coq Require Import List NArith Bool.
From Tink Require Import Bytes Manager Prefix.
Import ListNotations.
Open Scope N_scope.

Record fentry := mkF {
  fid : N;          (* entry.KeyID() *)
  fstat : status;   (* entry.KeyStatus() *)
  fprim : bool;     (* entry.IsPrimary() *)
  fpt : ptype;      (* output prefix type of the key *)
  freq : N;         (* id the key object carries (its id requirement); unused for RAW *)
  flegacy : bool;   (* PrimitiveFromKey reports a legacy (non-full) primitive *)
  fkey : N }.       (* opaque token standing for the key material *)

Definition prefix_of (e : fentry) : bytes := prefix_bytes (fpt e) (freq e).
Definition fenabled (e : fentry) : bool := status_eqb (fstat e) Enabled.
Definition fraw (e : fentry) : bool := is_raw (fpt e).

(* for entry := range factoryutil.EnabledUnmonitoredEntries(handle) *)
Definition enabled_entries (ks : list fentry) : list fentry := filter fenabled ks.

(* ---- internal/prefixmap ------------------------------------------------ *)
Definition pmap := list (bytes * list fentry).

(* m.items[prefix] = append(m.items[prefix], primitive) *)
Fixpoint pm_insert (p : bytes) (e : fentry) (m : pmap) : pmap :=
  match m with
  | [] => [(p, [e])]
  | (q, l) :: t => if beq q p then (q, l ++ [e]) :: t else (q, l) :: pm_insert p e t
  end.

(* m.items[prefix]  (nil when absent) *)
Fixpoint pm_get (p : bytes) (m : pmap) : list fentry :=
  match m with
  | [] => []
  | (q, l) :: t => if beq q p then l else pm_get p t
  end.

(* the factory loop: primitives.Insert(string(outputPrefix), a) for every enabled entry *)
Definition pm_build (ks : list fentry) : pmap :=
  fold_left (fun m e => pm_insert (prefix_of e) e m) (enabled_entries ks) [].

(* PrimitivesMatchingPrefix(prefix) followed by the Iterator order:
   bucket of prefix[:5] when len(prefix) >= 5, then the bucket of "" *)
Definition pm_matching (m : pmap) (x : bytes) : list fentry :=
  (if Nat.leb nonraw_prefix_size (length x) then pm_get (firstn nonraw_prefix_size x) m else [])
  ++ pm_get [] m.

(* ---- specification-level candidate list (DESIGN 3, C05) ----------------- *)
Definition cand_prefixed (x : bytes) (e : fentry) : bool :=
  fenabled e && negb (fraw e) && beq (prefix_of e) (firstn nonraw_prefix_size x).
Definition cand_raw (e : fentry) : bool := fenabled e && fraw e.

Definition candidates (ks : list fentry) (x : bytes) : list fentry :=
  filter (cand_prefixed x) ks ++ filter cand_raw ks.

(* ---- selection over an abstract validity predicate ---------------------- *)
Section Abstract.
  Variable valid : fentry -> bytes -> bool.

  Definition try_list (l : list fentry) (x : bytes) : option fentry :=
    find (fun e => valid e x) l.

  (* wrappedAead.Decrypt, wrappedDAEAD.DecryptDeterministically,
     wrappedVerifier.Verify, wrappedHybridDecrypt.Decrypt *)
  Definition accept (ks : list fentry) (x : bytes) : option fentry :=
    try_list (pm_matching (pm_build ks) x) x.

  (* wrappedMAC.VerifyMAC: len(mac) <= 5 rejected; first pass over
     PrimitivesMatchingPrefix(mac[:5]) (prefixed bucket, then raw bucket),
     second pass over PrimitivesMatchingPrefix(nil) (raw bucket again) *)
  Definition mac_accept (ks : list fentry) (x : bytes) : option fentry :=
    if Nat.leb (length x) nonraw_prefix_size then None
    else match try_list (pm_matching (pm_build ks) (firstn nonraw_prefix_size x)) x with
         | Some e => Some e
         | None => try_list (pm_matching (pm_build ks) []) x
         end.

  (* JWT MAC / JWT verifier / streaming AEAD: every enabled key, keyset order *)
  Definition accept_all (ks : list fentry) (x : bytes) : option fentry :=
    try_list (enabled_entries ks) x.

  (* monitoring: logger.Log(primitive.keyID, ..) on success, LogFailure otherwise *)
  Definition logged (r : option fentry) : option N := option_map fid r.
End Abstract.

(* ---- primary ------------------------------------------------------------ *)
Definition pick_primary (l : list fentry) : option fentry :=
  fold_left (fun p e => if fprim e then Some e else p) l None.
(* aead, daead, mac, jwt mac, streaming: assigned inside the loop over enabled entries *)
Definition primary_loop (ks : list fentry) : option fentry := pick_primary (enabled_entries ks).
(* signer, hybrid encrypt, jwt signer: handle.Primary() = last entry with IsPrimary *)
Definition primary_handle (ks : list fentry) : option fentry := pick_primary ks.

(* ---- PRF set ------------------------------------------------------------- *)
Fixpoint assoc_set (id : N) (e : fentry) (m : list (N * fentry)) : list (N * fentry) :=
  match m with
  | [] => [(id, e)]
  | (k, v) :: t => if N.eqb k id then (k, e) :: t else (k, v) :: assoc_set id e t
  end.
Fixpoint assoc_get (id : N) (m : list (N * fentry)) : option fentry :=
  match m with
  | [] => None
  | (k, v) :: t => if N.eqb k id then Some v else assoc_get id t
  end.
(* prfs[entry.KeyID()] = ... for every enabled entry *)
Definition prf_map (ks : list fentry) : list (N * fentry) :=
  fold_left (fun m e => assoc_set (fid e) e m) (enabled_entries ks) [].
(* primaryKeyID := 0; if entry.IsPrimary() { primaryKeyID = entry.KeyID() } *)
Definition prf_primary_id (ks : list fentry) : N :=
  fold_left (fun p e => if fprim e then fid e else p) (enabled_entries ks) 0.
(* Set.ComputePrimaryPRF: s.PRFs[s.PrimaryID] *)
Definition prf_primary (ks : list fentry) : option fentry :=
  assoc_get (prf_primary_id ks) (prf_map ks).

(* ---- legacy adapters and the executable accept/produce ------------------- *)
Inductive adapter :=
| AdStrip          (* fullAEADPrimitiveAdapter, fullDAEADPrimitiveAdapter: ciphertext[len(prefix):] *)
| AdCheck          (* fullHybridDecryptAdapter: length and prefix check, then strip *)
| AdCheckLegacy.   (* fullMACAdapter, fullVerifierAdapter: as AdCheck, data||0x00 for LEGACY *)

Definition legacy_data (e : fentry) (d : bytes) : bytes :=
  if ptype_eqb (fpt e) PLegacy then d ++ [0] else d.

Section Concrete.
  Variable raw_valid : fentry -> bytes -> bytes -> bool.
  Variable raw_produce : fentry -> bytes -> bytes.

  (* what the primitive stored in the prefix map answers for the WHOLE input x;
     Go slice expressions are checked slices (Panic when out of range) *)
  Definition entry_valid (ad : adapter) (e : fentry) (x d : bytes) : outcome bool :=
    if flegacy e then
      let p := prefix_of e in
      match ad with
      | AdStrip => bind (slice (length p) (length x) x) (fun body => Ok (raw_valid e body d))
      | AdCheck =>
          if Nat.ltb (length x) (length p) then Ok false
          else if beq (firstn (length p) x) p then Ok (raw_valid e (skipn (length p) x) d)
          else Ok false
      | AdCheckLegacy =>
          if Nat.ltb (length x) (length p) then Ok false
          else if beq (firstn (length p) x) p then Ok (raw_valid e (skipn (length p) x) (legacy_data e d))
          else Ok false
      end
    else Ok (raw_valid e x d).

  (* the same without the slice check *)
  Definition entry_valid_b (ad : adapter) (d : bytes) (e : fentry) (x : bytes) : bool :=
    if flegacy e then
      let p := prefix_of e in
      match ad with
      | AdStrip => raw_valid e (skipn (length p) x) d
      | AdCheck =>
          negb (Nat.ltb (length x) (length p)) && beq (firstn (length p) x) p
          && raw_valid e (skipn (length p) x) d
      | AdCheckLegacy =>
          negb (Nat.ltb (length x) (length p)) && beq (firstn (length p) x) p
          && raw_valid e (skipn (length p) x) (legacy_data e d)
      end
    else raw_valid e x d.

  Fixpoint try_o (v : fentry -> outcome bool) (l : list fentry) : outcome (option fentry) :=
    match l with
    | [] => Ok None
    | e :: t => match v e with
                | Ok true => Ok (Some e)
                | Ok false => try_o v t
                | Err => Err
                | Panic => Panic
                end
    end.

  Definition accept_o (ad : adapter) (ks : list fentry) (x d : bytes) : outcome (option fentry) :=
    try_o (fun e => entry_valid ad e x d) (pm_matching (pm_build ks) x).

  Definition mac_accept_o (ks : list fentry) (x d : bytes) : outcome (option fentry) :=
    if Nat.leb (length x) nonraw_prefix_size then Ok None
    else bind (slice 0 nonraw_prefix_size x) (fun p5 =>
         match try_o (fun e => entry_valid AdCheckLegacy e x d) (pm_matching (pm_build ks) p5) with
         | Ok None => try_o (fun e => entry_valid AdCheckLegacy e x d) (pm_matching (pm_build ks) [])
         | r => r
         end).

  Inductive pkind :=
  | PkConcat          (* aead, daead, hybrid encrypt adapters: prefix || raw(m) *)
  | PkConcatLegacy.   (* mac, signer adapters: prefix || raw(m || 0x00 for LEGACY) *)

  Definition entry_produce (pk : pkind) (e : fentry) (m : bytes) : bytes :=
    if flegacy e then
      prefix_of e ++ raw_produce e (match pk with PkConcat => m | PkConcatLegacy => legacy_data e m end)
    else raw_produce e m.

  (* (logged key id, output); None: no usable primary (constructor error or nil primitive) *)
  Definition produce (pk : pkind) (prim : option fentry) (m : bytes) : option (N * bytes) :=
    match prim with
    | None => None
    | Some e => Some (fid e, entry_produce pk e m)
    end.
End Concrete.

(* ---- from a keyset.Manager handle (model/Manager.v) to factory entries --- *)
Definition nonraw (p : ptype) : ptype := match p with PRaw => PTink | q => q end.

(* cls: the prefix variant of the key object (only consulted for keys that have
   an id requirement); leg: whether its primitive is a legacy one *)
Definition lift (cls : entry -> ptype) (leg : entry -> bool) (e : entry) : fentry :=
  mkF (eid e) (est e) (eprim e)
      (match ereq e with None => PRaw | Some _ => nonraw (cls e) end)
      (match ereq e with Some r => r | None => 0 end)
      (leg e) (ekey e).
