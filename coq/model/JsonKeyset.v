(* The JSON TEXT of keysets (properties C12 and C14): what

     keyset.NewJSONReader(r).Read()           = protojson.Unmarshal(text, &tinkpb.Keyset{})
     keyset.NewJSONReader(r).ReadEncrypted()  = protojson.Unmarshal(text, &tinkpb.EncryptedKeyset{})

   (keyset/json_io.go: io.ReadAll, then protojson with DEFAULT UnmarshalOptions -
   unknown fields are errors; nothing before, nothing after) accept and
   produce, for these two fixed schemas of proto/tink.proto, written from
   google.golang.org/protobuf v1.36.11 encoding/protojson/decode.go
   (unmarshalMessage, unmarshalSingular, unmarshalScalar, unmarshalInt/Uint,
   unmarshalEnum, unmarshalBytes, unmarshalList) and internal/encoding/json
   (Token.Uint / Int: parseNumberParts, normalizeToIntString), and from
   encoding/base64 of the Go standard library (decodeQuantum).

   The text is first read by the tokenizer and value parser of model/Json.v in
   the variant json_parse_text_pj (RFC 8259 structure, UTF-8, a repeated member
   NAME is an error, nesting <= 10000; number tokens as protojson's parseNumber
   cuts them on the INTEGER path, see "dangling exponent marker" below) with a
   number oracle that KEEPS the literal
   (num_keep: integers below 2^53 written without fraction and exponent as
   their value, every other literal as its exact decimal text), then the value
   tree is read against the schema:

     member names   the JSON name (lowerCamelCase) or the proto name
                    (snake_case); any other name: error (no DiscardUnknown); two
                    members for the same FIELD (same or different spelling, null
                    included): error
     null           for every field of these schemas: the field is left unset
     uint32         a JSON number, or a JSON string holding one: the literal must
                    denote an integer as normalizeToIntString sees it (fraction
                    digits absorbed by a positive exponent, trailing zeros shifted
                    out by a negative one, at most 20 digits before padding, the
                    exponent itself an int32), then 0 <= n < 2^32.  A string must
                    not begin or end with Unicode white space
                    (strings.TrimSpace), must START with a number literal that is
                    followed by a delimiter - and whatever comes after that
                    delimiter is ignored ("12 13" and "12,x" are 12: the inner
                    decoder reads one token)
     dangling exponent marker
                    protobuf-go leniency, NOT JSON and not a Tink rule: parseNumber
                    cuts  <int>[.<frac>]e  (bare 'e' / 'E', no sign, no digits,
                    followed by a delimiter byte) off as a Number token, and
                    Token.Uint / Token.Int (parseNumberParts) then ignore the
                    marker: {"primaryKeyId":1e} reads primary key id 1,
                    {"key":[{"status":1E}]} status 1, and in the string form
                    "5e,"  "5e x"  "1e 5" read 5, 5, 1 (but "1e" alone does not:
                    a byte must follow the marker).  With a sign ("1e+") the
                    integer conversion fails.  Every uint32 and enum field of
                    both schemas is affected; the reader accepts such texts and
                    so does this model (Json.lex_dangling / lex_number_pj)
     enum           a string = exactly one of the value names; or a number: any
                    int32 (open enums: unknown numbers are kept); kept here as the
                    uint32 the binary wire format would yield (n mod 2^32)
     string         a JSON string (valid UTF-8 by the tokenizer)
     bytes          a JSON string in base64: the URL alphabet if it contains '-'
                    or '_', else the standard one; padding '=' required iff the
                    length of the string is a multiple of 4 (then "AA" + "==");
                    CR and LF are skipped wherever they stand (and count for the
                    length test); unused trailing bits are not checked
     message        a JSON object;  repeated message: a JSON array of objects
                    (a null element is an error)

   Why reading the generic value tree first gives the same verdicts as the
   schema-driven library (which fails at the first unknown field): every
   failure is one verdict; a text the generic parser (in the variant
   json_parse_text_pj, whose number tokens are exactly the tokens parseNumber
   cuts and Token.Uint / Int can convert) refuses - syntax, UTF-8, repeated
   name, nesting beyond 10000 - is refused by the library as well (a repeated
   name is a repeated field; messages nest 3 deep, so anything deeper sits under
   an unknown or mistyped field; a number token only Token.Float could not
   convert never occurs, these schemas have no float field), and what the
   generic parser accepts is then judged by the schema alone.  The variant is
   needed: the C09 tokenizer (json_parse_text) refuses the dangling marker,
   which is right for structpb (strconv.ParseFloat refuses "1e") and WRONG for
   the integer fields read here.

   Two printers.  json_text_of_keyset: a canonical form of this model (camelCase
   names, enums as NUMBERS, bytes in the URL alphabet without padding, unset
   key data omitted).  json_text_pj_of_keyset: the choices protojson.Marshal
   makes with the options of keyset.NewJSONWriter (EmitUnpopulated): camelCase
   names, every field present, enums by NAME when the number has one (else the
   number), bytes in the STANDARD alphabet WITH padding, unset key data as null;
   strings escaped by the model's printer and no whitespace (protojson's output
   injects whitespace at random and escapes differently: compared by the
   harness modulo those two).  No proofs here: proofs/JsonKeysetProofs.v. *)
From Coq Require Import List NArith ZArith Bool.
From Tink Require Import Bytes Base64url Jwt Json.
Import ListNotations.
Open Scope N_scope.

(* ================= the messages ================= *)
Record jkeydata := mkJD { jd_url : bytes; jd_value : bytes; jd_mat : N }.
(* jk_data = None: the key_data field is not set (absent or null) *)
Record jkey := mkJK { jk_data : option jkeydata; jk_status : N; jk_id : N; jk_prefix : N }.
Record jkeyset := mkJKS { jks_primary : N; jks_keys : list jkey }.
Record jkeyinfo := mkJI { ji_url : bytes; ji_status : N; ji_id : N; ji_prefix : N }.
Record jinfo := mkJInfo { jn_primary : N; jn_keys : list jkeyinfo }.
Record jencrypted := mkJE { je_ct : bytes; je_info : option jinfo }.

(* ================= numbers ================= *)
Definition two32 : N := 4294967296.
Definition two31 : N := 2147483648.

(* the exact decimal text of a literal (the form num_keep stores) *)
Definition lit_text (l : numlit) : bytes :=
  (if nl_neg l then [45] else []) ++ nl_int l
  ++ (match nl_frac l with [] => [] | fr => 46 :: fr end)
  ++ (match nl_exp l with
      | None => []
      | Some (neg, ds) => 101 :: (if neg then [45] else []) ++ ds
      end).

(* the number oracle of this use of model/Json.v: no float is involved *)
Definition num_keep (l : numlit) : option (Z * bytes) := Some (0%Z, lit_text l).

Fixpoint strip_leading_zeros (ds : bytes) : bytes :=
  match ds with
  | c :: t => if c =? 48 then strip_leading_zeros t else ds
  | [] => []
  end.
Definition trim_trailing_zeros (ds : bytes) : bytes := rev (strip_leading_zeros (rev ds)).

(* strconv.ParseInt(exp, 10, 32) on sign + digits: None = range error *)
Definition exp_value (e : option (bool * bytes)) : option Z :=
  match e with
  | None => Some 0%Z
  | Some (neg, ds) =>
      let sig := strip_leading_zeros ds in
      if (10 <? length sig)%nat then None
      else
        let v := Z.of_N (dec_val sig) in
        if neg then (if (v <=? 2147483648)%Z then Some (- v)%Z else None)
        else (if (v <=? 2147483647)%Z then Some v else None)
  end.

(* normalizeToIntString, and the value of the integer string it returns *)
Definition lit_to_int (l : numlit) : option Z :=
  let intp := match nl_int l with
              | [c] => if c =? 48 then [] else [c]
              | ds => ds
              end in
  let frac := trim_trailing_zeros (nl_frac l) in
  match intp, frac with
  | [], [] => Some 0%Z
  | _, _ =>
      match exp_value (nl_exp l) with
      | None => None
      | Some e =>
          let num :=
            if (0 <=? e)%Z then
              (* compared as integers first: the exponent may be as large as 2^31 *)
              if (e <? Z.of_nat (length frac))%Z then None
              else if (20 <? Z.of_nat (length intp) + e)%Z then None
              else Some (intp ++ frac ++ repeat 48 (Z.to_nat e - length frac))
            else
              match frac with
              | _ :: _ => None
              | [] =>
                  if (Z.of_nat (length intp) <? - e)%Z then None
                  else
                    let idx := (length intp - Z.to_nat (- e))%nat in
                    if forallb (fun c => c =? 48) (skipn idx intp) then Some (firstn idx intp) else None
              end in
          match num with
          | None => None
          | Some ds => Some (if nl_neg l then (- Z.of_N (dec_val ds))%Z else Z.of_N (dec_val ds))
          end
      end
  end.

(* the literal behind a number of the value tree *)
Definition int_of_jnum (t : Z) (repr : bytes) : option Z :=
  match repr with
  | [] => Some t
  | _ => match lex_number repr with
         | Some (l, []) => lit_to_int l
         | _ => None
         end
  end.

(* strings.TrimSpace(s) != s at the END of a valid UTF-8 string: the last
   character is Unicode White_Space (at the start it makes no difference:
   such a string does not begin with a number) *)
Definition ends_unicode_space (s : bytes) : bool :=
  match rev s with
  | c :: r =>
      ((9 <=? c) && (c <=? 13)) || (c =? 32)
      || match r with
         | b :: r2 =>
             ((b =? 194) && ((c =? 133) || (c =? 160)))                      (* U+0085, U+00A0 *)
             || match r2 with
                | a :: _ =>
                    ((a =? 225) && (b =? 154) && (c =? 128))                  (* U+1680 *)
                    || ((a =? 226) && (b =? 128) && (128 <=? c) && (c <=? 138))  (* U+2000 - U+200A *)
                    || ((a =? 226) && (b =? 128) && ((c =? 168) || (c =? 169) || (c =? 175)))  (* U+2028 2029 202F *)
                    || ((a =? 226) && (b =? 129) && (c =? 159))               (* U+205F *)
                    || ((a =? 227) && (b =? 128) && (c =? 128))               (* U+3000 *)
                | [] => false
                end
         | [] => false
         end
  | [] => false
  end.

(* the integer a JSON value stands for where the schema wants one *)
Definition int_of_json (j : json) : option Z :=
  match j with
  | JNum t repr => int_of_jnum t repr
  | JStr s =>
      if ends_unicode_space s then None
      else match lex_number_pj s with          (* the inner decoder's first token *)
           | Some (l, _) => lit_to_int l
           | None => None
           end
  | _ => None
  end.

Definition u32_of_json (j : json) : option N :=
  match int_of_json j with
  | Some z => if (0 <=? z)%Z && (z <? Z.of_N two32)%Z then Some (Z.to_N z) else None
  | None => None
  end.

(* enums *)
Fixpoint name_lookup (names : list (bytes * N)) (s : bytes) : option N :=
  match names with
  | [] => None
  | (n, v) :: r => if beq s n then Some v else name_lookup r s
  end.
Definition enum_of_json (names : list (bytes * N)) (j : json) : option N :=
  match j with
  | JStr s => name_lookup names s
  | JNum t repr =>
      match int_of_jnum t repr with
      | Some z =>
          if (- Z.of_N two31 <=? z)%Z && (z <? Z.of_N two31)%Z
          then Some (if (z <? 0)%Z then Z.to_N (Z.of_N two32 + z) else Z.to_N z)
          else None
      | None => None
      end
  | _ => None
  end.

(* ================= base64 as encoding/base64 decodes it ================= *)
(* standard alphabet: + / ; URL alphabet: - _ *)
Definition gval (url : bool) (c : N) : option N :=
  if (65 <=? c) && (c <=? 90) then Some (c - 65)
  else if (97 <=? c) && (c <=? 122) then Some (c - 97 + 26)
  else if (48 <=? c) && (c <=? 57) then Some (c - 48 + 52)
  else if c =? (if url then 45 else 43) then Some 62
  else if c =? (if url then 95 else 47) then Some 63
  else None.
Definition is_nl (c : N) : bool := (c =? 10) || (c =? 13).
Fixpoint skip_nl (s : bytes) : bytes :=
  match s with
  | c :: t => if is_nl c then skip_nl t else s
  | [] => []
  end.
(* the 6-bit values up to the first '=' (CR, LF skipped), and the rest from that '=' on *)
Fixpoint gscan (url : bool) (s : bytes) : option (list N * bytes) :=
  match s with
  | [] => Some ([], [])
  | c :: t =>
      if is_nl c then gscan url t
      else match gval url c with
           | Some v => match gscan url t with
                       | Some (vs, tail) => Some (v :: vs, tail)
                       | None => None
                       end
           | None => if c =? 61 then Some ([], s) else None
           end
  end.
(* Encoding.DecodeString: padded = the encoding has padding *)
Definition go_b64 (url padded : bool) (s : bytes) : option bytes :=
  match gscan url s with
  | None => None
  | Some (vs, tail) =>
      let j := (length vs mod 4)%nat in
      let ok :=
        match tail with
        | [] => Nat.eqb j 0 || (negb padded && negb (Nat.eqb j 1))
        | _ :: t =>                       (* tail starts with '=' *)
            padded &&
            (if Nat.eqb j 2 then
               match skip_nl t with
               | c :: t2 => (c =? 61) && match skip_nl t2 with [] => true | _ => false end
               | [] => false
               end
             else if Nat.eqb j 3 then match skip_nl t with [] => true | _ => false end
             else false)
        end in
      if ok then b64_decode_vals vs else None
  end.
(* protojson unmarshalBytes *)
Definition pj_bytes (s : bytes) : option bytes :=
  let url := existsb (fun c => (c =? 45) || (c =? 95)) s in
  go_b64 url (Nat.eqb (length s mod 4) 0) s.

(* ================= reading an object against a field table ================= *)
Definition memN (x : N) (l : list N) : bool := existsb (N.eqb x) l.
Fixpoint field_number (tab : list (bytes * N)) (name : bytes) : option N :=
  match tab with
  | [] => None
  | (n, num) :: r => if beq name n then Some num else field_number r name
  end.
(* every member names a field, no field twice (null counts); nulls dropped *)
Fixpoint resolve (tab : list (bytes * N)) (f : fields) (seen : list N) : option (list (N * json)) :=
  match f with
  | [] => Some []
  | (k, v) :: r =>
      match field_number tab k with
      | None => None
      | Some n =>
          if memN n seen then None
          else match resolve tab r (n :: seen) with
               | None => None
               | Some l => Some (match v with JNull => l | _ => (n, v) :: l end)
               end
      end
  end.
Fixpoint getf (n : N) (l : list (N * json)) : option json :=
  match l with
  | [] => None
  | (k, v) :: r => if k =? n then Some v else getf n r
  end.

(* an unset field has the proto3 default *)
Definition f_u32 (o : option json) : option N :=
  match o with None => Some 0 | Some j => u32_of_json j end.
Definition f_enum (names : list (bytes * N)) (o : option json) : option N :=
  match o with None => Some 0 | Some j => enum_of_json names j end.
Definition f_str (o : option json) : option bytes :=
  match o with None => Some [] | Some (JStr s) => Some s | Some _ => None end.
Definition f_bytes (o : option json) : option bytes :=
  match o with None => Some [] | Some (JStr s) => pj_bytes s | Some _ => None end.
Definition f_msg {A} (dec : fields -> option A) (o : option json) : option (option A) :=
  match o with
  | None => Some None
  | Some (JObj f) => match dec f with Some a => Some (Some a) | None => None end
  | Some _ => None
  end.
Definition f_rep {A} (dec : fields -> option A) (o : option json) : option (list A) :=
  match o with
  | None => Some []
  | Some (JArr l) => map_opt (fun e => match e with JObj f => dec f | _ => None end) l
  | Some _ => None
  end.

(* ---- names ---- *)
Definition s_of (l : list N) : bytes := l.
(* "primaryKeyId" "primary_key_id" "key" "keyData" "key_data" "status" "keyId" "key_id"
   "outputPrefixType" "output_prefix_type" "typeUrl" "type_url" "value"
   "keyMaterialType" "key_material_type" "encryptedKeyset" "encrypted_keyset"
   "keysetInfo" "keyset_info" "keyInfo" "key_info" *)
Definition n_primaryKeyId : bytes := [112;114;105;109;97;114;121;75;101;121;73;100].
Definition n_primary_key_id : bytes := [112;114;105;109;97;114;121;95;107;101;121;95;105;100].
Definition n_key : bytes := [107;101;121].
Definition n_keyData : bytes := [107;101;121;68;97;116;97].
Definition n_key_data : bytes := [107;101;121;95;100;97;116;97].
Definition n_status : bytes := [115;116;97;116;117;115].
Definition n_keyId : bytes := [107;101;121;73;100].
Definition n_key_id : bytes := [107;101;121;95;105;100].
Definition n_outputPrefixType : bytes := [111;117;116;112;117;116;80;114;101;102;105;120;84;121;112;101].
Definition n_output_prefix_type : bytes := [111;117;116;112;117;116;95;112;114;101;102;105;120;95;116;121;112;101].
Definition n_typeUrl : bytes := [116;121;112;101;85;114;108].
Definition n_type_url : bytes := [116;121;112;101;95;117;114;108].
Definition n_value : bytes := [118;97;108;117;101].
Definition n_keyMaterialType : bytes := [107;101;121;77;97;116;101;114;105;97;108;84;121;112;101].
Definition n_key_material_type : bytes := [107;101;121;95;109;97;116;101;114;105;97;108;95;116;121;112;101].
Definition n_encryptedKeyset : bytes := [101;110;99;114;121;112;116;101;100;75;101;121;115;101;116].
Definition n_encrypted_keyset : bytes := [101;110;99;114;121;112;116;101;100;95;107;101;121;115;101;116].
Definition n_keysetInfo : bytes := [107;101;121;115;101;116;73;110;102;111].
Definition n_keyset_info : bytes := [107;101;121;115;101;116;95;105;110;102;111].
Definition n_keyInfo : bytes := [107;101;121;73;110;102;111].
Definition n_key_info : bytes := [107;101;121;95;105;110;102;111].

Definition tab_keydata : list (bytes * N) :=
  [(n_typeUrl, 1); (n_type_url, 1); (n_value, 2); (n_keyMaterialType, 3); (n_key_material_type, 3)].
Definition tab_key : list (bytes * N) :=
  [(n_keyData, 1); (n_key_data, 1); (n_status, 2); (n_keyId, 3); (n_key_id, 3);
   (n_outputPrefixType, 4); (n_output_prefix_type, 4)].
Definition tab_keyset : list (bytes * N) :=
  [(n_primaryKeyId, 1); (n_primary_key_id, 1); (n_key, 2)].
Definition tab_keyinfo : list (bytes * N) :=
  [(n_typeUrl, 1); (n_type_url, 1); (n_status, 2); (n_keyId, 3); (n_key_id, 3);
   (n_outputPrefixType, 4); (n_output_prefix_type, 4)].
Definition tab_info : list (bytes * N) :=
  [(n_primaryKeyId, 1); (n_primary_key_id, 1); (n_keyInfo, 2); (n_key_info, 2)].
Definition tab_encrypted : list (bytes * N) :=
  [(n_encryptedKeyset, 2); (n_encrypted_keyset, 2); (n_keysetInfo, 3); (n_keyset_info, 3)].

(* UNKNOWN_STATUS ENABLED DISABLED DESTROYED *)
Definition status_names : list (bytes * N) :=
  [([85;78;75;78;79;87;78;95;83;84;65;84;85;83], 0); ([69;78;65;66;76;69;68], 1);
   ([68;73;83;65;66;76;69;68], 2); ([68;69;83;84;82;79;89;69;68], 3)].
(* UNKNOWN_PREFIX TINK LEGACY RAW CRUNCHY WITH_ID_REQUIREMENT *)
Definition prefix_names : list (bytes * N) :=
  [([85;78;75;78;79;87;78;95;80;82;69;70;73;88], 0); ([84;73;78;75], 1); ([76;69;71;65;67;89], 2);
   ([82;65;87], 3); ([67;82;85;78;67;72;89], 4);
   ([87;73;84;72;95;73;68;95;82;69;81;85;73;82;69;77;69;78;84], 5)].
(* UNKNOWN_KEYMATERIAL SYMMETRIC ASYMMETRIC_PRIVATE ASYMMETRIC_PUBLIC REMOTE *)
Definition material_names : list (bytes * N) :=
  [([85;78;75;78;79;87;78;95;75;69;89;77;65;84;69;82;73;65;76], 0); ([83;89;77;77;69;84;82;73;67], 1);
   ([65;83;89;77;77;69;84;82;73;67;95;80;82;73;86;65;84;69], 2);
   ([65;83;89;77;77;69;84;82;73;67;95;80;85;66;76;73;67], 3); ([82;69;77;79;84;69], 4)].

(* ---- tinkpb.Keyset ---- *)
Definition keydata_of_fields (f : fields) : option jkeydata :=
  match resolve tab_keydata f [] with
  | None => None
  | Some l =>
      match f_str (getf 1 l), f_bytes (getf 2 l), f_enum material_names (getf 3 l) with
      | Some u, Some v, Some m => Some (mkJD u v m)
      | _, _, _ => None
      end
  end.
Definition key_of_fields (f : fields) : option jkey :=
  match resolve tab_key f [] with
  | None => None
  | Some l =>
      match f_msg keydata_of_fields (getf 1 l), f_enum status_names (getf 2 l),
            f_u32 (getf 3 l), f_enum prefix_names (getf 4 l) with
      | Some d, Some st, Some id, Some p => Some (mkJK d st id p)
      | _, _, _, _ => None
      end
  end.
Definition keyset_of_fields (f : fields) : option jkeyset :=
  match resolve tab_keyset f [] with
  | None => None
  | Some l =>
      match f_u32 (getf 1 l), f_rep key_of_fields (getf 2 l) with
      | Some p, Some ks => Some (mkJKS p ks)
      | _, _ => None
      end
  end.

(* ---- tinkpb.EncryptedKeyset ---- *)
Definition keyinfo_of_fields (f : fields) : option jkeyinfo :=
  match resolve tab_keyinfo f [] with
  | None => None
  | Some l =>
      match f_str (getf 1 l), f_enum status_names (getf 2 l), f_u32 (getf 3 l), f_enum prefix_names (getf 4 l) with
      | Some u, Some st, Some id, Some p => Some (mkJI u st id p)
      | _, _, _, _ => None
      end
  end.
Definition info_of_fields (f : fields) : option jinfo :=
  match resolve tab_info f [] with
  | None => None
  | Some l =>
      match f_u32 (getf 1 l), f_rep keyinfo_of_fields (getf 2 l) with
      | Some p, Some ks => Some (mkJInfo p ks)
      | _, _ => None
      end
  end.
Definition encrypted_of_fields (f : fields) : option jencrypted :=
  match resolve tab_encrypted f [] with
  | None => None
  | Some l =>
      match f_bytes (getf 2 l), f_msg info_of_fields (getf 3 l) with
      | Some ct, Some i => Some (mkJE ct i)
      | _, _ => None
      end
  end.

(* ---- the two readers of keyset/json_io.go ---- *)
Definition keyset_of_json_text (s : bytes) : option jkeyset :=
  match json_parse_text_pj num_keep s with
  | Some f => keyset_of_fields f
  | None => None
  end.
Definition encrypted_of_json_text (s : bytes) : option jencrypted :=
  match json_parse_text_pj num_keep s with
  | Some f => encrypted_of_fields f
  | None => None
  end.

(* ================= a printer ================= *)
(* an enum value as the number that reads back to it: values from 2^31 on are
   the negative int32s *)
Definition enum_num (e : N) : json :=
  JNum (if e <? two31 then Z.of_N e else (Z.of_N e - Z.of_N two32)%Z) [].
Definition u32_num (n : N) : json := JNum (Z.of_N n) [].

Definition fields_of_keydata (d : jkeydata) : fields :=
  [(n_typeUrl, JStr (jd_url d)); (n_value, JStr (b64_encode (jd_value d)));
   (n_keyMaterialType, enum_num (jd_mat d))].
Definition fields_of_key (k : jkey) : fields :=
  (match jk_data k with Some d => [(n_keyData, JObj (fields_of_keydata d))] | None => [] end)
  ++ [(n_status, enum_num (jk_status k)); (n_keyId, u32_num (jk_id k));
      (n_outputPrefixType, enum_num (jk_prefix k))].
Definition fields_of_keyset (ks : jkeyset) : fields :=
  [(n_primaryKeyId, u32_num (jks_primary ks));
   (n_key, JArr (map (fun k => JObj (fields_of_key k)) (jks_keys ks)))].
Definition json_text_of_keyset (ks : jkeyset) : bytes := json_print_text (fields_of_keyset ks).

Definition fields_of_keyinfo (k : jkeyinfo) : fields :=
  [(n_typeUrl, JStr (ji_url k)); (n_status, enum_num (ji_status k)); (n_keyId, u32_num (ji_id k));
   (n_outputPrefixType, enum_num (ji_prefix k))].
Definition fields_of_info (i : jinfo) : fields :=
  [(n_primaryKeyId, u32_num (jn_primary i));
   (n_keyInfo, JArr (map (fun k => JObj (fields_of_keyinfo k)) (jn_keys i)))].
Definition fields_of_encrypted (e : jencrypted) : fields :=
  [(n_encryptedKeyset, JStr (b64_encode (je_ct e)))]
  ++ (match je_info e with Some i => [(n_keysetInfo, JObj (fields_of_info i))] | None => [] end).
Definition json_text_of_encrypted (e : jencrypted) : bytes := json_print_text (fields_of_encrypted e).

(* the printer's domain: numbers are uint32 values, type URLs valid UTF-8, key
   values and ciphertexts byte strings *)
Definition bytes_okb (b : bytes) : bool := forallb (fun x => x <? 256) b.
Definition keydata_ok (d : jkeydata) : bool :=
  utf8_valid (jd_url d) && bytes_okb (jd_value d) && (jd_mat d <? two32).
Definition key_ok (k : jkey) : bool :=
  (match jk_data k with Some d => keydata_ok d | None => true end)
  && (jk_status k <? two32) && (jk_id k <? two32) && (jk_prefix k <? two32).
Definition keyset_ok (ks : jkeyset) : bool := (jks_primary ks <? two32) && forallb key_ok (jks_keys ks).
Definition keyinfo_ok (k : jkeyinfo) : bool :=
  utf8_valid (ji_url k) && (ji_status k <? two32) && (ji_id k <? two32) && (ji_prefix k <? two32).
Definition info_ok (i : jinfo) : bool := (jn_primary i <? two32) && forallb keyinfo_ok (jn_keys i).
Definition encrypted_ok (e : jencrypted) : bool :=
  bytes_okb (je_ct e) && match je_info e with Some i => info_ok i | None => true end.

(* ================= a printer in protojson's style ================= *)
(* the first name of the value, as protoreflect's EnumValueDescriptors.ByNumber gives it *)
Fixpoint name_of (names : list (bytes * N)) (v : N) : option bytes :=
  match names with
  | [] => None
  | (n, x) :: r => if x =? v then Some n else name_of r v
  end.
Definition enum_pj (names : list (bytes * N)) (e : N) : json :=
  match name_of names e with Some n => JStr n | None => enum_num e end.

(* base64.StdEncoding.EncodeToString: '+' '/' for '-' '_', padded with '=' to a multiple of 4 *)
Definition std_char (c : N) : N := if c =? 45 then 43 else if c =? 95 then 47 else c.
Definition b64_pad (s : bytes) : bytes :=
  match (length s mod 4)%nat with
  | 2%nat => s ++ [61; 61]
  | 3%nat => s ++ [61]
  | _ => s
  end.
Definition b64_std_encode (v : bytes) : bytes := b64_pad (map std_char (b64_encode v)).

Definition fields_pj_of_keydata (d : jkeydata) : fields :=
  [(n_typeUrl, JStr (jd_url d)); (n_value, JStr (b64_std_encode (jd_value d)));
   (n_keyMaterialType, enum_pj material_names (jd_mat d))].
Definition fields_pj_of_key (k : jkey) : fields :=
  [(n_keyData, match jk_data k with Some d => JObj (fields_pj_of_keydata d) | None => JNull end);
   (n_status, enum_pj status_names (jk_status k)); (n_keyId, u32_num (jk_id k));
   (n_outputPrefixType, enum_pj prefix_names (jk_prefix k))].
Definition fields_pj_of_keyset (ks : jkeyset) : fields :=
  [(n_primaryKeyId, u32_num (jks_primary ks));
   (n_key, JArr (map (fun k => JObj (fields_pj_of_key k)) (jks_keys ks)))].
Definition json_text_pj_of_keyset (ks : jkeyset) : bytes := json_print_text (fields_pj_of_keyset ks).

Definition fields_pj_of_keyinfo (k : jkeyinfo) : fields :=
  [(n_typeUrl, JStr (ji_url k)); (n_status, enum_pj status_names (ji_status k)); (n_keyId, u32_num (ji_id k));
   (n_outputPrefixType, enum_pj prefix_names (ji_prefix k))].
Definition fields_pj_of_info (i : jinfo) : fields :=
  [(n_primaryKeyId, u32_num (jn_primary i));
   (n_keyInfo, JArr (map (fun k => JObj (fields_pj_of_keyinfo k)) (jn_keys i)))].
Definition fields_pj_of_encrypted (e : jencrypted) : fields :=
  [(n_encryptedKeyset, JStr (b64_std_encode (je_ct e)));
   (n_keysetInfo, match je_info e with Some i => JObj (fields_pj_of_info i) | None => JNull end)].
Definition json_text_pj_of_encrypted (e : jencrypted) : bytes := json_print_text (fields_pj_of_encrypted e).
