(* C14 (stretch 2) — what a well-formed key.Parameters object and a well-formed
   PRF-based deriver key are, written from the documentation of the packages'
   NewParameters / NewKey and NOT from the parsers (literal numbers on purpose,
   as in model/UntrustedSpec.v).  Enum values are the proto numbers: hashes
   SHA1 = 1, SHA384 = 2, SHA256 = 3, SHA512 = 4, SHA224 = 5; curves P-256 = 2,
   P-384 = 3, P-521 = 4, X25519 = 5; variants (= output prefix types) TINK = 1,
   LEGACY = 2, RAW = 3, CRUNCHY = 4, WITH_ID_REQUIREMENT = 5. *)
From Coq Require Import String Ascii List NArith Bool.
From Tink Require Import Bytes UntrustedConsts Untrusted UntrustedSpec UntrustedParams.
Import ListNotations.
Open Scope list_scope.
Open Scope N_scope.

(* digest size of a hash in bytes (0: not a hash) *)
Definition dsize (h : N) : N :=
  if h =? 1 then 20 else if h =? 5 then 28 else if h =? 3 then 32 else if h =? 2 then 48 else if h =? 4 then 64 else 0.
Definition is_hash (h : N) : Prop := h = 1 \/ h = 2 \/ h = 3 \/ h = 4 \/ h = 5.
Definition sig_hash (h : N) : Prop := h = 2 \/ h = 3 \/ h = 4.            (* SHA256 / 384 / 512 *)
Definition stream_hash (h : N) : Prop := h = 1 \/ h = 3 \/ h = 4.         (* SHA1 / 256 / 512 *)
Definition v_aead (v : N) : Prop := v = 1 \/ v = 3 \/ v = 4.              (* no LEGACY variant *)
Definition v_full (v : N) : Prop := v = 1 \/ v = 2 \/ v = 3 \/ v = 4.
Definition v_tink_raw (v : N) : Prop := v = 1 \/ v = 3.
Definition rsa_exp (e : N) : Prop := 65537 <= e /\ e <= 2147483647 /\ e mod 2 = 1.
(* a size read from a uint32 field of a key format: the parsers put no other upper bound on it *)
Definition u32b (x : N) : Prop := x < 4294967296.

Fixpoint params_wf (p : params) : Prop :=
  match p with
  | QAesGcm k v => (k = 16 \/ k = 24 \/ k = 32) /\ v_aead v
  | QAesGcmSiv k v => (k = 16 \/ k = 32) /\ v_aead v
  | QAesCtrHmac aes hk iv tag hash v =>
      (aes = 16 \/ aes = 24 \/ aes = 32) /\ 16 <= hk /\ u32b hk /\ 12 <= iv /\ iv <= 16 /\ 10 <= tag /\ tag <= dsize hash
      /\ is_hash hash /\ v_aead v
  | QChaCha v | QXChaCha v => v_aead v
  | QXAesGcm salt v => 8 <= salt /\ salt <= 12 /\ v_tink_raw v
  | QAesSiv k v => (k = 32 \/ k = 48 \/ k = 64) /\ v_aead v
  | QHmac k tag hash v => 16 <= k /\ u32b k /\ 10 <= tag /\ tag <= dsize hash /\ is_hash hash /\ v_full v
  | QAesCmac k tag v => (k = 16 \/ k = 32) /\ 10 <= tag /\ tag <= 16 /\ v_full v
  | QAesCmacPrf k => k = 16 \/ k = 32
  | QHkdfPrf k hash _ => 16 <= k /\ u32b k /\ is_hash hash
  | QHmacPrf k hash => 16 <= k /\ u32b k /\ is_hash hash
  | QEcdsa curve hash enc v =>
      ((curve = 2 /\ hash = 3) \/ (curve = 3 /\ (hash = 2 \/ hash = 4)) \/ (curve = 4 /\ hash = 4))
      /\ (enc = 1 \/ enc = 2) /\ v_full v
  | QEd25519 v => v_full v
  | QRsaPkcs1 bits hash e v => 2048 <= bits /\ u32b bits /\ sig_hash hash /\ rsa_exp e /\ v_full v
  | QRsaPss bits hash e salt v => 2048 <= bits /\ u32b bits /\ sig_hash hash /\ rsa_exp e /\ salt < 2147483648 /\ v_full v
  | QMlDsa inst v => (inst = 1 \/ inst = 2 \/ inst = 3) /\ (v = 1 \/ v = 3 \/ v = 5)
  | QSlhDsa hash ks sig v => (hash = 1 \/ hash = 2) /\ (ks = 64 \/ ks = 96 \/ ks = 128) /\ (sig = 1 \/ sig = 2) /\ v_tink_raw v
  | QComposite alg inst v =>
      ((inst = 1 /\ (alg = 1 \/ alg = 2 \/ alg = 3 \/ alg = 5 \/ alg = 6 \/ alg = 7 \/ alg = 8))
       \/ (inst = 2 /\ (alg = 3 \/ alg = 4 \/ alg = 5 \/ alg = 6))) /\ v_tink_raw v
  | QEcies curve hash fmt dem v _ =>
      (curve = 2 \/ curve = 3 \/ curve = 4 \/ curve = 5) /\ is_hash hash
      /\ (if curve =? 5 then fmt = 0 else (fmt = 1 \/ fmt = 2 \/ fmt = 3))
      /\ 1 <= dem /\ dem <= 6 /\ v_aead v
  | QHpke kem kdf aead v => 1 <= kem /\ kem <= 7 /\ 1 <= kdf /\ kdf <= 3 /\ 1 <= aead /\ aead <= 3 /\ v_aead v
  | QStreamGcmHkdf ikm derived hash seg =>
      (derived = 16 \/ derived = 32) /\ derived <= ikm /\ u32b ikm /\ stream_hash hash /\ derived + 25 <= seg /\ seg < 2147483648
  | QStreamCtrHmac ikm derived hkdf hash tag seg =>
      (derived = 16 \/ derived = 32) /\ derived <= ikm /\ u32b ikm /\ stream_hash hkdf /\ stream_hash hash
      /\ 10 <= tag /\ tag <= dsize hash /\ derived + tag + 9 <= seg /\ seg < 2147483648
  | QJwtHmac k alg v => ((alg = 1 /\ 32 <= k) \/ (alg = 2 /\ 48 <= k) \/ (alg = 3 /\ 64 <= k)) /\ u32b k /\ v_tink_raw v
  | QJwtEcdsa alg v | QJwtMlDsa alg v => (alg = 1 \/ alg = 2 \/ alg = 3) /\ v_tink_raw v
  | QJwtRsa _ alg bits e v => (alg = 1 \/ alg = 2 \/ alg = 3) /\ 2048 <= bits /\ u32b bits /\ rsa_exp e /\ v_tink_raw v
  | QDeriver prf d =>
      match prf with QAesCmacPrf _ | QHkdfPrf _ _ _ | QHmacPrf _ _ => True | _ => False end
      /\ params_wf prf /\ params_wf d
  end.

(* a handle over the key objects of model/UntrustedParams.v: the clauses of
   wf_handle, and what must hold of every PRF-based deriver key in it *)
Definition xcount_prim (h : xhandle) : nat := length (filter xprim h).

Definition deriver_wf (e : xentry) : Prop :=
  match xkey e with
  | XBase _ => True
  | XDeriver prf dp =>
      (* the PRF key is a key object of one of the three PRF types with the sizes its parser demands
         (HKDF / HMAC PRF: key >= 16 bytes and a known hash; AES-CMAC PRF: 16 or 32 bytes), the derived-key parameters
         are well formed, ask for an id exactly when the key's prefix type is not RAW, and are
         reported with the key's prefix type (LEGACY possibly as CRUNCHY) *)
      (* what the PRF key parsers establish (prf/{hkdfprf,hmacprf,aescmacprf} NewParameters / NewKey) *)
      match prf with
      | PHkdfPrf hash kl | PHmacPrf hash kl => 16 <= kl /\ is_hash hash
      | PAesCmacPrf kl => kl = 16 \/ kl = 32
      | _ => False
      end
      /\ params_wf dp
      /\ params_has_idreq dp = negb (xprefix e =? 3)
      /\ (params_prefix dp = xprefix e \/ (xprefix e = 2 /\ params_prefix dp = 4))
      /\ xmat e = 1
  end.

Definition wf_xhandle (h : xhandle) : Prop :=
  h <> []
  /\ NoDup (map xid h)
  /\ xcount_prim h = 1%nat
  /\ (forall e, In e h -> xprim e = true -> xstatus e = 1)
  /\ (forall e, In e h -> xstatus e = 1 \/ xstatus e = 2 \/ xstatus e = 3)
  /\ (forall e, In e h -> xprefix e = 1 \/ xprefix e = 2 \/ xprefix e = 3 \/ xprefix e = 4 \/ xprefix e = 5)
  /\ (forall e, In e h -> xreq e = if xprefix e =? 3 then None else Some (xid e))
  /\ (forall e, In e h -> deriver_wf e).
