(* C14 — the property's own vocabulary, written from the property text and
   NOT from the code: what a well-formed keyset / handle is, and which keys
   are strong enough.  Literal numbers on purpose (16, 10, 2048, 65537, 32):
   the constants of model/UntrustedConsts.v follow the source, these do not. *)
From Coq Require Import String Ascii List NArith Bool.
From Tink Require Import Bytes UntrustedConsts Untrusted.
Import ListNotations.
Open Scope list_scope.
Open Scope N_scope.

(* ---- keysets ---- *)
Definition key_id (k : option pkey) : N := match k with Some pk => k_id pk | None => 0 end.
Definition ids (ks : keyset) : list N := map key_id (ks_keys ks).

Definition key_known (k : option pkey) : Prop :=
  exists pk kd, k = Some pk /\ k_data pk = Some kd
    /\ (k_prefix pk = 1 \/ k_prefix pk = 2 \/ k_prefix pk = 3 \/ k_prefix pk = 4 \/ k_prefix pk = 5)   (* TINK LEGACY RAW CRUNCHY WITH_ID_REQUIREMENT *)
    /\ (k_status pk = 1 \/ k_status pk = 2 \/ k_status pk = 3).                      (* ENABLED DISABLED DESTROYED *)

(* at least one key, distinct ids, exactly one key carries the primary id and
   it is ENABLED, only known statuses and prefix types, no nil parts *)
Definition wf_keyset (ks : keyset) : Prop :=
  ks_keys ks <> []
  /\ Forall key_known (ks_keys ks)
  /\ NoDup (ids ks)
  /\ exists pk, In (Some pk) (ks_keys ks) /\ k_id pk = ks_primary ks /\ k_status pk = 1.

(* ---- handles ---- *)
Definition count_prim (h : handle) : nat := length (filter eprim h).

Definition wf_handle (h : handle) : Prop :=
  h <> []
  /\ NoDup (map eid h)
  /\ count_prim h = 1%nat
  /\ (forall e, In e h -> eprim e = true -> estatus e = 1)
  /\ (forall e, In e h -> estatus e = 1 \/ estatus e = 2 \/ estatus e = 3)
  /\ (forall e, In e h -> eprefix e = 1 \/ eprefix e = 2 \/ eprefix e = 3 \/ eprefix e = 4 \/ eprefix e = 5)
  /\ (forall e, In e h -> ereq e = if eprefix e =? 3 then None else Some (eid e)).   (* RAW => no id requirement *)

(* ---- minimum strengths (the property's list) ---- *)
Definition vfields (kd : keydata) : list field := fields_or_nil (kd_value kd).
Definition is_url (kd : keydata) (s : string) : Prop := kd_url kd = bytes_of_string s.

Definition aes_size_ok (n : N) : Prop := n = 16 \/ n = 32.

(* security level of a hash / a curve, in bits *)
Definition hash_level (h : N) : N :=
  if h =? 1 then 80        (* SHA1 *)
  else if h =? 5 then 112  (* SHA224 *)
  else if h =? 3 then 128  (* SHA256 *)
  else if h =? 2 then 192  (* SHA384 *)
  else if h =? 4 then 256  (* SHA512 *)
  else 0.
Definition curve_level (c : N) : N :=
  if c =? 2 then 128 else if c =? 3 then 192 else if c =? 4 then 256 else 1000.

Definition ecdsa_params_strong (params : list field) : Prop :=
  curve_level (get_u32 2 params) <= hash_level (get_u32 1 params).

Definition rsa_strong (fs : list field) : Prop :=
  2048 <= N.size (be_val (get_len 3 fs)) /\ be_val (get_len 4 fs) = 65537.

Definition strength_ok (kd : keydata) : Prop :=
  let fs := vfields kd in
  (is_url kd url_hmac ->
     16 <= blen (get_len 3 fs) /\ 10 <= get_u32 2 (get_sub 2 fs))
  /\ (is_url kd url_aes_gcm -> aes_size_ok (blen (get_len 3 fs)))
  /\ (is_url kd url_aes_gcm_siv -> aes_size_ok (blen (get_len 3 fs)))
  /\ (is_url kd url_aes_cmac -> aes_size_ok (blen (get_len 2 fs)))
  /\ (is_url kd url_aes_cmac_prf -> aes_size_ok (blen (get_len 2 fs)))
  /\ (is_url kd url_aes_siv ->                  (* two AES keys *)
        blen (get_len 2 fs) = 32 \/ blen (get_len 2 fs) = 64)
  /\ (is_url kd url_aes_ctr_hmac ->
        aes_size_ok (blen (get_len 3 (get_sub 2 fs)))
        /\ 16 <= blen (get_len 3 (get_sub 3 fs))
        /\ 10 <= get_u32 2 (get_sub 2 (get_sub 3 fs)))
  /\ (is_url kd url_hkdf_prf -> 32 <= blen (get_len 3 fs))
  /\ (is_url kd url_rsa_pkcs1_pub -> rsa_strong fs)
  /\ (is_url kd url_rsa_pss_pub -> rsa_strong fs)
  /\ (is_url kd url_ecdsa_pub -> ecdsa_params_strong (get_sub 2 fs))
  /\ (is_url kd url_ecdsa_priv -> ecdsa_params_strong (get_sub 2 (get_sub 2 fs)))
  /\ (is_url kd url_xaes_gcm -> aes_size_ok (blen (get_len 3 fs)))
  (* private keys: the public part they embed (public_key = 2) *)
  /\ (is_url kd url_rsa_pkcs1_priv -> rsa_strong (get_sub 2 fs))
  /\ (is_url kd url_rsa_pss_priv -> rsa_strong (get_sub 2 fs))
  (* JWT keys: n = 3, e = 4 as in the plain RSA public keys; the HMAC key *)
  /\ (is_url kd url_jwt_rsa_pkcs1_pub -> rsa_strong fs)
  /\ (is_url kd url_jwt_rsa_pss_pub -> rsa_strong fs)
  /\ (is_url kd url_jwt_rsa_pkcs1_priv -> rsa_strong (get_sub 2 fs))
  /\ (is_url kd url_jwt_rsa_pss_priv -> rsa_strong (get_sub 2 fs))
  /\ (is_url kd url_jwt_hmac -> 16 <= blen (get_len 3 fs))
  (* streaming AEAD: the AES key derived for each segment; the HMAC tag *)
  /\ (is_url kd url_stream_gcm_hkdf -> aes_size_ok (get_u32 2 (get_sub 2 fs)))
  /\ (is_url kd url_stream_ctr_hmac ->
        aes_size_ok (get_u32 2 (get_sub 2 fs)) /\ 10 <= get_u32 2 (get_sub 4 (get_sub 2 fs))).
