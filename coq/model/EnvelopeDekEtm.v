(* C01/C02 — the AES-CTR-HMAC data key (DEK) of the KMS envelope AEAD: the one supported DEK type
   whose key proto is nested (AesCtrHmacAeadKey), and the only one whose ciphertexts can be shorter
   than 28 bytes (IV 12..16, tag >= 10).
     AesCtrHmacAeadKey { uint32 version = 1; AesCtrKey aes_ctr_key = 2; HmacKey hmac_key = 3; }
     AesCtrKey { uint32 version = 1; AesCtrParams params = 2; bytes key_value = 3; }  AesCtrParams { uint32 iv_size = 1; }
     HmacKey   { uint32 version = 1; HmacParams params = 2; bytes key_value = 3; }    HmacParams { HashType hash = 1; uint32 tag_size = 2; }
   newDEK(template) = registry.NewKeyData(template).Value: the proto serialisation of a freshly
   generated key = ProtoWire.encode of the message (fields in number order, zero scalars omitted):
   etm_dek_proto.  On Encrypt and Decrypt, registry.Primitive(TEMPLATE'S TYPE URL, dek) unmarshals the
   bytes (ProtoWire.decode: any field order, unknown fields skipped, last value wins, multi-byte
   varints - what protobuf accepts), requires the three versions to be 0, and validates sizes and hash
   as aesctrhmac.NewParameters / NewKey and the primitive constructors do (EtM.etm_valid; a missing
   sub-message reads as all-zero and fails that validation), then builds the full primitive with an
   EMPTY output prefix: etm_dek_enc / etm_dek_dec.  Nothing of the template but its type URL is
   consulted: the IV size, tag size, hash and key sizes are those of the parsed key (fourth audit A1).
   hash is the HashType enum value (SHA1 1, SHA384 2, SHA256 3, SHA512 4, SHA224 5).
   No proofs here. *)
From Coq Require Import List NArith Bool Arith.
From Tink Require Import Bytes AeadFrame Ctr EtM Envelope ProtoWire.
Import ListNotations.
Open Scope N_scope.

Definition hash_len (h : N) : option nat :=
  match h with
  | 1 => Some 20%nat | 2 => Some 48%nat | 3 => Some 32%nat | 4 => Some 64%nat | 5 => Some 28%nat
  | _ => None
  end.

Definition ctr_params_schema : schema := SCons 1 TU32 SNil.
Definition ctr_key_schema : schema := SCons 1 TU32 (SCons 2 (TMsg ctr_params_schema) (SCons 3 TBytes SNil)).
Definition hmac_params_schema : schema := SCons 1 TEnum (SCons 2 TU32 SNil).
Definition hmac_key_schema : schema := SCons 1 TU32 (SCons 2 (TMsg hmac_params_schema) (SCons 3 TBytes SNil)).
Definition etm_schema : schema := SCons 1 TU32 (SCons 2 (TMsg ctr_key_schema) (SCons 3 (TMsg hmac_key_schema) SNil)).

(* the key message of a key with hash h *)
Definition etm_msg (h : N) (k : etm_key) : msg :=
  [VInt 0;
   VMsg (Some [VInt 0; VMsg (Some [VInt (N.of_nat (ek_iv k))]); VBytes (ek_aes k)]);
   VMsg (Some [VInt 0; VMsg (Some [VInt h; VInt (N.of_nat (ek_tag k))]); VBytes (ek_hmac k)])].

Definition etm_dek_proto (h : N) (k : etm_key) : bytes := encode etm_schema (etm_msg h k).

(* getters of generated proto code: an absent sub-message reads as the all-default one *)
Definition sub_or (d : msg) (v : val) : msg := match v with VMsg (Some m) => m | _ => d end.
Definition vint (v : val) : N := match v with VInt n => n | _ => 0 end.
Definition vbytes (v : val) : bytes := match v with VBytes b => b | _ => [] end.

(* aesctrhmac keyParser.ParseKey after proto.Unmarshal, with output prefix RAW and id 0 *)
Definition etm_of_msg (m : msg) : option (N * etm_key) :=
  match m with
  | [ver; ctr; hm] =>
    match sub_or (default_msg ctr_key_schema) ctr, sub_or (default_msg hmac_key_schema) hm with
    | [cver; cpar; ckey], [hver; hpar; hkey] =>
      match sub_or (default_msg ctr_params_schema) cpar, sub_or (default_msg hmac_params_schema) hpar with
      | [iv], [hash; tag] =>
        if (vint ver =? 0) && (vint cver =? 0) && (vint hver =? 0) then
          let k := mkEtm (vbytes ckey) (vbytes hkey) (N.to_nat (vint iv)) (N.to_nat (vint tag)) in
          match hash_len (vint hash) with
          | Some hl => if etm_valid hl k then Some (vint hash, k) else None
          | None => None
          end
        else None
      | _, _ => None
      end
    | _, _ => None
    end
  | _ => None
  end.

Definition etm_dek_parse (dek : bytes) : option (N * etm_key) :=
  match decode etm_schema dek with
  | Some m => etm_of_msg m
  | None => None
  end.

Section DEKETM.
  Variable aes : bytes -> bytes -> bytes.
  Variable hmacs : N -> bytes -> bytes -> bytes.   (* HashType value -> key -> message -> full digest *)

  Definition etm_dek_enc (dek iv p ad : bytes) : outcome bytes :=
    match etm_dek_parse dek with
    | Some (h, k) => etm_enc aes (hmacs h) [] k iv p ad
    | None => Err
    end.
  Definition etm_dek_dec (dek c ad : bytes) : outcome bytes :=
    match etm_dek_parse dek with
    | Some (h, k) => etm_dec aes (hmacs h) [] k c ad
    | None => Err
    end.
End DEKETM.
