(* C01/C02 — the AES-CTR-HMAC data key (DEK) of the KMS envelope AEAD: the one supported DEK type
   whose key proto is nested (AesCtrHmacAeadKey), and the only one whose ciphertexts can be shorter
   than 28 bytes (IV 12..16, tag >= 10).
     AesCtrHmacAeadKey { uint32 version = 1; AesCtrKey aes_ctr_key = 2; HmacKey hmac_key = 3; }
     AesCtrKey { uint32 version = 1; AesCtrParams params = 2; bytes key_value = 3; }  AesCtrParams { uint32 iv_size = 1; }
     HmacKey   { uint32 version = 1; HmacParams params = 2; bytes key_value = 3; }    HmacParams { HashType hash = 1; uint32 tag_size = 2; }
   newDEK(template) = registry.NewKeyData(template).Value: the deterministic proto serialisation of a
   freshly generated key (fields in number order, zero-valued scalars - the three versions - omitted):
   etm_dek_proto.  registry.Primitive(url, dek) on Encrypt and Decrypt parses it back, validates it as
   aesctrhmac.NewParameters / NewKey and the primitive constructors do (EtM.etm_valid) and builds the
   full primitive with an EMPTY output prefix: etm_dek_enc / etm_dek_dec.
   As for the single-field data keys (Envelope.dek_key) the parser of the model accepts the
   serialisations newDEK can produce for the template in use (every length below 128, so every varint is
   one byte; IV size = the template's) and nothing else - protobuf would also accept other encodings of
   the same message, which only someone who can make the key-encryption AEAD decrypt to them can
   present.  hash is the HashType enum value (SHA1 1, SHA384 2, SHA256 3, SHA512 4, SHA224 5).
   No proofs here. *)
From Coq Require Import List NArith Bool Arith.
From Tink Require Import Bytes AeadFrame Ctr EtM Envelope.
Import ListNotations.
Open Scope N_scope.

Definition hash_len (h : N) : option nat :=
  match h with
  | 1 => Some 20%nat | 2 => Some 48%nat | 3 => Some 32%nat | 4 => Some 64%nat | 5 => Some 28%nat
  | _ => None
  end.

(* a length-delimited field whose length fits one varint byte *)
Definition pfield (tag : N) (x : bytes) : bytes := tag :: lenN x :: x.
Definition take_pfield (tag : N) (b : bytes) : option (bytes * bytes) :=
  match b with
  | t :: n :: rest =>
    if (t =? tag) && (n <? 128) && (n <=? lenN rest)
    then Some (firstn (N.to_nat n) rest, skipn (N.to_nat n) rest) else None
  | _ => None
  end.

Definition ctr_params_bytes (iv : N) : bytes := [8; iv].
Definition hmac_params_bytes (h tg : N) : bytes := [8; h; 16; tg].

Definition etm_dek_proto (h : N) (k : etm_key) : bytes :=
  pfield 18 (pfield 18 (ctr_params_bytes (N.of_nat (ek_iv k))) ++ pfield 26 (ek_aes k)) ++
  pfield 26 (pfield 18 (hmac_params_bytes h (N.of_nat (ek_tag k))) ++ pfield 26 (ek_hmac k)).

Definition parse_ctr_params (b : bytes) : option N :=
  match b with [a; iv] => if (a =? 8) && (iv <? 128) then Some iv else None | _ => None end.
Definition parse_hmac_params (b : bytes) : option (N * N) :=
  match b with
  | [a; h; c; tg] => if (a =? 8) && (c =? 16) && (h <? 128) && (tg <? 128) then Some (h, tg) else None
  | _ => None
  end.

(* params(2) then key_value(3), nothing else *)
Definition parse_keymsg (b : bytes) : option (bytes * bytes) :=
  match take_pfield 18 b with
  | Some (par, r) =>
    match take_pfield 26 r with
    | Some (kv, []) => Some (par, kv)
    | _ => None
    end
  | None => None
  end.

Definition etm_dek_parse (ivsz : nat) (dek : bytes) : option (N * etm_key) :=
  match take_pfield 18 dek with
  | Some (ctr, r1) =>
    match take_pfield 26 r1 with
    | Some (hm, []) =>
      match parse_keymsg ctr, parse_keymsg hm with
      | Some (cp, ak), Some (hp, hk) =>
        match parse_ctr_params cp, parse_hmac_params hp with
        | Some iv, Some (h, tg) =>
          let k := mkEtm ak hk (N.to_nat iv) (N.to_nat tg) in
          match hash_len h with
          | Some hl => if etm_valid hl k && Nat.eqb (ek_iv k) ivsz then Some (h, k) else None
          | None => None
          end
        | _, _ => None
        end
      | _, _ => None
      end
    | _ => None
    end
  | None => None
  end.

Section DEKETM.
  Variable aes : bytes -> bytes -> bytes.
  Variable hmacs : N -> bytes -> bytes -> bytes.   (* HashType value -> key -> message -> full digest *)

  Definition etm_dek_enc (ivsz : nat) (dek iv p ad : bytes) : outcome bytes :=
    match etm_dek_parse ivsz dek with
    | Some (h, k) => etm_enc aes (hmacs h) [] k iv p ad
    | None => Err
    end.
  Definition etm_dek_dec (ivsz : nat) (dek c ad : bytes) : outcome bytes :=
    match etm_dek_parse ivsz dek with
    | Some (h, k) => etm_dec aes (hmacs h) [] k c ad
    | None => Err
    end.
End DEKETM.
