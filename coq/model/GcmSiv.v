(* C01/C02 — AES-GCM-SIV (RFC 8452), written after
     internal/aead/aesgcmsiv.go (Encrypt, Decrypt, deriveKeys, computePolyval,
       computeTag, aesCTR)
     aead/aesgcmsiv/aead.go (prefix handling), aead/subtle/aes_gcm_siv.go.
   aes k b = AES block encryption under key k (stdlib oracle); POLYVAL is the
   kernel model of Polyval.v.  Every slice expression is checked. *)
From Coq Require Import List NArith Bool Arith.
From Tink Require Import Bytes AeadFrame Ctr Polyval.
Import ListNotations.
Open Scope N_scope.

Section GCMSIV.
  Variable aes : bytes -> bytes -> bytes.

  (* kdfAes(counter, dst): nonceBlock = le32(counter) || nonce; copy(dst, E(nonceBlock)[0:8]) *)
  Definition kdf_half (key nonce : bytes) (ctr : N) : bytes :=
    firstn 8 (aes key (le_bytes 4 ctr ++ nonce)).

  (* deriveKeys: authKey (16 bytes), encKey (len(key) bytes) *)
  Definition derive_keys (key nonce : bytes) : outcome (bytes * bytes) :=
    if negb (Nat.eqb (length nonce) 12) then Err
    else
      let h := kdf_half key nonce in
      let auth := h 0 ++ h 1 in
      let enc := if Nat.eqb (length key) 32 then h 2 ++ h 3 ++ h 4 ++ h 5 else h 2 ++ h 3 in
      Ok (auth, enc).

  (* computePolyval: Update(ad); Update(pt); Update(le64(8|ad|) || le64(8|pt|)) *)
  Definition length_block (pt ad : bytes) : bytes :=
    le_bytes 8 (lenN ad * 8) ++ le_bytes 8 (lenN pt * 8).
  Definition compute_polyval (authKey pt ad : bytes) : outcome bytes :=
    if negb (Nat.eqb (length authKey) 16) then Err        (* NewPolyval key size check *)
    else Ok (polyval_impl authKey [ad; pt; length_block pt ad]).

  (* computeTag: XORBytes(polyval, polyval, nonce); polyval[15] &= 0x7f; E(encKey, polyval) *)
  Definition xor_into (s x : bytes) : bytes := xorb s x ++ skipn (length (xorb s x)) s.
  Definition and_last (s : bytes) (m : N) : bytes := firstn 15 s ++ [N.land (nth 15 s 0) m].
  Definition or_last (s : bytes) (m : N) : bytes := firstn 15 s ++ [N.lor (nth 15 s 0) m].
  Definition compute_tag (pv nonce encKey : bytes) : outcome bytes :=
    if negb (Nat.eqb (length pv) 16) then Err
    else Ok (aes encKey (and_last (xor_into pv nonce) 127)).

  (* aesCTR(key, tag, in, out): counter = tag with the top bit of byte 15 set; the first
     four bytes are a little-endian uint32 that is incremented (wrapping) per block *)
  Definition siv_blk (tail : bytes) (c : N) : bytes := le_bytes 4 c ++ tail.
  Definition siv_next (c : N) : N := (c + 1) mod 2 ^ 32.
  Definition siv_ctr (key tag inp : bytes) : outcome bytes :=
    if negb (Nat.eqb (length tag) 16) then Err
    else
      let counter := or_last tag 128 in
      Ok (ctr_apply (aes key) (siv_blk (skipn 4 counter)) siv_next (le_val (firstn 4 counter)) inp).

  (* AESGCMSIV.Encrypt(dst, plaintext, ad) with the nonce the tape supplies; result without dst *)
  Definition siv_raw_enc (key nonce p ad : bytes) : outcome bytes :=
    if MaxInt32 - 12 - 16 <? lenN p then Err
    else if MaxInt32 <? lenN ad then Err
    else bind (derive_keys key nonce) (fun ks =>
         bind (compute_polyval (fst ks) p ad) (fun pv =>
         bind (compute_tag pv nonce (snd ks)) (fun tag =>
         bind (siv_ctr (snd ks) tag p) (fun ct =>
         Ok (nonce ++ ct ++ tag))))).

  (* AESGCMSIV.Decrypt *)
  Definition siv_raw_dec (key c ad : bytes) : outcome bytes :=
    if Nat.ltb (length c) (12 + 16) then Err
    else if MaxInt32 <? lenN c then Err
    else if MaxInt32 <? lenN ad then Err
    else bind (slice 0 12 c) (fun nonce =>
         bind (slice (length c - 16) (length c) c) (fun tag =>
         bind (slice 12 (length c - 16) c) (fun ct =>
         bind (derive_keys key nonce) (fun ks =>
         bind (siv_ctr (snd ks) tag ct) (fun pt =>
         bind (compute_polyval (fst ks) pt ad) (fun pv =>
         bind (compute_tag pv nonce (snd ks)) (fun tagOut =>
         if beq tagOut tag then Ok pt else Err))))))).    (* subtle.ConstantTimeCompare *)

  (* aead/aesgcmsiv aead.Encrypt / Decrypt *)
  Definition siv_enc (prefix key nonce p ad : bytes) : outcome bytes :=
    bind (siv_raw_enc key nonce p ad) (fun r => Ok (prefix ++ r)).
  Definition siv_dec (prefix key c ad : bytes) : outcome bytes :=
    if negb (has_prefix c prefix) then Err
    else bind (slice (length prefix) (length c) c) (fun toDecrypt => siv_raw_dec key toDecrypt ad).
End GCMSIV.
