(* RFC 9180 (Hybrid Public Key Encryption), base mode, transcribed from the text
   of the RFC - NOT from Tink's code and sharing nothing with model/Hpke.v.
   What is shared: [bytes] and [xorb] of lib/Bytes.v, and HKDF-Extract /
   HKDF-Expand in the RFC 5869 transcription of model/Hkdf.v (over the RFC 2104
   HMAC of model/Hmac.v), which property C15 ties to the code.

   Section numbers are those of RFC 9180.  Each definition is the pseudocode of
   the RFC, with errors as [None].  Primitives left abstract (Section
   variables): the hash functions of the three KDFs, DH on serialized keys
   (Deserialize + DH + the validation of 7.1.4), pk(sk) serialized, AEAD
   Seal/Open.

   Sources of the identifiers and lengths:
     Table 2 (7.1) KEM ids 0x0010 0x0011 0x0012 0x0020 0x0021, Nsecret Nenc Npk Nsk  RFC 9180
     Table 3 (7.2) KDF ids 0x0001..0x0003, Nh                                       RFC 9180
     Table 5 (7.3) AEAD ids 0x0001..0x0003, Nk Nn Nt                                RFC 9180
     P_MAX of AES-GCM (2^36 - 31 octets)                      RFC 5116 sections 5.1 and 5.2
     P_MAX of ChaCha20-Poly1305 (274877906880 octets)        RFC 8439 section 2.8
     hash block sizes 64 / 128 / 128 (HMAC B)                FIPS 180-4 (via RFC 2104)
     KEM ids 0x0041 ML-KEM-768, 0x0042 ML-KEM-1024 (Nsecret 32, Nenc 1088/1568,
       Npk 1184/1568, Nsk 64: the 64-byte seed d||z)         IANA HPKE registry, draft-ietf-hpke-pq
                                                             (was draft-connolly-cfrg-hpke-mlkem)
     KEM id 0x647a X-Wing (Nsecret 32, Nenc 1120, Npk 1216, Nsk 32), the label,
       expandDecapsulationKey, Combiner, EncapsulateDerand, Decapsulate
                                                             draft-connolly-cfrg-xwing-kem-10
                                                             (the version hybrid/internal/xwing cites)
   The two drafts and the IANA registry are not available inside this sandbox;
   their part is written from the documents as published and is marked below.
   No proofs here: proofs/HpkeRfcProofs.v. *)
From Coq Require Import List NArith Bool Arith String Ascii.
From Tink Require Import Bytes Hmac Hkdf.
Import ListNotations.
Open Scope N_scope.

(* octet strings written as ASCII text in the RFC *)
Definition ascii_bytes (s : string) : bytes := map N_of_ascii (list_ascii_of_string s).

(* RFC 8017 section 4.1: I2OSP(x, xLen) = X_1 ... X_xLen with
   x = x_(xLen-1) 256^(xLen-1) + ... + x_0 and X_i = x_(xLen-i);
   "integer too large" if x >= 256^xLen *)
Fixpoint i2osp_digits (xLen : nat) (x : N) : bytes :=
  match xLen with
  | O => []
  | S n => (x / 256 ^ N.of_nat n) mod 256 :: i2osp_digits n x
  end.
Definition I2OSP (x : N) (xLen : nat) : option bytes :=
  if N.ltb x (256 ^ N.of_nat xLen) then Some (i2osp_digits xLen x) else None.
(* for the algorithm identifiers, all below 2^16 *)
Definition I2OSP2 (x : N) : bytes := match I2OSP x 2 with Some b => b | None => [] end.

Definition concat (l : list bytes) : bytes := List.concat l.
Definition xor (a b : bytes) : bytes := xorb a b.

(* ------------------------------------------------------------------ *)
(* 7.  Algorithm identifiers                                           *)
(* ------------------------------------------------------------------ *)
(* 7.2, Table 3 *)
Inductive kdf_alg := KDF_HKDF_SHA256 | KDF_HKDF_SHA384 | KDF_HKDF_SHA512.
Definition rfc_kdf_id (d : kdf_alg) : N :=
  match d with KDF_HKDF_SHA256 => 1 (* 0x0001 *) | KDF_HKDF_SHA384 => 2 | KDF_HKDF_SHA512 => 3 end.
Definition Nh (d : kdf_alg) : nat :=
  match d with KDF_HKDF_SHA256 => 32 | KDF_HKDF_SHA384 => 48 | KDF_HKDF_SHA512 => 64 end%nat.
(* block size of the hash (B of RFC 2104): SHA-256 64, SHA-384 and SHA-512 128 *)
Definition hash_block (d : kdf_alg) : nat :=
  match d with KDF_HKDF_SHA256 => 64 | _ => 128 end%nat.

(* 7.1, Table 2 (DHKEM(X448, HKDF-SHA512), 0x0021, has no counterpart in Tink;
   the row is kept for completeness) *)
Inductive kem_alg := KEM_P256_SHA256 | KEM_P384_SHA384 | KEM_P521_SHA512 | KEM_X25519_SHA256 | KEM_X448_SHA512.
Record kem_row := { r_id : N; r_Nsecret : nat; r_Nenc : nat; r_Npk : nat; r_Nsk : nat }.
Definition kem_table (K : kem_alg) : kem_row :=
  match K with
  | KEM_P256_SHA256   => {| r_id := 16 (* 0x0010 *); r_Nsecret := 32; r_Nenc := 65;  r_Npk := 65;  r_Nsk := 32 |}
  | KEM_P384_SHA384   => {| r_id := 17 (* 0x0011 *); r_Nsecret := 48; r_Nenc := 97;  r_Npk := 97;  r_Nsk := 48 |}
  | KEM_P521_SHA512   => {| r_id := 18 (* 0x0012 *); r_Nsecret := 64; r_Nenc := 133; r_Npk := 133; r_Nsk := 66 |}
  | KEM_X25519_SHA256 => {| r_id := 32 (* 0x0020 *); r_Nsecret := 32; r_Nenc := 32;  r_Npk := 32;  r_Nsk := 32 |}
  | KEM_X448_SHA512   => {| r_id := 33 (* 0x0021 *); r_Nsecret := 64; r_Nenc := 56;  r_Npk := 56;  r_Nsk := 56 |}
  end.
(* the KDF inside the DHKEM *)
Definition kem_kdf (K : kem_alg) : kdf_alg :=
  match K with
  | KEM_P256_SHA256 | KEM_X25519_SHA256 => KDF_HKDF_SHA256
  | KEM_P384_SHA384 => KDF_HKDF_SHA384
  | KEM_P521_SHA512 | KEM_X448_SHA512 => KDF_HKDF_SHA512
  end.

(* 7.3, Table 5 (0xFFFF export-only is not an encryption algorithm) *)
Inductive aead_alg := AEAD_AES_128_GCM | AEAD_AES_256_GCM | AEAD_ChaCha20Poly1305.
Definition rfc_aead_id (a : aead_alg) : N :=
  match a with AEAD_AES_128_GCM => 1 (* 0x0001 *) | AEAD_AES_256_GCM => 2 | AEAD_ChaCha20Poly1305 => 3 end.
Definition Nk (a : aead_alg) : nat := match a with AEAD_AES_128_GCM => 16 | _ => 32 end%nat.
Definition Nn (a : aead_alg) : nat := 12%nat.
Definition Nt (a : aead_alg) : nat := 16%nat.
(* largest plaintext of the AEAD: RFC 5116 5.1/5.2, RFC 8439 2.8 *)
Definition P_MAX (a : aead_alg) : N :=
  match a with AEAD_ChaCha20Poly1305 => 274877906880 | _ => 2 ^ 36 - 31 end.

(* post-quantum / hybrid KEMs registered for HPKE (IANA HPKE KEM registry;
   draft-ietf-hpke-pq, draft-connolly-cfrg-xwing-kem-10) - not RFC 9180 *)
Inductive pq_kem_alg := KEM_ML_KEM_768 | KEM_ML_KEM_1024 | KEM_X_WING.
Definition pq_kem_table (K : pq_kem_alg) : kem_row :=
  match K with
  | KEM_ML_KEM_768  => {| r_id := 65 (* 0x0041 *);    r_Nsecret := 32; r_Nenc := 1088; r_Npk := 1184; r_Nsk := 64 |}
  | KEM_ML_KEM_1024 => {| r_id := 66 (* 0x0042 *);    r_Nsecret := 32; r_Nenc := 1568; r_Npk := 1568; r_Nsk := 64 |}
  | KEM_X_WING      => {| r_id := 25722 (* 0x647a *); r_Nsecret := 32; r_Nenc := 1120; r_Npk := 1216; r_Nsk := 32 |}
  end.

(* 5.  mode identifiers (Table 1) *)
Definition mode_base : N := 0.      (* 0x00 *)
Definition mode_psk : N := 1.
Definition mode_auth : N := 2.
Definition mode_auth_psk : N := 3.
Definition default_psk : bytes := [].
Definition default_psk_id : bytes := [].

Section RFC9180.
  (* the hash of each KDF; Extract / Expand are HKDF over it (RFC 5869) *)
  Variable Hash : kdf_alg -> bytes -> bytes.
  (* 4.1 / 7.1: DH(skX, pkY) with both keys serialized: DeserializePrivateKey,
     DeserializePublicKey, DH and the validation of 7.1.4; None = DeserializeError
     or ValidationError.  PK sk = SerializePublicKey(pk(sk)). *)
  Variable DH : kem_alg -> bytes -> bytes -> option bytes.
  Variable PK : kem_alg -> bytes -> option bytes.
  (* 4: AEAD Seal(key, nonce, aad, pt) and Open(key, nonce, aad, ct) (None = OpenError) *)
  Variable AeadSeal : aead_alg -> bytes -> bytes -> bytes -> bytes -> bytes.
  Variable AeadOpen : aead_alg -> bytes -> bytes -> bytes -> bytes -> option bytes.

  (* 4.  Extract(salt, ikm), Expand(prk, info, L) *)
  Definition Extract (d : kdf_alg) (salt ikm : bytes) : bytes :=
    hkdf_extract (Hash d) (hash_block d) salt ikm.
  Definition Expand (d : kdf_alg) (prk info : bytes) (L : nat) : option bytes :=
    hkdf_expand (Hash d) (hash_block d) (Nh d) prk info L.

  (* 4.
     def LabeledExtract(salt, label, ikm):
       labeled_ikm = concat("HPKE-v1", suite_id, label, ikm)
       return Extract(salt, labeled_ikm) *)
  Definition LabeledExtract (d : kdf_alg) (suite_id salt : bytes) (label : string) (ikm : bytes) : bytes :=
    let labeled_ikm := concat [ascii_bytes "HPKE-v1"; suite_id; ascii_bytes label; ikm] in
    Extract d salt labeled_ikm.

  (* def LabeledExpand(prk, label, info, L):
       labeled_info = concat(I2OSP(L, 2), "HPKE-v1", suite_id, label, info)
       return Expand(prk, labeled_info, L) *)
  Definition LabeledExpand (d : kdf_alg) (suite_id prk : bytes) (label : string) (info : bytes) (L : nat) : option bytes :=
    match I2OSP (N.of_nat L) 2 with
    | None => None
    | Some l =>
        let labeled_info := concat [l; ascii_bytes "HPKE-v1"; suite_id; ascii_bytes label; info] in
        Expand d prk labeled_info L
    end.

  (* ---------------------------------------------------------------- *)
  (* 4.1  DH-Based KEM (DHKEM)                                         *)
  (* ---------------------------------------------------------------- *)
  (* suite_id = concat("KEM", I2OSP(kem_id, 2)) *)
  Definition dhkem_suite_id (K : kem_alg) : bytes := concat [ascii_bytes "KEM"; I2OSP2 (r_id (kem_table K))].

  (* def ExtractAndExpand(dh, kem_context):
       eae_prk = LabeledExtract("", "eae_prk", dh)
       shared_secret = LabeledExpand(eae_prk, "shared_secret", kem_context, Nsecret)
       return shared_secret *)
  Definition ExtractAndExpand (K : kem_alg) (dh kem_context : bytes) : option bytes :=
    let eae_prk := LabeledExtract (kem_kdf K) (dhkem_suite_id K) [] "eae_prk" dh in
    LabeledExpand (kem_kdf K) (dhkem_suite_id K) eae_prk "shared_secret" kem_context (r_Nsecret (kem_table K)).

  (* def Encap(pkR):
       skE, pkE = GenerateKeyPair()
       dh = DH(skE, pkR)
       enc = SerializePublicKey(pkE)
       pkRm = SerializePublicKey(pkR)
       kem_context = concat(enc, pkRm)
       shared_secret = ExtractAndExpand(dh, kem_context)
       return shared_secret, enc
     with the ephemeral private key skE (serialized) made explicit; pkRm is the
     serialized recipient key the caller holds *)
  Definition DHKEM_Encap (K : kem_alg) (pkRm skE : bytes) : option (bytes * bytes) :=
    match DH K skE pkRm, PK K skE with
    | Some dh, Some enc =>
        let kem_context := concat [enc; pkRm] in
        match ExtractAndExpand K dh kem_context with
        | Some shared_secret => Some (shared_secret, enc)
        | None => None
        end
    | _, _ => None
    end.

  (* def Decap(enc, skR):
       pkE = DeserializePublicKey(enc)
       dh = DH(skR, pkE)
       pkRm = SerializePublicKey(pk(skR))
       kem_context = concat(enc, pkRm)
       shared_secret = ExtractAndExpand(dh, kem_context)
       return shared_secret *)
  Definition DHKEM_Decap (K : kem_alg) (enc skR : bytes) : option bytes :=
    match DH K skR enc, PK K skR with
    | Some dh, Some pkRm =>
        let kem_context := concat [enc; pkRm] in
        ExtractAndExpand K dh kem_context
    | _, _ => None
    end.

  (* ---------------------------------------------------------------- *)
  (* 5.  Hybrid Public Key Encryption, generic in the KEM              *)
  (* ---------------------------------------------------------------- *)
  Section OverKEM.
    Variable kem_id : N.
    Variable Encap : bytes -> bytes -> option (bytes * bytes).   (* pkR, explicit randomness *)
    Variable Decap : bytes -> bytes -> option bytes.             (* enc, skR *)
    Variable d : kdf_alg.
    Variable a : aead_alg.

    (* suite_id = concat("HPKE", I2OSP(kem_id, 2), I2OSP(kdf_id, 2), I2OSP(aead_id, 2)) *)
    Definition hpke_suite : bytes :=
      concat [ascii_bytes "HPKE"; I2OSP2 kem_id; I2OSP2 (rfc_kdf_id d); I2OSP2 (rfc_aead_id a)].

    (* 5.1  def VerifyPSKInputs(mode, psk, psk_id):
         got_psk = (psk != default_psk)
         got_psk_id = (psk_id != default_psk_id)
         if got_psk != got_psk_id: raise Exception("Inconsistent PSK inputs")
         if got_psk and (mode in [mode_base, mode_auth]): raise Exception("PSK input provided when not needed")
         if (not got_psk) and (mode in [mode_psk, mode_auth_psk]): raise Exception("Missing required PSK input") *)
    Definition VerifyPSKInputs (mode : N) (psk psk_id : bytes) : bool :=
      let got_psk := negb (beq psk default_psk) in
      let got_psk_id := negb (beq psk_id default_psk_id) in
      if negb (Bool.eqb got_psk got_psk_id) then false
      else if got_psk && (N.eqb mode mode_base || N.eqb mode mode_auth) then false
      else if negb got_psk && (N.eqb mode mode_psk || N.eqb mode mode_auth_psk) then false
      else true.

    (* 5.1  def KeySchedule<ROLE>(mode, shared_secret, info, psk, psk_id):
         VerifyPSKInputs(mode, psk, psk_id)
         psk_id_hash = LabeledExtract("", "psk_id_hash", psk_id)
         info_hash = LabeledExtract("", "info_hash", info)
         key_schedule_context = concat(mode, psk_id_hash, info_hash)
         secret = LabeledExtract(shared_secret, "secret", psk)
         key = LabeledExpand(secret, "key", key_schedule_context, Nk)
         base_nonce = LabeledExpand(secret, "base_nonce", key_schedule_context, Nn)
         exporter_secret = LabeledExpand(secret, "exp", key_schedule_context, Nh)
         return Context<ROLE>(key, base_nonce, 0, exporter_secret) *)
    Record context := { c_key : bytes; c_base_nonce : bytes; c_seq : N; c_exporter_secret : bytes }.

    Definition KeySchedule (mode : N) (shared_secret info psk psk_id : bytes) : option context :=
      if negb (VerifyPSKInputs mode psk psk_id) then None else
      let psk_id_hash := LabeledExtract d hpke_suite [] "psk_id_hash" psk_id in
      let info_hash := LabeledExtract d hpke_suite [] "info_hash" info in
      let key_schedule_context := concat [[mode]; psk_id_hash; info_hash] in
      let secret := LabeledExtract d hpke_suite shared_secret "secret" psk in
      match LabeledExpand d hpke_suite secret "key" key_schedule_context (Nk a),
            LabeledExpand d hpke_suite secret "base_nonce" key_schedule_context (Nn a),
            LabeledExpand d hpke_suite secret "exp" key_schedule_context (Nh d) with
      | Some key, Some base_nonce, Some exporter_secret =>
          Some {| c_key := key; c_base_nonce := base_nonce; c_seq := 0; c_exporter_secret := exporter_secret |}
      | _, _, _ => None
      end.

    (* 5.2  def Context<ROLE>.ComputeNonce(seq):
         seq_bytes = I2OSP(seq, Nn)
         return xor(self.base_nonce, seq_bytes) *)
    Definition ComputeNonce (ctx : context) (seq : N) : option bytes :=
      match I2OSP seq (Nn a) with
      | Some seq_bytes => Some (xor (c_base_nonce ctx) seq_bytes)
      | None => None
      end.

    (* def Context<ROLE>.IncrementSeq():
         if self.seq >= (1 << (8*Nn)) - 1: raise MessageLimitReachedError
         self.seq += 1 *)
    Definition IncrementSeq (ctx : context) : option context :=
      if N.leb (2 ^ (8 * N.of_nat (Nn a)) - 1) (c_seq ctx) then None
      else Some {| c_key := c_key ctx; c_base_nonce := c_base_nonce ctx; c_seq := c_seq ctx + 1;
                   c_exporter_secret := c_exporter_secret ctx |}.

    (* def ContextS.Seal(aad, pt):
         ct = Seal(self.key, self.ComputeNonce(self.seq), aad, pt)
         self.IncrementSeq()
         return ct
       (Seal of the AEAD "can raise a MessageLimitReachedError": its P_MAX) *)
    Definition ContextSeal (ctx : context) (aad pt : bytes) : option bytes :=
      match ComputeNonce ctx (c_seq ctx) with
      | None => None
      | Some nonce =>
          if N.ltb (P_MAX a) (N.of_nat (List.length pt)) then None else
          let ct := AeadSeal a (c_key ctx) nonce aad pt in
          match IncrementSeq ctx with Some _ => Some ct | None => None end
      end.

    (* def ContextR.Open(aad, ct):
         pt = Open(self.key, self.ComputeNonce(self.seq), aad, ct)
         if pt == OpenError: raise OpenError
         self.IncrementSeq()
         return pt *)
    Definition ContextOpen (ctx : context) (aad ct : bytes) : option bytes :=
      match ComputeNonce ctx (c_seq ctx) with
      | None => None
      | Some nonce =>
          match AeadOpen a (c_key ctx) nonce aad ct with
          | None => None
          | Some pt => match IncrementSeq ctx with Some _ => Some pt | None => None end
          end
      end.

    (* 5.1.1  def SetupBaseS(pkR, info):
         shared_secret, enc = Encap(pkR)
         return enc, KeyScheduleS(mode_base, shared_secret, info, default_psk, default_psk_id)
       def SetupBaseR(enc, skR, info):
         shared_secret = Decap(enc, skR)
         return KeyScheduleR(mode_base, shared_secret, info, default_psk, default_psk_id) *)
    Definition SetupBaseS (pkR rand info : bytes) : option (bytes * context) :=
      match Encap pkR rand with
      | None => None
      | Some (shared_secret, enc) =>
          match KeySchedule mode_base shared_secret info default_psk default_psk_id with
          | Some ctx => Some (enc, ctx)
          | None => None
          end
      end.
    Definition SetupBaseR (enc skR info : bytes) : option context :=
      match Decap enc skR with
      | None => None
      | Some shared_secret => KeySchedule mode_base shared_secret info default_psk default_psk_id
      end.

    (* 6.1  def Seal<MODE>(pkR, info, aad, pt, ...):
         enc, ctx = Setup<MODE>S(pkR, info, ...)
         ct = ctx.Seal(aad, pt)
         return enc, ct
       def Open<MODE>(enc, skR, info, aad, ct, ...):
         ctx = Setup<MODE>R(enc, skR, info, ...)
         return ctx.Open(aad, ct) *)
    Definition SealBase (pkR rand info aad pt : bytes) : option (bytes * bytes) :=
      match SetupBaseS pkR rand info with
      | None => None
      | Some (enc, ctx) =>
          match ContextSeal ctx aad pt with Some ct => Some (enc, ct) | None => None end
      end.
    Definition OpenBase (enc skR info aad ct : bytes) : option bytes :=
      match SetupBaseR enc skR info with
      | None => None
      | Some ctx => ContextOpen ctx aad ct
      end.
  End OverKEM.

  (* RFC 9180 with DHKEM(K) *)
  Definition SealBase_DHKEM (K : kem_alg) := SealBase (r_id (kem_table K)) (DHKEM_Encap K).
  Definition OpenBase_DHKEM (K : kem_alg) := OpenBase (r_id (kem_table K)) (DHKEM_Decap K).
End RFC9180.

(* ------------------------------------------------------------------ *)
(* X-Wing, draft-connolly-cfrg-xwing-kem-10, section 5                 *)
(* (written from the published draft; not available in the sandbox)    *)
(* ------------------------------------------------------------------ *)
Section XWingDraft.
  Variable SHAKE256 : bytes -> nat -> bytes.
  Variable SHA3_256 : bytes -> bytes.
  (* ML-KEM-768 in the seed form the draft uses:
     KeyGen_internal(d, z) is determined by the 64 bytes d || z;
     MLKEM_pk seed = pk_M, MLKEM_Decaps seed ct = ML-KEM-768.Decaps(ct, sk_M),
     MLKEM_EncapsDerand pk_M m = (ss_M, ct_M) *)
  Variable MLKEM_pk : bytes -> option bytes.
  Variable MLKEM_Decaps : bytes -> bytes -> option bytes.
  Variable MLKEM_EncapsDerand : bytes -> bytes -> option (bytes * bytes).
  (* X25519(k, u); X25519_pub k = X25519(k, X25519_BASE) *)
  Variable X25519 : bytes -> bytes -> option bytes.
  Variable X25519_pub : bytes -> option bytes.

  (* XWingLabel = concat("\./", "/^\")  (the six bytes 5c 2e 2f 2f 5e 5c) *)
  Definition XWingLabel : bytes := concat [ascii_bytes "\./"; ascii_bytes "/^\"].

  Definition octets (b : bytes) (lo hi : nat) : bytes := firstn (hi - lo) (skipn lo b).

  (* def expandDecapsulationKey(sk):
       expanded = SHAKE256(sk, 96)
       (pk_M, sk_M) = ML-KEM-768.KeyGen_internal(expanded[0:32], expanded[32:64])
       sk_X = expanded[64:96]
       pk_X = X25519(sk_X, X25519_BASE)
       return (sk_M, sk_X, pk_M, pk_X)
     sk_M is represented by its seed expanded[0:64]; sk is 32 bytes *)
  Definition expandDecapsulationKey (sk : bytes) : option (bytes * bytes * bytes * bytes) :=
    if negb (Nat.eqb (List.length sk) 32) then None else
    let expanded := SHAKE256 sk 96 in
    let seed_M := octets expanded 0 64 in
    let sk_X := octets expanded 64 96 in
    match MLKEM_pk seed_M, X25519_pub sk_X with
    | Some pk_M, Some pk_X => Some (seed_M, sk_X, pk_M, pk_X)
    | _, _ => None
    end.

  (* def Combiner(ss_M, ss_X, ct_X, pk_X):
       return SHA3-256(concat(ss_M, ss_X, ct_X, pk_X, XWingLabel)) *)
  Definition Combiner (ss_M ss_X ct_X pk_X : bytes) : bytes :=
    SHA3_256 (concat [ss_M; ss_X; ct_X; pk_X; XWingLabel]).

  (* def EncapsulateDerand(pk, eseed):
       pk_M = pk[0:1184]
       pk_X = pk[1184:1216]
       ek_X = eseed[32:64]
       ct_X = X25519(ek_X, X25519_BASE)
       ss_X = X25519(ek_X, pk_X)
       (ss_M, ct_M) = ML-KEM-768.EncapsDerand(pk_M, eseed[0:32])
       ss = Combiner(ss_M, ss_X, ct_X, pk_X)
       ct = concat(ct_M, ct_X)
       return (ss, ct) *)
  Definition XWing_EncapsulateDerand (pk eseed : bytes) : option (bytes * bytes) :=
    if negb (Nat.eqb (List.length pk) 1216) then None else
    let pk_M := octets pk 0 1184 in
    let pk_X := octets pk 1184 1216 in
    let ek_X := octets eseed 32 64 in
    match X25519_pub ek_X, X25519 ek_X pk_X, MLKEM_EncapsDerand pk_M (octets eseed 0 32) with
    | Some ct_X, Some ss_X, Some (ss_M, ct_M) =>
        Some (Combiner ss_M ss_X ct_X pk_X, concat [ct_M; ct_X])
    | _, _, _ => None
    end.

  (* def Decapsulate(ct, sk):
       (sk_M, sk_X, pk_M, pk_X) = expandDecapsulationKey(sk)
       ct_M = ct[0:1088]
       ct_X = ct[1088:1120]
       ss_M = ML-KEM-768.Decapsulate(ct_M, sk_M)
       ss_X = X25519(sk_X, ct_X)
       return Combiner(ss_M, ss_X, ct_X, pk_X) *)
  Definition XWing_Decapsulate (ct sk : bytes) : option bytes :=
    if negb (Nat.eqb (List.length ct) 1120) then None else
    match expandDecapsulationKey sk with
    | None => None
    | Some (seed_M, sk_X, pk_M, pk_X) =>
        let ct_M := octets ct 0 1088 in
        let ct_X := octets ct 1088 1120 in
        match MLKEM_Decaps seed_M ct_M, X25519 sk_X ct_X with
        | Some ss_M, Some ss_X => Some (Combiner ss_M ss_X ct_X pk_X)
        | _, _ => None
        end
    end.
End XWingDraft.
