(* Model of internal/signature/slhdsa/hash.go: the three instantiations of
   the six hash functions (SHAKE; SHA2 category 1; SHA2 categories 3 and 5)
   over the stdlib primitives, which are Section variables here and are
   answered by the stdlib oracle at run time. *)
From Coq Require Import List NArith Bool Arith.
From Tink Require Import Bytes SlhdsaAddr SlhdsaBase.
Import ListNotations.
Open Scope N_scope.

Inductive hashkind := HShake | HSha2C1 | HSha2C35.

Section HASH.
  Variable sha256 sha512 : bytes -> bytes.
  Variable shake256 : bytes -> nat -> bytes.
  Variable hmac256 hmac512 : bytes -> bytes -> bytes.   (* key msg *)

  (* ---- SHAKE ---- *)
  Definition shakeHMsg (r pkSeed pkRoot msg : bytes) (m : nat) := shake256 (r ++ pkSeed ++ pkRoot ++ msg) m.
  Definition shakePrf (pkSeed skSeed : bytes) (ad : address) (n : nat) := shake256 (pkSeed ++ adrs_bytes ad ++ skSeed) n.
  Definition shakePrfMsg (skPrf optRand msg : bytes) (n : nat) := shake256 (skPrf ++ optRand ++ msg) n.
  Definition shakeF (pkSeed : bytes) (ad : address) (m1 : bytes) (n : nat) := shake256 (pkSeed ++ adrs_bytes ad ++ m1) n.

  (* ---- MGF1: for len(digest) < maskLen { digest += hash(seed ‖ be32(ctr)); ctr++ } ; digest[0:maskLen] *)
  Fixpoint mgf1_loop (fuel : nat) (hash : bytes -> bytes) (seed : bytes) (maskLen : nat) (ctr : N) (digest : bytes) : bytes :=
    match fuel with
    | O => digest
    | S f => if Nat.ltb (length digest) maskLen
             then mgf1_loop f hash seed maskLen (ctr + 1) (digest ++ hash (seed ++ be_bytes 4 ctr))
             else digest
    end.
  (* fuel: every round appends a whole digest (32 / 64 bytes), so maskLen rounds always suffice *)
  Definition mgf1 (hash : bytes -> bytes) (seed : bytes) (maskLen : nat) : bytes :=
    firstn maskLen (mgf1_loop maskLen hash seed maskLen 0 []).

  (* ---- SHA2, category 1 ---- *)
  Definition sha2C1HMsg (r pkSeed pkRoot msg : bytes) (m : nat) :=
    mgf1 sha256 (r ++ pkSeed ++ sha256 (r ++ pkSeed ++ pkRoot ++ msg)) m.
  Definition sha2C1Prf (pkSeed skSeed : bytes) (ad : address) (n : nat) :=
    firstn n (sha256 (pkSeed ++ zeros (64 - n) ++ compress ad ++ skSeed)).
  Definition sha2C1PrfMsg (skPrf optRand msg : bytes) (n : nat) := firstn n (hmac256 skPrf (optRand ++ msg)).
  Definition sha2C1F (pkSeed : bytes) (ad : address) (m1 : bytes) (n : nat) :=
    firstn n (sha256 (pkSeed ++ zeros (64 - n) ++ compress ad ++ m1)).

  (* ---- SHA2, categories 3 and 5: F and PRF stay on SHA-256, H, Tl, HMsg, PRFmsg use SHA-512 ---- *)
  Definition sha2C35HMsg (r pkSeed pkRoot msg : bytes) (m : nat) :=
    mgf1 sha512 (r ++ pkSeed ++ sha512 (r ++ pkSeed ++ pkRoot ++ msg)) m.
  Definition sha2C35PrfMsg (skPrf optRand msg : bytes) (n : nat) := firstn n (hmac512 skPrf (optRand ++ msg)).
  Definition sha2C35H (pkSeed : bytes) (ad : address) (m2 : bytes) (n : nat) :=
    firstn n (sha512 (pkSeed ++ zeros (128 - n) ++ compress ad ++ m2)).

  Definition mk_hashes (hk : hashkind) (P : params) : hashes :=
    let n := p_n P in let m := p_m P in
    match hk with
    | HShake => mkHashes (fun r s t g => shakeHMsg r s t g m) (fun p s a => shakePrf p s a n)
                  (fun s o g => shakePrfMsg s o g n) (fun p a x => shakeF p a x n)
                  (fun p a x => shakeF p a x n) (fun p a x => shakeF p a x n)
    | HSha2C1 => mkHashes (fun r s t g => sha2C1HMsg r s t g m) (fun p s a => sha2C1Prf p s a n)
                  (fun s o g => sha2C1PrfMsg s o g n) (fun p a x => sha2C1F p a x n)
                  (fun p a x => sha2C1F p a x n) (fun p a x => sha2C1F p a x n)
    | HSha2C35 => mkHashes (fun r s t g => sha2C35HMsg r s t g m) (fun p s a => sha2C1Prf p s a n)
                  (fun s o g => sha2C35PrfMsg s o g n) (fun p a x => sha2C1F p a x n)
                  (fun p a x => sha2C35H p a x n) (fun p a x => sha2C35H p a x n)
    end.
End HASH.
