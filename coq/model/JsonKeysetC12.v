(* C12 - keyset handles through the JSON writer and reader:

     insecurecleartextkeyset.Write(h, keyset.NewJSONWriter(w)) / Read(keyset.NewJSONReader(r))
     h.WriteWithAssociatedData(keyset.NewJSONWriter(w), kek, ad) / keyset.ReadWithAssociatedData(keyset.NewJSONReader(r), kek, ad)

   The writer's TEXT is protojson's and deliberately unstable (random white
   space); what matters is what the reader makes of it.  The message is printed
   here in TWO forms and read by the reader of model/JsonKeyset.v (=
   protojson.Unmarshal, see there): write_*_json uses the model's own canonical
   form (enums as numbers, URL-alphabet unpadded base64 - the OPPOSITE of what
   protojson.Marshal emits, it exercises the number / URL branches of the
   reader), write_*_json_pj the choices protojson.Marshal makes with the options
   of keyset.NewJSONWriter (enum NAMES, standard padded base64, every field
   present: it exercises the name tables and the padded / standard branch).
   The round-trip theorems also hold for ANY text the reader reads as the
   message (proofs/JsonKeysetC12Proofs.v json_cleartext_read_any_text).  The encrypted form carries keyset_info (getKeysetInfo: type URL,
   status, id, prefix type of every key) next to the ciphertext of the BINARY
   keyset; the reader parses it and does not look at it.
   Enum values: model/Serial.v keeps an enum as the uint64 of its varint (a
   negative int32 sign-extended), model/JsonKeyset.v as that value mod 2^32.
   No proofs here: proofs/JsonKeysetC12Proofs.v. *)
From Coq Require Import List NArith Bool.
From Tink Require Import Bytes ProtoWire Serial JsonKeyset.
Import ListNotations.
Open Scope N_scope.

Definition enum_to_j (n : N) : N := n mod 4294967296.
Definition enum_of_j (e : N) : N := if e <? 2147483648 then e else e + (18446744073709551616 - 4294967296).

Definition keydata_to_j (d : pkeydata) : jkeydata := mkJD (kd_url d) (kd_value d) (enum_to_j (kd_mat d)).
Definition key_to_j (k : pkey) : jkey :=
  mkJK (option_map keydata_to_j (pk_data k)) (enum_to_j (pk_status k)) (pk_id k) (enum_to_j (pk_prefix k)).
Definition keyset_to_j (ks : pkeyset) : jkeyset := mkJKS (pks_primary ks) (map key_to_j (pks_keys ks)).

Definition keydata_of_j (d : jkeydata) : pkeydata := mkKeyData (jd_url d) (jd_value d) (enum_of_j (jd_mat d)).
Definition key_of_j (k : jkey) : pkey :=
  mkPkey (option_map keydata_of_j (jk_data k)) (enum_of_j (jk_status k)) (jk_id k) (enum_of_j (jk_prefix k)).
Definition keyset_of_j (ks : jkeyset) : pkeyset := mkPkeyset (jks_primary ks) (map key_of_j (jks_keys ks)).

(* keyset/handle.go getKeysetInfo *)
Definition keyinfo_of_key (k : pkey) : jkeyinfo :=
  mkJI (match pk_data k with Some d => kd_url d | None => [] end)
       (enum_to_j (pk_status k)) (pk_id k) (enum_to_j (pk_prefix k)).
Definition info_of_keyset (ks : pkeyset) : jinfo := mkJInfo (pks_primary ks) (map keyinfo_of_key (pks_keys ks)).

(* keyset.NewJSONWriter(w).Write / keyset.NewJSONReader(r).Read on proto keysets *)
Definition write_keyset_json (ks : pkeyset) : bytes := json_text_of_keyset (keyset_to_j ks).
Definition read_keyset_json (s : bytes) : option pkeyset := option_map keyset_of_j (keyset_of_json_text s).
(* the same message in the form protojson.Marshal gives it (modulo white space and string escapes) *)
Definition write_keyset_json_pj (ks : pkeyset) : bytes := json_text_pj_of_keyset (keyset_to_j ks).

Section Handles.
  Variable K : Type.
  Variable ser_k : K -> option kser.
  Variable par_k : kser -> option K.

  Definition write_cleartext_json (es : list (entry K)) : option bytes :=
    option_map write_keyset_json (entries_to_proto_keyset K ser_k es).
  Definition write_cleartext_json_pj (es : list (entry K)) : option bytes :=
    option_map write_keyset_json_pj (entries_to_proto_keyset K ser_k es).
  Definition read_cleartext_json (s : bytes) : option (list (entry K)) :=
    match read_keyset_json s with
    | Some ks => match pks_keys ks with [] => None | _ => handle_from_proto K par_k ks end
    | None => None
    end.

  Variable aead_enc : bytes -> bytes -> bytes.          (* associated data, plaintext *)
  Variable aead_dec : bytes -> bytes -> option bytes.   (* associated data, ciphertext *)

  Definition write_encrypted_json (es : list (entry K)) (ad : bytes) : option bytes :=
    match entries_to_proto_keyset K ser_k es with
    | Some ks => Some (json_text_of_encrypted (mkJE (aead_enc ad (write_keyset ks)) (Some (info_of_keyset ks))))
    | None => None
    end.
  Definition write_encrypted_json_pj (es : list (entry K)) (ad : bytes) : option bytes :=
    match entries_to_proto_keyset K ser_k es with
    | Some ks => Some (json_text_pj_of_encrypted (mkJE (aead_enc ad (write_keyset ks)) (Some (info_of_keyset ks))))
    | None => None
    end.
  Definition read_encrypted_json (s ad : bytes) : option (list (entry K)) :=
    match encrypted_of_json_text s with
    | Some e =>
        match aead_dec ad (je_ct e) with
        | Some pt => match read_keyset pt with Some ks => handle_from_proto K par_k ks | None => None end
        | None => None
        end
    | None => None
    end.
End Handles.

(* ---- the message a JSON text stands for, as canonical protobuf bytes (what the
   harness compares: proto.Marshal, deterministic, of what the reader returned) ---- *)
Definition keyinfo_msg (k : jkeyinfo) : msg :=
  [VBytes (ji_url k); VInt (enum_of_j (ji_status k)); VInt (ji_id k); VInt (enum_of_j (ji_prefix k))].
Definition info_msg (i : jinfo) : msg := [VInt (jn_primary i); VRep (map keyinfo_msg (jn_keys i))].
Definition encrypted_msg (e : jencrypted) : msg := [VBytes (je_ct e); VMsg (option_map info_msg (je_info e))].

Definition canon_keyset_bytes (s : bytes) : option bytes := option_map write_keyset (read_keyset_json s).
Definition canon_encrypted_bytes (s : bytes) : option bytes :=
  option_map (fun e => encode encrypted_keyset_schema (encrypted_msg e)) (encrypted_of_json_text s).
