(* Interleaving semantics for property C18.  Threads run calls; a call is a
   sequence of atomic steps, each of which reads the shared state (the
   primitive/handle/registry object) and updates the call's own local state and,
   possibly, the shared state.  A schedule picks which thread moves next.
   No proofs here: proofs/SchedProofs.v. *)
From Coq Require Import List Arith Bool.
Import ListNotations.

Section Sched.
  Variables Shared Local : Type.
  (* one atomic step of a call *)
  Variable step : Shared -> Local -> Shared * Local.

  (* a thread: local state of its current call and the number of steps left *)
  Definition thread := (Local * nat)%type.

  (* running a call alone *)
  Fixpoint run_alone (sh : Shared) (l : Local) (n : nat) : Shared * Local :=
    match n with
    | O => (sh, l)
    | S n' => let '(sh', l') := step sh l in run_alone sh' l' n'
    end.

  Fixpoint update {A} (i : nat) (x : A) (l : list A) : list A :=
    match l, i with
    | [], _ => []
    | _ :: t, O => x :: t
    | y :: t, S i' => y :: update i' x t
    end.

  (* one scheduling decision: thread i performs one step if it has any left *)
  Definition sched_step (st : Shared * list thread) (i : nat) : Shared * list thread :=
    let '(sh, ts) := st in
    match nth_error ts i with
    | Some (l, S n) => let '(sh', l') := step sh l in (sh', update i (l', n) ts)
    | _ => st
    end.

  Definition run_sched (st : Shared * list thread) (sched : list nat) : Shared * list thread :=
    fold_left sched_step sched st.

  (* a schedule is complete when every thread has finished *)
  Definition finished (ts : list thread) : Prop := forall t, In t ts -> snd t = O.
End Sched.

(* A primitive with a shared scratch buffer (the anti-pattern the property
   excludes): the call writes its argument into the scratch cell, then reads it
   back to form the result. *)
Definition scratch_step (sh : nat) (l : nat * nat * nat) : nat * (nat * nat * nat) :=
  let '(arg, pc, res) := l in
  match pc with
  | O => (arg, (arg, 1, res))        (* scratch := arg *)
  | _ => (sh, (arg, 2, sh))          (* result := scratch *)
  end.
