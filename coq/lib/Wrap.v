(* Fixed-width integer wrap-around used by the regenerated (gen/) scalar
   functions: every Go arithmetic operation of static type uintN / intN is
   emitted as the unbounded Z operation followed by wrapu N / wraps N. *)
From Coq Require Import ZArith Lia Bool.
Open Scope Z_scope.

Definition wrapu (w : Z) (x : Z) : Z := x mod 2 ^ w.
Definition wraps (w : Z) (x : Z) : Z := (x + 2 ^ (w - 1)) mod 2 ^ w - 2 ^ (w - 1).

Lemma wrapu_small w x : 0 <= x < 2 ^ w -> wrapu w x = x.
Proof. intros H. unfold wrapu. apply Z.mod_small. exact H. Qed.

Lemma wraps_small w x : 0 < w -> - 2 ^ (w - 1) <= x < 2 ^ (w - 1) -> wraps w x = x.
Proof.
  intros Hw H. unfold wraps.
  assert (E : 2 ^ w = 2 * 2 ^ (w - 1)).
  { replace w with (Z.succ (w - 1)) at 1 by lia. rewrite Z.pow_succ_r by lia. reflexivity. }
  rewrite Z.mod_small by lia. lia.
Qed.

Lemma wrapu_range w x : 0 <= w -> 0 <= wrapu w x < 2 ^ w.
Proof. intros Hw. unfold wrapu. apply Z.mod_pos_bound. apply Z.pow_pos_nonneg; lia. Qed.

(* concrete widths, so that lia sees numerals *)
Lemma wrapu32 x : wrapu 32 x = x mod 4294967296. Proof. reflexivity. Qed.
Lemma wrapu64 x : wrapu 64 x = x mod 18446744073709551616. Proof. reflexivity. Qed.
Lemma wraps32 x : wraps 32 x = (x + 2147483648) mod 4294967296 - 2147483648. Proof. reflexivity. Qed.
Lemma wraps64 x : wraps 64 x = (x + 9223372036854775808) mod 18446744073709551616 - 9223372036854775808.
Proof. reflexivity. Qed.

Lemma wrapu32_small x : 0 <= x < 4294967296 -> wrapu 32 x = x.
Proof. intros; apply wrapu_small; simpl; lia. Qed.
Lemma wrapu64_small x : 0 <= x < 18446744073709551616 -> wrapu 64 x = x.
Proof. intros; apply wrapu_small; simpl; lia. Qed.
Lemma wraps32_small x : -2147483648 <= x < 2147483648 -> wraps 32 x = x.
Proof. intros; apply wraps_small; simpl; lia. Qed.
Lemma wraps64_small x : -9223372036854775808 <= x < 9223372036854775808 -> wraps 64 x = x.
Proof. intros; apply wraps_small; simpl; lia. Qed.

Lemma shiftr_div x n : 0 <= n -> Z.shiftr x n = x / 2 ^ n.
Proof. intros. now rewrite Z.shiftr_div_pow2. Qed.
Lemma shiftl_mul x n : 0 <= n -> Z.shiftl x n = x * 2 ^ n.
Proof. intros. now rewrite Z.shiftl_mul_pow2. Qed.

Lemma land_ones_mod x n : 0 <= n -> Z.land x (2 ^ n - 1) = x mod 2 ^ n.
Proof. intros. replace (2 ^ n - 1) with (Z.ones n) by (rewrite Z.ones_equiv; lia). now rewrite Z.land_ones. Qed.

Lemma land_disjoint hi lo n : 0 <= n -> 0 <= lo < 2 ^ n -> 0 <= hi -> Z.land (hi * 2 ^ n) lo = 0.
Proof.
  intros Hn Hlo Hhi. rewrite <- Z.shiftl_mul_pow2 by lia.
  apply Z.bits_inj'; intros k Hk. rewrite Z.land_spec, Z.bits_0.
  destruct (Z.lt_ge_cases k n) as [Hlt|Hge].
  - rewrite Z.shiftl_spec_low by lia. reflexivity.
  - destruct (Z.eq_dec lo 0) as [->|Hne]; [rewrite Z.bits_0; apply andb_false_r|].
    rewrite (Z.bits_above_log2 lo k); [apply andb_false_r | lia |].
    apply Z.lt_le_trans with n; [|lia]. apply Z.log2_lt_pow2; lia.
Qed.

Lemma lor_disjoint_add hi lo n : 0 <= n -> 0 <= lo < 2 ^ n -> 0 <= hi ->
  Z.lor (hi * 2 ^ n) lo = hi * 2 ^ n + lo.
Proof.
  intros Hn Hlo Hhi. pose proof (land_disjoint hi lo n Hn Hlo Hhi) as H.
  rewrite <- Z.lxor_lor by exact H. symmetry. apply Z.add_nocarry_lxor. exact H.
Qed.
