(* Arithmetic the OCaml glue (ocaml/common.ml) needs from every extracted
   model: list these three in every Extraction command. *)
From Coq Require Import NArith.
Definition xb_add := N.add.
Definition xb_mul := N.mul.
Definition xb_div_eucl := N.div_eucl.
