(* Byte strings as lists of N, with the operations the models share.
   A byte is an N below 256 (wfb); functions are total on all lists. *)
From Coq Require Import List NArith Bool Lia.
Import ListNotations.
Open Scope N_scope.

Definition bytes := list N.
Definition wfb (b : bytes) : Prop := Forall (fun x => x < 256) b.

(* three-valued outcome: every Go slice expression of a model is a checked
   slice, so "never panics" is a theorem about the model *)
Inductive outcome (A : Type) := Ok (a : A) | Err | Panic.
Arguments Ok {A} a. Arguments Err {A}. Arguments Panic {A}.

Definition bind {A B} (o : outcome A) (f : A -> outcome B) : outcome B :=
  match o with Ok a => f a | Err => Err | Panic => Panic end.

(* Go s[lo:hi] on a slice of length len s (capacity = length): Panic when out of range *)
Definition slice (lo hi : nat) (s : bytes) : outcome bytes :=
  if (Nat.leb lo hi && Nat.leb hi (length s))%bool then Ok (firstn (hi - lo) (skipn lo s)) else Panic.

Fixpoint beq (a b : bytes) : bool :=
  match a, b with
  | [], [] => true
  | x :: a', y :: b' => N.eqb x y && beq a' b'
  | _, _ => false
  end.

(* crypto/subtle.XORBytes semantics on values: min length *)
Fixpoint xorb (a b : bytes) : bytes :=
  match a, b with
  | x :: a', y :: b' => N.lxor x y :: xorb a' b'
  | _, _ => []
  end.

Definition zeros (n : nat) : bytes := repeat 0 n.

(* big-endian / little-endian fixed-width encodings (value taken mod 256^n) *)
Fixpoint le_bytes (n : nat) (x : N) : bytes :=
  match n with O => [] | S k => (x mod 256) :: le_bytes k (x / 256) end.
Definition be_bytes (n : nat) (x : N) : bytes := rev (le_bytes n x).
Fixpoint le_val (b : bytes) : N :=
  match b with [] => 0 | x :: t => x + 256 * le_val t end.
Definition be_val (b : bytes) : N := le_val (rev b).

(* split into chunks of n bytes (last one possibly short); fuel = length *)
Fixpoint chunks_fuel (fuel n : nat) (b : bytes) : list bytes :=
  match fuel with
  | O => []
  | S f => match b with
           | [] => []
           | _ => firstn n b :: chunks_fuel f n (skipn n b)
           end
  end.
Definition chunks (n : nat) (b : bytes) : list bytes := chunks_fuel (length b) n b.

(* ---- basic facts ---- *)
Lemma beq_eq a b : beq a b = true <-> a = b.
Proof.
  revert b; induction a as [|x a IH]; destruct b as [|y b]; simpl; split; intros H;
    try reflexivity; try discriminate.
  - apply andb_true_iff in H. destruct H as [H1 H2]. apply N.eqb_eq in H1. apply IH in H2. congruence.
  - inversion H; subst. rewrite N.eqb_refl. simpl. apply IH. reflexivity.
Qed.

Lemma beq_refl a : beq a a = true.
Proof. apply beq_eq. reflexivity. Qed.

Lemma xorb_length a b : length (xorb a b) = Nat.min (length a) (length b).
Proof. revert b; induction a as [|x a IH]; destruct b; simpl; auto. Qed.

Lemma xorb_nil_r a : xorb a [] = [].
Proof. destruct a; reflexivity. Qed.

Lemma xorb_cancel a b : length a = length b -> xorb (xorb a b) b = a.
Proof.
  revert b; induction a as [|x a IH]; destruct b as [|y b]; simpl; intros H; try discriminate; auto.
  rewrite N.lxor_assoc, N.lxor_nilpotent, N.lxor_0_r. f_equal. apply IH. lia.
Qed.

Lemma xorb_comm a b : xorb a b = xorb b a.
Proof. revert b; induction a as [|x a IH]; destruct b; simpl; auto. rewrite N.lxor_comm, IH. reflexivity. Qed.

Lemma xorb_assoc a b c : xorb (xorb a b) c = xorb a (xorb b c).
Proof.
  revert b c; induction a as [|x a IH]; destruct b, c; simpl; auto.
  rewrite N.lxor_assoc, IH. reflexivity.
Qed.

Lemma xorb_zeros_r a n : (length a <= n)%nat -> xorb a (zeros n) = a.
Proof.
  revert n; induction a as [|x a IH]; simpl; intros n H; auto.
  destruct n; simpl; [lia|]. rewrite N.lxor_0_r. f_equal. apply IH. lia.
Qed.

Lemma xorb_app a1 a2 b1 b2 : length a1 = length b1 ->
  xorb (a1 ++ a2) (b1 ++ b2) = xorb a1 b1 ++ xorb a2 b2.
Proof.
  revert b1; induction a1 as [|x a1 IH]; destruct b1; simpl; intros H; try discriminate; auto.
  f_equal. apply IH. lia.
Qed.

Lemma lxor_lt_256 x y : x < 256 -> y < 256 -> N.lxor x y < 256.
Proof.
  intros Hx Hy. destruct (N.eq_dec (N.lxor x y) 0) as [E|E]; [rewrite E; lia|].
  apply N.log2_lt_pow2 with (b := 8); [lia|].
  eapply N.le_lt_trans; [apply N.log2_lxor|].
  apply N.max_lub_lt.
  - destruct (N.eq_dec x 0) as [->|]; [simpl; lia|]. apply N.log2_lt_pow2; lia.
  - destruct (N.eq_dec y 0) as [->|]; [simpl; lia|]. apply N.log2_lt_pow2; lia.
Qed.

Lemma xorb_wf a b : wfb a -> wfb b -> wfb (xorb a b).
Proof.
  revert b; induction a as [|x a IH]; destruct b as [|y b]; simpl; intros Ha Hb; try constructor.
  - inversion Ha; inversion Hb; subst. apply lxor_lt_256; auto.
  - inversion Ha; inversion Hb; subst. apply IH; auto.
Qed.

Lemma zeros_length n : length (zeros n) = n.
Proof. apply repeat_length. Qed.

Lemma zeros_wf n : wfb (zeros n).
Proof. unfold wfb, zeros. induction n; simpl; constructor; auto; lia. Qed.

Lemma le_bytes_length n x : length (le_bytes n x) = n.
Proof. revert x; induction n; simpl; auto. Qed.

Lemma be_bytes_length n x : length (be_bytes n x) = n.
Proof. unfold be_bytes. rewrite rev_length. apply le_bytes_length. Qed.

Lemma le_bytes_wf n x : wfb (le_bytes n x).
Proof. revert x; induction n; simpl; intros x; constructor; [apply N.mod_lt; lia | apply IHn]. Qed.

Lemma be_bytes_wf n x : wfb (be_bytes n x).
Proof. unfold be_bytes, wfb. apply Forall_rev. apply le_bytes_wf. Qed.

Lemma le_val_le_bytes n x : le_val (le_bytes n x) = x mod (256 ^ N.of_nat n).
Proof.
  revert x; induction n as [|n IH]; intros x.
  - simpl. rewrite N.mod_1_r. reflexivity.
  - cbn [le_bytes le_val]. rewrite IH. rewrite Nnat.Nat2N.inj_succ, N.pow_succ_r by lia.
    rewrite (N.mod_mul_r x 256 (256 ^ N.of_nat n)); try lia.
Qed.

Lemma be_val_be_bytes n x : be_val (be_bytes n x) = x mod (256 ^ N.of_nat n).
Proof. unfold be_val, be_bytes. rewrite rev_involutive. apply le_val_le_bytes. Qed.

Lemma wfb_app a b : wfb (a ++ b) <-> wfb a /\ wfb b.
Proof. unfold wfb. apply Forall_app. Qed.


Lemma wfb_firstn n a : wfb a -> wfb (firstn n a).
Proof.
  intros H. rewrite <- (firstn_skipn n a) in H. apply wfb_app in H. apply H.
Qed.

Lemma wfb_skipn n a : wfb a -> wfb (skipn n a).
Proof.
  intros H. rewrite <- (firstn_skipn n a) in H. apply wfb_app in H. apply H.
Qed.
