From Coq Require Import List NArith.
From Tink Require Import XBase Manager Prefix Factory.
Require Import ExtrOcamlBasic.
Extraction "m.ml" xb_add xb_mul xb_div_eucl run init_state lift
  accept_o mac_accept_o accept_all produce primary_loop primary_handle
  prf_map prf_primary_id prf_primary prefix_of.
