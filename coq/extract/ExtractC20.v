From Coq Require Import List NArith.
From Tink Require Import XBase Bytes Manager Rand.
Require Import ExtrOcamlBasic.
Extraction "m.ml" xb_add xb_mul xb_div_eucl run r_tape r_unavail draws_from_reader.
