From Coq Require Import List NArith.
From Tink Require Import XBase Manager.
Require Import ExtrOcamlBasic.
Extraction "m.ml" xb_add xb_mul xb_div_eucl run init_state shandles sdraws.
