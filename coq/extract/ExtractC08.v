From Coq Require Import List NArith.
From Tink Require Import XBase Cmac Siv Kwp.
Require Import ExtrOcamlBasic.
Extraction "m.ml" xb_add xb_mul xb_div_eucl
  cmac_impl split_key siv_encrypt siv_decrypt daead_encrypt daead_decrypt
  s2v_rfc5297 siv_encrypt_rfc5297
  kwp_key_ok kwp_wrap kwp_unwrap kwp_api_wrap kwp_api_unwrap wrap_rfc5649.
