From Coq Require Import List NArith.
From Tink Require Import XBase Stream.
Require Import ExtrOcamlBasic.
Extraction "m.ml" xb_add xb_mul xb_div_eucl
  sink_write read_full new_writer wwrite wclose new_reader read
  toy_encs toy_decs encode_stream
  key_valid hdr_len header derive seg_enc seg_dec k_wparams k_rparams
  new_enc_writer new_dec_reader dr_new dr_read.
