From Coq Require Import List NArith ZArith.
From Tink Require Import XBase Bytes DER Sig Rsa8017.
Require Import ExtrOcamlBasic.
Extraction "m.ml" xb_add xb_mul xb_div_eucl
  be_val be_min der_decode der_encode parse_sig
  p1363_size p1363_encode p1363_decode p1363_decode_any
  prefix ecdsa_params_ok rsa_ctor_ok rsa_sig_len
  ecdsa_verify ecdsa_frame ed25519_verify pkcs1_verify pss_verify std_pkcs1 std_pss rfc_pkcs1_verify rfc_pss_verify go_pss_verify.
