From Coq Require Import List NArith.
From Tink Require Import XBase Bytes Cmac Hmac Mac HmacCode.
Require Import ExtrOcamlBasic.
Extraction "m.ml" xb_add xb_mul xb_div_eucl build build_set pprefix pcompute pverify std_mac output_prefix hm_new hm_run acc_init acc_write block_size.
