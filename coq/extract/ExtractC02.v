From Coq Require Import List NArith.
From Tink Require Import XBase Bytes AeadFrame Ctr EtM Polyval GcmSiv Cmac Xaes Envelope EnvelopeDek EnvelopeDekEtm AeadKeyset.
Require Import ExtrOcamlBasic.
Extraction "m.ml" xb_add xb_mul xb_div_eucl output_prefix
  aesgcm_enc aesgcm_dec chacha_enc chacha_dec chacha_subtle_enc chacha_subtle_dec
  xchacha_enc xchacha_dec xchacha_subtle_dec
  etm_enc etm_dec etm_subtle_dec etm_valid
  siv_enc siv_dec polyval_impl polyval_spec
  xaes_enc xaes_dec
  env_enc env_dec build_envelope parse_envelope dek_proto dek_key
  dek_enc dek_dec dek_ivlen dek_tag etm_dek_enc etm_dek_dec etm_dek_proto
  na_dec_len_only chacha_open_max chacha_tink_ct_max
  ks_dec.
