From Coq Require Import List NArith.
From Tink Require Import XBase ProtoWire SerialTables Serial JsonKeyset JsonKeysetC12.
Require Import ExtrOcamlBasic.
Extraction "m.ml" xb_add xb_mul xb_div_eucl
  encode decode new_key_serialization ktype_of parse_key serialize_key parse_params serialize_params
  public_of dser dpar dpub handle_from_proto write_cleartext read_cleartext write_encrypted read_encrypted public_handle
  keyset_schema
  canon_keyset_bytes canon_encrypted_bytes keyset_of_json_text json_text_of_keyset encrypted_of_json_text json_text_of_encrypted
  write_cleartext_json read_cleartext_json
  json_text_pj_of_keyset json_text_pj_of_encrypted write_cleartext_json_pj.
