From Coq Require Import List NArith.
From Tink Require Import XBase Untrusted Secrets.
Require Import ExtrOcamlBasic.
Extraction "m.ml" xb_add xb_mul xb_div_eucl
  decode_keyset decode_encrypted read read_no_secrets handle_no_secrets read_encrypted any_unmodelled
  info_of_handle info_of_keyset proto_of_handle write_no_secrets write_encrypted_binary encrypted_ct ser_keyset writer_history.
