From Coq Require Import List NArith.
From Tink Require Import XBase Hpke Ecies.
Require Import ExtrOcamlBasic.
Extraction "m.ml" xb_add xb_mul xb_div_eucl
  output_prefix public_from_private hpke_encrypt hpke_decrypt hpke_recompute encap decap key_schedule
  primitive_supported dem_iv_size ecies_encrypt ecies_decrypt ecies_recompute.
