From Coq Require Import List NArith.
From Tink Require Import XBase SlhdsaBase SlhdsaHash SlhdsaParams Slhdsa.
Require Import ExtrOcamlBasic.
Extraction "m.ml" xb_add xb_mul xb_div_eucl mk_hashes keygen sign signDeterministic verify tink_sign tink_verify
  SLH_DSA_SHA2_128s SLH_DSA_SHAKE_128s SLH_DSA_SHA2_128f SLH_DSA_SHAKE_128f
  SLH_DSA_SHA2_192s SLH_DSA_SHAKE_192s SLH_DSA_SHA2_192f SLH_DSA_SHAKE_192f
  SLH_DSA_SHA2_256s SLH_DSA_SHAKE_256s SLH_DSA_SHA2_256f SLH_DSA_SHAKE_256f.
