From Coq Require Import List NArith.
From Tink Require Import XBase Bytes Cmac Hmac Hkdf Prf HmacCode HkdfCode.
Require Import ExtrOcamlBasic.
Extraction "m.ml" xb_add xb_mul xb_div_eucl subtle_new prf_key_ok new_prf_set compute_primary compute_hkdf set_lookup primary_id prfs new_code rd_reads acc_init acc_write block_size digest_size.
