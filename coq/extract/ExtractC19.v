From Coq Require Import List NArith.
From Tink Require Import XBase Heap.
Require Import ExtrOcamlBasic.
Extraction "m.ml" xb_add xb_mul xb_div_eucl run_prog observe.
