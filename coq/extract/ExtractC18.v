From Coq Require Import List NArith.
From Tink Require Import XBase Sched.
Require Import ExtrOcamlBasic.
Extraction "m.ml" xb_add xb_mul xb_div_eucl scratch_step.
