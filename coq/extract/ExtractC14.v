From Coq Require Import List NArith.
From Tink Require Import XBase Untrusted UntrustedParams JsonKeyset JsonKeysetC14.
Require Import ExtrOcamlBasic.
Extraction "m.ml" xb_add xb_mul xb_div_eucl
  decode_keyset decode_encrypted read read_proto read_no_secrets handle_no_secrets
  read_encrypted any_unmodelled prim_ok out_prefix shown_prefix shown_req usable
  decode_template parse_params_full modelled_url
  xread xread_proto xread_no_secrets xhandle_no_secrets xread_encrypted prim_ok_x xshown_prefix xshown_req
  json_keyset encrypted_of_json_text xread_json xread_json_no_secrets xread_json_encrypted.
