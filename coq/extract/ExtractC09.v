From Coq Require Import List NArith ZArith.
From Tink Require Import XBase Bytes Base64url Jwt Jwk Json.
Require Import ExtrOcamlBasic.
Extraction "m.ml" xb_add xb_mul xb_div_eucl
  b64_encode b64_decode tink_kid has claim_str claim_time audiences
  new_validator verify new_raw_jwt encode_parts encode jwk_roundtrip
  jwk_export jwk_import jwk_import_handle alg_name
  json_parse_text json_print_text jwk_import_text jwk_import_handle_text
  lit_class num_x json_parse_x.
