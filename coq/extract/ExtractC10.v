From Coq Require Import List NArith ZArith.
From Tink Require Import XBase MldsaScalar MldsaKernels MldsaPoly Mldsa.
Require Import ExtrOcamlBasic.
Extraction "m.ml" xb_add xb_mul xb_div_eucl
  mldsa_zetas mldsa_divBy2Gamma2
  mldsa_rZq_reduceOnce mldsa_rZq_add mldsa_rZq_sub mldsa_rZq_neg mldsa_rZq_mul
  mldsa_rZq_power2Round mldsa_rZq_scalePower2 mldsa_rZq_decompose mldsa_rZq_highBits
  mldsa_rZq_lowBits mldsa_rZq_makeHint mldsa_rZq_useHint mldsa_rZq_centeredAbs mldsa_rZq_centeredMax
  k_add k_sub k_neg k_mul k_power2Round k_scalePower2 k_decompose k_highBits k_lowBits
  k_makeHint k_useHint k_centeredAbs k_centeredMax
  ntt intt simpleBitPack bitPack simpleBitUnpack_chk bitUnpack hintBitPack hintBitUnpack
  coeffFromHalfByte rejectNTTPoly rejectBoundedPoly sampleInBall expandMask
  MLDSA44 MLDSA65 MLDSA87 publicKeyLength secretKeyLength signatureLength
  keyGenInternal pkEncode skEncode pkDecode skDecode w1Encode
  signInternal verifyInternal sign verify tinkSign tinkVerify computePrehash signPrehash
  compositeVerify compositeSignMldsaPart.
