(* Proofs about model/Sig.v: exact acceptance sets of the verifiers, codec
   round trips, no panic, sign-then-verify under the oracle laws. *)
From Coq Require Import List NArith ZArith Bool Lia Arith.
From Tink Require Import Bytes DER DERProofs Sig.
Import ListNotations.
Open Scope N_scope.

(* ------------------------------------------------------------------ *)
(* prefix handling                                                      *)

Lemma has_prefix_app p t : has_prefix p (p ++ t) = true.
Proof.
  unfold has_prefix. rewrite firstn_app, Nat.sub_diag, firstn_all, firstn_O, app_nil_r. apply beq_refl.
Qed.

Lemma has_prefix_true p s : has_prefix p s = true -> exists t, s = p ++ t.
Proof.
  unfold has_prefix. intros H. apply beq_eq in H. exists (skipn (length p) s).
  rewrite <- H at 1. symmetry. apply firstn_skipn.
Qed.

Lemma has_prefix_iff p s : has_prefix p s = true <-> exists t, s = p ++ t.
Proof.
  split; [apply has_prefix_true|]. intros [t ->]. apply has_prefix_app.
Qed.

Lemma strip_app p t : strip p (p ++ t) = Ok t.
Proof.
  unfold strip, slice. rewrite app_length.
  assert (E : (Nat.leb (length p) (length p + length t) && Nat.leb (length p + length t) (length p + length t))%bool = true).
  { apply andb_true_iff. split; apply Nat.leb_le; lia. }
  rewrite E. rewrite skipn_app, Nat.sub_diag, skipn_all, skipn_O. cbn [app].
  replace (length p + length t - length p)%nat with (length t) by lia. rewrite firstn_all. reflexivity.
Qed.

Lemma prefix_length v id : length (prefix v id) = match v with VRaw => 0%nat | _ => 5%nat end.
Proof. destruct v; cbn [prefix length]; rewrite ?be_bytes_length; reflexivity. Qed.

Lemma prefix_wf v id : wfb (prefix v id).
Proof.
  destruct v; cbn [prefix]; try apply wfb_nil; apply wfb_cons; (split; [lia|apply be_bytes_wf]).
Qed.

(* ------------------------------------------------------------------ *)
(* IEEE P1363                                                           *)

Lemma half_le n : (n / 2 <= n)%nat.
Proof. apply Nat.div_le_upper_bound; lia. Qed.

Lemma split_halves_no_panic b : split_halves b <> Panic.
Proof.
  unfold split_halves, slice. pose proof (half_le (length b)).
  assert (E1 : (Nat.leb 0 (length b / 2) && Nat.leb (length b / 2) (length b))%bool = true).
  { apply andb_true_iff. split; apply Nat.leb_le; lia. }
  assert (E2 : (Nat.leb (length b / 2) (length b) && Nat.leb (length b) (length b))%bool = true).
  { apply andb_true_iff. split; apply Nat.leb_le; lia. }
  rewrite E1. cbn [bind]. rewrite E2. cbn [bind]. discriminate.
Qed.

Lemma split_halves_spec b :
  split_halves b = Ok (be_val (firstn (length b / 2) b), be_val (skipn (length b / 2) b)).
Proof.
  unfold split_halves, slice. pose proof (half_le (length b)).
  assert (E1 : (Nat.leb 0 (length b / 2) && Nat.leb (length b / 2) (length b))%bool = true).
  { apply andb_true_iff. split; apply Nat.leb_le; lia. }
  assert (E2 : (Nat.leb (length b / 2) (length b) && Nat.leb (length b) (length b))%bool = true).
  { apply andb_true_iff. split; apply Nat.leb_le; lia. }
  rewrite E1. cbn [bind]. rewrite E2. cbn [bind].
  rewrite Nat.sub_0_r, skipn_O.
  rewrite (firstn_all2 (n := (length b - length b / 2)%nat)); [reflexivity|].
  rewrite skipn_length. lia.
Qed.

Lemma p1363_size_half c : (p1363_size c / 2 = field_size c)%nat.
Proof. destruct c; reflexivity. Qed.

Lemma be_bytes_be_val0 d : wfb d -> be_bytes (length d) (be_val d) = d.
Proof.
  intros H. pose proof (be_bytes_be_val d 0 H) as E. rewrite Nat.add_0_r in E. exact E.
Qed.

Lemma p1363_roundtrip c r s b : p1363_encode c r s = Some b -> p1363_decode c b = Ok (r, s).
Proof.
  unfold p1363_encode. intros H.
  destruct ((r <? 256 ^ N.of_nat (field_size c)) && (s <? 256 ^ N.of_nat (field_size c))) eqn:E; [|discriminate].
  apply andb_true_iff in E. destruct E as [Hr Hs]. apply N.ltb_lt in Hr, Hs.
  injection H as <-.
  unfold p1363_decode.
  assert (L : length (be_bytes (field_size c) r ++ be_bytes (field_size c) s) = p1363_size c).
  { rewrite app_length, !be_bytes_length. unfold p1363_size. lia. }
  rewrite L, Nat.eqb_refl. rewrite split_halves_spec, L, p1363_size_half.
  rewrite firstn_app, be_bytes_length, Nat.sub_diag, firstn_O, app_nil_r.
  rewrite (firstn_all2 (n := field_size c)) by (rewrite be_bytes_length; lia).
  rewrite skipn_app, be_bytes_length, Nat.sub_diag, skipn_O.
  rewrite (skipn_all2 (n := field_size c)) by (rewrite be_bytes_length; lia).
  cbn [app]. rewrite !be_val_be_bytes, !N.mod_small by assumption. reflexivity.
Qed.

Lemma p1363_decode_sound c b r s :
  wfb b -> p1363_decode c b = Ok (r, s) -> p1363_encode c r s = Some b.
Proof.
  unfold p1363_decode. intros Hw H.
  destruct (Nat.eqb (length b) (p1363_size c)) eqn:E; [|discriminate].
  apply Nat.eqb_eq in E. rewrite split_halves_spec, E, p1363_size_half in H.
  set (w := field_size c) in *.
  assert (Hx : wfb (firstn w b)) by (apply wfb_firstn; exact Hw).
  assert (Hy : wfb (skipn w b)) by (apply wfb_skipn; exact Hw).
  assert (Lx : length (firstn w b) = w).
  { apply firstn_length_le. unfold p1363_size in E. fold w in E. lia. }
  assert (Ly : length (skipn w b) = w).
  { rewrite skipn_length. unfold p1363_size in E. fold w in E. lia. }
  assert (r = be_val (firstn w b) /\ s = be_val (skipn w b)) as [-> ->] by (split; congruence).
  unfold p1363_encode. fold w.
  pose proof (be_val_bound _ Hx) as Bx. pose proof (be_val_bound _ Hy) as By.
  rewrite Lx in Bx. rewrite Ly in By.
  apply N.ltb_lt in Bx, By. rewrite Bx, By. cbn [andb].
  rewrite <- Lx at 1. rewrite be_bytes_be_val0 by exact Hx.
  rewrite <- Ly at 2. rewrite be_bytes_be_val0 by exact Hy.
  rewrite firstn_skipn. reflexivity.
Qed.

Lemma p1363_wrong_length c b : length b <> p1363_size c -> p1363_decode c b = Err.
Proof.
  intros H. unfold p1363_decode. apply Nat.eqb_neq in H. rewrite H. reflexivity.
Qed.

Lemma p1363_decode_no_panic c b : p1363_decode c b <> Panic.
Proof.
  unfold p1363_decode. destruct (Nat.eqb _ _); [apply split_halves_no_panic|discriminate].
Qed.

Lemma p1363_decode_any_no_panic b : p1363_decode_any b <> Panic.
Proof.
  unfold p1363_decode_any. destruct (_ || _ || _)%bool; [apply split_halves_no_panic|discriminate].
Qed.

Lemma p1363_encode_bounds c r s b :
  p1363_encode c r s = Some b ->
  r < 256 ^ N.of_nat (field_size c) /\ s < 256 ^ N.of_nat (field_size c) /\ length b = p1363_size c.
Proof.
  unfold p1363_encode. intros H.
  destruct ((r <? 256 ^ N.of_nat (field_size c)) && (s <? 256 ^ N.of_nat (field_size c))) eqn:E; [|discriminate].
  apply andb_true_iff in E. destruct E as [Hr Hs]. apply N.ltb_lt in Hr, Hs.
  injection H as <-. repeat split; try assumption.
  rewrite app_length, !be_bytes_length. unfold p1363_size. lia.
Qed.

Lemma p1363_encode_some c r s :
  r < 256 ^ N.of_nat (field_size c) -> s < 256 ^ N.of_nat (field_size c) ->
  exists b, p1363_encode c r s = Some b.
Proof.
  intros Hr Hs. unfold p1363_encode. apply N.ltb_lt in Hr, Hs. rewrite Hr, Hs. eexists. reflexivity.
Qed.

Lemma field_size_le c : (field_size c <= 120)%nat.
Proof. destruct c; cbn; lia. Qed.

Lemma p1363_fits c r s b : p1363_encode c r s = Some b -> der_fits (Z.of_N r) (Z.of_N s).
Proof.
  intros H. apply p1363_encode_bounds in H. destruct H as [Hr [Hs _]].
  eapply der_fits_small; [apply field_size_le|exact Hr|exact Hs].
Qed.

(* ------------------------------------------------------------------ *)
(* ECDSA                                                                *)

(* the side condition under which a DER encoding can be read back at all
   (four length octets); always true for field-sized r, s *)
Definition sig_fits (k : ecdsa_key) (r s : N) : Prop :=
  match ek_enc k with DER => der_fits (Z.of_N r) (Z.of_N s) | P1363 => True end.

Section Proofs.
  Variable H : hasht -> bytes -> bytes.
  Variable raw : curve -> bytes -> bytes -> N -> N -> bool.
  Variable ed_raw : bytes -> bytes -> bytes -> bool.
  Variable pkcs1_raw : bytes -> N -> hasht -> bytes -> bytes -> bool.
  Variable pss_raw : bytes -> N -> hasht -> N -> bytes -> bytes -> bool.

  Lemma verify_asn1_ok c pub h b :
    wfb b ->
    (verify_asn1 raw c pub h b = Ok tt <->
     exists r s, b = der_encode_N r s /\ der_fits (Z.of_N r) (Z.of_N s) /\ raw c pub h r s = true).
  Proof.
    intros Hw. unfold verify_asn1. split.
    - destruct (parse_sig b) as [[r s]|] eqn:E; [|discriminate].
      destruct (raw c pub h r s) eqn:E2; [|discriminate]. intros _.
      apply parse_sig_iff in E; [|exact Hw]. destruct E as [-> Hf]. exists r, s. auto.
    - intros [r [s [-> [Hf Hr]]]].
      assert (E : parse_sig (der_encode_N r s) = Some (r, s)).
      { apply parse_sig_iff; [apply der_encode_wf; exact Hf|auto]. }
      rewrite E, Hr. reflexivity.
  Qed.

  Lemma verify_asn1_encoded c pub h r s :
    der_fits (Z.of_N r) (Z.of_N s) ->
    verify_asn1 raw c pub h (der_encode_N r s) = if raw c pub h r s then Ok tt else Err.
  Proof.
    intros Hf. unfold verify_asn1.
    assert (E : parse_sig (der_encode_N r s) = Some (r, s)).
    { apply parse_sig_iff; [apply der_encode_wf; exact Hf|auto]. }
    rewrite E. reflexivity.
  Qed.

  Lemma verify_asn1_no_panic c pub h b : verify_asn1 raw c pub h b <> Panic.
  Proof.
    unfold verify_asn1. destruct (parse_sig b) as [[r s]|]; [|discriminate].
    destruct (raw c pub h r s); discriminate.
  Qed.

  Theorem ecdsa_verify_iff_proof k sig msg :
    wfb sig ->
    (ecdsa_verify H raw k sig msg = Ok tt <->
     exists r s, ecdsa_frame k r s = Some sig /\ sig_fits k r s /\
       raw (ek_curve k) (ek_pub k) (H (ek_hash k) (msg ++ suffix (ek_variant k))) r s = true).
  Proof.
    intros Hw. unfold ecdsa_verify, ecdsa_frame, ecdsa_encode, sig_fits.
    set (p := prefix (ek_variant k) (ek_id k)).
    set (h := H (ek_hash k) (msg ++ suffix (ek_variant k))).
    split.
    - destruct (has_prefix p sig) eqn:Hp; [|discriminate]. cbn [negb].
      apply has_prefix_true in Hp. destruct Hp as [t ->].
      rewrite strip_app. cbn [bind].
      apply wfb_app in Hw. destruct Hw as [_ Hwt].
      destruct (ek_enc k).
      + intros Hv. apply verify_asn1_ok in Hv; [|exact Hwt].
        destruct Hv as [r [s [-> [Hf Hr]]]]. exists r, s. auto.
      + destruct (p1363_decode (ek_curve k) t) as [[r s]| |] eqn:E; try discriminate.
        cbn [bind fst snd]. intros Hv.
        apply p1363_decode_sound in E; [|exact Hwt].
        pose proof (p1363_fits _ _ _ _ E) as Hf.
        rewrite verify_asn1_encoded in Hv by exact Hf.
        destruct (raw (ek_curve k) (ek_pub k) h r s) eqn:Hr; [|discriminate].
        exists r, s. rewrite E. auto.
    - intros [r [s [Hfr [Hf Hr]]]].
      destruct (ek_enc k).
      + injection Hfr as <-. rewrite has_prefix_app. cbn [negb]. rewrite strip_app. cbn [bind].
        rewrite verify_asn1_encoded by exact Hf. rewrite Hr. reflexivity.
      + destruct (p1363_encode (ek_curve k) r s) as [e|] eqn:E; [|discriminate].
        injection Hfr as <-. rewrite has_prefix_app. cbn [negb]. rewrite strip_app. cbn [bind].
        rewrite (p1363_roundtrip _ _ _ _ E). cbn [bind fst snd].
        rewrite verify_asn1_encoded by (eapply p1363_fits; exact E). rewrite Hr. reflexivity.
  Qed.

  Theorem ecdsa_verify_no_panic_proof k sig msg : ecdsa_verify H raw k sig msg <> Panic.
  Proof.
    unfold ecdsa_verify.
    destruct (has_prefix (prefix (ek_variant k) (ek_id k)) sig) eqn:Hp; [|discriminate]. cbn [negb].
    apply has_prefix_true in Hp. destruct Hp as [t ->]. rewrite strip_app. cbn [bind].
    destruct (ek_enc k).
    - apply verify_asn1_no_panic.
    - pose proof (p1363_decode_no_panic (ek_curve k) t) as Hn.
      destruct (p1363_decode (ek_curve k) t) as [[r s]| |]; cbn [bind]; try discriminate; try congruence.
      apply verify_asn1_no_panic.
  Qed.

  Theorem ecdsa_wrong_prefix_proof k sig msg :
    (forall t, sig <> prefix (ek_variant k) (ek_id k) ++ t) -> ecdsa_verify H raw k sig msg = Err.
  Proof.
    intros Hn. unfold ecdsa_verify.
    destruct (has_prefix (prefix (ek_variant k) (ek_id k)) sig) eqn:Hp; [|reflexivity].
    apply has_prefix_true in Hp. destruct Hp as [t ->]. exfalso. eapply Hn. reflexivity.
  Qed.

  (* wrong-length P1363 bodies are rejected whatever they contain *)
  Theorem ecdsa_p1363_wrong_length_proof k t msg :
    ek_enc k = P1363 -> length t <> p1363_size (ek_curve k) ->
    ecdsa_verify H raw k (prefix (ek_variant k) (ek_id k) ++ t) msg = Err.
  Proof.
    intros He Hl. unfold ecdsa_verify. rewrite has_prefix_app. cbn [negb]. rewrite strip_app. cbn [bind].
    rewrite He. rewrite p1363_wrong_length by exact Hl. reflexivity.
  Qed.

  (* sign-then-verify *)
  Variable sign_rs : curve -> bytes -> bytes -> bytes -> N * N.
  Variable pub_of : curve -> bytes -> bytes.

  Theorem ecdsa_sign_verify_proof k sk rnd msg :
    (forall c sk h rnd, raw c (pub_of c sk) h (fst (sign_rs c sk h rnd)) (snd (sign_rs c sk h rnd)) = true) ->
    (forall c sk h rnd, fst (sign_rs c sk h rnd) < 256 ^ N.of_nat (field_size c) /\
                        snd (sign_rs c sk h rnd) < 256 ^ N.of_nat (field_size c)) ->
    ek_pub k = pub_of (ek_curve k) sk ->
    exists sig, ecdsa_sign H sign_rs k sk rnd msg = Some sig /\
                wfb sig /\ ecdsa_verify H raw k sig msg = Ok tt.
  Proof.
    intros Hlaw Hrange Hpub. unfold ecdsa_sign.
    set (h := H (ek_hash k) (msg ++ suffix (ek_variant k))).
    set (rs := sign_rs (ek_curve k) sk h rnd).
    pose proof (Hrange (ek_curve k) sk h rnd) as [Br Bs]. fold rs in Br, Bs.
    pose proof (Hlaw (ek_curve k) sk h rnd) as Hv. fold rs in Hv. rewrite <- Hpub in Hv.
    assert (Hf : der_fits (Z.of_N (fst rs)) (Z.of_N (snd rs))).
    { eapply der_fits_small; [apply field_size_le|exact Br|exact Bs]. }
    assert (Hsome : exists sig, ecdsa_frame k (fst rs) (snd rs) = Some sig /\ wfb sig).
    { unfold ecdsa_frame, ecdsa_encode. destruct (ek_enc k).
      - eexists. split; [reflexivity|]. apply wfb_app. split; [apply prefix_wf|apply der_encode_wf; exact Hf].
      - destruct (p1363_encode_some (ek_curve k) _ _ Br Bs) as [b Hb]. rewrite Hb.
        eexists. split; [reflexivity|]. apply wfb_app. split; [apply prefix_wf|].
        unfold p1363_encode in Hb. destruct (_ && _); [|discriminate]. injection Hb as <-.
        apply wfb_app. split; apply be_bytes_wf. }
    destruct Hsome as [sig [Hs Hw]]. exists sig. split; [exact Hs|]. split; [exact Hw|].
    apply ecdsa_verify_iff_proof; [exact Hw|].
    exists (fst rs), (snd rs). split; [exact Hs|]. split; [|exact Hv].
    unfold sig_fits. destruct (ek_enc k); [exact Hf|exact I].
  Qed.

  (* ---------------------------------------------------------------- *)
  (* Ed25519                                                            *)

  Theorem ed25519_verify_iff_proof v id pub sig msg :
    ed25519_verify ed_raw v id pub sig msg = Ok tt <->
    exists body, sig = prefix v id ++ body /\ length body = 64%nat /\
                 ed_raw pub (msg ++ suffix v) body = true.
  Proof.
    unfold ed25519_verify. split.
    - destruct (has_prefix (prefix v id) sig) eqn:Hp; [|discriminate]. cbn [negb].
      apply has_prefix_true in Hp. destruct Hp as [t ->]. rewrite strip_app. cbn [bind].
      destruct (Nat.eqb (length t) 64) eqn:El; [|discriminate]. cbn [negb].
      destruct (ed_raw pub (msg ++ suffix v) t) eqn:Er; [|discriminate]. intros _.
      exists t. apply Nat.eqb_eq in El. auto.
    - intros [body [-> [Hl Hr]]]. rewrite has_prefix_app. cbn [negb]. rewrite strip_app. cbn [bind].
      apply Nat.eqb_eq in Hl. rewrite Hl. cbn [negb]. rewrite Hr. reflexivity.
  Qed.

  Theorem ed25519_verify_no_panic_proof v id pub sig msg : ed25519_verify ed_raw v id pub sig msg <> Panic.
  Proof.
    unfold ed25519_verify.
    destruct (has_prefix (prefix v id) sig) eqn:Hp; [|discriminate]. cbn [negb].
    apply has_prefix_true in Hp. destruct Hp as [t ->]. rewrite strip_app. cbn [bind].
    destruct (negb _); [discriminate|]. destruct (ed_raw _ _ _); discriminate.
  Qed.

  Variable ed_sign : bytes -> bytes -> bytes.
  Variable ed_pub_of : bytes -> bytes.

  Theorem ed25519_sign_verify_proof v id seed msg :
    (forall seed m, ed_raw (ed_pub_of seed) m (ed_sign seed m) = true) ->
    (forall seed m, length (ed_sign seed m) = 64%nat) ->
    exists sig, ed25519_sign ed_sign v id seed msg = Ok sig /\
                ed25519_verify ed_raw v id (ed_pub_of seed) sig msg = Ok tt.
  Proof.
    intros Hlaw Hlen. unfold ed25519_sign. rewrite Hlen. cbn [Nat.eqb negb].
    eexists. split; [reflexivity|]. apply ed25519_verify_iff_proof.
    exists (ed_sign seed (msg ++ suffix v)). unfold frame. auto.
  Qed.

  (* ---------------------------------------------------------------- *)
  (* RSA                                                                *)

  Theorem pkcs1_verify_iff_proof k sig msg :
    pkcs1_verify H pkcs1_raw k sig msg = Ok tt <->
    exists body, sig = prefix (rk_variant k) (rk_id k) ++ body /\
      pkcs1_raw (rk_n k) (rk_e k) (rk_hash k) (H (rk_hash k) (msg ++ suffix (rk_variant k))) body = true.
  Proof.
    unfold pkcs1_verify. split.
    - destruct (has_prefix _ sig) eqn:Hp; [|discriminate]. cbn [negb].
      apply has_prefix_true in Hp. destruct Hp as [t ->]. rewrite strip_app. cbn [bind].
      destruct (pkcs1_raw _ _ _ _ t) eqn:Er; [|discriminate]. intros _. exists t. auto.
    - intros [body [-> Hr]]. rewrite has_prefix_app. cbn [negb]. rewrite strip_app. cbn [bind].
      rewrite Hr. reflexivity.
  Qed.

  Theorem pss_verify_iff_proof k sig msg :
    pss_verify H pss_raw k sig msg = Ok tt <->
    exists body, sig = prefix (rk_variant k) (rk_id k) ++ body /\
      pss_raw (rk_n k) (rk_e k) (rk_hash k) (rk_salt k) (H (rk_hash k) (msg ++ suffix (rk_variant k))) body = true.
  Proof.
    unfold pss_verify. split.
    - destruct (has_prefix _ sig) eqn:Hp; [|discriminate]. cbn [negb].
      apply has_prefix_true in Hp. destruct Hp as [t ->]. rewrite strip_app. cbn [bind].
      destruct (pss_raw _ _ _ _ _ t) eqn:Er; [|discriminate]. intros _. exists t. auto.
    - intros [body [-> Hr]]. rewrite has_prefix_app. cbn [negb]. rewrite strip_app. cbn [bind].
      rewrite Hr. reflexivity.
  Qed.

  Theorem rsa_verify_no_panic_proof k sig msg :
    pkcs1_verify H pkcs1_raw k sig msg <> Panic /\ pss_verify H pss_raw k sig msg <> Panic.
  Proof.
    unfold pkcs1_verify, pss_verify.
    destruct (has_prefix _ sig) eqn:Hp; [|split; discriminate]. cbn [negb].
    apply has_prefix_true in Hp. destruct Hp as [t ->]. rewrite strip_app. cbn [bind].
    split; [destruct (pkcs1_raw _ _ _ _ _)|destruct (pss_raw _ _ _ _ _ _)]; discriminate.
  Qed.

  Variable pkcs1_sign_raw : bytes -> hasht -> bytes -> bytes.
  Variable pss_sign_raw : bytes -> hasht -> N -> bytes -> bytes -> bytes.
  Variable rsa_pub_of : bytes -> bytes * N.   (* private key -> (modulus, exponent) *)

  Theorem pkcs1_sign_verify_proof k sk msg :
    (forall sk h d, pkcs1_raw (fst (rsa_pub_of sk)) (snd (rsa_pub_of sk)) h d (pkcs1_sign_raw sk h d) = true) ->
    (rk_n k, rk_e k) = rsa_pub_of sk ->
    pkcs1_verify H pkcs1_raw k (pkcs1_sign H pkcs1_sign_raw k sk msg) msg = Ok tt.
  Proof.
    intros Hlaw Hpub. apply pkcs1_verify_iff_proof. unfold pkcs1_sign, frame.
    eexists. split; [reflexivity|].
    replace (rk_n k) with (fst (rsa_pub_of sk)) by (rewrite <- Hpub; reflexivity).
    replace (rk_e k) with (snd (rsa_pub_of sk)) by (rewrite <- Hpub; reflexivity).
    apply Hlaw.
  Qed.

  Theorem pss_sign_verify_proof k sk rnd msg :
    (forall sk h salt d rnd,
        pss_raw (fst (rsa_pub_of sk)) (snd (rsa_pub_of sk)) h salt d (pss_sign_raw sk h salt d rnd) = true) ->
    (rk_n k, rk_e k) = rsa_pub_of sk ->
    pss_verify H pss_raw k (pss_sign H pss_sign_raw k sk rnd msg) msg = Ok tt.
  Proof.
    intros Hlaw Hpub. apply pss_verify_iff_proof. unfold pss_sign, frame.
    eexists. split; [reflexivity|].
    replace (rk_n k) with (fst (rsa_pub_of sk)) by (rewrite <- Hpub; reflexivity).
    replace (rk_e k) with (snd (rsa_pub_of sk)) by (rewrite <- Hpub; reflexivity).
    apply Hlaw.
  Qed.
End Proofs.

(* ------------------------------------------------------------------ *)
(* key rules                                                            *)

Lemma size_ge_iff x k : k + 1 <= N.size x <-> 2 ^ k <= x.
Proof.
  split; intros Hk.
  - pose proof (N.size_le x) as L. rewrite N.succ_double_spec in L.
    assert (2 ^ (k + 1) <= 2 ^ N.size x) by (apply N.pow_le_mono_r; lia).
    rewrite N.pow_add_r in H. change (2 ^ 1) with 2 in H. lia.
  - pose proof (N.size_gt x) as G.
    assert (k < N.size x).
    { apply (N.pow_lt_mono_r_iff 2); [lia|]. lia. }
    lia.
Qed.

Theorem rsa_ctor_ok_iff_proof h n e :
  rsa_ctor_ok h n e = true <->
  2 ^ 2047 <= be_val n /\ e = 65537 /\ (h = SHA256 \/ h = SHA384 \/ h = SHA512).
Proof.
  unfold rsa_ctor_ok, rsa_key_ok. rewrite !andb_true_iff, N.leb_le, N.eqb_eq.
  change 2048 with (2047 + 1). rewrite size_ge_iff.
  split.
  - intros [[A B] C]. repeat split; auto. destruct h; cbn in C; try discriminate; auto.
  - intros [A [B C]]. repeat split; auto. destruct C as [->|[->| ->]]; reflexivity.
Qed.

Theorem ecdsa_params_ok_iff_proof c h :
  ecdsa_params_ok c h = true <->
  (c = P256 /\ h = SHA256) \/ (c = P384 /\ (h = SHA384 \/ h = SHA512)) \/ (c = P521 /\ h = SHA512).
Proof.
  split.
  - destruct c, h; cbn; intros; try discriminate; tauto.
  - intros [[-> ->]|[[-> [->| ->]]|[-> ->]]]; reflexivity.
Qed.

(* ------------------------------------------------------------------ *)
(* further consequences                                                 *)

(* one byte string per raw signature and one raw signature per byte string *)
Lemma ecdsa_frame_inj k r s r' s' sig :
  ecdsa_frame k r s = Some sig -> ecdsa_frame k r' s' = Some sig ->
  sig_fits k r s -> sig_fits k r' s' -> r = r' /\ s = s'.
Proof.
  unfold ecdsa_frame, ecdsa_encode, sig_fits. destruct (ek_enc k).
  - intros H1 H2 F1 F2. injection H1 as H1. injection H2 as H2. rewrite <- H2 in H1.
    apply app_inv_head in H1.
    assert (E1 : parse_sig (der_encode_N r s) = Some (r, s))
      by (apply parse_sig_iff; [apply der_encode_wf; exact F1|auto]).
    assert (E2 : parse_sig (der_encode_N r' s') = Some (r', s'))
      by (apply parse_sig_iff; [apply der_encode_wf; exact F2|auto]).
    rewrite H1 in E1. rewrite E1 in E2. split; congruence.
  - intros H1 H2 _ _.
    destruct (p1363_encode (ek_curve k) r s) as [e1|] eqn:E1; [|discriminate].
    destruct (p1363_encode (ek_curve k) r' s') as [e2|] eqn:E2; [|discriminate].
    injection H1 as H1. injection H2 as H2. rewrite <- H2 in H1. apply app_inv_head in H1. subst e2.
    apply p1363_roundtrip in E1, E2. rewrite E1 in E2. split; congruence.
Qed.

(* a different 5-byte prefix (other variant start byte or other key id) is rejected *)
Lemma has_prefix_other p p' t : length p = length p' -> p <> p' -> has_prefix p' (p ++ t) = false.
Proof.
  intros Hl Hn. unfold has_prefix. rewrite <- Hl.
  rewrite firstn_app, Nat.sub_diag, firstn_all, firstn_O, app_nil_r.
  destruct (beq p p') eqn:E; [|reflexivity]. apply beq_eq in E. contradiction.
Qed.

Definition with_variant (k : ecdsa_key) (v : variant) (id : N) : ecdsa_key :=
  {| ek_curve := ek_curve k; ek_hash := ek_hash k; ek_enc := ek_enc k;
     ek_variant := v; ek_id := id; ek_pub := ek_pub k |}.

Lemma ecdsa_other_prefix_rejected H raw k v' id' sig msg :
  ecdsa_verify H raw k sig msg = Ok tt ->
  ek_variant k <> VRaw -> v' <> VRaw ->
  prefix (ek_variant k) (ek_id k) <> prefix v' id' ->
  ecdsa_verify H raw (with_variant k v' id') sig msg = Err.
Proof.
  intros Hv Hr Hr' Hp. unfold ecdsa_verify in Hv.
  destruct (has_prefix (prefix (ek_variant k) (ek_id k)) sig) eqn:E; [|discriminate].
  apply has_prefix_true in E. destruct E as [t ->].
  unfold ecdsa_verify, with_variant. cbn [ek_variant ek_id].
  rewrite has_prefix_other; [reflexivity| |exact Hp].
  rewrite !prefix_length. destruct (ek_variant k), v'; try reflexivity; contradiction.
Qed.

(* LEGACY = CRUNCHY over the message with 0x00 appended *)
Lemma ecdsa_legacy_is_crunchy H raw k id sig msg :
  ecdsa_verify H raw (with_variant k VLegacy id) sig msg =
  ecdsa_verify H raw (with_variant k VCrunchy id) sig (msg ++ [0]).
Proof. unfold ecdsa_verify, with_variant. cbn [ek_variant ek_id ek_enc ek_curve ek_pub ek_hash prefix suffix]. rewrite app_nil_r. reflexivity. Qed.

Lemma ed25519_legacy_is_crunchy ed_raw id pub sig msg :
  ed25519_verify ed_raw VLegacy id pub sig msg = ed25519_verify ed_raw VCrunchy id pub sig (msg ++ [0]).
Proof. unfold ed25519_verify. cbn [prefix suffix]. rewrite app_nil_r. reflexivity. Qed.

Definition rsa_with_variant (k : rsa_key) (v : variant) : rsa_key :=
  {| rk_hash := rk_hash k; rk_variant := v; rk_id := rk_id k; rk_n := rk_n k; rk_e := rk_e k; rk_salt := rk_salt k |}.

Lemma rsa_legacy_is_crunchy H pkcs1_raw pss_raw k sig msg :
  pkcs1_verify H pkcs1_raw (rsa_with_variant k VLegacy) sig msg =
  pkcs1_verify H pkcs1_raw (rsa_with_variant k VCrunchy) sig (msg ++ [0]) /\
  pss_verify H pss_raw (rsa_with_variant k VLegacy) sig msg =
  pss_verify H pss_raw (rsa_with_variant k VCrunchy) sig (msg ++ [0]).
Proof.
  unfold pkcs1_verify, pss_verify, rsa_with_variant.
  cbn [rk_variant rk_id rk_hash rk_n rk_e rk_salt prefix suffix]. rewrite app_nil_r. split; reflexivity.
Qed.

(* the curve-less decoder of signature/subtle accepts the three sizes only *)
Lemma p1363_decode_any_lengths b r s :
  p1363_decode_any b = Ok (r, s) -> length b = 64%nat \/ length b = 96%nat \/ length b = 132%nat.
Proof.
  unfold p1363_decode_any. intros H.
  destruct (Nat.eqb (length b) 64) eqn:E1; [apply Nat.eqb_eq in E1; auto|].
  destruct (Nat.eqb (length b) 96) eqn:E2; [apply Nat.eqb_eq in E2; auto|].
  destruct (Nat.eqb (length b) 132) eqn:E3; [apply Nat.eqb_eq in E3; auto|].
  cbn in H. discriminate.
Qed.
