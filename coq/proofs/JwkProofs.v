(* Proofs about model/Jwk.v (property C09, JWK export / import). *)
From Coq Require Import List NArith ZArith Bool Lia ZifyN ZifyNat ZifyBool.
From Tink Require Import Bytes Base64url Jwt JwtSpec JwtProofs Jwk.
Import ListNotations.
Open Scope N_scope.

(* ================= numbers ================= *)

Lemma le_val_lt b : wfb b -> le_val b < 256 ^ N.of_nat (length b).
Proof.
  induction b as [|x t IH]; intros W.
  - cbn. lia.
  - apply wfb_cons in W. destruct W as [Hx Ht]. specialize (IH Ht).
    cbn [le_val length]. rewrite Nnat.Nat2N.inj_succ, N.pow_succ_r by lia. lia.
Qed.

Lemma be_val_lt b : wfb b -> be_val b < 256 ^ N.of_nat (length b).
Proof.
  intros W. unfold be_val. rewrite <- (rev_length b). apply le_val_lt.
  unfold wfb. apply Forall_rev. exact W.
Qed.

Lemma pow256 k : 256 ^ k = 2 ^ (8 * k).
Proof. rewrite N.pow_mul_r. reflexivity. Qed.

Lemma size_le_of_lt x k : x < 2 ^ k -> N.size x <= k.
Proof.
  intros H. destruct (N.eq_dec x 0) as [->|Hx]; [cbn; lia|].
  rewrite N.size_log2 by exact Hx.
  assert (N.log2 x < k) by (apply N.log2_lt_pow2; lia). lia.
Qed.

Lemma bitlen_le b : wfb b -> bitlen b <= 8 * N.of_nat (length b).
Proof.
  intros W. unfold bitlen. apply size_le_of_lt. rewrite <- pow256. apply be_val_lt. exact W.
Qed.

Lemma min_be_wf x : wfb (min_be x).
Proof. apply be_bytes_wf. Qed.

Lemma be_val_min_be x : be_val (min_be x) = x.
Proof.
  unfold min_be. rewrite be_val_be_bytes. apply N.mod_small.
  rewrite Nnat.N2Nat.id, pow256.
  apply N.lt_le_trans with (2 ^ N.size x); [apply N.size_gt|].
  apply N.pow_le_mono_r; [lia|].
  pose proof (N.div_mod (N.size x + 7) 8 ltac:(lia)) as D.
  pose proof (N.mod_lt (N.size x + 7) 8 ltac:(lia)) as M. lia.
Qed.

Example min_be_65537 : min_be 65537 = [1; 0; 1] /\ b64_encode (min_be 65537) = [65; 81; 65; 66].
Proof. split; vm_compute; reflexivity. Qed.

(* ================= reading members ================= *)

Lemma str_item_spec f nm s : str_item f nm = Some s <-> lookup nm f = Some (JStr s).
Proof.
  unfold str_item. destruct (lookup nm f) as [[| | | | |]|]; split; intros H; try discriminate; congruence.
Qed.

Lemma str_item_none f nm : str_item f nm = None <-> forall s, lookup nm f <> Some (JStr s).
Proof.
  split.
  - intros H s E. apply str_item_spec in E. congruence.
  - intros H. destruct (str_item f nm) as [s|] eqn:E; [|reflexivity].
    apply str_item_spec in E. elim (H s E).
Qed.

Lemma expect_str_spec f nm v : expect_str f nm v = true <-> lookup nm f = Some (JStr v).
Proof.
  unfold expect_str. destruct (str_item f nm) as [s|] eqn:E.
  - apply str_item_spec in E. rewrite beq_eq. split; intros H; congruence.
  - split; [discriminate|]. intros H. apply str_item_spec in H. congruence.
Qed.

Lemma use_ok_spec f : use_ok f = true <-> absent_or f s_use (JStr s_sig).
Proof.
  unfold use_ok, absent_or. destruct (has s_use f) eqn:H.
  - rewrite expect_str_spec. apply has_lookup in H. split; [auto|]. intros [A|A]; congruence.
  - apply has_false in H. split; auto.
Qed.

Lemma key_ops_ok_spec f : key_ops_ok f = true <-> absent_or f s_key_ops (JArr [JStr s_verify]).
Proof.
  unfold key_ops_ok, absent_or, list_value. destruct (has s_key_ops f) eqn:H.
  - apply has_lookup in H. split.
    + intros K. right.
      destruct (lookup s_key_ops f) as [[| | | |l|]|]; try discriminate.
      destruct l as [|v [|w l]]; try discriminate; destruct v; try discriminate.
      apply beq_eq in K. congruence.
    + intros [A|A]; [congruence|]. rewrite A. apply beq_refl.
  - apply has_false in H. split; auto.
Qed.

Lemma import_kid_spec f r : import_kid f = Some r <-> kid_rule_of f r.
Proof.
  unfold import_kid, kid_rule_of. destruct (has s_kid f) eqn:H.
  - apply has_lookup in H. destruct (str_item f s_kid) as [c|] eqn:E.
    + apply str_item_spec in E. split.
      * intros K. inversion K. exact E.
      * destruct r; intros K; try contradiction; congruence.
    + split; [discriminate|]. destruct r; intros K; try contradiction; try congruence.
      apply str_item_spec in K. congruence.
  - apply has_false in H. split.
    + intros K. inversion K. exact H.
    + destruct r; intros K; try contradiction; congruence.
Qed.

Lemma decode_item_spec f nm x :
  decode_item f nm = Some x <-> exists s, lookup nm f = Some (JStr s) /\ b64_decode s = Some x.
Proof.
  unfold decode_item. destruct (str_item f nm) as [s|] eqn:E.
  - apply str_item_spec in E. split.
    + intros D. exists s. auto.
    + intros [s' [L D]]. congruence.
  - split; [discriminate|]. intros [s [L D]]. apply str_item_spec in L. congruence.
Qed.

Lemma digits_inj a b : digits a = digits b -> a = b.
Proof. destruct a, b; intros H; try reflexivity; discriminate. Qed.

Lemma alg_of_spec pre alg a : alg_of pre alg = Some a <-> alg = pre ++ digits a.
Proof.
  unfold alg_of. split.
  - destruct (beq alg (pre ++ digits H256)) eqn:E1; [apply beq_eq in E1; intros K; inversion K; subst; reflexivity|].
    destruct (beq alg (pre ++ digits H384)) eqn:E2; [apply beq_eq in E2; intros K; inversion K; subst; reflexivity|].
    destruct (beq alg (pre ++ digits H512)) eqn:E3; [apply beq_eq in E3; intros K; inversion K; subst; reflexivity|].
    discriminate.
  - intros ->.
    destruct a.
    + rewrite beq_refl. reflexivity.
    + replace (beq (pre ++ digits H384) (pre ++ digits H256)) with false.
      * rewrite beq_refl. reflexivity.
      * symmetry. apply beq_false. intros K. apply app_inv_head in K. discriminate.
    + replace (beq (pre ++ digits H512) (pre ++ digits H256)) with false.
      * replace (beq (pre ++ digits H512) (pre ++ digits H384)) with false.
        -- rewrite beq_refl. reflexivity.
        -- symmetry. apply beq_false. intros K. apply app_inv_head in K. discriminate.
      * symmetry. apply beq_false. intros K. apply app_inv_head in K. discriminate.
Qed.

Lemma es_alg_of_spec alg crv a : es_alg_of alg crv = Some a <-> alg = es_name a /\ crv = crv_name a.
Proof.
  unfold es_alg_of, es_name. destruct (alg_of s_ES alg) as [a'|] eqn:E.
  - apply alg_of_spec in E. destruct (beq crv (crv_name a')) eqn:C.
    + apply beq_eq in C. split.
      * intros K. inversion K. subst. auto.
      * intros [A B]. subst alg. apply app_inv_head in A. apply digits_inj in A. congruence.
    + apply beq_false in C. split; [discriminate|].
      intros [A B]. subst alg. apply app_inv_head in A. apply digits_inj in A. subst. contradiction.
  - split; [discriminate|]. intros [A B]. apply (alg_of_spec s_ES alg a) in A. congruence.
Qed.

Lemma private_absent_spec f :
  existsb (fun nm => has nm f) rsa_private_names = false
  <-> forall nm, In nm rsa_private_names -> lookup nm f = None.
Proof.
  split.
  - intros H nm I. apply has_false.
    destruct (has nm f) eqn:E; [|reflexivity].
    assert (existsb (fun nm => has nm f) rsa_private_names = true) by (apply existsb_exists; exists nm; auto).
    congruence.
  - intros H. destruct (existsb (fun nm => has nm f) rsa_private_names) eqn:E; [|reflexivity].
    apply existsb_exists in E. destruct E as [nm [I K]]. apply has_lookup in K. elim K. auto.
Qed.

Lemma rsa_params_ok_spec n e :
  rsa_params_ok n e = true <-> 2048 <= bitlen n /\ 65537 <= e <= 2147483647 /\ N.odd e = true.
Proof.
  unfold rsa_params_ok. rewrite !andb_true_iff. rewrite N.ltb_lt, !N.leb_le. split.
  - intros [[[[A B] C] D] E]. auto.
  - intros [B [[C D] E]]. repeat split; auto. lia.
Qed.

(* ================= import of one key: exact characterisation ================= *)

Section ImportSpec.
  Variable on_curve : hsz -> bytes -> bool.

  Lemma ec_point_ok_spec a pt :
    ec_point_ok on_curve a pt = true
    <-> length pt = (1 + 2 * coord_size a)%nat /\ hd 0 pt = 4 /\ on_curve a pt = true.
  Proof.
    unfold ec_point_ok. rewrite !andb_true_iff, Nat.eqb_eq, N.eqb_eq. tauto.
  Qed.

  Lemma import_es_spec f k :
    import_es on_curve f = Some k
    <-> (exists a pt kid, k = PubES a pt kid) /\ jwk_key_rule on_curve (JObj f) k.
  Proof.
    split.
    - unfold import_es.
      destruct (str_item f s_alg) as [alg|] eqn:EA; [|discriminate].
      destruct (str_item f s_crv) as [crv|] eqn:EC; [|discriminate].
      destruct (es_alg_of alg crv) as [a|] eqn:EG; [|discriminate].
      destruct (has s_d f) eqn:ED; [discriminate|].
      destruct (expect_str f s_kty s_EC) eqn:EK; cbn [negb]; [|discriminate].
      destruct (use_ok f) eqn:EU; cbn [negb]; [|discriminate].
      destruct (key_ops_ok f) eqn:EO; cbn [negb]; [|discriminate].
      destruct (decode_item f s_x) as [x|] eqn:EX; [|discriminate].
      destruct (decode_item f s_y) as [y|] eqn:EY; [|discriminate].
      destruct (import_kid f) as [kid|] eqn:EI; [|discriminate].
      destruct (ec_point_ok on_curve a (4 :: x ++ y)) eqn:EP; [|discriminate].
      intros K. inversion K. subst k. clear K.
      split; [eauto|].
      apply es_alg_of_spec in EG. destruct EG as [-> ->].
      apply str_item_spec in EA. apply str_item_spec in EC. apply has_false in ED.
      apply expect_str_spec in EK. apply use_ok_spec in EU. apply key_ops_ok_spec in EO.
      apply decode_item_spec in EX. destruct EX as [xs [Lx Dx]].
      apply decode_item_spec in EY. destruct EY as [ys [Ly Dy]].
      apply import_kid_spec in EI. apply ec_point_ok_spec in EP. destruct EP as [PL [_ PC]].
      exists f. split; [reflexivity|]. split; [exact EU|]. split; [exact EO|]. split; [exact EI|].
      split; [exact EA|]. split; [exact EC|]. split; [exact EK|]. split; [exact ED|].
      exists xs, ys, x, y. repeat split; assumption.
    - intros [(a & pt & kid & ->) (f' & Ef & RU & RO & RK & RA & RC & RT & RD & xs & ys & x & y & Lx & Dx & Ly & Dy & Ept & PL & PC)].
      inversion Ef. subst f'. clear Ef. cbn [pk_kid] in RK.
      unfold import_es.
      rewrite (proj2 (str_item_spec _ _ _) RA), (proj2 (str_item_spec _ _ _) RC).
      rewrite (proj2 (es_alg_of_spec _ _ _) (conj eq_refl eq_refl)).
      rewrite (proj2 (has_false _ _) RD).
      rewrite (proj2 (expect_str_spec _ _ _) RT). cbn [negb].
      rewrite (proj2 (use_ok_spec _) RU). cbn [negb].
      rewrite (proj2 (key_ops_ok_spec _) RO). cbn [negb].
      rewrite (proj2 (decode_item_spec _ _ _) (ex_intro _ xs (conj Lx Dx))).
      rewrite (proj2 (decode_item_spec _ _ _) (ex_intro _ ys (conj Ly Dy))).
      rewrite (proj2 (import_kid_spec _ _) RK).
      rewrite <- Ept.
      rewrite (proj2 (ec_point_ok_spec a pt)); [reflexivity|].
      split; [exact PL|]. split; [rewrite Ept; reflexivity | exact PC].
  Qed.

  Lemma import_rsa_spec fam f k :
    import_rsa fam f = Some k
    <-> (exists a n e kid, k = PubRSA fam a n e kid) /\ jwk_key_rule on_curve (JObj f) k.
  Proof.
    split.
    - unfold import_rsa.
      destruct (str_item f s_alg) as [alg|] eqn:EA; [|discriminate].
      destruct (alg_of (fam_prefix fam) alg) as [a|] eqn:EG; [|discriminate].
      destruct (existsb (fun nm => has nm f) rsa_private_names) eqn:ED; [discriminate|].
      destruct (expect_str f s_kty s_RSA) eqn:EK; cbn [negb]; [|discriminate].
      destruct (use_ok f) eqn:EU; cbn [negb]; [|discriminate].
      destruct (key_ops_ok f) eqn:EO; cbn [negb]; [|discriminate].
      destruct (decode_item f s_e) as [eb|] eqn:EE; [|discriminate].
      destruct (decode_item f s_n) as [n|] eqn:EN; [|discriminate].
      destruct (import_kid f) as [kid|] eqn:EI; [|discriminate].
      destruct (rsa_params_ok n (be_val eb)) eqn:EP; [|discriminate].
      intros K. inversion K. subst k. clear K.
      split; [eauto|].
      apply alg_of_spec in EG. subst alg.
      apply str_item_spec in EA. apply expect_str_spec in EK.
      apply use_ok_spec in EU. apply key_ops_ok_spec in EO.
      apply decode_item_spec in EE. destruct EE as [es [Le De]].
      apply decode_item_spec in EN. destruct EN as [ns [Ln Dn]].
      apply import_kid_spec in EI. apply rsa_params_ok_spec in EP. destruct EP as [P1 [P2 P3]].
      exists f. split; [reflexivity|]. split; [exact EU|]. split; [exact EO|]. split; [exact EI|].
      split; [exact EA|]. split; [exact EK|]. split; [apply private_absent_spec; exact ED|].
      exists ns, es, eb. repeat split; try assumption; lia.
    - intros [[a [n [e [kid E]]]] R]. subst k.
      destruct R as (f' & Ef & RU & RO & RK & RA & RT & RD & ns & es & eb & Ln & Dn & Le & De & Ee & P1 & P2 & P3).
      inversion Ef. subst f'. clear Ef. cbn [pk_kid] in RK.
      unfold import_rsa.
      rewrite (proj2 (str_item_spec _ _ _) RA).
      rewrite (proj2 (alg_of_spec (fam_prefix fam) (rsa_name fam a) a) eq_refl).
      rewrite (proj2 (private_absent_spec _) RD).
      rewrite (proj2 (expect_str_spec _ _ _) RT). cbn [negb].
      rewrite (proj2 (use_ok_spec _) RU). cbn [negb].
      rewrite (proj2 (key_ops_ok_spec _) RO). cbn [negb].
      rewrite (proj2 (decode_item_spec _ _ _) (ex_intro _ es (conj Le De))).
      rewrite (proj2 (decode_item_spec _ _ _) (ex_intro _ ns (conj Ln Dn))).
      rewrite (proj2 (import_kid_spec _ _) RK).
      rewrite <- Ee.
      rewrite (proj2 (rsa_params_ok_spec n e)); [reflexivity|]. auto.
  Qed.

  Lemma prefix_es a : (length (es_name a) <? 2)%nat = false /\ firstn 2 (es_name a) = s_ES.
  Proof. destruct a; split; reflexivity. Qed.

  Lemma prefix_rsa fam a :
    (length (rsa_name fam a) <? 2)%nat = false /\ firstn 2 (rsa_name fam a) = fam_prefix fam.
  Proof. destruct fam, a; split; reflexivity. Qed.

  (* ToPublicKeysetHandle's per-key step accepts exactly the objects of
     jwk_key_rule and yields exactly that key *)
  Theorem import_key_spec v k : import_key on_curve v = Some k <-> jwk_key_rule on_curve v k.
  Proof.
    split.
    - unfold import_key. destruct v as [| | | | |f]; try discriminate.
      destruct (str_item f s_alg) as [alg|]; [|discriminate].
      destruct (length alg <? 2)%nat; [discriminate|].
      destruct (beq (firstn 2 alg) s_ES); [intros K; apply import_es_spec in K; tauto|].
      destruct (beq (firstn 2 alg) s_RS); [intros K; apply import_rsa_spec in K; tauto|].
      destruct (beq (firstn 2 alg) s_PS); [intros K; apply import_rsa_spec in K; tauto|].
      discriminate.
    - intros R. pose proof R as R0. destruct R as [f [-> [_ [_ [_ R]]]]]. unfold import_key.
      destruct k as [a pt kid|fam a n e kid].
      + destruct R as [RA _]. rewrite (proj2 (str_item_spec _ _ _) RA).
        destruct (prefix_es a) as [-> ->]. rewrite beq_refl.
        apply import_es_spec. split; [eauto|exact R0].
      + destruct R as [RA _]. rewrite (proj2 (str_item_spec _ _ _) RA).
        destruct (prefix_rsa fam a) as [-> ->].
        destruct fam; cbn [fam_prefix].
        * replace (beq s_RS s_ES) with false by reflexivity. rewrite beq_refl.
          apply import_rsa_spec. split; [eauto|exact R0].
        * replace (beq s_PS s_ES) with false by reflexivity.
          replace (beq s_PS s_RS) with false by reflexivity. rewrite beq_refl.
          apply import_rsa_spec. split; [eauto|exact R0].
  Qed.

  (* an imported key never has a key-ID-derived kid, and is well-formed *)
  Lemma import_key_kid v k : import_key on_curve v = Some k -> forall id, pk_kid k <> KTink id.
  Proof.
    intros K id E. apply import_key_spec in K. destruct K as [f [_ [_ [_ [RK _]]]]].
    rewrite E in RK. exact RK.
  Qed.

  Lemma import_key_alg v k f :
    import_key on_curve v = Some k -> v = JObj f -> lookup s_alg f = Some (JStr (alg_name k)).
  Proof.
    intros K E. apply import_key_spec in K. destruct K as [f' [E' [_ [_ [_ R]]]]].
    rewrite E in E'. inversion E'. subst f'. destruct k; destruct R as [RA _]; exact RA.
  Qed.
End ImportSpec.

(* ================= import of a set ================= *)

Lemma map_opt_Forall2 {A B} (f : A -> option B) l r :
  map_opt f l = Some r <-> Forall2 (fun x y => f x = Some y) l r.
Proof.
  revert r. induction l as [|x t IH]; intros r; cbn [map_opt].
  - split; [intros K; inversion K; constructor | intros K; inversion K; reflexivity].
  - destruct (f x) as [y|] eqn:Ex.
    + destruct (map_opt f t) as [r'|] eqn:Et.
      * split.
        -- intros K. inversion K. constructor; [exact Ex | apply IH; reflexivity].
        -- intros K. inversion K as [|x0 y0 l0 r0 Hxy Hrest]. subst.
           apply IH in Hrest. congruence.
      * split; [discriminate|]. intros K. inversion K as [|x0 y0 l0 r0 Hxy Hrest]. subst.
        apply IH in Hrest. discriminate.
    + split; [discriminate|]. intros K. inversion K. congruence.
Qed.

Lemma Forall2_imp {A B} (P Q : A -> B -> Prop) l r :
  (forall x y, P x y -> Q x y) -> Forall2 P l r -> Forall2 Q l r.
Proof. intros H F. induction F; constructor; auto. Qed.

Lemma map_opt_none_of_bad {A B} (f : A -> option B) l x : In x l -> f x = None -> map_opt f l = None.
Proof.
  induction l as [|y t IH]; intros I Hx; [contradiction|].
  cbn [map_opt]. destruct I as [->|I].
  - rewrite Hx. reflexivity.
  - rewrite (IH I Hx). destruct (f y); reflexivity.
Qed.

Lemma list_value_spec f nm l :
  list_value f nm = Some l <-> lookup nm f = Some (JArr l) /\ l <> [].
Proof.
  unfold list_value. destruct (lookup nm f) as [[| | | |l'|]|]; try (split; [discriminate | intros [K _]; discriminate]).
  destruct l' as [|v l'].
  - split; [discriminate|]. intros [K N]. inversion K. subst. contradiction.
  - split.
    + intros K. inversion K. split; [reflexivity | discriminate].
    + intros [K _]. inversion K. reflexivity.
Qed.

Section ImportSet.
  Variable on_curve : hsz -> bytes -> bool.

  (* ToPublicKeysetHandle accepts exactly: an object whose "keys" member is a
     non-empty list of objects each accepted by the per-key rule *)
  Theorem jwk_import_spec j l :
    jwk_import on_curve j = Some l
    <-> exists f vs, j = JObj f /\ lookup s_keys f = Some (JArr vs) /\ vs <> []
                     /\ Forall2 (jwk_key_rule on_curve) vs l.
  Proof.
    unfold jwk_import. split.
    - destruct j as [| | | | |f]; try discriminate.
      destruct (list_value f s_keys) as [vs|] eqn:EL; [|discriminate].
      apply list_value_spec in EL. destruct EL as [L N]. intros K.
      exists f, vs. repeat split; try assumption.
      apply map_opt_Forall2 in K. eapply Forall2_imp; [|exact K].
      intros v k. apply (proj1 (import_key_spec on_curve v k)).
    - intros (f & vs & -> & L & N & F).
      rewrite (proj2 (list_value_spec f s_keys vs) (conj L N)).
      apply map_opt_Forall2. eapply Forall2_imp; [|exact F].
      intros v k. apply (proj2 (import_key_spec on_curve v k)).
  Qed.

  Corollary jwk_import_needs_nonempty_key_list j :
    jwk_import on_curve j <> None ->
    exists f v vs, j = JObj f /\ lookup s_keys f = Some (JArr (v :: vs)).
  Proof.
    destruct (jwk_import on_curve j) as [l|] eqn:E; [|congruence]. intros _.
    apply jwk_import_spec in E. destruct E as (f & vs & -> & L & N & _).
    destruct vs as [|v vs]; [contradiction|]. eauto.
  Qed.

  Corollary jwk_import_empty_list_rejected f : lookup s_keys f = Some (JArr []) -> jwk_import on_curve (JObj f) = None.
  Proof.
    intros L. destruct (jwk_import on_curve (JObj f)) eqn:E; [|reflexivity].
    assert (H : jwk_import on_curve (JObj f) <> None) by congruence.
    apply jwk_import_needs_nonempty_key_list in H. destruct H as (f' & v & vs & Ef & L'). inversion Ef. congruence.
  Qed.

  Corollary jwk_import_keys_not_a_list_rejected f :
    (forall l, lookup s_keys f <> Some (JArr l)) -> jwk_import on_curve (JObj f) = None.
  Proof.
    intros H. destruct (jwk_import on_curve (JObj f)) eqn:E; [|reflexivity].
    assert (K : jwk_import on_curve (JObj f) <> None) by congruence.
    apply jwk_import_needs_nonempty_key_list in K. destruct K as (f' & v & vs & Ef & L'). inversion Ef. subst f'.
    elim (H _ L').
  Qed.

  Corollary jwk_import_not_an_object_rejected j : (forall f, j <> JObj f) -> jwk_import on_curve j = None.
  Proof. intros H. destruct j; try reflexivity. elim (H f). reflexivity. Qed.

  (* one bad key makes the whole import fail *)
  Corollary jwk_import_one_bad_key f vs v :
    lookup s_keys f = Some (JArr vs) -> In v vs -> import_key on_curve v = None ->
    jwk_import on_curve (JObj f) = None.
  Proof.
    intros L I B. unfold jwk_import. destruct (list_value f s_keys) as [vs'|] eqn:E; [|reflexivity].
    apply list_value_spec in E. destruct E as [L' _]. assert (vs' = vs) by congruence. subst vs'.
    eapply map_opt_none_of_bad; eauto.
  Qed.

  Corollary jwk_import_key_not_an_object v : (forall f, v <> JObj f) -> import_key on_curve v = None.
  Proof. intros H. destruct v; try reflexivity. elim (H f). reflexivity. Qed.

  (* ---- rejection of single keys (each for all objects) ---- *)
  Ltac reject :=
    match goal with
    | |- import_key ?oc ?v = None =>
      let E := fresh "E" in
      destruct (import_key oc v) as [k|] eqn:E; [exfalso|reflexivity];
      apply import_key_spec in E;
      let f' := fresh "f'" in let Ef := fresh "Ef" in
      destruct E as (f' & Ef & RU & RO & RK & R); inversion Ef; subst f'; clear Ef
    end.

  Lemma jstr_inj (f : fields) nm s t : lookup nm f = Some (JStr s) -> lookup nm f = Some (JStr t) -> s = t.
  Proof. congruence. Qed.
  Lemma es_name_inj a b : es_name a = es_name b -> a = b.
  Proof. unfold es_name. intros H. apply app_inv_head in H. apply digits_inj. exact H. Qed.
  Lemma rsa_name_inj f a g b : rsa_name f a = rsa_name g b -> f = g /\ a = b.
  Proof. destruct f, g, a, b; intros H; try discriminate; auto. Qed.
  Lemma es_rsa_name_diff a f b : es_name a <> rsa_name f b.
  Proof. destruct a, f, b; discriminate. Qed.

  (* a private EC or RSA key ("d" present) is never imported *)
  Corollary reject_d f : lookup s_d f <> None -> import_key on_curve (JObj f) = None.
  Proof.
    intros H. reject. destruct k.
    - destruct R as (_ & _ & _ & RD & _). contradiction.
    - destruct R as (_ & _ & RD & _). apply H. apply RD. cbn. tauto.
  Qed.

  (* an RS / PS object with any of p, q, dp, dq, d, qi is never imported *)
  Corollary reject_rsa_private_member f fam a nm :
    lookup s_alg f = Some (JStr (rsa_name fam a)) ->
    In nm rsa_private_names -> lookup nm f <> None -> import_key on_curve (JObj f) = None.
  Proof.
    intros A I H. reject. destruct k.
    - destruct R as (RA & _). elim (es_rsa_name_diff _ _ _ (jstr_inj _ _ _ _ RA A)).
    - destruct R as (_ & _ & RD & _). apply H. apply RD. exact I.
  Qed.

  Corollary reject_use f u : lookup s_use f = Some u -> u <> JStr s_sig -> import_key on_curve (JObj f) = None.
  Proof. intros L H. reject. destruct RU as [RU|RU]; congruence. Qed.

  Corollary reject_key_ops f u :
    lookup s_key_ops f = Some u -> u <> JArr [JStr s_verify] -> import_key on_curve (JObj f) = None.
  Proof. intros L H. reject. destruct RO as [RO|RO]; congruence. Qed.

  Corollary reject_kid_not_a_string f u :
    lookup s_kid f = Some u -> (forall c, u <> JStr c) -> import_key on_curve (JObj f) = None.
  Proof.
    intros L H. reject. unfold kid_rule_of in RK. destruct (pk_kid k); try contradiction; try congruence.
  Qed.

  (* alg: must be a string naming one of the nine algorithms *)
  Corollary reject_alg f :
    (forall a, lookup s_alg f <> Some (JStr (es_name a))) ->
    (forall fam a, lookup s_alg f <> Some (JStr (rsa_name fam a))) ->
    import_key on_curve (JObj f) = None.
  Proof.
    intros H1 H2. reject. destruct k; destruct R as (RA & _); [elim (H1 _ RA) | elim (H2 _ _ RA)].
  Qed.

  Corollary reject_alg_missing_or_not_a_string f :
    (forall s, lookup s_alg f <> Some (JStr s)) -> import_key on_curve (JObj f) = None.
  Proof. intros H. apply reject_alg; intros; apply H. Qed.

  Corollary reject_alg_short f alg :
    lookup s_alg f = Some (JStr alg) -> (length alg < 2)%nat -> import_key on_curve (JObj f) = None.
  Proof.
    intros L H. unfold import_key. rewrite (proj2 (str_item_spec _ _ _) L).
    replace (length alg <? 2)%nat with true by (symmetry; apply Nat.ltb_lt; exact H). reflexivity.
  Qed.

  Corollary reject_alg_prefix f alg :
    lookup s_alg f = Some (JStr alg) ->
    firstn 2 alg <> s_ES -> firstn 2 alg <> s_RS -> firstn 2 alg <> s_PS ->
    import_key on_curve (JObj f) = None.
  Proof.
    intros L H1 H2 H3. unfold import_key. rewrite (proj2 (str_item_spec _ _ _) L).
    destruct (length alg <? 2)%nat; [reflexivity|].
    rewrite (proj2 (beq_false _ _) H1), (proj2 (beq_false _ _) H2), (proj2 (beq_false _ _) H3). reflexivity.
  Qed.

  (* alg / crv table of EC keys *)
  Corollary reject_crv_mismatch f a :
    lookup s_alg f = Some (JStr (es_name a)) -> lookup s_crv f <> Some (JStr (crv_name a)) ->
    import_key on_curve (JObj f) = None.
  Proof.
    intros A H. reject. destruct k.
    - destruct R as (RA & RC & _). pose proof (es_name_inj _ _ (jstr_inj _ _ _ _ RA A)) as E. subst. contradiction.
    - destruct R as (RA & _). elim (es_rsa_name_diff _ _ _ (jstr_inj _ _ _ _ A RA)).
  Qed.

  Corollary reject_kty_ec f a :
    lookup s_alg f = Some (JStr (es_name a)) -> lookup s_kty f <> Some (JStr s_EC) ->
    import_key on_curve (JObj f) = None.
  Proof.
    intros A H. reject. destruct k.
    - destruct R as (_ & _ & RT & _). contradiction.
    - destruct R as (RA & _). elim (es_rsa_name_diff _ _ _ (jstr_inj _ _ _ _ A RA)).
  Qed.

  Corollary reject_kty_rsa f fam a :
    lookup s_alg f = Some (JStr (rsa_name fam a)) -> lookup s_kty f <> Some (JStr s_RSA) ->
    import_key on_curve (JObj f) = None.
  Proof.
    intros A H. reject. destruct k.
    - destruct R as (RA & _). elim (es_rsa_name_diff _ _ _ (jstr_inj _ _ _ _ RA A)).
    - destruct R as (_ & RT & _). contradiction.
  Qed.

  (* x, y / n, e: present, strings, valid base64url *)
  Corollary reject_ec_coordinate f a nm :
    lookup s_alg f = Some (JStr (es_name a)) -> nm = s_x \/ nm = s_y ->
    decode_item f nm = None -> import_key on_curve (JObj f) = None.
  Proof.
    intros A N H. reject. destruct k.
    - destruct R as (_ & _ & _ & _ & xs & ys & x & y & Lx & Dx & Ly & Dy & _).
      destruct N as [->| ->].
      + rewrite (proj2 (decode_item_spec _ _ _) (ex_intro _ xs (conj Lx Dx))) in H. discriminate.
      + rewrite (proj2 (decode_item_spec _ _ _) (ex_intro _ ys (conj Ly Dy))) in H. discriminate.
    - destruct R as (RA & _). elim (es_rsa_name_diff _ _ _ (jstr_inj _ _ _ _ A RA)).
  Qed.

  Corollary reject_rsa_number f fam a nm :
    lookup s_alg f = Some (JStr (rsa_name fam a)) -> nm = s_n \/ nm = s_e ->
    decode_item f nm = None -> import_key on_curve (JObj f) = None.
  Proof.
    intros A N H. reject. destruct k.
    - destruct R as (RA & _). elim (es_rsa_name_diff _ _ _ (jstr_inj _ _ _ _ RA A)).
    - destruct R as (_ & _ & _ & ns & es & eb & Ln & Dn & Le & De & _).
      destruct N as [->| ->].
      + rewrite (proj2 (decode_item_spec _ _ _) (ex_intro _ ns (conj Ln Dn))) in H. discriminate.
      + rewrite (proj2 (decode_item_spec _ _ _) (ex_intro _ es (conj Le De))) in H. discriminate.
  Qed.

  (* the point 04 || x || y: wrong total length or not on the curve *)
  Corollary reject_ec_point f a x y :
    lookup s_alg f = Some (JStr (es_name a)) ->
    decode_item f s_x = Some x -> decode_item f s_y = Some y ->
    (length x + length y)%nat <> (2 * coord_size a)%nat \/ on_curve a (4 :: x ++ y) = false ->
    import_key on_curve (JObj f) = None.
  Proof.
    intros A Dx Dy H. reject. destruct k.
    - destruct R as (RA & _ & _ & _ & xs & ys & x' & y' & Lx' & Dx' & Ly' & Dy' & Ept & PL & PC).
      pose proof (es_name_inj _ _ (jstr_inj _ _ _ _ RA A)) as E. subst a0.
      rewrite (proj2 (decode_item_spec _ _ _) (ex_intro _ xs (conj Lx' Dx'))) in Dx.
      rewrite (proj2 (decode_item_spec _ _ _) (ex_intro _ ys (conj Ly' Dy'))) in Dy.
      inversion Dx. inversion Dy. subst x' y' point.
      destruct H as [H|H].
      + cbn [length] in PL. rewrite app_length in PL. lia.
      + congruence.
    - destruct R as (RA & _). elim (es_rsa_name_diff _ _ _ (jstr_inj _ _ _ _ A RA)).
  Qed.

  (* modulus below 2048 bit; exponent outside [65537, 2^31-1] or even *)
  Corollary reject_rsa_parameters f fam a n eb :
    lookup s_alg f = Some (JStr (rsa_name fam a)) ->
    decode_item f s_n = Some n -> decode_item f s_e = Some eb ->
    bitlen n < 2048 \/ be_val eb < 65537 \/ 2147483647 < be_val eb \/ N.odd (be_val eb) = false ->
    import_key on_curve (JObj f) = None.
  Proof.
    intros A Dn De H. reject. destruct k.
    - destruct R as (RA & _). elim (es_rsa_name_diff _ _ _ (jstr_inj _ _ _ _ RA A)).
    - destruct R as (_ & _ & _ & ns & es & eb' & Ln' & Dn' & Le' & De' & Ee & P1 & P2 & P3).
      rewrite (proj2 (decode_item_spec _ _ _) (ex_intro _ ns (conj Ln' Dn'))) in Dn.
      rewrite (proj2 (decode_item_spec _ _ _) (ex_intro _ es (conj Le' De'))) in De.
      inversion Dn. inversion De. subst.
      destruct H as [H|[H|[H|H]]]; try lia. congruence.
  Qed.
End ImportSet.

(* ================= export ================= *)

Lemma ascii_utf8 s : Forall (fun c => c < 128) s -> utf8_valid s = true.
Proof.
  induction 1 as [|c t Hc _ IH]; [reflexivity|].
  cbn [utf8_valid]. replace (c <? 128) with true by lia. exact IH.
Qed.

Lemma b64_char_ascii v : b64_char v < 128.
Proof.
  unfold b64_char.
  destruct (v <? 26) eqn:E1; [lia|]. destruct (v <? 52) eqn:E2; [lia|].
  destruct (v <? 62) eqn:E3; [lia|]. destruct (v =? 62); lia.
Qed.

Lemma b64_encode_ascii x : Forall (fun c => c < 128) (b64_encode x).
Proof.
  induction x as [|a|a b|a b c t IH] using list_ind3; cbn [b64_encode];
    repeat constructor; auto using b64_char_ascii.
Qed.

Lemma b64_encode_utf8 x : utf8_valid (b64_encode x) = true.
Proof. apply ascii_utf8. apply b64_encode_ascii. Qed.

Lemma tink_kid_utf8 id : utf8_valid (tink_kid id) = true.
Proof. apply b64_encode_utf8. Qed.

(* MarshalJSON can print an exported key object iff its custom kid is UTF-8 *)
Lemma export_key_utf8 p f : export_key p = Some f -> json_utf8 (JObj f) = kid_utf8 (pk_kid p).
Proof.
  destruct p as [a pt kid|fam a n e kid]; cbn [export_key pk_kid].
  - destruct (_ || _); [discriminate|]. intros K. inversion K. clear K.
    cbn [json_utf8 forallb app common_fields].
    rewrite !b64_encode_utf8.
    replace (utf8_valid (crv_name a)) with true by (destruct a; reflexivity).
    replace (utf8_valid (es_name a)) with true by (destruct a; reflexivity).
    destruct kid as [id|c|]; cbn [kid_field forallb json_utf8 kid_utf8 andb];
      rewrite ?tink_kid_utf8; cbn; rewrite ?andb_true_r; reflexivity.
  - intros K. inversion K. clear K.
    cbn [json_utf8 forallb app common_fields].
    rewrite !b64_encode_utf8.
    replace (utf8_valid (rsa_name fam a)) with true by (destruct fam, a; reflexivity).
    destruct kid as [id|c|]; cbn [kid_field forallb json_utf8 kid_utf8 andb];
      rewrite ?tink_kid_utf8; cbn; rewrite ?andb_true_r; reflexivity.
Qed.

(* the loop, as a relation between the enabled public keys and the output *)
Lemma export_entries_spec ks l :
  export_entries ks = Some l
  <-> (forall en, In en ks -> e_status en = Enabled -> exists p, e_key en = KPub p)
      /\ Forall2 (fun p v => exists f, export_key p = Some f /\ v = JObj f) (enabled_pubs ks) l.
Proof.
  revert l. induction ks as [|en t IH]; intros l; cbn [export_entries enabled_pubs].
  - split.
    + intros K. inversion K. split; [intros en []|constructor].
    + intros [_ F]. inversion F. reflexivity.
  - destruct (e_status en) eqn:ES.
    + destruct (e_key en) as [p|p s|w] eqn:EK.
      * destruct (export_key p) as [f|] eqn:EX.
        -- destruct (export_entries t) as [r|] eqn:ET.
           ++ split.
              ** intros K. inversion K. subst l. destruct (proj1 (IH r) eq_refl) as [A F]. split.
                 --- intros en' [<-|I] S; [eauto | apply A; assumption].
                 --- constructor; [eauto | exact F].
              ** intros [A F]. inversion F as [|p0 v0 ps vs [f' [X ->]] F']. subst.
                 assert (f' = f) by congruence. subst f'.
                 assert (Some r = Some vs) as Q.
                 { apply IH. split; [intros en' I S; apply A; [right; exact I | exact S] | exact F']. }
                 inversion Q. reflexivity.
           ++ split; [discriminate|]. intros [A F]. inversion F as [|p0 v0 ps vs _ F']. subst.
              assert (None = Some vs) as Q.
              { apply IH. split; [intros en' I S; apply A; [right; exact I | exact S] | exact F']. }
              discriminate.
        -- split; [discriminate|]. intros [_ F]. inversion F as [|p0 v0 ps vs [f' [X _]] _]. congruence.
      * split; [discriminate|]. intros [A _]. destruct (A en (or_introl eq_refl) ES) as [p' E]. congruence.
      * split; [discriminate|]. intros [A _]. destruct (A en (or_introl eq_refl) ES) as [p' E]. congruence.
    + rewrite IH. split; intros [A F]; (split; [|exact F]).
      * intros en' [<-|I] S; [congruence | apply A; assumption].
      * intros en' I S. apply A; [right; exact I | exact S].
    + rewrite IH. split; intros [A F]; (split; [|exact F]).
      * intros en' [<-|I] S; [congruence | apply A; assumption].
      * intros en' I S. apply A; [right; exact I | exact S].
Qed.

Lemma enabled_pubs_In ks p :
  In p (enabled_pubs ks) <-> exists en, In en ks /\ e_status en = Enabled /\ e_key en = KPub p.
Proof.
  induction ks as [|en t IH]; cbn [enabled_pubs].
  - split; [intros [] | intros (en & [] & _)].
  - assert (T : (exists en', In en' t /\ e_status en' = Enabled /\ e_key en' = KPub p) ->
                exists en', In en' (en :: t) /\ e_status en' = Enabled /\ e_key en' = KPub p).
    { intros (en' & I & S & K). exists en'. cbn [In]. auto. }
    destruct (e_status en) eqn:ES; [destruct (e_key en) as [q|q s|w] eqn:EK|..].
    + cbn [In]. split.
      * intros [<-|I]; [exists en; cbn [In]; auto | apply T, IH, I].
      * intros (en' & [<-|I] & S & K); [left; congruence | right; apply IH; eauto].
    + split; [intros I; apply T, IH, I | intros (en' & [<-|I] & S & K); [congruence | apply IH; eauto]].
    + split; [intros I; apply T, IH, I | intros (en' & [<-|I] & S & K); [congruence | apply IH; eauto]].
    + split; [intros I; apply T, IH, I | intros (en' & [<-|I] & S & K); [congruence | apply IH; eauto]].
    + split; [intros I; apply T, IH, I | intros (en' & [<-|I] & S & K); [congruence | apply IH; eauto]].
Qed.

Lemma json_utf8_keys l :
  json_utf8 (JObj [(s_keys, JArr l)]) = forallb json_utf8 l.
Proof. cbn [json_utf8 forallb]. replace (utf8_valid s_keys) with true by reflexivity. cbn. apply andb_true_r. Qed.

(* exactly when FromPublicKeysetHandle succeeds *)
Theorem jwk_export_succeeds_iff ks :
  jwk_export ks <> None
  <-> forall en, In en ks -> e_status en = Enabled ->
        exists p, e_key en = KPub p /\ export_key p <> None /\ kid_utf8 (pk_kid p) = true.
Proof.
  unfold jwk_export. split.
  - destruct (export_entries ks) as [l|] eqn:E; [|congruence].
    rewrite json_utf8_keys. destruct (forallb json_utf8 l) eqn:U; [|congruence]. intros _.
    apply export_entries_spec in E. destruct E as [A F].
    intros en I S. destruct (A en I S) as [p K]. exists p. split; [exact K|].
    assert (Ip : In p (enabled_pubs ks)) by (apply enabled_pubs_In; eauto).
    clear - F U Ip. induction F as [|q v ps vs [f [X ->]] F IH]; [contradiction|].
    cbn [forallb] in U. apply andb_true_iff in U. destruct U as [U1 U2].
    destruct Ip as [<-|Ip]; [|auto].
    split; [congruence|]. rewrite <- (export_key_utf8 _ _ X). exact U1.
  - intros H.
    assert (exists l, export_entries ks = Some l /\ forallb json_utf8 l = true) as (l & E & U).
    { induction ks as [|en t IH]; [exists []; auto|].
      destruct IH as (r & Er & Ur); [intros en' I S; apply H; [right; exact I | exact S]|].
      cbn [export_entries]. destruct (e_status en) eqn:ES; [|exists r; auto|exists r; auto].
      destruct (H en (or_introl eq_refl) ES) as (p & K & X & U). rewrite K.
      destruct (export_key p) as [f|] eqn:EX; [|congruence]. rewrite Er.
      exists (JObj f :: r). split; [reflexivity|]. cbn [forallb].
      rewrite (export_key_utf8 _ _ EX), U, Ur. reflexivity. }
    rewrite E, json_utf8_keys, U. discriminate.
Qed.

(* ---- (b): export refuses private keys and every unsupported key type ---- *)

Definition is_public_key (k : tkey) : Prop := exists p, k = KPub p.

Theorem jwk_export_refuses_non_public ks en :
  In en ks -> e_status en = Enabled -> ~ is_public_key (e_key en) -> jwk_export ks = None.
Proof.
  intros I S N. destruct (jwk_export ks) eqn:E; [|reflexivity].
  assert (H : jwk_export ks <> None) by congruence.
  destruct (proj1 (jwk_export_succeeds_iff ks) H en I S) as (p & K & _). elim N. exists p. exact K.
Qed.

Corollary jwk_export_refuses_private ks en p secret :
  In en ks -> e_status en = Enabled -> e_key en = KPriv p secret -> jwk_export ks = None.
Proof.
  intros I S K. apply (jwk_export_refuses_non_public ks en I S). intros [q E]. congruence.
Qed.

(* entries that are not ENABLED are invisible to export, whatever they hold *)
Lemma export_entries_enabled_only ks : export_entries ks = export_entries (filter is_enabled ks).
Proof.
  induction ks as [|en t IH]; [reflexivity|].
  cbn [export_entries filter]. unfold is_enabled at 1.
  destruct (e_status en) eqn:S; [|exact IH|exact IH].
  cbn [export_entries]. rewrite S, IH. reflexivity.
Qed.

Theorem jwk_export_enabled_only ks : jwk_export ks = jwk_export (filter is_enabled ks).
Proof. unfold jwk_export. rewrite export_entries_enabled_only. reflexivity. Qed.

Corollary jwk_export_ignores_disabled_entry ks1 ks2 en :
  e_status en <> Enabled -> jwk_export (ks1 ++ en :: ks2) = jwk_export (ks1 ++ ks2).
Proof.
  intros S. rewrite (jwk_export_enabled_only (ks1 ++ en :: ks2)), (jwk_export_enabled_only (ks1 ++ ks2)).
  rewrite !filter_app. cbn [filter]. unfold is_enabled at 2. destruct (e_status en); [congruence|reflexivity|reflexivity].
Qed.

(* ================= export then import ================= *)

Section RoundTrip.
  Variable on_curve : hsz -> bytes -> bool.

  (* every enabled public key of the keyset is what the Go constructors build *)
  Definition keyset_wf (ks : keyset) : Prop :=
    forall en p, In en ks -> e_status en = Enabled -> e_key en = KPub p -> pubkey_wf on_curve p.

  Lemma es_bitlen_ok a pt :
    wfb pt -> length pt = (1 + 2 * coord_size a)%nat ->
    (8 * N.of_nat (coord_size a) <? bitlen (firstn (coord_size a) (tl pt)))
    || (8 * N.of_nat (coord_size a) <? bitlen (skipn (coord_size a) (tl pt))) = false.
  Proof.
    intros W L. destruct pt as [|h rest]; [cbn in L; lia|]. cbn [tl length] in *.
    apply wfb_cons in W. destruct W as [_ W].
    pose proof (bitlen_le _ (wfb_firstn (coord_size a) rest W)) as B1.
    pose proof (bitlen_le _ (wfb_skipn (coord_size a) rest W)) as B2.
    pose proof (firstn_le_length (coord_size a) rest) as L1.
    rewrite skipn_length in B2.
    apply orb_false_iff. split; apply N.ltb_ge; lia.
  Qed.

  (* the BitLen test of esPublicKeyToStruct never fires on a constructed key *)
  Lemma export_key_wf p : pubkey_wf on_curve p -> export_key p <> None.
  Proof.
    destruct p as [a pt kid|fam a n e kid]; cbn [export_key pubkey_wf]; [|discriminate].
    intros (W & L & _). rewrite (es_bitlen_ok a pt W L). discriminate.
  Qed.

  (* one key: the exported object is imported as the same material, the same
     algorithm, and the kid rule  TINK id -> custom base64url(be32 id),
     custom -> custom, ignored -> ignored *)
  Lemma import_export_key p f :
    pubkey_wf on_curve p -> export_key p = Some f -> import_key on_curve (JObj f) = Some (jwk_pub p).
  Proof.
    destruct p as [a pt kid|fam a n e kid]; cbn [export_key pubkey_wf jwk_pub].
    - intros (W & L & Hd & OC & KW).
      destruct pt as [|h rest]; [cbn in L; lia|]. cbn [hd] in Hd. subst h. cbn [tl].
      destruct (_ || _); [discriminate|]. intros K. injection K as <-.
      apply wfb_cons in W. destruct W as [_ W].
      apply import_key_spec. eexists. split; [reflexivity|].
      split; [right; destruct kid; reflexivity|].
      split; [right; destruct kid; reflexivity|].
      split; [destruct kid; reflexivity|].
      split; [reflexivity|]. split; [reflexivity|]. split; [reflexivity|].
      split; [destruct kid; reflexivity|].
      exists (b64_encode (firstn (coord_size a) rest)), (b64_encode (skipn (coord_size a) rest)),
             (firstn (coord_size a) rest), (skipn (coord_size a) rest).
      split; [reflexivity|]. split; [apply b64_decode_encode, wfb_firstn, W|].
      split; [reflexivity|]. split; [apply b64_decode_encode, wfb_skipn, W|].
      rewrite firstn_skipn. split; [reflexivity|]. split; [exact L | exact OC].
    - intros (W & B & E1 & E2 & KW) K. injection K as <-.
      apply import_key_spec. eexists. split; [reflexivity|].
      split; [right; destruct kid; reflexivity|].
      split; [right; destruct kid; reflexivity|].
      split; [destruct kid; reflexivity|].
      split; [reflexivity|]. split; [reflexivity|].
      split.
      { intros nm I. cbn [rsa_private_names In] in I.
        repeat (destruct I as [<-|I]; [destruct kid; reflexivity|]). contradiction. }
      exists (b64_encode n), (b64_encode (min_be e)), (min_be e).
      split; [reflexivity|]. split; [apply b64_decode_encode, W|].
      split; [reflexivity|]. split; [apply b64_decode_encode, min_be_wf|].
      split; [symmetry; apply be_val_min_be|]. auto.
  Qed.

  Lemma keys_member l : list_value [(s_keys, JArr l)] s_keys = match l with [] => None | _ => Some l end.
  Proof. destruct l; reflexivity. Qed.

  (* 1. export then import: the ENABLED keys, in order, same material and
     algorithm, kid rule mapped by jwk_kid *)
  Theorem jwk_export_import ks j :
    keyset_wf ks -> jwk_export ks = Some j -> enabled_pubs ks <> [] ->
    jwk_import on_curve j = Some (map jwk_pub (enabled_pubs ks)).
  Proof.
    intros WF E NE. unfold jwk_export in E.
    destruct (export_entries ks) as [l|] eqn:EL; [|discriminate].
    destruct (json_utf8 _); [|discriminate]. injection E as <-.
    apply export_entries_spec in EL. destruct EL as [_ F].
    assert (Wp : forall p, In p (enabled_pubs ks) -> pubkey_wf on_curve p).
    { intros p I. apply enabled_pubs_In in I. destruct I as (en & I & S & K). eapply WF; eauto. }
    unfold jwk_import. rewrite keys_member.
    destruct l as [|v l]; [inversion F as [E0|]; congruence|].
    apply map_opt_Forall2.
    clear NE WF. induction F as [|p w ps ws [f [X ->]] F IH]; [constructor|].
    cbn [map]. constructor.
    - apply import_export_key; [apply Wp; left; reflexivity | exact X].
    - apply IH. intros q I. apply Wp. right. exact I.
  Qed.

  (* a keyset without enabled keys exports {"keys":[]}, which import refuses *)
  Theorem jwk_export_of_no_enabled_key_is_not_importable ks :
    (forall en, In en ks -> e_status en <> Enabled) ->
    jwk_export ks = Some (JObj [(s_keys, JArr [])])
    /\ jwk_import on_curve (JObj [(s_keys, JArr [])]) = None.
  Proof.
    intros H. split; [|reflexivity].
    unfold jwk_export. replace (export_entries ks) with (Some (@nil json)); [reflexivity|].
    symmetry. induction ks as [|en t IH]; [reflexivity|].
    cbn [export_entries]. destruct (e_status en) eqn:S.
    - elim (H en (or_introl eq_refl) S).
    - apply IH. intros en' I. apply H. right. exact I.
    - apply IH. intros en' I. apply H. right. exact I.
  Qed.

  (* on keysets built by the Go constructors export succeeds iff every enabled
     entry holds one of the three public key types and its kid is printable *)
  Theorem jwk_export_succeeds_iff_wf ks :
    keyset_wf ks ->
    (jwk_export ks <> None
     <-> forall en, In en ks -> e_status en = Enabled ->
           exists p, e_key en = KPub p /\ kid_utf8 (pk_kid p) = true).
  Proof.
    intros WF. rewrite jwk_export_succeeds_iff. split; intros H en I S.
    - destruct (H en I S) as (p & K & _ & U). eauto.
    - destruct (H en I S) as (p & K & U). exists p. split; [exact K|]. split; [|exact U].
      apply export_key_wf. eapply WF; eauto.
  Qed.

  (* the handle ToPublicKeysetHandle returns: the imported keys in order, all
     ENABLED, under the drawn ids, the last one primary *)
  Lemma handle_entries pks : forall ids, length ids = length pks ->
    let ks := map (fun ki => mkEntry (KPub (fst ki)) Enabled (snd ki)) (combine pks ids) in
    map e_key ks = map KPub pks /\ map e_id ks = ids /\ Forall (fun en => e_status en = Enabled) ks.
  Proof.
    induction pks as [|p t IH]; intros [|i ids] L; try discriminate.
    - cbn. auto.
    - cbn [combine map fst snd e_key e_id]. injection L as L. destruct (IH ids L) as (A & B & C).
      cbn zeta in *. rewrite A, B. repeat split. constructor; [reflexivity|exact C].
  Qed.

  Theorem jwk_import_handle_shape ids j pks :
    jwk_import on_curve j = Some pks -> length ids = length pks ->
    exists ks, jwk_import_handle on_curve ids j = Some (ks, last ids 0)
      /\ map e_key ks = map KPub pks /\ map e_id ks = ids
      /\ Forall (fun en => e_status en = Enabled) ks.
  Proof.
    intros E L. unfold jwk_import_handle. rewrite E.
    destruct (handle_entries pks ids L) as (A & B & C). cbn zeta in *.
    eexists. split; [rewrite B; reflexivity|]. auto.
  Qed.
End RoundTrip.

(* ================= link to verification ================= *)

Section Link.
  Variable on_curve : hsz -> bytes -> bool.
  Variable kref_of : material -> N.

  (* the round trip keeps the material a raw verifier is built from *)
  Lemma pk_material_jwk_pub p : pk_material (jwk_pub p) = pk_material p.
  Proof. destruct p; reflexivity. Qed.
  Lemma alg_name_jwk_pub p : alg_name (jwk_pub p) = alg_name p.
  Proof. destruct p; reflexivity. Qed.

  (* ... hence the jkey of the imported key is jwk_key of the original jkey *)
  Lemma jwk_key_jkey_of b p : jwk_key (jkey_of kref_of b p) = jkey_of kref_of true (jwk_pub p).
  Proof. destruct p as [a pt kid|fam a n e kid]; destruct kid; reflexivity. Qed.

  Lemma view_roundtrip ks :
    jwk_roundtrip (keyset_view kref_of ks) = map (jkey_of kref_of true) (map jwk_pub (enabled_pubs ks)).
  Proof.
    unfold jwk_roundtrip. induction ks as [|en t IH]; [reflexivity|].
    cbn [keyset_view enabled_pubs]. unfold is_enabled.
    destruct (e_key en) as [p|p s|w]; destruct (e_status en); cbn [filter kenabled jkey_of map]; try exact IH.
    rewrite IH. f_equal. apply (jwk_key_jkey_of true p).
  Qed.

  Lemma view_member ks p :
    In p (enabled_pubs ks) -> In (jkey_of kref_of true p) (keyset_view kref_of ks).
  Proof.
    induction ks as [|en t IH]; [intros []|].
    cbn [keyset_view enabled_pubs]. unfold is_enabled.
    destruct (e_status en); destruct (e_key en) as [q|q s|w]; cbn [In]; try exact IH;
      try (intros I; right; exact (IH I)).
    intros [<-|I]; [left; reflexivity | right; exact (IH I)].
  Qed.

  (* 3. whatever the public keyset accepts, the keyset imported from its JWK
     export accepts, with the same claims *)
  Theorem jwk_export_import_preserves_acceptance sig_valid json_parse ks j o tok r :
    keyset_wf on_curve ks -> jwk_export ks = Some j ->
    verify sig_valid json_parse (keyset_view kref_of ks) o tok = Some (VOk r) ->
    exists pks, jwk_import on_curve j = Some pks
      /\ map pk_material pks = map pk_material (enabled_pubs ks)
      /\ map alg_name pks = map alg_name (enabled_pubs ks)
      /\ map (jkey_of kref_of true) pks = jwk_roundtrip (keyset_view kref_of ks)
      /\ verify sig_valid json_parse (map (jkey_of kref_of true) pks) o tok = Some (VOk r).
  Proof.
    intros WF E V. apply jwk_roundtrip_preserves in V. rewrite view_roundtrip in V.
    assert (NE : enabled_pubs ks <> []).
    { intros Z. rewrite Z in V. unfold verify in V. destruct (new_validator o); discriminate. }
    exists (map jwk_pub (enabled_pubs ks)).
    split; [apply jwk_export_import; assumption|].
    split; [rewrite map_map; apply map_ext; apply pk_material_jwk_pub|].
    split; [rewrite map_map; apply map_ext; apply alg_name_jwk_pub|].
    split; [symmetry; apply view_roundtrip | exact V].
  Qed.

  (* ... in particular every token the private keyset signs: the signer of an
     enabled key p is the jkey of p (same raw key reference, algorithm, kid rule) *)
  Theorem jwk_imported_keyset_verifies_signed_tokens
      (sig_valid : N -> bytes -> bytes -> bool) (json_parse : bytes -> option fields)
      (json_print : fields -> bytes) (sign : N -> bytes -> bytes) :
    (forall f, json_utf8 (JObj f) = true -> json_parse (json_print f) = Some f) ->
    (forall f, wfb (json_print f)) ->
    (forall kr m, sig_valid kr (sign kr m) m = true) ->
    (forall kr m, wfb (sign kr m)) ->
    (forall kr m, sign kr m <> []) ->
    forall ks j p o v ro r tok,
      keyset_wf on_curve ks -> jwk_export ks = Some j -> In p (enabled_pubs ks) ->
      new_raw_jwt ro = Some r ->
      encode json_print sign (jkey_of kref_of true p) r = Some tok ->
      new_validator o = Some v -> validate v r = true ->
      exists pks, jwk_import on_curve j = Some pks
        /\ verify sig_valid json_parse (map (jkey_of kref_of true) pks) o tok = Some (VOk r).
  Proof.
    intros L1 L2 L3 L4 L5 ks j p o v ro r tok WF E I R T NV VA.
    assert (V : verify sig_valid json_parse (keyset_view kref_of ks) o tok = Some (VOk r)).
    { eapply (encode_verify_roundtrip sig_valid json_parse json_print sign L1 L2 L3 L4 L5);
        [exact R | apply view_member; exact I | reflexivity | exact T | exact NV | exact VA]. }
    destruct (jwk_export_import_preserves_acceptance _ _ _ _ _ _ _ WF E V) as (pks & A & _ & _ & _ & B).
    exists pks. auto.
  Qed.
End Link.

(* a decision procedure for wfb, for concrete examples *)
Lemma wfb_check b : forallb (fun x => x <? 256) b = true -> wfb b.
Proof.
  intros H. unfold wfb. apply Forall_forall. intros x I.
  rewrite forallb_forall in H. specialize (H x I). lia.
Qed.
