(* Property C09, JSON text layer: INDEPENDENT specifications of the leaves the
   tokenizer and its declarative grammar (JsonLexProofs.str_item) share -
   written from the RFCs, not from the parser - and the theorems that tie the
   model's functions to them:

     UTF-8 (RFC 3629 section 3, the table of section 4 of the Unicode standard
       "well-formed UTF-8 byte sequences" follows from it): utf8_char u b -
       the scalar value u is encoded by the byte sequence b, stated through the
       bit layout of each row of the RFC's table and the row's value range (so
       no overlong form, no surrogate, nothing above U+10FFFF); a decoder
       utf8_decode written from the same table.
         utf8_decode b = Some u <-> utf8_char u b
         utf8_decode (utf8_enc u) = Some u   for every scalar value u
         utf8_char u b -> b = utf8_enc u     (the encoder is the only encoding)
         the byte tests of the parser (lex_string, Jwt.utf8_valid) accept a 1-,
           2-, 3-, 4-byte sequence iff it is utf8_char of some u
         utf8_valid s = true <-> s is a concatenation of utf8_char sequences
     escapes (RFC 8259 section 7): the eight two-character escapes as a
       literal table; the hex digits as a literal table; \uXXXX = the four
       digits read in base 16
     surrogate pairs (RFC 8259 section 7 refers to UTF-16, RFC 2781 section
       2.1): utf16_pair u hi lo - the encoder's formula; pair_cp inverts it
     whitespace and delimiters as literal sets

   str_item_rfc is the string-literal grammar stated with these only; it is
   equivalent to str_item, hence lex_string accepts exactly its bodies. *)
From Coq Require Import List NArith ZArith Bool Lia ZifyN ZifyNat ZifyBool Arith.
From Tink Require Import Bytes Base64url Jwt Json JsonLexProofs JsonProofs.
Import ListNotations.
Open Scope N_scope.

Ltac Zify.zify_post_hook ::= Z.div_mod_to_equations.

(* ================= UTF-8, RFC 3629 ================= *)
(* D800..DFFF *)
Definition surrogate (u : N) : Prop := 55296 <= u <= 57343.
(* a Unicode scalar value: up to 10FFFF, not a surrogate *)
Definition scalar (u : N) : Prop := u <= 1114111 /\ ~ surrogate u.

(*   Char. number range  |        UTF-8 octet sequence
        (hexadecimal)    |              (binary)
     --------------------+---------------------------------------------
     0000 0000-0000 007F | 0xxxxxxx
     0000 0080-0000 07FF | 110xxxxx 10xxxxxx
     0000 0800-0000 FFFF | 1110xxxx 10xxxxxx 10xxxxxx
     0001 0000-0010 FFFF | 11110xxx 10xxxxxx 10xxxxxx 10xxxxxx      (RFC 3629 section 3)
   a, b, c, d are the bit groups x, most significant first *)
Inductive utf8_char : N -> bytes -> Prop :=
| U8_1 u : u <= 127 -> utf8_char u [u]
| U8_2 u a b : 128 <= u <= 2047 -> a < 32 -> b < 64 -> u = a * 64 + b ->
    utf8_char u [192 + a; 128 + b]
| U8_3 u a b c : 2048 <= u <= 65535 -> ~ surrogate u -> a < 16 -> b < 64 -> c < 64 ->
    u = a * 4096 + b * 64 + c ->
    utf8_char u [224 + a; 128 + b; 128 + c]
| U8_4 u a b c d : 65536 <= u <= 1114111 -> a < 8 -> b < 64 -> c < 64 -> d < 64 ->
    u = a * 262144 + b * 4096 + c * 64 + d ->
    utf8_char u [240 + a; 128 + b; 128 + c; 128 + d].

(* a decoder for ONE sequence, from the same table: the payload bits of a
   continuation byte 10xxxxxx *)
Definition cbits (y : N) : option N := if (128 <=? y) && (y <=? 191) then Some (y - 128) else None.
Definition utf8_decode (b : bytes) : option N :=
  match b with
  | [x] => if x <=? 127 then Some x else None
  | [x; y] =>
    match cbits y with
    | Some q =>
      if (192 <=? x) && (x <=? 223) then
        let u := (x - 192) * 64 + q in if 128 <=? u then Some u else None
      else None
    | None => None
    end
  | [x; y; z] =>
    match cbits y, cbits z with
    | Some q, Some r =>
      if (224 <=? x) && (x <=? 239) then
        let u := (x - 224) * 4096 + q * 64 + r in
        if (2048 <=? u) && negb ((55296 <=? u) && (u <=? 57343)) then Some u else None
      else None
    | _, _ => None
    end
  | [x; y; z; w] =>
    match cbits y, cbits z, cbits w with
    | Some q, Some r, Some t =>
      if (240 <=? x) && (x <=? 247) then
        let u := (x - 240) * 262144 + q * 4096 + r * 64 + t in
        if (65536 <=? u) && (u <=? 1114111) then Some u else None
      else None
    | _, _, _ => None
    end
  | _ => None
  end.

Lemma cbits_some y q : cbits y = Some q <-> q < 64 /\ y = 128 + q.
Proof.
  unfold cbits. destruct ((128 <=? y) && (y <=? 191)) eqn:C.
  - split; [intros E; inversion E; lia|intros [L ->]; f_equal; lia].
  - split; [discriminate|]. intros [L ->]. lia.
Qed.

Lemma cbits_enc q : q < 64 -> cbits (128 + q) = Some q.
Proof. intros H. apply cbits_some. split; [exact H|reflexivity]. Qed.

Theorem utf8_decode_spec b u : utf8_decode b = Some u <-> utf8_char u b.
Proof.
  split.
  - destruct b as [|x [|y [|z [|w [|v b]]]]]; cbn [utf8_decode]; try discriminate.
    + destruct (x <=? 127) eqn:A; [|discriminate]. intros E. inversion E; subst. constructor. lia.
    + destruct (cbits y) as [q|] eqn:Cy; [|discriminate]. apply cbits_some in Cy. destruct Cy as [Lq ->].
      destruct ((192 <=? x) && (x <=? 223)) eqn:A; [|discriminate]. cbv zeta.
      destruct (128 <=? (x - 192) * 64 + q) eqn:B; [|discriminate]. intros E. inversion E; subst u.
      pose proof (U8_2 ((x - 192) * 64 + q) (x - 192) q) as K.
      replace (192 + (x - 192)) with x in K by lia. apply K; lia.
    + destruct (cbits y) as [q|] eqn:Cy; [|discriminate]. apply cbits_some in Cy. destruct Cy as [Lq ->].
      destruct (cbits z) as [r|] eqn:Cz; [|discriminate]. apply cbits_some in Cz. destruct Cz as [Lr ->].
      destruct ((224 <=? x) && (x <=? 239)) eqn:A; [|discriminate]. cbv zeta.
      destruct ((2048 <=? (x - 224) * 4096 + q * 64 + r)
                && negb ((55296 <=? (x - 224) * 4096 + q * 64 + r) && ((x - 224) * 4096 + q * 64 + r <=? 57343))) eqn:B;
        [|discriminate].
      intros E. inversion E; subst u.
      pose proof (U8_3 ((x - 224) * 4096 + q * 64 + r) (x - 224) q r) as K.
      replace (224 + (x - 224)) with x in K by lia. apply K; unfold surrogate; lia.
    + destruct (cbits y) as [q|] eqn:Cy; [|discriminate]. apply cbits_some in Cy. destruct Cy as [Lq ->].
      destruct (cbits z) as [r|] eqn:Cz; [|discriminate]. apply cbits_some in Cz. destruct Cz as [Lr ->].
      destruct (cbits w) as [t|] eqn:Cw; [|discriminate]. apply cbits_some in Cw. destruct Cw as [Lt ->].
      destruct ((240 <=? x) && (x <=? 247)) eqn:A; [|discriminate]. cbv zeta.
      destruct ((65536 <=? (x - 240) * 262144 + q * 4096 + r * 64 + t)
                && ((x - 240) * 262144 + q * 4096 + r * 64 + t <=? 1114111)) eqn:B; [|discriminate].
      intros E. inversion E; subst u.
      pose proof (U8_4 ((x - 240) * 262144 + q * 4096 + r * 64 + t) (x - 240) q r t) as K.
      replace (240 + (x - 240)) with x in K by lia. apply K; lia.
  - intros H. destruct H as [u L|u a b R La Lb E|u a b c R NS La Lb Lc E|u a b c d R La Lb Lc Ld E]; cbn [utf8_decode].
    + replace (u <=? 127) with true by lia. reflexivity.
    + rewrite (cbits_enc b Lb). replace ((192 <=? 192 + a) && (192 + a <=? 223)) with true by lia. cbv zeta.
      replace (192 + a - 192) with a by lia. rewrite <- E. replace (128 <=? u) with true by lia. reflexivity.
    + rewrite (cbits_enc b Lb), (cbits_enc c Lc).
      replace ((224 <=? 224 + a) && (224 + a <=? 239)) with true by lia. cbv zeta.
      replace (224 + a - 224) with a by lia. rewrite <- E. unfold surrogate in NS.
      replace ((2048 <=? u) && negb ((55296 <=? u) && (u <=? 57343))) with true by lia. reflexivity.
    + rewrite (cbits_enc b Lb), (cbits_enc c Lc), (cbits_enc d Ld).
      replace ((240 <=? 240 + a) && (240 + a <=? 247)) with true by lia. cbv zeta.
      replace (240 + a - 240) with a by lia. rewrite <- E.
      replace ((65536 <=? u) && (u <=? 1114111)) with true by lia. reflexivity.
Qed.

(* only scalar values are encoded *)
Lemma utf8_char_scalar u b : utf8_char u b -> scalar u.
Proof. unfold scalar, surrogate. intros H. destruct H; unfold surrogate in *; lia. Qed.

(* the model's encoder produces THE encoding of every scalar value *)
Theorem utf8_enc_char u : scalar u -> utf8_char u (utf8_enc u).
Proof.
  unfold scalar, surrogate, utf8_enc. intros [L NS].
  destruct (u <? 128) eqn:A; [constructor; lia|].
  destruct (u <? 2048) eqn:B.
  { apply (U8_2 u (u / 64) (u mod 64)); lia. }
  destruct (u <? 65536) eqn:C.
  { apply (U8_3 u (u / 4096) ((u / 64) mod 64) (u mod 64)); unfold surrogate; lia. }
  apply (U8_4 u (u / 262144) ((u / 4096) mod 64) ((u / 64) mod 64) (u mod 64)); lia.
Qed.

Theorem utf8_char_enc u b : utf8_char u b -> b = utf8_enc u.
Proof.
  intros H. unfold utf8_enc.
  destruct H as [u L|u a b R La Lb E|u a b c R NS La Lb Lc E|u a b c d R La Lb Lc Ld E].
  - replace (u <? 128) with true by lia. reflexivity.
  - replace (u <? 128) with false by lia. replace (u <? 2048) with true by lia.
    f_equal; [|f_equal]; lia.
  - replace (u <? 128) with false by lia. replace (u <? 2048) with false by lia.
    replace (u <? 65536) with true by lia. f_equal; [|f_equal; [|f_equal]]; lia.
  - replace (u <? 128) with false by lia. replace (u <? 2048) with false by lia.
    replace (u <? 65536) with false by lia. f_equal; [|f_equal; [|f_equal; [|f_equal]]]; lia.
Qed.

(* decode (encode u) = u for EVERY scalar value (by arithmetic, not by a sweep) *)
Theorem utf8_decode_enc u : scalar u -> utf8_decode (utf8_enc u) = Some u.
Proof. intros H. apply utf8_decode_spec. apply utf8_enc_char. exact H. Qed.

Theorem utf8_enc_decode b u : utf8_decode b = Some u -> utf8_enc u = b /\ scalar u.
Proof.
  intros H. apply utf8_decode_spec in H. split; [symmetry; apply utf8_char_enc; exact H|].
  eapply utf8_char_scalar; exact H.
Qed.

(* a byte sequence encodes at most one value; a value has exactly one encoding *)
Corollary utf8_char_inj u u' b : utf8_char u b -> utf8_char u' b -> u = u'.
Proof. intros H H'. apply utf8_decode_spec in H, H'. congruence. Qed.
Corollary utf8_enc_inj u u' : scalar u -> scalar u' -> utf8_enc u = utf8_enc u' -> u = u'.
Proof.
  intros S S' E. apply utf8_decode_enc in S, S'. rewrite E in S. congruence.
Qed.

(* ---- the byte tests of the parser are the specification ---- *)
(* inversion by hand (the tactic would unfold 192 + a) *)
Lemma utf8_char_inv u l : utf8_char u l ->
  (u <= 127 /\ l = [u])
  \/ (exists a b, 128 <= u <= 2047 /\ a < 32 /\ b < 64 /\ u = a * 64 + b /\ l = [192 + a; 128 + b])
  \/ (exists a b c, 2048 <= u <= 65535 /\ ~ surrogate u /\ a < 16 /\ b < 64 /\ c < 64
                     /\ u = a * 4096 + b * 64 + c /\ l = [224 + a; 128 + b; 128 + c])
  \/ (exists a b c d, 65536 <= u <= 1114111 /\ a < 8 /\ b < 64 /\ c < 64 /\ d < 64
                       /\ u = a * 262144 + b * 4096 + c * 64 + d /\ l = [240 + a; 128 + b; 128 + c; 128 + d]).
Proof.
  intros H. destruct H as [u L|u a b R La Lb E|u a b c R NS La Lb Lc E|u a b c d R La Lb Lc Ld E].
  - left. auto.
  - right. left. exists a, b. auto.
  - right. right. left. exists a, b, c. auto 10.
  - right. right. right. exists a, b, c, d. auto 10.
Qed.

Lemma seq1_spec x : x < 128 <-> utf8_char x [x].
Proof.
  split; [intros H; constructor; lia|]. intros H. apply utf8_char_inv in H.
  destruct H as [[L _]|[(a & b & _ & _ & _ & _ & E)|[(a & b & c & _ & _ & _ & _ & _ & _ & E)|(a & b & c & d & _ & _ & _ & _ & _ & _ & E)]]];
    [lia|discriminate E..].
Qed.

Lemma seq2_spec x y : inr 194 223 x && cont y = true <-> exists u, utf8_char u [x; y].
Proof.
  unfold cont, inr. split.
  - intros H. exists ((x - 192) * 64 + (y - 128)).
    pose proof (U8_2 ((x - 192) * 64 + (y - 128)) (x - 192) (y - 128)) as K.
    replace (192 + (x - 192)) with x in K by lia. replace (128 + (y - 128)) with y in K by lia.
    apply K; lia.
  - intros [u H]. apply utf8_char_inv in H.
    destruct H as [[_ E]|[(a & b & R & La & Lb & Eu & E)|[(a & b & c & _ & _ & _ & _ & _ & _ & E)|(a & b & c & d & _ & _ & _ & _ & _ & _ & E)]]];
      try discriminate E.
    assert (x = 192 + a /\ y = 128 + b) as [-> ->] by (split; congruence). lia.
Qed.

Lemma seq3_spec x y z :
  inr 224 239 x && ((if x =? 224 then inr 160 191 y else if x =? 237 then inr 128 159 y else cont y) && cont z) = true
  <-> exists u, utf8_char u [x; y; z].
Proof.
  unfold cont, inr. split.
  - intros H. exists ((x - 224) * 4096 + (y - 128) * 64 + (z - 128)).
    pose proof (U8_3 ((x - 224) * 4096 + (y - 128) * 64 + (z - 128)) (x - 224) (y - 128) (z - 128)) as K.
    destruct (x =? 224) eqn:A; [|destruct (x =? 237) eqn:B];
      (replace (224 + (x - 224)) with x in K by lia; replace (128 + (y - 128)) with y in K by lia;
       replace (128 + (z - 128)) with z in K by lia; apply K; unfold surrogate; lia).
  - intros [u H]. apply utf8_char_inv in H.
    destruct H as [[_ E]|[(a & b & _ & _ & _ & _ & E)|[(a & b & c & R & NS & La & Lb & Lc & Eu & E)|(a & b & c & d & _ & _ & _ & _ & _ & _ & E)]]];
      try discriminate E.
    assert (x = 224 + a /\ y = 128 + b /\ z = 128 + c) as [-> [-> ->]] by (repeat split; congruence).
    unfold surrogate in *.
    destruct (224 + a =? 224) eqn:A; [|destruct (224 + a =? 237) eqn:B]; lia.
Qed.

Lemma seq4_spec x y z w :
  inr 240 244 x && ((if x =? 240 then inr 144 191 y else if x =? 244 then inr 128 143 y else cont y) && cont z && cont w) = true
  <-> exists u, utf8_char u [x; y; z; w].
Proof.
  unfold cont, inr. split.
  - intros H. exists ((x - 240) * 262144 + (y - 128) * 4096 + (z - 128) * 64 + (w - 128)).
    pose proof (U8_4 ((x - 240) * 262144 + (y - 128) * 4096 + (z - 128) * 64 + (w - 128)) (x - 240) (y - 128) (z - 128) (w - 128)) as K.
    destruct (x =? 240) eqn:A; [|destruct (x =? 244) eqn:B];
      (replace (240 + (x - 240)) with x in K by lia; replace (128 + (y - 128)) with y in K by lia;
       replace (128 + (z - 128)) with z in K by lia; replace (128 + (w - 128)) with w in K by lia; apply K; lia).
  - intros [u H]. apply utf8_char_inv in H.
    destruct H as [[_ E]|[(a & b & _ & _ & _ & _ & E)|[(a & b & c & _ & _ & _ & _ & _ & _ & E)|(a & b & c & d & R & La & Lb & Lc & Ld & Eu & E)]]];
      try discriminate E.
    assert (x = 240 + a /\ y = 128 + b /\ z = 128 + c /\ w = 128 + d) as [-> [-> [-> ->]]] by (repeat split; congruence).
    destruct (240 + a =? 240) eqn:A; [|destruct (240 + a =? 244) eqn:B]; lia.
Qed.

(* the value of a sequence of two or more bytes is not ASCII *)
Lemma utf8_char_multibyte u x y l : utf8_char u (x :: y :: l) -> 128 <= u.
Proof.
  intros H. apply utf8_char_inv in H.
  destruct H as [[_ E]|[(a & b & R & _)|[(a & b & c & R & _)|(a & b & c & d & R & _)]]]; [discriminate E|lia..].
Qed.

Lemma utf8_char_nonempty u b : utf8_char u b -> b <> [].
Proof. intros H. destruct H; discriminate. Qed.

Lemma utf8_char_valid u b : utf8_char u b -> utf8_valid b = true.
Proof.
  intros H. pose proof H as H0.
  destruct H as [u L|u a b R La Lb E|u a b c R NS La Lb Lc E|u a b c d R La Lb Lc Ld E].
  - apply utf8_one. lia.
  - assert (S : inr 194 223 (192 + a) && cont (128 + b) = true) by (apply seq2_spec; eauto).
    apply andb_true_iff in S. destruct S as [S1 S2].
    rewrite utf8_valid_cons. replace (192 + a <? 128) with false by lia. rewrite S1, S2. reflexivity.
  - assert (S : inr 224 239 (224 + a) && ((if 224 + a =? 224 then inr 160 191 (128 + b)
              else if 224 + a =? 237 then inr 128 159 (128 + b) else cont (128 + b)) && cont (128 + c)) = true)
      by (apply seq3_spec; eauto).
    apply andb_true_iff in S. destruct S as [S1 S2].
    rewrite utf8_valid_cons. replace (224 + a <? 128) with false by lia.
    replace (inr 194 223 (224 + a)) with false by (unfold inr; lia). rewrite S1, S2. reflexivity.
  - assert (S : inr 240 244 (240 + a) && ((if 240 + a =? 240 then inr 144 191 (128 + b)
              else if 240 + a =? 244 then inr 128 143 (128 + b) else cont (128 + b)) && cont (128 + c) && cont (128 + d)) = true)
      by (apply seq4_spec; eauto).
    apply andb_true_iff in S. destruct S as [S1 S2].
    rewrite utf8_valid_cons. replace (240 + a <? 128) with false by lia.
    replace (inr 194 223 (240 + a)) with false by (unfold inr; lia).
    replace (inr 224 239 (240 + a)) with false by (unfold inr; lia). rewrite S1, S2. reflexivity.
Qed.

(* a text: a concatenation of encoded scalar values *)
Inductive utf8_text : bytes -> Prop :=
| UT_nil : utf8_text []
| UT_cons u b s : utf8_char u b -> utf8_text s -> utf8_text (b ++ s).

(* Jwt.utf8_valid (utf8.Valid / the rune loop of protojson's parseString)
   accepts exactly the concatenations of RFC 3629 sequences *)
Theorem utf8_valid_spec s : utf8_valid s = true <-> utf8_text s.
Proof.
  split.
  - remember (length s) as n eqn:Hn. revert s Hn.
    induction n as [n IH] using lt_wf_ind. intros s Hn H.
    destruct s as [|x t]; [constructor|].
    rewrite utf8_valid_cons in H.
    destruct (x <? 128) eqn:A.
    { change (x :: t) with ([x] ++ t). apply (UT_cons x); [constructor; lia|].
      apply (IH (length t)); [cbn in Hn; lia|reflexivity|exact H]. }
    destruct (inr 194 223 x) eqn:R2.
    { destruct t as [|y t1]; [discriminate|]. apply andb_true_iff in H. destruct H as [Cy H].
      assert (S : exists u, utf8_char u [x; y]) by (apply seq2_spec; rewrite R2, Cy; reflexivity).
      destruct S as [u S]. change (x :: y :: t1) with ([x; y] ++ t1). apply (UT_cons u); [exact S|].
      apply (IH (length t1)); [cbn in Hn; lia|reflexivity|exact H]. }
    destruct (inr 224 239 x) eqn:R3.
    { destruct t as [|y [|z t2]]; try discriminate. apply andb_true_iff in H. destruct H as [Cyz H].
      assert (S : exists u, utf8_char u [x; y; z]) by (apply seq3_spec; rewrite R3, Cyz; reflexivity).
      destruct S as [u S]. change (x :: y :: z :: t2) with ([x; y; z] ++ t2). apply (UT_cons u); [exact S|].
      apply (IH (length t2)); [cbn in Hn; lia|reflexivity|exact H]. }
    destruct (inr 240 244 x) eqn:R4; [|discriminate].
    destruct t as [|y [|z [|w t3]]]; try discriminate. apply andb_true_iff in H. destruct H as [Cyzw H].
    assert (S : exists u, utf8_char u [x; y; z; w]) by (apply seq4_spec; rewrite R4, Cyzw; reflexivity).
    destruct S as [u S]. change (x :: y :: z :: w :: t3) with ([x; y; z; w] ++ t3). apply (UT_cons u); [exact S|].
    apply (IH (length t3)); [cbn in Hn; lia|reflexivity|exact H].
  - induction 1 as [|u b s C T IH]; [reflexivity|].
    apply utf8_valid_app_true; [eapply utf8_char_valid; exact C|exact IH].
Qed.

(* the same with the encoder: valid UTF-8 = the encodings of lists of scalar values *)
Corollary utf8_valid_enc s :
  utf8_valid s = true <-> exists us, Forall scalar us /\ s = concat (map utf8_enc us).
Proof.
  rewrite utf8_valid_spec. split.
  - induction 1 as [|u b s C T [us [F E]]]; [exists []; split; [constructor|reflexivity]|].
    exists (u :: us). split; [constructor; [eapply utf8_char_scalar; exact C|exact F]|].
    cbn [map concat]. rewrite <- (utf8_char_enc u b C), E. reflexivity.
  - intros [us [F ->]]. induction F as [|u us S F IH]; [constructor|].
    cbn [map concat]. apply (UT_cons u); [apply utf8_enc_char; exact S|exact IH].
Qed.

(* ================= escapes, RFC 8259 section 7 ================= *)
Ltac in_table := cbn; repeat (first [left; reflexivity | right]).
Ltac from_table H := cbn in H; repeat (destruct H as [H|H]; [inversion H; subst; try reflexivity|]); try destruct H.

(* backslash followed by  quotation mark, backslash, slash, b, f, n, r, t :
   (the character after the backslash, the byte it stands for) *)
Definition simple_escapes : list (N * N) :=
  [(34, 34); (92, 92); (47, 47); (98, 8); (102, 12); (110, 10); (114, 13); (116, 9)].

Theorem simple_escape_table e c : simple_escape e = Some c <-> In (e, c) simple_escapes.
Proof.
  split.
  - unfold simple_escape.
    repeat match goal with |- context [if ?b then _ else _] => destruct b eqn:? end;
      intros E; inversion E; subst;
      repeat match goal with H : (_ =? _) = true |- _ => apply N.eqb_eq in H; subst end; in_table.
  - intros H. from_table H.
Qed.

(* 0-9 a-f A-F and their values *)
Definition hex_digits : list (N * N) :=
  [(48, 0); (49, 1); (50, 2); (51, 3); (52, 4); (53, 5); (54, 6); (55, 7); (56, 8); (57, 9);
   (97, 10); (98, 11); (99, 12); (100, 13); (101, 14); (102, 15);
   (65, 10); (66, 11); (67, 12); (68, 13); (69, 14); (70, 15)].

Theorem hexval_table c v : hexval c = Some v <-> In (c, v) hex_digits.
Proof.
  split.
  - unfold hexval, is_digit.
    destruct ((48 <=? c) && (c <=? 57)) eqn:A.
    { intros E. inversion E; subst v.
      assert (D : c = 48 \/ c = 49 \/ c = 50 \/ c = 51 \/ c = 52 \/ c = 53 \/ c = 54 \/ c = 55 \/ c = 56 \/ c = 57) by lia.
      repeat (destruct D as [D|D]; [subst c; in_table|]). subst c; in_table. }
    destruct ((97 <=? c) && (c <=? 102)) eqn:B.
    { intros E. inversion E; subst v.
      assert (D : c = 97 \/ c = 98 \/ c = 99 \/ c = 100 \/ c = 101 \/ c = 102) by lia.
      repeat (destruct D as [D|D]; [subst c; in_table|]). subst c; in_table. }
    destruct ((65 <=? c) && (c <=? 70)) eqn:C; [|discriminate].
    intros E. inversion E; subst v.
    assert (D : c = 65 \/ c = 66 \/ c = 67 \/ c = 68 \/ c = 69 \/ c = 70) by lia.
    repeat (destruct D as [D|D]; [subst c; in_table|]). subst c; in_table.
  - intros H. from_table H.
Qed.

(* four hex digits, most significant first *)
Definition hex4_rfc (a b c d u : N) : Prop :=
  exists x y z w, In (a, x) hex_digits /\ In (b, y) hex_digits /\ In (c, z) hex_digits /\ In (d, w) hex_digits
                  /\ u = x * 4096 + y * 256 + z * 16 + w.

Theorem hex4_table a b c d u : hex4 a b c d = Some u <-> hex4_rfc a b c d u.
Proof.
  unfold hex4, hex4_rfc. split.
  - destruct (hexval a) as [x|] eqn:Ea; [|discriminate]. destruct (hexval b) as [y|] eqn:Eb; [|discriminate].
    destruct (hexval c) as [z|] eqn:Ec; [|discriminate]. destruct (hexval d) as [w|] eqn:Ed; [|discriminate].
    intros E. inversion E. exists x, y, z, w. rewrite <- !hexval_table. repeat (split; [assumption|]). lia.
  - intros [x [y [z [w [Ha [Hb [Hc [Hd ->]]]]]]]]. apply hexval_table in Ha, Hb, Hc, Hd.
    rewrite Ha, Hb, Hc, Hd. f_equal. lia.
Qed.

(* ================= surrogate pairs: UTF-16, RFC 2781 section 2.1 ================= *)
(* U1 = U - 0x10000;  W1 = 0xD800 | the 10 high-order bits of U1;
   W2 = 0xDC00 | the 10 low-order bits of U1 *)
Definition utf16_pair (u hi lo : N) : Prop :=
  65536 <= u <= 1114111 /\ hi = 55296 + (u - 65536) / 1024 /\ lo = 56320 + (u - 65536) mod 1024.

Theorem pair_cp_spec hi lo u :
  (is_high hi = true /\ is_low lo = true /\ u = pair_cp hi lo) <-> utf16_pair u hi lo.
Proof. unfold is_high, is_low, pair_cp, utf16_pair. lia. Qed.

(* the surrogate tests are the ranges D800..DFFF, D800..DBFF, DC00..DFFF *)
Lemma surrogate_tests u :
  (is_surrogate u = true <-> surrogate u)
  /\ (is_high u = true <-> 55296 <= u <= 56319) /\ (is_low u = true <-> 56320 <= u <= 57343).
Proof. unfold is_surrogate, is_high, is_low, surrogate. lia. Qed.

(* the example of RFC 8259 section 7: the G clef U+1D11E is \uD834\uDD1E *)
Example rfc8259_g_clef : pair_cp 55348 56606 = 119070 /\ utf16_pair 119070 55348 56606.
Proof. split; [reflexivity|]. apply pair_cp_spec. repeat split. Qed.

(* ================= whitespace and delimiters as literal sets ================= *)
(* RFC 8259 section 2: ws = space, horizontal tab, line feed, carriage return
   (is_ws_spec of JsonProofs.v); protojson's isNotDelim: - + . _ letters digits *)
Theorem is_not_delim_spec c :
  is_not_delim c = true <->
  c = 45 \/ c = 43 \/ c = 46 \/ c = 95 \/ 97 <= c <= 122 \/ 65 <= c <= 90 \/ 48 <= c <= 57.
Proof. unfold is_not_delim, is_digit. lia. Qed.

(* ================= the string-literal grammar from the RFCs alone ================= *)
(* one item of the text between the quotes and the bytes it stands for:
     unescaped   = %x20-21 / %x23-5B / %x5D-10FFFF, written in UTF-8 (stands for itself)
     \ + one of the eight characters
     \uXXXX of a code point that is not a surrogate: its UTF-8 encoding
     \uXXXX\uXXXX, a UTF-16 surrogate pair: the UTF-8 encoding of the code point *)
Inductive str_item_rfc : bytes -> bytes -> Prop :=
| SR_raw u b : utf8_char u b -> 32 <= u -> u <> 34 -> u <> 92 -> str_item_rfc b b
| SR_simple e c : In (e, c) simple_escapes -> str_item_rfc [92; e] [c]
| SR_u a b c d u o : hex4_rfc a b c d u -> ~ surrogate u -> utf8_char u o ->
    str_item_rfc [92; 117; a; b; c; d] o
| SR_pair a b c d a2 b2 c2 d2 hi lo u o :
    hex4_rfc a b c d hi -> hex4_rfc a2 b2 c2 d2 lo -> utf16_pair u hi lo -> utf8_char u o ->
    str_item_rfc [92; 117; a; b; c; d; 92; 117; a2; b2; c2; d2] o.

Inductive str_body_rfc : bytes -> bytes -> Prop :=
| SBR_nil : str_body_rfc [] []
| SBR_cons t o ts os : str_item_rfc t o -> str_body_rfc ts os -> str_body_rfc (t ++ ts) (o ++ os).

Lemma hex4_rfc_lt a b c d u : hex4_rfc a b c d u -> u < 65536.
Proof. intros H. apply hex4_table in H. apply hex4_lt in H. lia. Qed.

Theorem str_item_rfc_iff t o : str_item t o <-> str_item_rfc t o.
Proof.
  split.
  - intros SI. destruct SI as [x C A Q B|x y R2 Cy|x y z0 R3 Cyz|x y z0 w R4 Cyzw|e c SE|a b c d u HX SU
                              |a b c d a2 b2 c2 d2 hi lo HX HX2 Hh Hl].
    + apply (SR_raw x); [constructor; lia|lia|lia|lia].
    + assert (S : exists u, utf8_char u [x; y]) by (apply seq2_spec; rewrite R2, Cy; reflexivity).
      destruct S as [u S]. pose proof (utf8_char_multibyte _ _ _ _ S). apply (SR_raw u); [exact S|lia..].
    + assert (S : exists u, utf8_char u [x; y; z0]) by (apply seq3_spec; rewrite R3, Cyz; reflexivity).
      destruct S as [u S]. pose proof (utf8_char_multibyte _ _ _ _ S). apply (SR_raw u); [exact S|lia..].
    + assert (S : exists u, utf8_char u [x; y; z0; w]) by (apply seq4_spec; rewrite R4, Cyzw; reflexivity).
      destruct S as [u S]. pose proof (utf8_char_multibyte _ _ _ _ S). apply (SR_raw u); [exact S|lia..].
    + apply SR_simple. apply simple_escape_table. exact SE.
    + apply (SR_u a b c d u); [apply hex4_table; exact HX| |].
      * intros S. apply surrogate_tests in S. congruence.
      * apply utf8_enc_char. apply hex4_lt in HX. split; [lia|]. intros S. apply surrogate_tests in S. congruence.
    + assert (P : utf16_pair (pair_cp hi lo) hi lo) by (apply pair_cp_spec; auto).
      apply (SR_pair a b c d a2 b2 c2 d2 hi lo (pair_cp hi lo)); try (apply hex4_table; assumption); [exact P|].
      apply utf8_enc_char. destruct (pair_cp_range hi lo Hh Hl) as [PS PL]. split; [lia|].
      intros S. apply surrogate_tests in S. congruence.
  - intros SR. destruct SR as [u b C L Q B|e c T|a b c d u o HX NS C|a b c d a2 b2 c2 d2 hi lo u o HX HX2 P C].
    + destruct C as [u L1|u a b R La Lb E|u a b c R NS La Lb Lc E|u a b c d R La Lb Lc Ld E].
      * apply SI_ascii; lia.
      * assert (S : inr 194 223 (192 + a) && cont (128 + b) = true) by (apply seq2_spec; exists u; apply U8_2; assumption).
        apply andb_true_iff in S. destruct S. apply SI_utf8_2; assumption.
      * assert (S : inr 224 239 (224 + a) && ((if 224 + a =? 224 then inr 160 191 (128 + b)
                  else if 224 + a =? 237 then inr 128 159 (128 + b) else cont (128 + b)) && cont (128 + c)) = true)
          by (apply seq3_spec; exists u; apply U8_3; assumption).
        apply andb_true_iff in S. destruct S. apply SI_utf8_3; assumption.
      * assert (S : inr 240 244 (240 + a) && ((if 240 + a =? 240 then inr 144 191 (128 + b)
                  else if 240 + a =? 244 then inr 128 143 (128 + b) else cont (128 + b)) && cont (128 + c) && cont (128 + d)) = true)
          by (apply seq4_spec; exists u; apply U8_4; assumption).
        apply andb_true_iff in S. destruct S. apply SI_utf8_4; assumption.
    + apply SI_simple. apply simple_escape_table. exact T.
    + rewrite (utf8_char_enc u o C). apply SI_u; [apply hex4_table; exact HX|].
      destruct (is_surrogate u) eqn:S; [|reflexivity]. exfalso. apply NS. apply surrogate_tests. exact S.
    + rewrite (utf8_char_enc u o C). apply pair_cp_spec in P. destruct P as [Hh [Hl ->]].
      apply SI_pair; try (apply hex4_table; assumption); assumption.
Qed.

Theorem str_body_rfc_iff body o : str_body body o <-> str_body_rfc body o.
Proof.
  split; induction 1; constructor; try assumption; apply str_item_rfc_iff; assumption.
Qed.

(* THE string theorem through the independent specification: the string lexer
   accepts exactly the bodies of the RFC grammar closed by a quote, and yields
   what they stand for *)
Theorem lex_string_grammar_rfc s o r :
  lex_string s = Some (o, r) <-> exists body, s = body ++ 34 :: r /\ str_body_rfc body o.
Proof.
  rewrite lex_string_grammar. split; intros [body [E B]]; exists body; (split; [exact E|]); apply str_body_rfc_iff; exact B.
Qed.

(* what a body stands for is a text of scalar values *)
Lemma str_item_rfc_text t o : str_item_rfc t o -> utf8_text o.
Proof.
  intros H. destruct H as [u b C L Q B|e c T|a b c d u o HX NS C|a b c d a2 b2 c2 d2 hi lo u o HX HX2 P C].
  - rewrite <- (app_nil_r b). econstructor; [exact C|constructor].
  - change [c] with ([c] ++ []). apply (UT_cons c); [|constructor]. constructor. from_table T; lia.
  - rewrite <- (app_nil_r o). econstructor; [exact C|constructor].
  - rewrite <- (app_nil_r o). econstructor; [exact C|constructor].
Qed.

Lemma utf8_text_app a b : utf8_text a -> utf8_text b -> utf8_text (a ++ b).
Proof. induction 1 as [|u c s C T IH]; intros B; [exact B|]. rewrite <- app_assoc. econstructor; eauto. Qed.

Theorem str_body_rfc_text body o : str_body_rfc body o -> utf8_text o.
Proof.
  induction 1 as [|t o ts os I B IH]; [constructor|]. apply utf8_text_app; [eapply str_item_rfc_text; exact I|exact IH].
Qed.
