(* Proofs about model/SlhdsaFors.v: threaded = FIPS-shaped; FORS
   completeness (pkFromSig ∘ sign = Tl of the k tree roots). *)
From Coq Require Import List NArith Bool Arith Lia ZifyN ZifyNat.
From Tink Require Import Bytes SlhdsaSupport SlhdsaAddr SlhdsaBase SlhdsaWots SlhdsaFors SlhdsaSpec
  SlhdsaListProofs SlhdsaSupportProofs SlhdsaWotsProofs SlhdsaXmssProofs.
Import ListNotations.
Open Scope N_scope.

Section FORS.
  Variable P : params.
  Variable HS : hashes.
  Notation n := (p_n P).

  (* ---------- threaded = FIPS-shaped ---------- *)
  Lemma forsSkGen_spec : forall sk pk ad idx,
    forsSkGen HS sk pk ad idx = forsSkS HS (a_layer ad) (a_tree ad) (a_kp ad) sk pk idx.
  Proof. reflexivity. Qed.

  Lemma forsNode_spec : forall z sk i pk ad, a_typ ad = T_FORSTREE ->
    fst (forsNode HS z sk i pk ad) = forsNodeS HS (a_layer ad) (a_tree ad) (a_kp ad) sk pk z i
    /\ eq23 (snd (forsNode HS z sk i pk ad)) ad.
  Proof.
    induction z as [|z IH]; intros sk i pk ad Ht.
    - cbn [forsNode forsNodeS fst snd]. split; [|unfold eq23; simpl; tauto].
      rewrite forsSkGen_spec. unfold setTreeIndex, setTreeHeight. simpl. rewrite Ht. reflexivity.
    - cbn [forsNode forsNodeS].
      destruct (IH sk (2 * i) pk ad Ht) as [A1 B1].
      destruct (forsNode HS z sk (2 * i) pk ad) as [lnode ad1]. simpl in A1, B1.
      assert (Ht1 : a_typ ad1 = T_FORSTREE) by (unfold eq23 in B1; intuition congruence).
      destruct (IH sk (2 * i + 1) pk ad1 Ht1) as [A2 B2].
      destruct (forsNode HS z sk (2 * i + 1) pk ad1) as [rnode ad2]. simpl in A2, B2.
      unfold eq23 in *. destruct B1 as (b1 & b2 & b3 & b4), B2 as (c1 & c2 & c3 & c4).
      simpl. split; [|repeat split; congruence].
      rewrite A1, A2. unfold setTreeIndex, setTreeHeight; simpl.
      rewrite c1, c2, c3, c4, b1, b2, b3, b4, Ht. reflexivity.
  Qed.

  Lemma forsAuth_loop_spec : forall cnt j i ind sk pk ad auth, a_typ ad = T_FORSTREE ->
    fst (forsAuth_loop P HS cnt j i ind sk pk ad auth)
    = auth ++ flat_map (fun j => forsNodeS HS (a_layer ad) (a_tree ad) (a_kp ad) sk pk j
                 (N.shiftl (N.of_nat i) (N.of_nat (p_a P - j)) + N.lxor (N.shiftr ind (N.of_nat j)) 1)) (seq j cnt)
    /\ eq23 (snd (forsAuth_loop P HS cnt j i ind sk pk ad auth)) ad.
  Proof.
    induction cnt as [|cnt IH]; intros j i ind sk pk ad auth Ht.
    - simpl. rewrite app_nil_r. split; [reflexivity|apply eq23_refl].
    - cbn [forsAuth_loop seq flat_map].
      destruct (forsNode_spec j sk (N.shiftl (N.of_nat i) (N.of_nat (p_a P - j)) + N.lxor (N.shiftr ind (N.of_nat j)) 1)
                  pk ad Ht) as [A B].
      destruct (forsNode HS j sk _ pk ad) as [v ad1]. simpl in A, B.
      assert (Ht1 : a_typ ad1 = T_FORSTREE) by (unfold eq23 in B; intuition congruence).
      destruct (IH (S j) i ind sk pk ad1 (auth ++ v) Ht1) as [A' B'].
      split; [|eapply eq23_trans; eauto].
      rewrite A', <- app_assoc, A. destruct B as (b1 & b2 & b3 & b4). rewrite b1, b2, b4. reflexivity.
  Qed.

  Lemma forsSign_loop_spec : forall cnt i indices sk pk ad sig, a_typ ad = T_FORSTREE ->
    fst (forsSign_loop P HS cnt i indices sk pk ad sig)
    = sig ++ flat_map (fun i =>
        let ind := nth i indices 0 in
        forsSkS HS (a_layer ad) (a_tree ad) (a_kp ad) sk pk (forsLeafIdx P i ind)
        ++ flat_map (fun j => forsNodeS HS (a_layer ad) (a_tree ad) (a_kp ad) sk pk j
                       (N.shiftl (N.of_nat i) (N.of_nat (p_a P - j)) + N.lxor (N.shiftr ind (N.of_nat j)) 1))
                    (seq 0 (p_a P))) (seq i cnt)
    /\ eq23 (snd (forsSign_loop P HS cnt i indices sk pk ad sig)) ad.
  Proof.
    induction cnt as [|cnt IH]; intros i indices sk pk ad sig Ht.
    - simpl. rewrite app_nil_r. split; [reflexivity|apply eq23_refl].
    - cbn [forsSign_loop seq flat_map]. cbv zeta.
      destruct (forsAuth_loop_spec (p_a P) 0 i (nth i indices 0) sk pk ad [] Ht) as [A B].
      destruct (forsAuth_loop P HS (p_a P) 0 i (nth i indices 0) sk pk ad []) as [auth ad1]. simpl in A, B.
      assert (Ht1 : a_typ ad1 = T_FORSTREE) by (unfold eq23 in B; intuition congruence).
      destruct (IH (S i) indices sk pk ad1
                  ((sig ++ forsSkGen HS sk pk ad (N.shiftl (N.of_nat i) (N.of_nat (p_a P)) + nth i indices 0)) ++ auth)
                  Ht1) as [A' B'].
      split; [|eapply eq23_trans; eauto].
      rewrite A', A, forsSkGen_spec. destruct B as (b1 & b2 & b3 & b4). rewrite b1, b2, b4.
      unfold forsLeafIdx. rewrite <- !app_assoc. reflexivity.
  Qed.

  Lemma forsSign_spec : forall md sk pk ad, a_typ ad = T_FORSTREE ->
    fst (forsSign P HS md sk pk ad)
    = forsSignS P HS (a_layer ad) (a_tree ad) (a_kp ad) (base2b md (p_a P) (p_k P)) sk pk
    /\ eq23 (snd (forsSign P HS md sk pk ad)) ad.
  Proof.
    intros md sk pk ad Ht. unfold forsSign.
    destruct (forsSign_loop_spec (p_k P) 0 (base2b md (p_a P) (p_k P)) sk pk ad [] Ht) as [A B].
    split; [|exact B]. rewrite A. reflexivity.
  Qed.

  Lemma forsClimb_loop_spec : forall cnt k tidx idx auth pk ad node,
    a_typ ad = T_FORSTREE -> a_w3 ad = N.shiftr tidx (N.of_nat k) ->
    fst (forsClimb_loop P HS cnt k idx auth pk ad node)
    = climbS P HS (fun h i => mkA (a_layer ad) (a_tree ad) T_FORSTREE (a_kp ad) h i) cnt k tidx idx auth pk node
    /\ eq23 (snd (forsClimb_loop P HS cnt k idx auth pk ad node)) ad.
  Proof.
    induction cnt as [|cnt IH]; intros k tidx idx auth pk ad node Ht Hw.
    - simpl. split; [reflexivity|apply eq23_refl].
    - cbn [forsClimb_loop climbS].
      assert (E2 : setTreeIndex (N.shiftr (treeIndex (setTreeHeight (N.of_nat k + 1) ad)) 1)
                     (setTreeHeight (N.of_nat k + 1) ad)
                   = mkA (a_layer ad) (a_tree ad) T_FORSTREE (a_kp ad) (N.of_nat k + 1) (N.shiftr tidx (N.of_nat k + 1))).
      { unfold setTreeIndex, setTreeHeight, treeIndex. simpl. rewrite Ht, Hw, shiftr_succ. reflexivity. }
      rewrite E2.
      match goal with |- context [forsClimb_loop P HS cnt (S k) idx auth pk ?a ?nd] =>
        destruct (IH (S k) tidx idx auth pk a nd) as [A B] end.
      + reflexivity.
      + cbn [a_w3]. f_equal. lia.
      + split.
        * rewrite A. reflexivity.
        * eapply eq23_trans; eauto. unfold eq23; simpl; rewrite Ht; tauto.
  Qed.

  Lemma forsPkFromSig_loop_spec : forall cnt i indices sig pk ad root, a_typ ad = T_FORSTREE ->
    fst (forsPkFromSig_loop P HS cnt i indices sig pk ad root)
    = root ++ flat_map (fun i =>
         let ind := nth i indices 0 in
         let a := p_a P in
         let skv := firstn n (skipn (i * (a + 1) * n) sig) in
         let auth := firstn ((i + 1) * (a + 1) * n - (i * (a + 1) + 1) * n) (skipn ((i * (a + 1) + 1) * n) sig) in
         climbS P HS (fun h x => mkA (a_layer ad) (a_tree ad) T_FORSTREE (a_kp ad) h x) a 0 (forsLeafIdx P i ind) ind auth pk
                (hF HS pk (mkA (a_layer ad) (a_tree ad) T_FORSTREE (a_kp ad) 0 (forsLeafIdx P i ind)) skv))
         (seq i cnt)
    /\ eq23 (snd (forsPkFromSig_loop P HS cnt i indices sig pk ad root)) ad.
  Proof.
    induction cnt as [|cnt IH]; intros i indices sig pk ad root Ht.
    - simpl. rewrite app_nil_r. split; [reflexivity|apply eq23_refl].
    - cbn [forsPkFromSig_loop seq flat_map]. cbv zeta.
      set (ad1 := setTreeIndex _ (setTreeHeight 0 ad)).
      assert (E1 : ad1 = mkA (a_layer ad) (a_tree ad) T_FORSTREE (a_kp ad) 0 (forsLeafIdx P i (nth i indices 0))).
      { unfold ad1, setTreeIndex, setTreeHeight, forsLeafIdx. simpl. rewrite Ht. reflexivity. }
      clearbody ad1. subst ad1.
      match goal with |- context [forsClimb_loop P HS (p_a P) 0 ?ind ?auth pk ?a ?nd] =>
        destruct (forsClimb_loop_spec (p_a P) 0 (forsLeafIdx P i (nth i indices 0)) ind auth pk a nd eq_refl eq_refl) as [A B];
        destruct (forsClimb_loop P HS (p_a P) 0 ind auth pk a nd) as [node' ad2] end.
      simpl in A, B.
      assert (Ht2 : a_typ ad2 = T_FORSTREE) by (unfold eq23 in B; simpl in B; intuition congruence).
      destruct (IH (S i) indices sig pk ad2 (root ++ node') Ht2) as [A' B'].
      unfold eq23 in B; simpl in B. destruct B as (b1 & b2 & b3 & b4).
      split.
      + rewrite A', A, <- app_assoc, b1, b2, b4. reflexivity.
      + eapply eq23_trans; eauto. unfold eq23; simpl. rewrite Ht. tauto.
  Qed.

  Lemma forsPkFromSig_spec : forall sig md pk ad, a_typ ad = T_FORSTREE ->
    fst (forsPkFromSig P HS sig md pk ad)
    = forsPkFromSigS P HS (a_layer ad) (a_tree ad) (a_kp ad) (base2b md (p_a P) (p_k P)) sig pk
    /\ eq23 (snd (forsPkFromSig P HS sig md pk ad)) ad.
  Proof.
    intros sig md pk ad Ht. unfold forsPkFromSig, forsPkFromSigS.
    destruct (forsPkFromSig_loop_spec (p_k P) 0 (base2b md (p_a P) (p_k P)) sig pk ad [] Ht) as [A B].
    destruct (forsPkFromSig_loop P HS (p_k P) 0 _ sig pk ad []) as [root ad1]. simpl in A, B.
    simpl. split; [|exact B]. rewrite A. simpl.
    destruct B as (b1 & b2 & b3 & b4). unfold setKeyPairAddress, setTypeAndClear, keyPairAddress; simpl.
    rewrite b1, b2, b4. reflexivity.
  Qed.

  (* ---------- FORS completeness ---------- *)
  Lemma forsNodeS_len : hashes_ok P HS -> forall z l t kp sk pk i, length (forsNodeS HS l t kp sk pk z i) = n.
  Proof. intros OK z; destruct z; intros; simpl; [apply (hF_len _ _ OK)|apply (hH_len _ _ OK)]. Qed.

  (* (i·2^a + ind) >> j = i·2^(a-j) + (ind >> j) for j <= a *)
  Lemma leaf_shiftr (i ind : N) (a j : nat) : (j <= a)%nat ->
    N.shiftr (N.shiftl i (N.of_nat a) + ind) (N.of_nat j)
    = N.shiftl i (N.of_nat (a - j)) + N.shiftr ind (N.of_nat j).
  Proof.
    intros H. rewrite !N.shiftl_mul_pow2, !N.shiftr_div_pow2.
    replace (N.of_nat a) with (N.of_nat (a - j) + N.of_nat j) by lia.
    rewrite N.pow_add_r, N.mul_assoc. apply N.div_add_l. apply N.pow_nonzero. lia.
  Qed.

  Lemma shiftl_even (i : N) (c : nat) : (1 <= c)%nat -> exists X, N.shiftl i (N.of_nat c) = 2 * X.
  Proof.
    intros H. exists (i * 2 ^ N.of_nat (c - 1)). rewrite N.shiftl_mul_pow2.
    replace (N.of_nat c) with (1 + N.of_nat (c - 1)) by lia. rewrite N.pow_add_r. change (2 ^ 1) with 2. lia.
  Qed.

  Lemma even_add_lxor1 X y : N.lxor (2 * X + y) 1 = 2 * X + N.lxor y 1.
  Proof.
    pose proof (N.div_mod y 2 ltac:(lia)) as D. pose proof (N.mod_lt y 2 ltac:(lia)) as L.
    remember (y / 2) as q eqn:Eq. clear Eq.
    destruct (N.eqb_spec (y mod 2) 0) as [E|E].
    - assert (Y : y = 2 * q) by lia. subst y.
      replace (2 * X + 2 * q) with (2 * (X + q)) by lia. rewrite !lxor1_even. lia.
    - assert (Y : y = 2 * q + 1) by lia. subst y.
      replace (2 * X + (2 * q + 1)) with (2 * (X + q) + 1) by lia. rewrite !lxor1_odd. lia.
  Qed.

  Lemma even_add_land1 X y : N.land (2 * X + y) 1 = N.land y 1.
  Proof.
    rewrite !land1_mod. rewrite N.add_comm, N.mul_comm. apply N.mod_add. lia.
  Qed.

  Theorem forsS_complete : hashes_ok P HS -> forall l t kp indices sk pk,
    (forall i, nth i indices 0 < 2 ^ N.of_nat (p_a P)) ->
    forsPkFromSigS P HS l t kp indices (forsSignS P HS l t kp indices sk pk) pk = forsPkS P HS l t kp sk pk.
  Proof.
    intros OK l t kp indices sk pk Hind. unfold forsPkFromSigS, forsPkS. f_equal.
    apply flat_map_seq_ext. intros i Hi. cbv zeta.
    set (ind := nth i indices 0). set (a := p_a P).
    set (authp := flat_map (fun j => forsNodeS HS l t kp sk pk j
                   (N.shiftl (N.of_nat i) (N.of_nat (a - j)) + N.lxor (N.shiftr ind (N.of_nat j)) 1)) (seq 0 a)).
    assert (Hap : length authp = (a * n)%nat).
    { unfold authp. apply flat_map_seq_length. intros; apply forsNodeS_len; auto. }
    assert (Hsk : length (forsSkS HS l t kp sk pk (forsLeafIdx P i ind)) = n) by apply (hPrf_len _ _ OK).
    (* the i-th block of the signature *)
    assert (Hblk : exists rest, skipn (i * ((a + 1) * n)) (forsSignS P HS l t kp indices sk pk)
                                = (forsSkS HS l t kp sk pk (forsLeafIdx P i ind) ++ authp) ++ rest).
    { unfold forsSignS. eexists. rewrite skipn_flat_map_seq; [reflexivity| |lia].
      intros j _. cbv zeta. rewrite app_length. unfold forsSkS at 1. rewrite (hPrf_len _ _ OK).
      rewrite (flat_map_seq_length _ 0 (p_a P) n) by (intros; apply forsNodeS_len; auto). fold a. lia. }
    destruct Hblk as [rest Hblk].
    replace (i * (a + 1) * n)%nat with (i * ((a + 1) * n))%nat by lia.
    replace ((i * (a + 1) + 1) * n)%nat with (n + i * ((a + 1) * n))%nat by lia.
    rewrite <- skipn_add, Hblk.
    replace ((i + 1) * (a + 1) * n - (n + i * ((a + 1) * n)))%nat with (a * n)%nat by nia.
    rewrite <- !app_assoc.
    rewrite firstn_app_exact by lia. rewrite skipn_app_exact by lia. rewrite firstn_app_exact by lia.
    (* climb *)
    pose proof (climbS_node P HS (fun h x => mkA l t T_FORSTREE kp h x) (forsNodeS HS l t kp sk pk) pk a
                  (forsLeafIdx P i ind) ind authp) as C.
    specialize (C ltac:(intros; reflexivity)).
    assert (Hauth : forall j, (j < a)%nat ->
              chunk P j authp = forsNodeS HS l t kp sk pk j (N.lxor (N.shiftr (forsLeafIdx P i ind) (N.of_nat j)) 1)).
    { intros j Hj. unfold chunk, authp. rewrite <- (app_nil_r (flat_map _ _)).
      rewrite chunk_flat_map_seq; [|intros; apply forsNodeS_len; auto|lia]. simpl. f_equal.
      unfold forsLeafIdx. fold a. rewrite leaf_shiftr by lia.
      destruct (shiftl_even (N.of_nat i) (a - j) ltac:(lia)) as [X EX]. rewrite EX.
      symmetry. apply even_add_lxor1. }
    assert (Hbits : forall j, (j < a)%nat ->
              N.land (N.shiftr ind (N.of_nat j)) 1 = N.land (N.shiftr (forsLeafIdx P i ind) (N.of_nat j)) 1).
    { intros j Hj. unfold forsLeafIdx. fold a. rewrite leaf_shiftr by lia.
      destruct (shiftl_even (N.of_nat i) (a - j) ltac:(lia)) as [X EX]. rewrite EX.
      symmetry. apply even_add_land1. }
    specialize (C Hauth Hbits a 0%nat ltac:(lia)).
    change (N.of_nat 0) with 0 in C. rewrite N.shiftr_0_r in C.
    change (forsNodeS HS l t kp sk pk 0 (forsLeafIdx P i ind))
      with (hF HS pk (mkA l t T_FORSTREE kp 0 (forsLeafIdx P i ind)) (forsSkS HS l t kp sk pk (forsLeafIdx P i ind))) in C.
    rewrite C. simpl. f_equal.
    unfold forsLeafIdx. fold a. rewrite leaf_shiftr by lia. rewrite Nat.sub_diag. rewrite N.shiftl_0_r.
    rewrite (shiftr_small ind) by apply Hind. lia.
  Qed.

  (* as coded: the FORS public key recomputed from forsSign's output is Tl over
     the k tree roots forsNode computes, for every digest *)
  Theorem fors_complete : hashes_ok P HS -> forall md sk pk ad ad1,
    a_typ ad = T_FORSTREE -> eq23 ad1 ad ->
    fst (forsPkFromSig P HS (fst (forsSign P HS md sk pk ad)) md pk ad1)
    = forsPkS P HS (a_layer ad) (a_tree ad) (a_kp ad) sk pk.
  Proof.
    intros OK md sk pk ad ad1 Ht (e1 & e2 & e3 & e4).
    rewrite (proj1 (forsPkFromSig_spec _ _ _ ad1 ltac:(congruence))), (proj1 (forsSign_spec _ _ _ ad Ht)).
    rewrite e1, e2, e4. apply forsS_complete; auto.
    intros i. destruct (Nat.lt_ge_cases i (length (base2b md (p_a P) (p_k P)))) as [L|L].
    - pose proof (base2b_lt md (p_a P) (p_k P)) as F. rewrite Forall_forall in F. apply F. apply nth_In. exact L.
    - rewrite nth_overflow by lia. apply N.neq_0_lt_0, N.pow_nonzero. lia.
  Qed.
End FORS.
