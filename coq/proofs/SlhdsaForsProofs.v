(* Proofs about model/SlhdsaFors.v: threaded = FIPS-shaped; FORS
   completeness (pkFromSig ∘ sign = Tl of the k tree roots). *)
From Coq Require Import List NArith Bool Arith Lia ZifyN ZifyNat.
From Tink Require Import Bytes SlhdsaSupport SlhdsaAddr SlhdsaBase SlhdsaWots SlhdsaFors SlhdsaSpec
  SlhdsaListProofs SlhdsaSupportProofs SlhdsaWotsProofs SlhdsaXmssProofs.
Import ListNotations.
Open Scope N_scope.

Section FORS.
  Variable P : params.
  Variable HS : hashes.
  Notation n := (p_n P).

  (* ---------- threaded = FIPS-shaped ---------- *)
  Lemma forsSkGen_spec : forall sk pk ad idx,
    forsSkGen HS sk pk ad idx = forsSkS HS (a_layer ad) (a_tree ad) (a_kp ad) sk pk idx.
  Proof. reflexivity. Qed.

  Lemma forsNode_spec : forall z sk i pk ad, a_typ ad = T_FORSTREE ->
    fst (forsNode HS z sk i pk ad) = forsNodeS HS (a_layer ad) (a_tree ad) (a_kp ad) sk pk z i
    /\ eq23 (snd (forsNode HS z sk i pk ad)) ad.
  Proof.
    induction z as [|z IH]; intros sk i pk ad Ht.
    - cbn [forsNode forsNodeS fst snd]. split; [|unfold eq23; simpl; tauto].
      rewrite forsSkGen_spec. unfold setTreeIndex, setTreeHeight. simpl. rewrite Ht. reflexivity.
    - cbn [forsNode forsNodeS].
      destruct (IH sk (2 * i) pk ad Ht) as [A1 B1].
      destruct (forsNode HS z sk (2 * i) pk ad) as [lnode ad1]. simpl in A1, B1.
      assert (Ht1 : a_typ ad1 = T_FORSTREE) by (unfold eq23 in B1; intuition congruence).
      destruct (IH sk (2 * i + 1) pk ad1 Ht1) as [A2 B2].
      destruct (forsNode HS z sk (2 * i + 1) pk ad1) as [rnode ad2]. simpl in A2, B2.
      unfold eq23 in *. destruct B1 as (b1 & b2 & b3 & b4), B2 as (c1 & c2 & c3 & c4).
      simpl. split; [|repeat split; congruence].
      rewrite A1, A2. unfold setTreeIndex, setTreeHeight; simpl.
      rewrite c1, c2, c3, c4, b1, b2, b3, b4, Ht. reflexivity.
  Qed.

  Lemma forsAuth_loop_spec : forall cnt j i ind sk pk ad auth, a_typ ad = T_FORSTREE ->
    fst (forsAuth_loop P HS cnt j i ind sk pk ad auth)
    = auth ++ flat_map (fun j => forsNodeS HS (a_layer ad) (a_tree ad) (a_kp ad) sk pk j
                 (N.shiftl (N.of_nat i) (N.of_nat (p_a P - j)) + N.lxor (N.shiftr ind (N.of_nat j)) 1)) (seq j cnt)
    /\ eq23 (snd (forsAuth_loop P HS cnt j i ind sk pk ad auth)) ad.
  Proof.
    induction cnt as [|cnt IH]; intros j i ind sk pk ad auth Ht.
    - simpl. rewrite app_nil_r. split; [reflexivity|apply eq23_refl].
    - cbn [forsAuth_loop seq flat_map].
      destruct (forsNode_spec j sk (N.shiftl (N.of_nat i) (N.of_nat (p_a P - j)) + N.lxor (N.shiftr ind (N.of_nat j)) 1)
                  pk ad Ht) as [A B].
      destruct (forsNode HS j sk _ pk ad) as [v ad1]. simpl in A, B.
      assert (Ht1 : a_typ ad1 = T_FORSTREE) by (unfold eq23 in B; intuition congruence).
      destruct (IH (S j) i ind sk pk ad1 (auth ++ v) Ht1) as [A' B'].
      split; [|eapply eq23_trans; eauto].
      rewrite A', <- app_assoc, A. destruct B as (b1 & b2 & b3 & b4). rewrite b1, b2, b4. reflexivity.
  Qed.

  Lemma forsSign_loop_spec : forall cnt i indices sk pk ad sig, a_typ ad = T_FORSTREE ->
    fst (forsSign_loop P HS cnt i indices sk pk ad sig)
    = sig ++ flat_map (fun i =>
        let ind := nth i indices 0 in
        forsSkS HS (a_layer ad) (a_tree ad) (a_kp ad) sk pk (forsLeafIdx P i ind)
        ++ flat_map (fun j => forsNodeS HS (a_layer ad) (a_tree ad) (a_kp ad) sk pk j
                       (N.shiftl (N.of_nat i) (N.of_nat (p_a P - j)) + N.lxor (N.shiftr ind (N.of_nat j)) 1))
                    (seq 0 (p_a P))) (seq i cnt)
    /\ eq23 (snd (forsSign_loop P HS cnt i indices sk pk ad sig)) ad.
  Proof.
    induction cnt as [|cnt IH]; intros i indices sk pk ad sig Ht.
    - simpl. rewrite app_nil_r. split; [reflexivity|apply eq23_refl].
    - cbn [forsSign_loop seq flat_map]. cbv zeta.
      destruct (forsAuth_loop_spec (p_a P) 0 i (nth i indices 0) sk pk ad [] Ht) as [A B].
      destruct (forsAuth_loop P HS (p_a P) 0 i (nth i indices 0) sk pk ad []) as [auth ad1]. simpl in A, B.
      assert (Ht1 : a_typ ad1 = T_FORSTREE) by (unfold eq23 in B; intuition congruence).
      destruct (IH (S i) indices sk pk ad1
                  ((sig ++ forsSkGen HS sk pk ad (N.shiftl (N.of_nat i) (N.of_nat (p_a P)) + nth i indices 0)) ++ auth)
                  Ht1) as [A' B'].
      split; [|eapply eq23_trans; eauto].
      rewrite A', A, forsSkGen_spec. destruct B as (b1 & b2 & b3 & b4). rewrite b1, b2, b4.
      unfold forsLeafIdx. rewrite <- !app_assoc. reflexivity.
  Qed.

  Lemma forsSign_spec : forall md sk pk ad, a_typ ad = T_FORSTREE ->
    fst (forsSign P HS md sk pk ad)
    = forsSignS P HS (a_layer ad) (a_tree ad) (a_kp ad) (base2b md (p_a P) (p_k P)) sk pk
    /\ eq23 (snd (forsSign P HS md sk pk ad)) ad.
  Proof.
    intros md sk pk ad Ht. unfold forsSign.
    destruct (forsSign_loop_spec (p_k P) 0 (base2b md (p_a P) (p_k P)) sk pk ad [] Ht) as [A B].
    split; [|exact B]. rewrite A. reflexivity.
  Qed.

  Lemma forsClimb_loop_spec : forall cnt k tidx idx auth pk ad node,
    a_typ ad = T_FORSTREE -> a_w3 ad = N.shiftr tidx (N.of_nat k) ->
    fst (forsClimb_loop P HS cnt k idx auth pk ad node)
    = climbS P HS (fun h i => mkA (a_layer ad) (a_tree ad) T_FORSTREE (a_kp ad) h i) cnt k tidx idx auth pk node
    /\ eq23 (snd (forsClimb_loop P HS cnt k idx auth pk ad node)) ad.
  Proof.
    induction cnt as [|cnt IH]; intros k tidx idx auth pk ad node Ht Hw.
    - simpl. split; [reflexivity|apply eq23_refl].
    - cbn [forsClimb_loop climbS].
      assert (E2 : setTreeIndex (N.shiftr (treeIndex (setTreeHeight (N.of_nat k + 1) ad)) 1)
                     (setTreeHeight (N.of_nat k + 1) ad)
                   = mkA (a_layer ad) (a_tree ad) T_FORSTREE (a_kp ad) (N.of_nat k + 1) (N.shiftr tidx (N.of_nat k + 1))).
      { unfold setTreeIndex, setTreeHeight, treeIndex. simpl. rewrite Ht, Hw, shiftr_succ. reflexivity. }
      rewrite E2.
      match goal with |- context [forsClimb_loop P HS cnt (S k) idx auth pk ?a ?nd] =>
        destruct (IH (S k) tidx idx auth pk a nd) as [A B] end.
      + reflexivity.
      + cbn [a_w3]. f_equal. lia.
      + split.
        * rewrite A. reflexivity.
        * eapply eq23_trans; eauto. unfold eq23; simpl; rewrite Ht; tauto.
  Qed.

  Lemma forsPkFromSig_loop_spec : forall cnt i indices sig pk ad root, a_typ ad = T_FORSTREE ->
    fst (forsPkFromSig_loop P HS cnt i indices sig pk ad root)
    = root ++ flat_map (fun i =>
         let ind := nth i indices 0 in
         let a := p_a P in
         let skv := firstn n (skipn (i * (a + 1) * n) sig) in
         let auth := firstn ((i + 1) * (a + 1) * n - (i * (a + 1) + 1) * n) (skipn ((i * (a + 1) + 1) * n) sig) in
         climbS P HS (fun h x => mkA (a_layer ad) (a_tree ad) T_FORSTREE (a_kp ad) h x) a 0 (forsLeafIdx P i ind) ind auth pk
                (hF HS pk (mkA (a_layer ad) (a_tree ad) T_FORSTREE (a_kp ad) 0 (forsLeafIdx P i ind)) skv))
         (seq i cnt)
    /\ eq23 (snd (forsPkFromSig_loop P HS cnt i indices sig pk ad root)) ad.
  Proof.
    induction cnt as [|cnt IH]; intros i indices sig pk ad root Ht.
    - simpl. rewrite app_nil_r. split; [reflexivity|apply eq23_refl].
    - cbn [forsPkFromSig_loop seq flat_map]. cbv zeta.
      set (ad1 := setTreeIndex _ (setTreeHeight 0 ad)).
      assert (E1 : ad1 = mkA (a_layer ad) (a_tree ad) T_FORSTREE (a_kp ad) 0 (forsLeafIdx P i (nth i indices 0))).
      { unfold ad1, setTreeIndex, setTreeHeight, forsLeafIdx. simpl. rewrite Ht. reflexivity. }
      clearbody ad1. subst ad1.
      match goal with |- context [forsClimb_loop P HS (p_a P) 0 ?ind ?auth pk ?a ?nd] =>
        destruct (forsClimb_loop_spec (p_a P) 0 (forsLeafIdx P i (nth i indices 0)) ind auth pk a nd eq_refl eq_refl) as [A B];
        destruct (forsClimb_loop P HS (p_a P) 0 ind auth pk a nd) as [node' ad2] end.
      simpl in A, B.
      assert (Ht2 : a_typ ad2 = T_FORSTREE) by (unfold eq23 in B; simpl in B; intuition congruence).
      destruct (IH (S i) indices sig pk ad2 (root ++ node') Ht2) as [A' B'].
      unfold eq23 in B; simpl in B. destruct B as (b1 & b2 & b3 & b4).
      split.
      + rewrite A', A, <- app_assoc, b1, b2, b4. reflexivity.
      + eapply eq23_trans; eauto. unfold eq23; simpl. rewrite Ht. tauto.
  Qed.

  Lemma forsPkFromSig_spec : forall sig md pk ad, a_typ ad = T_FORSTREE ->
    fst (forsPkFromSig P HS sig md pk ad)
    = forsPkFromSigS P HS (a_layer ad) (a_tree ad) (a_kp ad) (base2b md (p_a P) (p_k P)) sig pk
    /\ eq23 (snd (forsPkFromSig P HS sig md pk ad)) ad.
  Proof.
    intros sig md pk ad Ht. unfold forsPkFromSig, forsPkFromSigS.
    destruct (forsPkFromSig_loop_spec (p_k P) 0 (base2b md (p_a P) (p_k P)) sig pk ad [] Ht) as [A B].
    destruct (forsPkFromSig_loop P HS (p_k P) 0 _ sig pk ad []) as [root ad1]. simpl in A, B.
    simpl. split; [|exact B]. rewrite A. simpl.
    destruct B as (b1 & b2 & b3 & b4). unfold setKeyPairAddress, setTypeAndClear, keyPairAddress; simpl.
    rewrite b1, b2, b4. reflexivity.
  Qed.
End FORS.
