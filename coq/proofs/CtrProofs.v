(* Proofs about model/Ctr.v: the Go loop computes data XOR keystream; counter
   mode is an involution; lengths. *)
From Coq Require Import List NArith Bool Arith Lia ZifyN ZifyNat ZifyBool.
From Tink Require Import Bytes AeadFrame AeadFrameProofs Ctr.
Import ListNotations.
Open Scope N_scope.

Lemma xorb_app_r a k r : xorb a (k ++ r) = xorb a k ++ xorb (skipn (length k) a) r.
Proof.
  revert k; induction a as [|x a IH]; intros k.
  - simpl. rewrite skipn_nil. destruct k; reflexivity.
  - destruct k as [|y k]; simpl; [reflexivity|]. rewrite IH. reflexivity.
Qed.

Lemma skipn_min {A} (a : list A) k : skipn (Nat.min (length a) k) a = skipn k a.
Proof.
  destruct (Nat.le_ge_cases (length a) k) as [H|H].
  - rewrite Nat.min_l by exact H. rewrite skipn_all. symmetry. apply skipn_all2. exact H.
  - rewrite Nat.min_r by exact H. reflexivity.
Qed.

Section CtrProofs.
  Variable E : bytes -> bytes.
  Variable blk : N -> bytes.
  Variable next : N -> N.
  Hypothesis E_len : forall b, length (E b) = 16%nat.

  Lemma keystream_length n c : length (keystream E blk next n c) = (16 * n)%nat.
  Proof. revert c; induction n as [|n IH]; intros c; simpl; [reflexivity|]. rewrite app_length, E_len, IH. lia. Qed.

  (* the loop of the Go code = XOR with the keystream *)
  Lemma ctr_loop_spec fuel : forall c inp n,
    (length inp <= fuel)%nat -> (length inp <= n)%nat ->
    ctr_loop E blk next fuel c inp = xorb inp (keystream E blk next n c).
  Proof.
    induction fuel as [|f IH]; intros c inp n Hf Hn.
    - destruct inp; [|simpl in Hf; lia]. reflexivity.
    - destruct inp as [|x inp']; [reflexivity|].
      destruct n as [|n]; [simpl in Hn; lia|].
      cbn [ctr_loop keystream]. remember (x :: inp') as inp eqn:Ei.
      rewrite xorb_app_r, E_len. f_equal.
      rewrite xorb_length, E_len, skipn_min.
      apply IH; rewrite skipn_length; lia.
  Qed.

  Lemma ctr_apply_spec c data : ctr_apply E blk next c data = ks_xor E blk next c data.
  Proof. unfold ctr_apply, ks_xor. apply ctr_loop_spec; lia. Qed.

  Lemma ks_xor_length c data : length (ks_xor E blk next c data) = length data.
  Proof. unfold ks_xor. rewrite xorb_length, keystream_length. lia. Qed.

  Lemma ks_xor_involutive c data : ks_xor E blk next c (ks_xor E blk next c data) = data.
  Proof.
    unfold ks_xor at 1. rewrite ks_xor_length. unfold ks_xor.
    apply xorb_cancel_le. rewrite keystream_length. lia.
  Qed.

  Lemma ctr_apply_length c data : length (ctr_apply E blk next c data) = length data.
  Proof. rewrite ctr_apply_spec. apply ks_xor_length. Qed.

  Lemma ctr_apply_involutive c data :
    ctr_apply E blk next c (ctr_apply E blk next c data) = data.
  Proof. rewrite !ctr_apply_spec. apply ks_xor_involutive. Qed.

  (* each output byte depends on the data only through the byte at the same position *)
  Lemma ctr_apply_app c d1 d2 :
    firstn (length d1) (ctr_apply E blk next c (d1 ++ d2)) =
    xorb d1 (keystream E blk next (length d1 + length d2) c).
  Proof.
    rewrite ctr_apply_spec. unfold ks_xor. rewrite app_length.
    set (ks := keystream E blk next (length d1 + length d2) c).
    assert (Hk : (length d1 + length d2 <= length ks)%nat) by (unfold ks; rewrite keystream_length; lia).
    rewrite <- (firstn_skipn (length d1) ks) at 1.
    rewrite xorb_app by (rewrite firstn_length; lia).
    rewrite firstn_app_len by (rewrite xorb_length, firstn_length; lia).
    rewrite <- (firstn_skipn (length d1) ks) at 2. rewrite xorb_app_r.
    rewrite firstn_length, Nat.min_l by lia. rewrite skipn_all. simpl. rewrite app_nil_r. reflexivity.
  Qed.
End CtrProofs.

(* AES-CTR with the (padded) IV as 128-bit big-endian start counter *)
Lemma aes_ctr_involutive E iv data : (forall b, length (E b) = 16%nat) ->
  aes_ctr E iv (aes_ctr E iv data) = data.
Proof. intros H. unfold aes_ctr. apply ctr_apply_involutive. exact H. Qed.

Lemma aes_ctr_length E iv data : (forall b, length (E b) = 16%nat) ->
  length (aes_ctr E iv data) = length data.
Proof. intros H. unfold aes_ctr. apply ctr_apply_length. exact H. Qed.
