(* Stretch (C02), XAES-256-GCM and AES-GCM-SIV: what a modified ciphertext does.
   XAES-256-GCM: Decrypt is a framing rejection or ONE call of AES-GCM Open under the
   key derived from the salt bytes parsed from c'; for (c', ad') different from
   Encrypt's (c, ad) the parsed (salt', iv', ad', body') differs from what Encrypt
   used/sealed (no law about GCM or AES needed).
   AES-GCM-SIV (everything is in the model, only |AES(k,b)| = 16 assumed): an accepted
   (c', ad') different from Encrypt's (c, ad) exhibits a (nonce', plaintext', ad')
   different from (nonce, p, ad) together with its valid tag
   AES(encKey', (POLYVAL(authKey', ...) xor nonce') & 0x7f..ff) — a forgery against the
   synthetic-IV PRF of RFC 8452.  That such forgeries are infeasible is cryptography. *)
From Coq Require Import List NArith Bool Arith Lia ZifyN ZifyNat ZifyBool.
From Tink Require Import Bytes AeadFrame AeadFrameProofs Ctr CtrProofs EtMProofs Polyval GcmSiv GcmSivProofs
  Cmac Xaes XaesProofs Mutation AeadFrameProofs2.
Import ListNotations.
Open Scope N_scope.

Section XaesMutation.
  Variable aes : bytes -> bytes -> bytes.
  Variable gcm_seal : bytes -> bytes -> bytes -> bytes -> bytes.
  Variable gcm_open : bytes -> bytes -> bytes -> bytes -> option bytes.
  Hypothesis aes_len : forall k b, length (aes k b) = 16%nat.

  Notation pmk := (pmk aes).

  Definition xaes_salt (ss pl : nat) (c : bytes) : bytes := firstn ss (skipn pl c).
  Definition xaes_iv (ss pl : nat) (c : bytes) : bytes := firstn 12 (skipn (pl + ss) c).
  Definition xaes_body (ss pl : nat) (c : bytes) : bytes := skipn (pl + ss + 12) c.

  Definition xaes_framing_reject (ss : nat) (prefix c : bytes) : Prop :=
    (length c < length prefix + ss + 12 + 16)%nat \/ firstn (length prefix) c <> prefix.

  Theorem xaes_dec_framing ss prefix key c' ad' :
    (xaes_framing_reject ss prefix c' /\ xaes_dec aes gcm_open ss prefix key c' ad' = Err) \/
    (c' = prefix ++ xaes_salt ss (length prefix) c' ++ xaes_iv ss (length prefix) c' ++ xaes_body ss (length prefix) c' /\
     length (xaes_salt ss (length prefix) c') = ss /\ length (xaes_iv ss (length prefix) c') = 12%nat /\
     xaes_dec aes gcm_open ss prefix key c' ad' =
       open_o gcm_open 16 None (pmk key (xaes_salt ss (length prefix) c'))
              (xaes_iv ss (length prefix) c') ad' (xaes_body ss (length prefix) c')).
  Proof.
    rewrite (xaes_dec_is_canon aes gcm_seal gcm_open aes_len). unfold xaes_dec_canon, xaes_framing_reject.
    set (pl := length prefix).
    destruct (Nat.leb_spec (pl + ss + 12 + 16) (length c')) as [Hl|Hl]; [|left; split; [left; lia|reflexivity]].
    destruct (beq (firstn pl c') prefix) eqn:Eb.
    - apply beq_eq in Eb. right. unfold xaes_salt, xaes_iv, xaes_body. split; [|split; [|split; [|reflexivity]]].
      + rewrite <- Eb at 1. rewrite (split3 c' pl ss) at 1 by lia. do 2 f_equal.
        rewrite <- (firstn_skipn 12 (skipn (pl + ss) c')) at 1. f_equal. apply skipn_skipn.
      + rewrite firstn_length, skipn_length. lia.
      + rewrite firstn_length, skipn_length. lia.
    - left. split; [|rewrite andb_false_r; reflexivity]. right. intros E. rewrite E, beq_refl in Eb. discriminate.
  Qed.

  Lemma xaes_enc_inv ss prefix key salt iv p ad c : length salt = ss ->
    xaes_enc aes gcm_seal ss prefix key (salt ++ iv) p ad = Ok c ->
    c = prefix ++ salt ++ iv ++ gcm_seal (pmk key salt) iv ad p.
  Proof.
    intros Hs. rewrite (xaes_enc_eq aes gcm_seal gcm_open aes_len) by exact Hs. intros He.
    apply na_enc_inv in He. destruct He as [-> _]. rewrite <- app_assoc. reflexivity.
  Qed.

  Theorem xaes_mutant_dichotomy ss prefix key salt iv p ad c c' ad' :
    length salt = ss -> length iv = 12%nat ->
    xaes_enc aes gcm_seal ss prefix key (salt ++ iv) p ad = Ok c -> (c', ad') <> (c, ad) ->
    (xaes_framing_reject ss prefix c' /\ xaes_dec aes gcm_open ss prefix key c' ad' = Err) \/
    (xaes_dec aes gcm_open ss prefix key c' ad' =
       open_o gcm_open 16 None (pmk key (xaes_salt ss (length prefix) c'))
              (xaes_iv ss (length prefix) c') ad' (xaes_body ss (length prefix) c') /\
     (xaes_salt ss (length prefix) c', xaes_iv ss (length prefix) c', ad', xaes_body ss (length prefix) c')
       <> (salt, iv, ad, gcm_seal (pmk key salt) iv ad p)).
  Proof.
    intros Hs Hiv He Hne. apply (xaes_enc_inv ss) in He; [|exact Hs].
    destruct (xaes_dec_framing ss prefix key c' ad') as [Hf|[Hc' [_ [_ Hd]]]]; [left; exact Hf|right].
    split; [exact Hd|]. intros E. injection E as E1 E2 E3 E4. apply Hne. f_equal; [|exact E3].
    rewrite Hc', E1, E2, E4. symmetry. exact He.
  Qed.

  (* an accepted mutant: AES-GCM Open (under the key derived from salt') accepted a
     (salt', iv', ad', body') that Encrypt did not produce *)
  Theorem xaes_accepted_mutant_is_forgery ss prefix key salt iv p ad c c' ad' p' :
    length salt = ss -> length iv = 12%nat ->
    xaes_enc aes gcm_seal ss prefix key (salt ++ iv) p ad = Ok c -> (c', ad') <> (c, ad) ->
    xaes_dec aes gcm_open ss prefix key c' ad' = Ok p' ->
    (xaes_salt ss (length prefix) c', xaes_iv ss (length prefix) c', ad', xaes_body ss (length prefix) c')
       <> (salt, iv, ad, gcm_seal (pmk key salt) iv ad p) /\
    gcm_open (pmk key (xaes_salt ss (length prefix) c')) (xaes_iv ss (length prefix) c') ad'
             (xaes_body ss (length prefix) c') = Some p'.
  Proof.
    intros Hs Hiv He Hne Hd.
    destruct (xaes_mutant_dichotomy ss prefix key salt iv p ad c c' ad' Hs Hiv He Hne) as [[_ E]|[E Ht]];
      [rewrite E in Hd; discriminate|].
    split; [exact Ht|]. rewrite E in Hd. unfold open_o in Hd.
    destruct (Nat.ltb _ 16); [discriminate|].
    destruct (gcm_open _ _ _ _); cbn [of_open] in Hd; inversion Hd. reflexivity.
  Qed.

  (* XAES-256-GCM Decrypt IS the canonical AES-GCM Decrypt of the same bytes, with the salt
     bytes of c' appended to the output prefix and the key derived from them: so the
     mutation table of the nonce-based AEADs (AeadFrameProofs2.table_byte, table_cut, ...) applies verbatim to
     every modification outside the salt (with prefix := prefix || salt), and a modification
     inside the salt changes the input of the key derivation *)
  Theorem xaes_dec_as_gcm ss prefix key c' ad' :
    let salt' := xaes_salt ss (length prefix) c' in
    (length prefix + ss <= length c')%nat -> firstn (length prefix) c' = prefix ->
    xaes_dec aes gcm_open ss prefix key c' ad' =
    na_dec_canon gcm_open 12 16 None None (prefix ++ salt') (pmk key salt') c' ad'.
  Proof.
    intros salt' Hl Hp. rewrite (xaes_dec_is_canon aes gcm_seal gcm_open aes_len).
    unfold xaes_dec_canon, na_dec_canon, open_t. set (pl := length prefix) in *.
    assert (Hsl : length salt' = ss) by (unfold salt', xaes_salt; rewrite firstn_length, skipn_length; fold pl; lia).
    rewrite app_length, Hsl. fold pl.
    assert (Hpre : firstn (pl + ss) c' = prefix ++ salt').
    { rewrite firstn_plus. rewrite Hp. reflexivity. }
    rewrite Hpre, Hp, !beq_refl.
    replace (pl + ss + 12 + 16)%nat with (pl + ss + 12 + 16)%nat by reflexivity.
    destruct (Nat.leb (pl + ss + 12 + 16) (length c')); reflexivity.
  Qed.
End XaesMutation.

Section SivMutation.
  Variable aes : bytes -> bytes -> bytes.
  Hypothesis aes_len : forall k b, length (aes k b) = 16%nat.

  Notation tagf := (tagf aes).
  Notation sctr := (sctr aes).
  Notation dk_enc := (dk_enc aes).

  (* Decrypt of prefix || r is the tag check on the parsed (nonce', ct', tag') *)
  Theorem siv_dec_framing prefix key c' ad' :
    ((has_prefix c' prefix = false \/ (length c' < length prefix + 12 + 16)%nat \/
      MaxInt32 < lenN c' - lenN prefix \/ MaxInt32 < lenN ad') /\ siv_dec aes prefix key c' ad' = Err) \/
    (exists nonce' ct' tag', c' = prefix ++ nonce' ++ ct' ++ tag' /\ length nonce' = 12%nat /\ length tag' = 16%nat /\
       let pt' := sctr (dk_enc key nonce') tag' ct' in
       siv_dec aes prefix key c' ad' = if beq (tagf key nonce' pt' ad') tag' then Ok pt' else Err).
  Proof.
    destruct (has_prefix c' prefix) eqn:Hp; [|left; split; [left; reflexivity|apply siv_dec_noprefix; exact Hp]].
    apply has_prefix_iff in Hp. destruct Hp as [r ->]. rewrite (siv_dec_prefix aes aes_len).
    unfold siv_raw_dec_canon, lenN. rewrite !app_length.
    destruct (Nat.leb_spec 28 (length r)) as [Hl|Hl]; [|left; split; [right; left; lia|reflexivity]].
    destruct (N.leb_spec (N.of_nat (length r)) MaxInt32) as [Hm|Hm];
      [|left; split; [right; right; left; lia|reflexivity]].
    destruct (N.leb_spec (N.of_nat (length ad')) MaxInt32) as [Ha|Ha];
      [|left; split; [right; right; right; lia|reflexivity]].
    cbn [andb]. right.
    exists (firstn 12 r), (firstn (length r - 28) (skipn 12 r)), (skipn (length r - 16) r).
    split; [|split; [rewrite firstn_length; lia|split; [rewrite skipn_length; lia|reflexivity]]].
    f_equal. rewrite (split3 r 12 (length r - 28)) at 1 by lia. do 3 f_equal. lia.
  Qed.

  (* an accepted mutant carries a valid synthetic-IV tag for a fresh (nonce, plaintext, ad) *)
  Theorem siv_accepted_mutant_is_tag_forgery prefix key nonce p ad c c' ad' p' :
    length nonce = 12%nat ->
    siv_enc aes prefix key nonce p ad = Ok c -> (c', ad') <> (c, ad) ->
    siv_dec aes prefix key c' ad' = Ok p' ->
    exists nonce', length nonce' = 12%nat /\ (nonce', p', ad') <> (nonce, p, ad) /\
      c' = prefix ++ nonce' ++ sctr (dk_enc key nonce') (tagf key nonce' p' ad') p' ++ tagf key nonce' p' ad'.
  Proof.
    intros Hn He Hne Hd. apply (siv_accept_iff aes aes_len) in Hd. destruct Hd as [nonce' [Hn' He']].
    exists nonce'. split; [exact Hn'|]. split.
    - intros E. injection E as E1 E2 E3. subst nonce' p' ad'. apply Hne. rewrite He in He'. inversion He'. reflexivity.
    - unfold siv_enc in He'. destruct (siv_raw_enc aes key nonce' p' ad') as [r| |] eqn:Er; cbn [bind] in He'; try discriminate.
      inversion He'. apply (siv_raw_enc_inv aes aes_len) in Er; [|exact Hn']. destruct Er as [_ [_ ->]]. reflexivity.
  Qed.

  (* per-instance rejection: for the fields c' parses to, a presented tag different from the
     recomputed one is an error *)
  Theorem siv_wrong_tag_rejected prefix key nonce' ct' tag' c' ad' :
    c' = prefix ++ nonce' ++ ct' ++ tag' -> length nonce' = 12%nat -> length tag' = 16%nat ->
    tagf key nonce' (sctr (dk_enc key nonce') tag' ct') ad' <> tag' ->
    siv_dec aes prefix key c' ad' = Err.
  Proof.
    intros -> Hn Ht Hneq. rewrite (siv_dec_prefix aes aes_len). unfold siv_raw_dec_canon.
    destruct (_ && _ && _)%bool; [|reflexivity].
    rewrite !app_length, Hn, Ht.
    rewrite (firstn_app_len 12) by (symmetry; exact Hn).
    rewrite (skipn_app_len 12) by (symmetry; exact Hn).
    replace (12 + (length ct' + 16) - 28)%nat with (length ct') by lia. rewrite firstn_app_exact.
    replace (nonce' ++ ct' ++ tag') with ((nonce' ++ ct') ++ tag') by (rewrite <- app_assoc; reflexivity).
    rewrite skipn_app_len by (rewrite app_length; lia).
    destruct (beq _ tag') eqn:Eb; [|reflexivity]. apply beq_eq in Eb. contradiction.
  Qed.
End SivMutation.
