(* The hint lemma of FIPS 204 (Lemma behind Algorithms 39/40), for the
   REGENERATED kernels: if |z mod± q| <= gamma2 then
        UseHint(MakeHint(z, r), r) = HighBits(r + z)
   for every r — what makes the verifier recover w1 from w - c*s2 + c*t0 and
   the hint.  Proved at the level of the specs (arithmetic, both gamma2
   values) and transported to the generated code by makeHint_ok / useHint_ok
   / highBits_ok. *)
From Coq Require Import ZArith Lia Bool.
From Tink Require Import Wrap MldsaScalar MldsaScalarProofs MldsaScalarProofs2.
Open Scope Z_scope.
Ltac Zify.zify_post_hook ::= Z.div_mod_to_equations.


Ltac hint_tac G g m :=
  intros z r Hz Hr Hc;
  (match goal with |- context [if ?a =? ?b then 0 else 1] => destruct (a =? b) eqn:EH; [apply Z.eqb_eq in EH | apply Z.eqb_neq in EH] end);
  unfold useHint_spec, decompose_spec, cmod, q in *;
  change (2 * g) with G in *; change (G / 2) with g in *; change ((8380417 - 1) / G) with m in *;
  change (8380417 - 1) with 8380416 in *; change (8380417 / 2) with 4190208 in Hc;
  rewrite (Z.mod_small z) in Hc by lia;
  set (v := (r + z) mod 8380417) in *;
  assert (Hv : 0 <= v < 8380417) by (unfold v; lia);
  assert (Hvz : v = r + z \/ v = r + z - 8380417) by (unfold v; lia);
  clearbody v;
  pose proof (Z.div_mod r G ltac:(lia)) as Dr; pose proof (Z.mod_pos_bound r G ltac:(lia)) as Br;
  pose proof (Z.div_mod v G ltac:(lia)) as Dv; pose proof (Z.mod_pos_bound v G ltac:(lia)) as Bv;
  set (rm := r mod G) in *; set (rq := r / G) in *;
  set (vm := v mod G) in *; set (vq := v / G) in *;
  assert (Q1 : (r - rm) / G = rq) by (symmetry; apply Z.div_unique with 0; lia);
  assert (Q2 : (r - (rm - G)) / G = rq + 1) by (symmetry; apply Z.div_unique with 0; lia);
  assert (Q3 : (v - vm) / G = vq) by (symmetry; apply Z.div_unique with 0; lia);
  assert (Q4 : (v - (vm - G)) / G = vq + 1) by (symmetry; apply Z.div_unique with 0; lia);
  assert (Rq : 0 <= rq <= m) by lia; assert (Vq : 0 <= vq <= m) by lia;
  cbv zeta in *;
  (destruct (z <=? 4190208) eqn:Ez; [apply Z.leb_le in Ez | apply Z.leb_gt in Ez]);
  (destruct (rm <=? g) eqn:E1; [apply Z.leb_le in E1 | apply Z.leb_gt in E1]);
  (destruct (vm <=? g) eqn:E2; [apply Z.leb_le in E2 | apply Z.leb_gt in E2]);
  rewrite ?Q1, ?Q2, ?Q3, ?Q4 in *; clearbody rm rq vm vq; clear Q1 Q2 Q3 Q4;
  repeat match goal with
    | |- context [if ?x =? ?y then (_, _) else _] => let E := fresh "E" in destruct (x =? y) eqn:E; [apply Z.eqb_eq in E | apply Z.eqb_neq in E]
    | H : context [if ?x =? ?y then (_, _) else _] |- _ => let E := fresh "E" in destruct (x =? y) eqn:E; [apply Z.eqb_eq in E | apply Z.eqb_neq in E]
    end;
  cbn [fst snd Z.eqb Pos.eqb] in *;
  repeat match goal with |- context [?x <? ?y] => let E := fresh "E" in destruct (x <? y) eqn:E; [apply Z.ltb_lt in E | apply Z.ltb_ge in E] end;
  try lia.

Lemma hint_spec_88 : forall z r, 0 <= z < q -> 0 <= r < q -> Z.abs (cmod z q) <= 95232 ->
  useHint_spec r 95232 (if fst (decompose_spec r 95232) =? fst (decompose_spec ((r + z) mod q) 95232) then 0 else 1)
  = fst (decompose_spec ((r + z) mod q) 95232).
Proof. hint_tac 190464 95232 44. Qed.

Lemma hint_spec_32 : forall z r, 0 <= z < q -> 0 <= r < q -> Z.abs (cmod z q) <= 261888 ->
  useHint_spec r 261888 (if fst (decompose_spec r 261888) =? fst (decompose_spec ((r + z) mod q) 261888) then 0 else 1)
  = fst (decompose_spec ((r + z) mod q) 261888).
Proof. hint_tac 523776 261888 16. Qed.

Theorem useHint_makeHint_spec z r g : valid_gamma2 g -> 0 <= z < q -> 0 <= r < q ->
  Z.abs (cmod z q) <= g ->
  useHint_spec r g (if fst (decompose_spec r g) =? fst (decompose_spec ((r + z) mod q) g) then 0 else 1)
  = fst (decompose_spec ((r + z) mod q) g).
Proof. intros [-> | ->]; [apply hint_spec_88 | apply hint_spec_32]. Qed.

(* on the generated Go kernels: h = z.makeHint(gamma2, r) then r.useHint(gamma2, h) = (r+z).highBits(gamma2) *)
Theorem useHint_makeHint z r g h : valid_gamma2 g -> 0 <= z < q -> 0 <= r < q ->
  Z.abs (cmod z q) <= g ->
  mldsa_rZq_makeHint z g r = Some h ->
  mldsa_rZq_useHint r g h = mldsa_rZq_highBits (mldsa_rZq_add r z) g.
Proof.
  intros Hg Hz Hr Hc Hh. rewrite makeHint_ok in Hh by auto. inversion Hh; subst h.
  rewrite useHint_ok by auto. rewrite add_spec by auto.
  rewrite highBits_ok by (auto; unfold q in *; lia).
  f_equal. apply useHint_makeHint_spec; auto.
Qed.
