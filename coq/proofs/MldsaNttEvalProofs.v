(* The NTT of the model (model/MldsaPoly.v ntt: the loops of algebra.go over
   the regenerated kernels and zetas table) IS the number-theoretic transform
   of FIPS 204 (section 2.5 / Algorithm 41): its i-th output is the input
   polynomial evaluated at the root  zeta^(2*brv8(i)+1)  of X^256+1,

        nth i (ntt p) 0 = (sum_j p_j * (zeta^(2 brv8 i + 1))^j) mod q ,

   with zeta = 1753 (the regenerated constant mldsa_zeta).  In the order of
   FIPS 204 (w(zeta_0), w(-zeta_0), .., w(zeta_127), w(-zeta_127)) with
   zeta_i = zeta^brv8(128+i): ntt_root (2i) = zeta_i, ntt_root (2i+1) = -zeta_i.

   Proof: Horner induction over the coefficient list.  pad (x :: a) =
   x*1 + X*pad a (MldsaConvProofs.pad_cons), ntt is additive hence Z_q-linear
   (additive_ntt, additive_scale), ntt (X*a) = ntt X o ntt a (ntt_shift, itself
   from "additive maps agreeing on the 256 unit vectors"), ntt 1 = (1,..,1),
   and ntt X = (ntt_root 0, .., ntt_root 255) is decided on the regenerated
   table (256 modular powers). *)
From Coq Require Import List ZArith NArith Bool Arith Lia Setoid Morphisms.
From Tink Require Import Bytes Wrap MldsaScalar MldsaScalarProofs MldsaScalarProofs2 MldsaTableProofs
  MldsaKernels MldsaKernelsProofs MldsaPoly Mldsa MldsaNttProofs MldsaAlgebraProofs MldsaConvProofs.
Import ListNotations.
Local Open Scope Z_scope.

(* the integer value sum_j p_j x^j (Horner) *)
Definition polyval (p : list Z) (x : Z) : Z := fold_right (fun c acc => c + x * acc) 0 p.
(* the same, reduced modulo q at every step *)
Definition peval (p : list Z) (x : Z) : Z := fold_right (fun c acc => (c + x * acc) mod q) 0 p.

(* the evaluation point of output index i *)
Definition ntt_exp (i : nat) : nat := Z.to_nat (2 * brv8 (Z.of_nat i) + 1).
Definition ntt_root (i : nat) : Z := powmod mldsa_zeta (ntt_exp i) mldsa_q.

Lemma polyval_sum p x : polyval p x = fold_right Z.add 0 (map (fun jc => snd jc * x ^ Z.of_nat (fst jc)) (combine (seq 0 (length p)) p)).
Proof.
  assert (G : forall s, x ^ Z.of_nat s * polyval p x =
              fold_right Z.add 0 (map (fun jc => snd jc * x ^ Z.of_nat (fst jc)) (combine (seq s (length p)) p))).
  { induction p as [|c p IH]; intros s; cbn [polyval fold_right length seq combine map]; [ring|].
    fold (polyval p x). cbn [fst snd]. rewrite <- IH. rewrite Nat2Z.inj_succ, Z.pow_succ_r by lia. ring. }
  rewrite <- G. change (Z.of_nat 0) with 0. rewrite Z.pow_0_r. ring.
Qed.

Lemma peval_polyval p x : peval p x = (polyval p x) mod q.
Proof.
  induction p as [|c p IH]; [reflexivity|]. cbn [peval polyval fold_right]. fold (peval p x) (polyval p x).
  rewrite IH. cong_ring.
Qed.

Lemma polyval_cong p x y : x mod q = y mod q -> (polyval p x) mod q = (polyval p y) mod q.
Proof.
  intros H. induction p as [|c p IH]; [reflexivity|]. cbn [polyval fold_right]. fold (polyval p x) (polyval p y).
  change (cong (c + x * polyval p x) (c + y * polyval p y)).
  change (cong x y) in H. change (cong (polyval p x) (polyval p y)) in IH.
  apply cong_add; [reflexivity | apply cong_mul; assumption].
Qed.

Lemma powmod_pow b e : powmod b e q = (b ^ Z.of_nat e) mod q.
Proof.
  induction e as [|e IH]; [reflexivity|]. cbn [powmod]. rewrite IH.
  rewrite Nat2Z.inj_succ, Z.pow_succ_r by lia. cong_ring.
Qed.

Lemma ntt_root_pow i : ntt_root i = (mldsa_zeta ^ (2 * brv8 (Z.of_nat i) + 1)) mod q.
Proof.
  unfold ntt_root, ntt_exp. change mldsa_q with q. rewrite powmod_pow. rewrite Z2Nat.id; [reflexivity|].
  assert (0 <= brv8 (Z.of_nat i)); [|lia].
  unfold brv8. cbn [fold_left].
  repeat match goal with |- context [if ?b then _ else _] => destruct b end; cbn; lia.
Qed.

(* ntt X = the 256 evaluation points, decided on the regenerated zetas table *)
Lemma xhat_roots : xhat = map ntt_root (seq 0 256).
Proof. vm_compute. reflexivity. Qed.

Lemma nth_xhat i : (i < 256)%nat -> nth i xhat 0 = ntt_root i.
Proof.
  intros H. rewrite xhat_roots.
  rewrite (nth_indep _ 0 (ntt_root 0)) by (rewrite map_length, seq_length; exact H).
  rewrite map_nth, seq_nth by exact H. reflexivity.
Qed.

(* the evaluation points are the 256 roots of X^256 + 1, pairwise distinct:
   each is a primitive 512-th root of unity (odd power of zeta) *)
Lemma ntt_roots_are_roots :
  forallb (fun i => powmod (ntt_root i) 256 mldsa_q =? mldsa_q - 1) (seq 0 256) = true /\
  NoDup (map ntt_root (seq 0 256)).
Proof.
  split; [vm_compute; reflexivity|].
  assert (D : forall l : list Z, (fix nd (l : list Z) : bool :=
               match l with [] => true | x :: t => negb (existsb (Z.eqb x) t) && nd t end) l = true -> NoDup l).
  { induction l as [|x t IH]; intros H; [constructor|]. apply andb_true_iff in H. destruct H as [H1 H2].
    constructor; [|apply IH; exact H2]. intros Hin. apply negb_true_iff in H1.
    assert (E : existsb (Z.eqb x) t = true) by (apply existsb_exists; exists x; split; [exact Hin | apply Z.eqb_refl]).
    congruence. }
  apply D. vm_compute. reflexivity.
Qed.

(* FIPS 204 order: entries 2i and 2i+1 are w(zeta_i) and w(-zeta_i), zeta_i = zeta^brv8(128+i) *)
Lemma ntt_roots_fips_order :
  forallb (fun i => (ntt_root (2 * i) =? powmod mldsa_zeta (Z.to_nat (brv8 (Z.of_nat (128 + i)))) mldsa_q) &&
                    (ntt_root (2 * i + 1) =? mldsa_q - powmod mldsa_zeta (Z.to_nat (brv8 (Z.of_nat (128 + i)))) mldsa_q))
          (seq 0 128) = true.
Proof. vm_compute. reflexivity. Qed.

(* ------------------------------------------------------------------ *)
(* Horner induction                                                     *)
(* ------------------------------------------------------------------ *)
Lemma peval_range p x : 0 <= peval p x < q.
Proof. destruct p; cbn [peval fold_right]; [unfold q; lia | apply mod_q_range]. Qed.

Theorem ntt_pad_eval a : canon a -> (length a <= 256)%nat ->
  forall i, (i < 256)%nat -> nth i (ntt (pad a)) 0 = peval a (ntt_root i).
Proof.
  intros Ca La. induction a as [|x a IH]; intros i Hi.
  - change (pad []) with zero_poly. rewrite (proj2 (proj2 additive_ntt)). apply nth_zero_poly.
  - inversion Ca as [|? ? Hx Ca']; subst. cbn [length] in La.
    rewrite pad_cons by (auto; lia).
    assert (C0 : cpoly (pad a)) by (apply cpoly_pad; auto; lia).
    assert (C2 : cpoly (scale x (unit_poly 0))) by (apply cpoly_scale, cpoly_len, cpoly_unit).
    rewrite (proj1 (proj2 additive_ntt)) by auto with cpoly.
    rewrite (additive_scale ntt) by (auto using additive_ntt, cpoly_unit; lia).
    rewrite ntt_shift by exact C0.
    assert (C3 : cpoly (scale x (ntt (unit_poly 0)))) by (apply cpoly_scale, cpoly_len, cpoly_ntt, cpoly_unit).
    assert (C4 : cpoly (pmul xhat (ntt (pad a)))) by (apply cpoly_pmul; [apply cpoly_xhat | apply cpoly_ntt, C0]).
    rewrite nth_padd by auto.
    rewrite nth_scale by (rewrite (cpoly_len _ (cpoly_ntt _ (cpoly_unit 0))); exact Hi).
    rewrite nth_ntt_unit0 by exact Hi.
    rewrite nth_pmul by (auto using cpoly_xhat with cpoly).
    rewrite nth_xhat by exact Hi. rewrite IH by (auto; lia).
    cbn [peval fold_right]. fold (peval a (ntt_root i)). cong_ring.
Qed.

(* FIPS 204 Algorithm 41 computes the evaluations at the roots of X^256+1 *)
Theorem ntt_is_evaluation p i : cpoly p -> (i < 256)%nat ->
  nth i (ntt p) 0 = peval p (ntt_root i).
Proof.
  intros [L C] Hi. rewrite <- (pad_full p L) at 1. apply ntt_pad_eval; auto. lia.
Qed.

(* the same with the integer polynomial value and the integer power of zeta *)
Theorem ntt_is_evaluation_Z p i : cpoly p -> (i < 256)%nat ->
  nth i (ntt p) 0 = (polyval p (mldsa_zeta ^ (2 * brv8 (Z.of_nat i) + 1))) mod q.
Proof.
  intros Hp Hi. rewrite ntt_is_evaluation by auto. rewrite peval_polyval.
  apply polyval_cong. rewrite ntt_root_pow. apply Z.mod_mod. unfold q. lia.
Qed.

(* hence ntt p as a whole *)
Definition ntt_spec (p : poly) : poly := map (fun i => peval p (ntt_root i)) (seq 0 256).

Theorem ntt_eq_spec p : cpoly p -> ntt p = ntt_spec p.
Proof.
  intros Hp. apply poly_ext; [apply cpoly_len; auto with cpoly | unfold ntt_spec; rewrite map_length, seq_length; reflexivity |].
  intros i Hi. rewrite ntt_is_evaluation by auto. unfold ntt_spec.
  rewrite (nth_indep _ 0 ((fun i => peval p (ntt_root i)) 0%nat)) by (rewrite map_length, seq_length; exact Hi).
  rewrite (map_nth (fun i => peval p (ntt_root i))), seq_nth by exact Hi. reflexivity.
Qed.

(* and the inverse transform is interpolation: intt of the 256 values is the
   polynomial (intt_ntt of MldsaNttProofs) *)
Theorem intt_of_evaluations p : cpoly p -> intt (ntt_spec p) = p.
Proof. intros Hp. rewrite <- ntt_eq_spec by exact Hp. destruct Hp. apply intt_ntt; auto. Qed.

(* non-vacuity / sanity: X^2 + 3 at the first two evaluation points *)
Example ex_ntt_eval :
  let p := upd 2 1 (upd 0 3 zero_poly) in
  cpoly p /\ nth 0 (ntt p) 0 = (1753 * 1753 + 3) mod q /\ ntt_root 0 = 1753 /\
  ntt_root 1 = q - 1753 /\ nth 1 (ntt p) 0 = (1753 * 1753 + 3) mod q /\
  nth 2 (ntt p) 0 = (polyval p (1753 ^ 129)) mod q.
Proof.
  cbv zeta. split; [split; [reflexivity|]|].
  - repeat apply canon_upd; try (unfold q; lia). apply cpoly_zero.
  - repeat split; vm_compute; reflexivity.
Qed.
