(* C13 / C12 bridge — the keyset encoder of model/Secrets.v (ser_keyset,
   written for C13 field by field) produces exactly the bytes of the generic
   protobuf encoder of model/ProtoWire.v on the tink.proto Keyset schema
   (Serial.write_keyset, C12).  So the C12 wire theorems (decode (encode m) = m,
   canonical re-encoding, injectivity) speak about the bytes the C13 writers
   emit, and the two independent transcriptions of proto.Marshal agree. *)
From Coq Require Import String Ascii List Arith NArith Bool Lia ZifyN ZifyNat ZifyBool.
From Tink Require Import Bytes UntrustedConsts Untrusted Secrets ProtoWire Serial.
From Tink Require ProtoWireProofs SerialProofs.
Import ListNotations.
Open Scope list_scope.
Open Scope N_scope.

Definition to_pkeydata (kd : Untrusted.keydata) : Serial.pkeydata :=
  Serial.mkKeyData (Untrusted.kd_url kd) (Untrusted.kd_value kd) (Untrusted.kd_mat kd).
Definition to_pkey (k : Untrusted.pkey) : Serial.pkey :=
  Serial.mkPkey (option_map to_pkeydata (k_data k)) (k_status k) (k_id k) (k_prefix k).
Definition to_pkeyset (pr : N) (pks : list Untrusted.pkey) : Serial.pkeyset :=
  Serial.mkPkeyset pr (map to_pkey pks).

Lemma venc_same f x : venc f x = enc_varint_aux f x.
Proof. revert x. induction f as [|f IH]; intros x; [reflexivity|]. cbn [venc enc_varint_aux]. rewrite IH. reflexivity. Qed.

Lemma varint_same x : varint_enc x = enc_varint x.
Proof. apply venc_same. Qed.

Lemma ser_var num v : ser [(num, RVar v)] = enc_tag num 0 ++ enc_varint v.
Proof. unfold ser. cbn [map concat ser_one]. rewrite app_nil_r, !varint_same. unfold enc_tag. rewrite N.add_0_r. reflexivity. Qed.

Lemma ser_len num p : ser [(num, RLen p)] = enc_len_field num p.
Proof. unfold ser, enc_len_field, enc_tag, Untrusted.blen. cbn [map concat ser_one]. rewrite app_nil_r, !varint_same. reflexivity. Qed.

Lemma ser_app a b : ser (a ++ b) = ser a ++ ser b.
Proof. unfold ser. rewrite map_app, concat_app. reflexivity. Qed.

Lemma ser_nil : ser [] = [].
Proof. reflexivity. Qed.

Lemma raw_scalar_field num v :
  ser (if v =? 0 then [] else [(num, RVar v)]) = enc_var_field num v.
Proof. unfold enc_var_field. destruct (v =? 0); [reflexivity | apply ser_var]. Qed.

Lemma raw_bytes_field num b :
  ser (match b with [] => [] | _ => [(num, RLen b)] end) = enc_bytes_field num b.
Proof. unfold enc_bytes_field. destruct b; [reflexivity | apply ser_len]. Qed.

Lemma keydata_same kd : encode keydata_schema (keydata_msg (to_pkeydata kd)) = ser_keydata kd.
Proof.
  destruct kd as [u v m]. unfold encode, keydata_schema, keydata_msg, to_pkeydata, ser_keydata.
  cbn [raw_fields raw_val Serial.kd_url Serial.kd_value Serial.kd_mat Untrusted.kd_url Untrusted.kd_value Untrusted.kd_mat].
  rewrite !ser_app, !raw_bytes_field, raw_scalar_field, ser_nil, app_nil_r. reflexivity.
Qed.

Lemma key_same k : encode keyset_key_schema (pkey_msg (to_pkey k)) = ser_key k.
Proof.
  destruct k as [d st id pf]. unfold encode, keyset_key_schema, pkey_msg, to_pkey, ser_key.
  cbn [raw_fields raw_val pk_data pk_status pk_id pk_prefix k_data k_status k_id k_prefix].
  rewrite !ser_app, !raw_scalar_field, ser_nil, app_nil_r. f_equal.
  destruct d as [kd|]; cbn [option_map raw_val]; [|reflexivity].
  rewrite ser_len. f_equal. apply (keydata_same kd).
Qed.

(* the bytes coincide for every keyset without nil keys *)
Theorem ser_keyset_is_write_keyset pr pks :
  ser_keyset (mkKS pr (map Some pks)) = write_keyset (to_pkeyset pr pks).
Proof.
  unfold write_keyset, encode, keyset_schema, keyset_msg, to_pkeyset, ser_keyset.
  cbn [raw_fields raw_val pks_primary pks_keys ks_primary ks_keys].
  rewrite !ser_app, raw_scalar_field, ser_nil, app_nil_r. f_equal.
  rewrite !map_map. induction pks as [|k t IH]; [reflexivity|].
  cbn [map flat_map]. change ((2, RLen (ser (raw_fields keyset_key_schema (pkey_msg (to_pkey k))))) :: ?l)
    with ([(2, RLen (ser (raw_fields keyset_key_schema (pkey_msg (to_pkey k)))))] ++ l).
  rewrite ser_app, ser_len, IH. f_equal. f_equal. symmetry. apply (key_same k).
Qed.

(* hence the C12 reader (generic decoder + schema) reads the C13 writer's bytes *)
Corollary generic_reader_reads_ser_keyset pr pks :
  SerialProofs.wf_pkeyset (to_pkeyset pr pks) = true ->
  N.of_nat (length (ser_keyset (mkKS pr (map Some pks)))) < 2 ^ 64 ->
  read_keyset (ser_keyset (mkKS pr (map Some pks))) = Some (to_pkeyset pr pks).
Proof.
  intros W Z. rewrite ser_keyset_is_write_keyset in *. apply SerialProofs.read_write_keyset; assumption.
Qed.
