(* C14 (stretch 2) — proofs about model/UntrustedParams.v: the parameters
   parsers of every key type, the PRF-based deriver key parser, and the key
   parsers that run another parser on nested bytes.
     A  a nested value is strictly shorter than the value it is a field of
     B  the parameters parsers: never Panic, fuel adequacy, the type of the
        accepted object is decided by the URL, accepted objects are well formed
     C  the ECIES shortcut of model/Untrusted.v (ecies_dem) is what the
        detour through the DEM's own parameters parser computes
     D  parse_key_full = parse_key_flat: the recursion over nested key data
        (deriver in deriver, composite in composite ...) always ends, never
        panics, and agrees with model/Untrusted.v on every type it models
     E  the readers over xkd: never Panic, well-formed handles, exact
        acceptance, conservative over the readers of model/Untrusted.v *)
From Coq Require Import String Ascii List NArith Bool Lia ZifyBool ZifyNat ZifyN.
From Tink Require Import Bytes UntrustedConsts Untrusted UntrustedSpec UntrustedProofs SecretsProofs UntrustedParams.
Import ListNotations.
Open Scope list_scope.
Open Scope N_scope.

(* ------------------------------------------------------------------ *)
(* A  nested values are shorter                                        *)
(* ------------------------------------------------------------------ *)
Lemma take_payload_shorter n b p r : take n b = Some (p, r) -> (length p <= length b)%nat.
Proof.
  unfold take. destruct (n <=? blen b); [|discriminate]. intros H. inversion H; subst.
  rewrite firstn_length. lia.
Qed.

(* every length-delimited payload of a decoded message is shorter than the message *)
Lemma fields_aux_payload : forall f b l, fields_aux f b = Some l ->
  forall k p, In (k, FLen p) l -> (length p < length b)%nat.
Proof.
  induction f as [|f IH]; intros b l H k p Hin.
  - destruct b; cbn [fields_aux] in H; [inversion H; subst; destruct Hin|discriminate].
  - destruct b as [|x t]; [cbn [fields_aux] in H; inversion H; subst; destruct Hin|].
    cbn [fields_aux] in H. set (b := x :: t) in *.
    destruct (varint b) as [[tag b1]|] eqn:V; [|discriminate]. apply varint_shorter in V.
    destruct ((tag / 8 <? 1) || (max_field_number <? tag / 8)); [discriminate|].
    destruct (tag mod 8 =? 0).
    { destruct (varint b1) as [[v b2]|] eqn:V2; [|discriminate]. apply varint_shorter in V2.
      destruct (fields_aux f b2) as [l'|] eqn:R; [|discriminate]. inversion H; subst.
      destruct Hin as [E|Hin]; [inversion E|]. specialize (IH _ _ R _ _ Hin). lia. }
    destruct (tag mod 8 =? 2).
    { destruct (varint b1) as [[m b2]|] eqn:V2; [|discriminate]. apply varint_shorter in V2.
      destruct (take m b2) as [[q b3]|] eqn:T; [|discriminate].
      pose proof (take_payload_shorter _ _ _ _ T) as Tp. apply take_shorter in T.
      destruct (fields_aux f b3) as [l'|] eqn:R; [|discriminate]. inversion H; subst.
      destruct Hin as [E|Hin]; [inversion E; subst; lia|]. specialize (IH _ _ R _ _ Hin). lia. }
    destruct (tag mod 8 =? 3).
    { destruct (skip_groups (S (length b1)) [tag / 8] b1) as [b2|] eqn:G; [|discriminate].
      apply skip_groups_shorter in G.
      destruct (fields_aux f b2) as [l'|] eqn:R; [|discriminate]. inversion H; subst.
      destruct Hin as [E|Hin]; [inversion E|]. specialize (IH _ _ R _ _ Hin). lia. }
    destruct (skip_scalar (tag mod 8) b1) as [b2|] eqn:S; [|discriminate].
    apply skip_scalar_shorter in S.
    destruct (fields_aux f b2) as [l'|] eqn:R; [|discriminate]. inversion H; subst.
    destruct Hin as [E|Hin]; [inversion E|]. specialize (IH _ _ R _ _ Hin). lia.
Qed.

(* all payloads of a field list are shorter than n *)
Definition small (n : nat) (fs : list field) : Prop := forall k p, In (k, FLen p) fs -> (length p < n)%nat.

Lemma small_fields b : small (length b) (fields_or_nil b).
Proof.
  unfold small, fields_or_nil, fields. intros k p Hin.
  destruct (fields_aux (length b) b) as [l|] eqn:E; [|destruct Hin].
  eapply fields_aux_payload; eauto.
Qed.

Lemma small_mono n m fs : (n <= m)%nat -> small n fs -> small m fs.
Proof. intros H S k p Hin. specialize (S k p Hin). lia. Qed.

Lemma in_payloads n fs p : In p (payloads n fs) -> In (n, FLen p) fs.
Proof.
  unfold payloads. intros H. apply in_flat_map in H. destruct H as [[k v] [Hin H]].
  destruct v; try destruct H. destruct (k =? n) eqn:E; [|destruct H]. apply N.eqb_eq in E. subst.
  destruct H as [<-|[]]. exact Hin.
Qed.

Lemma small_get_sub n m fs : small n fs -> small n (get_sub m fs).
Proof.
  intros S k p Hin. unfold get_sub in Hin. apply in_flat_map in Hin. destruct Hin as [q [Hq Hin]].
  apply in_payloads in Hq. specialize (S _ _ Hq). pose proof (small_fields q k p Hin). lia.
Qed.

Lemma get_len_small n k fs : small n fs -> get_len k fs = [] \/ (length (get_len k fs) < n)%nat.
Proof.
  intros S. unfold get_len. destruct (payloads k fs) as [|a l] eqn:E; [left; reflexivity|].
  right. assert (Hin : In (last (a :: l) []) (payloads k fs)).
  { rewrite E. destruct (exists_last (l := a :: l)) as [l' [z Hz]]; [discriminate|]. rewrite Hz, last_last.
    apply in_or_app. right. left. reflexivity. }
  apply in_payloads in Hin. exact (S _ _ Hin).
Qed.

(* any byte string read out of a non-empty value through getters is shorter *)
Lemma get_len_shorter (v : bytes) k fs : v <> [] -> small (length v) fs -> (length (get_len k fs) < length v)%nat.
Proof.
  intros Hv S. destruct (get_len_small _ k _ S) as [E|E]; [|exact E].
  rewrite E. destruct v; [congruence|simpl; lia].
Qed.

(* ------------------------------------------------------------------ *)
(* B  the parameters parsers                                           *)
(* ------------------------------------------------------------------ *)
Lemma okq_np c p : okq c p <> Panic.
Proof. unfold okq. destruct c; discriminate. Qed.

Lemma okq_ok c p q : okq c p = Ok q -> c = true /\ q = p.
Proof. unfold okq. destruct c; intros H; inversion H; auto. Qed.

Ltac npq :=
  repeat match goal with
  | |- okq _ _ <> Panic => apply okq_np
  | |- Err <> Panic => discriminate
  | |- Ok _ <> Panic => discriminate
  | |- (if ?c then _ else _) <> Panic => destruct c
  | |- match ?o with Some _ => _ | None => _ end <> Panic => destruct o
  end.

Lemma set_prefix_raw_some tm : set_prefix_raw (Some tm) = Ok (mkT (t_url tm) (t_value tm) pt_raw).
Proof. reflexivity. Qed.

(* the nil test in front of the assignment is what keeps set_prefix_raw from panicking *)
Lemma ecies_params_of_np pp ps prefix :
  (forall tm, pp tm <> Panic) -> ecies_params_of pp ps prefix <> Panic.
Proof.
  intros Hpp. unfold ecies_params_of.
  destruct (negb (_ && _)); [discriminate|]. destruct (negb (has_sub 2 ps)); [discriminate|].
  destruct (aead_dem_ptr ps) as [tm|]; cbn [is_some negb]; [|discriminate].
  rewrite set_prefix_raw_some. cbn [bind].
  apply bind_np; [apply Hpp|]. intros dp _. npq.
Qed.

Lemma pp_ecies_np pp t : (forall tm, pp tm <> Panic) -> pp_ecies pp t <> Panic.
Proof. intros H. unfold pp_ecies. destruct (negb _); [discriminate|]. apply ecies_params_of_np. exact H. Qed.

Lemma pp_deriver_np pp t : (forall tm, pp tm <> Panic) -> pp_deriver pp t <> Panic.
Proof.
  intros H. unfold pp_deriver. cbv zeta. destruct (negb (wire_ok _ _)); [discriminate|]. destruct (negb (_ =? _)); [discriminate|].
  apply bind_np; [apply H|]. intros prf _. apply bind_np; [apply H|]. intros d _. npq.
Qed.

Ltac unfold_leaves :=
  unfold pp_aes_gcm, pp_aes_gcm_siv, pp_chacha, pp_xchacha, pp_xaes_gcm, pp_aes_ctr_hmac, pp_aes_siv, pp_hmac,
    pp_aes_cmac, pp_aes_cmac_prf, pp_hkdf_prf, pp_hmac_prf, pp_ecdsa, pp_ed25519, pp_rsa_pkcs1, pp_rsa_pss,
    pp_mldsa, pp_slhdsa, pp_composite, pp_hpke, pp_stream_gcm_hkdf, pp_stream_ctr_hmac, pp_jwt_hmac, pp_jwt_ecdsa,
    pp_jwt_rsa, pp_jwt_mldsa.

(* no template makes protoserialization.ParseParameters panic, whatever the nesting *)
Theorem parse_params_np : forall fuel t, parse_params fuel t <> Panic.
Proof.
  induction fuel as [|fl IH]; intros t; cbn [parse_params]; [discriminate|].
  cbv zeta.
  repeat match goal with
  | |- (if beq ?a ?b then _ else _) <> Panic => destruct (beq a b)
  end; try discriminate;
  try (apply pp_ecies_np; exact IH); try (apply pp_deriver_np; exact IH);
  unfold_leaves; cbv zeta; npq.
Qed.

Corollary parse_params_full_np t : parse_params_full t <> Panic.
Proof. apply parse_params_np. Qed.

(* ---- fuel: any fuel above the length of the value gives the same answer.
   parse_params represents "out of fuel" as Err, not as a fourth outcome; the
   theorem below is what makes that harmless: with S (length value) - the fuel
   parse_params_full uses - or more, the answer does not depend on the fuel,
   so an Err of parse_params_full is never the fuel's. ---- *)
Lemma parse_params_empty_url fl : parse_params fl (mkT [] [] 0) = Err.
Proof. destruct fl; reflexivity. Qed.

Lemma get_len_lt (n : nat) k fs : (0 < n)%nat -> small n fs -> (length (get_len k fs) < n)%nat.
Proof. intros Hn S. destruct (get_len_small _ k _ S) as [E|E]; [rewrite E; simpl; lia|exact E]. Qed.

Lemma ecies_params_of_ext pp1 pp2 ps prefix (n : nat) :
  (0 < n)%nat -> small n ps ->
  (forall tm, (length (t_value tm) < n)%nat -> pp1 tm = pp2 tm) ->
  ecies_params_of pp1 ps prefix = ecies_params_of pp2 ps prefix.
Proof.
  intros Hn S H. unfold ecies_params_of.
  destruct (negb (_ && _)); [reflexivity|]. destruct (negb (has_sub 2 ps)); [reflexivity|].
  unfold aead_dem_ptr. destruct (has_sub 2 (get_sub 2 ps)); cbn [is_some negb]; [|reflexivity].
  rewrite set_prefix_raw_some. cbn [bind]. rewrite H; [reflexivity|].
  cbn [t_value template_of]. apply get_len_lt; [exact Hn|]. apply small_get_sub, small_get_sub. exact S.
Qed.

Lemma pp_ecies_ext pp1 pp2 t :
  (forall tm, (length (t_value tm) < length (t_value t))%nat -> pp1 tm = pp2 tm) -> pp_ecies pp1 t = pp_ecies pp2 t.
Proof.
  intros H. unfold pp_ecies. destruct (t_value t) as [|x v] eqn:E; [reflexivity|].
  destruct (negb _); [reflexivity|].
  apply (ecies_params_of_ext _ _ _ _ (length (x :: v))); [simpl; lia| |exact H].
  apply small_get_sub, small_fields.
Qed.

Lemma pp_deriver_ext pp1 pp2 t :
  (forall tm, (length (t_value tm) < length (t_value t))%nat -> pp1 tm = pp2 tm) ->
  pp1 (mkT [] [] 0) = pp2 (mkT [] [] 0) -> pp_deriver pp1 t = pp_deriver pp2 t.
Proof.
  intros H H0. unfold pp_deriver. destruct (t_value t) as [|x v] eqn:E.
  - cbv zeta. change (fields_or_nil []) with (@nil field). change (template_of (get_sub 1 (get_sub 2 []))) with (mkT [] [] 0).
    change (template_of (get_sub 1 [])) with (mkT [] [] 0). rewrite H0. reflexivity.
  - cbv zeta. destruct (negb (wire_ok _ _)); [reflexivity|]. destruct (negb (_ =? _)); [reflexivity|].
    assert (S : small (length (x :: v)) (fields_or_nil (x :: v))) by apply small_fields.
    rewrite (H (template_of (get_sub 1 (fields_or_nil (x :: v))))).
    2:{ cbn [t_value template_of]. apply get_len_lt; [simpl; lia|]. apply small_get_sub. exact S. }
    rewrite (H (template_of (get_sub 1 (get_sub 2 (fields_or_nil (x :: v)))))).
    2:{ cbn [t_value template_of]. apply get_len_lt; [simpl; lia|]. apply small_get_sub, small_get_sub. exact S. }
    reflexivity.
Qed.

Theorem parse_params_fuel : forall f1 f2 t,
  (length (t_value t) < f1)%nat -> (length (t_value t) < f2)%nat -> parse_params f1 t = parse_params f2 t.
Proof.
  induction f1 as [|f1 IH]; intros f2 t H1 H2; [lia|]. destruct f2 as [|f2]; [lia|].
  cbn [parse_params]. cbv zeta.
  repeat match goal with
  | |- (if beq ?a ?b then _ else _) = _ => destruct (beq a b); [reflexivity|]
  end.
  destruct (beq (t_url t) u_ecies_priv).
  { apply pp_ecies_ext. intros tm Htm. apply IH; lia. }
  destruct (beq (t_url t) u_deriver); [|reflexivity].
  apply pp_deriver_ext; [|rewrite !parse_params_empty_url; reflexivity].
  intros tm Htm. apply IH; lia.
Qed.

Corollary parse_params_fuel_adequate f t : (length (t_value t) < f)%nat -> parse_params f t = parse_params_full t.
Proof. intros H. unfold parse_params_full. apply parse_params_fuel; lia. Qed.

(* ---- the type of the accepted object is decided by the type URL ---- *)
Definition qtag (p : params) : N :=
  match p with
  | QAesGcm _ _ => 1 | QAesSiv _ _ => 2 | QXChaCha _ => 3 | QAesCtrHmac _ _ _ _ _ _ => 4 | QAesGcmSiv _ _ => 5
  | QChaCha _ => 6 | QXAesGcm _ _ => 7 | QHmac _ _ _ _ => 8 | QAesCmac _ _ _ => 9 | QAesCmacPrf _ => 10
  | QHkdfPrf _ _ _ => 11 | QHmacPrf _ _ => 12 | QEcdsa _ _ _ _ => 13 | QEd25519 _ => 14 | QRsaPkcs1 _ _ _ _ => 15
  | QRsaPss _ _ _ _ _ => 16 | QMlDsa _ _ => 17 | QSlhDsa _ _ _ _ => 18 | QComposite _ _ _ => 19 | QHpke _ _ _ _ => 20
  | QStreamGcmHkdf _ _ _ _ => 21 | QStreamCtrHmac _ _ _ _ _ _ => 22 | QJwtHmac _ _ _ => 23 | QJwtEcdsa _ _ => 24
  | QJwtRsa false _ _ _ _ => 25 | QJwtRsa true _ _ _ _ => 26 | QJwtMlDsa _ _ => 27 | QEcies _ _ _ _ _ _ => 28
  | QDeriver _ _ => 29
  end.

Definition url_qtag (u : bytes) : N :=
  if beq u u_aes_gcm then 1 else if beq u u_aes_siv then 2 else if beq u u_xchacha then 3
  else if beq u u_aes_ctr_hmac then 4 else if beq u u_aes_gcm_siv then 5 else if beq u u_chacha then 6
  else if beq u u_xaes_gcm then 7 else if beq u u_hmac then 8 else if beq u u_aes_cmac then 9
  else if beq u u_aes_cmac_prf then 10 else if beq u u_hkdf_prf then 11 else if beq u u_hmac_prf then 12
  else if beq u u_ecdsa_priv then 13 else if beq u u_ed25519_priv then 14 else if beq u u_rsa_pkcs1_priv then 15
  else if beq u u_rsa_pss_priv then 16 else if beq u u_mldsa_priv then 17 else if beq u u_slhdsa_priv then 18
  else if beq u u_composite_priv then 19 else if beq u u_hpke_priv then 20 else if beq u u_stream_gcm_hkdf then 21
  else if beq u u_stream_ctr_hmac then 22 else if beq u u_jwt_hmac then 23 else if beq u u_jwt_ecdsa_priv then 24
  else if beq u u_jwt_rsa_pkcs1_priv then 25 else if beq u u_jwt_rsa_pss_priv then 26
  else if beq u u_jwt_mldsa_priv then 27 else if beq u u_ecies_priv then 28 else if beq u u_deriver then 29
  else 0.

(* at a leaf: peel the conditions of a parser off an equation [... = Ok p] *)
Ltac peelq :=
  repeat match goal with
  | |- (if ?c then _ else _) = Ok _ -> _ => destruct c
  | |- match ?o with Some _ => _ | None => _ end = Ok _ -> _ => destruct o
  | |- Err = Ok _ -> _ => discriminate
  | |- Panic = Ok _ -> _ => discriminate
  | |- okq _ _ = Ok _ -> _ => let H := fresh in intros H; apply okq_ok in H; destruct H as [_ ->]; reflexivity
  | |- Ok _ = Ok _ -> _ => let H := fresh in intros H; inversion H; reflexivity
  end.

Lemma ecies_params_of_tag pp ps prefix p : ecies_params_of pp ps prefix = Ok p -> qtag p = 28.
Proof.
  unfold ecies_params_of. destruct (negb (_ && _)); [discriminate|]. destruct (negb (has_sub 2 ps)); [discriminate|].
  destruct (aead_dem_ptr ps) as [tm|]; cbn [is_some negb]; [|discriminate].
  rewrite set_prefix_raw_some. cbn [bind]. intros H. apply bind_ok in H. destruct H as [dp [_ H]].
  revert H. peelq.
Qed.

Lemma pp_deriver_tag pp t p : pp_deriver pp t = Ok p -> qtag p = 29.
Proof.
  unfold pp_deriver. cbv zeta. destruct (negb (wire_ok _ _)); [discriminate|]. destruct (negb (_ =? _)); [discriminate|].
  intros H. apply bind_ok in H. destruct H as [prf [_ H]]. apply bind_ok in H. destruct H as [d [_ H]].
  revert H. peelq.
Qed.

Theorem parse_params_tag fuel t p : parse_params fuel t = Ok p -> qtag p = url_qtag (t_url t).
Proof.
  destruct fuel as [|fl]; [discriminate|]. cbn [parse_params]. unfold url_qtag. cbv zeta.
  repeat match goal with
  | |- (if beq ?a ?b then _ else _) = Ok _ -> _ => destruct (beq a b); [solve [unfold_leaves; cbv zeta; peelq]|]
  end.
  destruct (beq (t_url t) u_ecies_priv).
  { unfold pp_ecies. destruct (negb _); [discriminate|]. apply ecies_params_of_tag. }
  destruct (beq (t_url t) u_deriver); [apply pp_deriver_tag|discriminate].
Qed.

(* ---- accepted parameters objects are well formed ---- *)
From Tink Require Import UntrustedParamsSpec.

Ltac consts :=
  unfold known_prefix, aes_16_24_32, aes_16_32, rsa_hash_ok, inr, stream_hash_ok, stream_derived_ok, int32_at_least,
    jwt_alg_ok, jwt_hmac_min_key, v_aead, v_full, v_tink_raw, is_hash, sig_hash, stream_hash, rsa_exp in *;
  unfold aes_k16, aes_k24, aes_k32, pt_tink, pt_legacy, pt_raw, pt_crunchy, pt_with_id_requirement,
    xaes_min_salt, xaes_max_salt, ctr_min_iv, ctr_max_iv, ctrhmac_min_hmac_key, ctrhmac_min_tag, siv_k32, siv_k48, siv_k64,
    hmac_min_key_parse, hmac_min_tag_parse, cmac_key_a, cmac_key_b, cmac_min_tag, cmac_max_tag, cmacprf_key_a, cmacprf_key_b,
    hkdf_min_key_parse, hmacprf_min_key_parse, rsa_min_bits_format, h_sha1, h_sha224, h_sha256, h_sha384, h_sha512,
    mldsa_44, mldsa_65, mldsa_87, slh_sha2, slh_shake, slh_fast, slh_small, slhdsa_key_a, slhdsa_key_b, slhdsa_key_c,
    kem_x25519, kem_mlkem1024, hpke_max_aead, hpke_max_kdf, stream_derived_a,
    stream_derived_b, stream_gcm_overhead, stream_ctr_overhead, stream_min_tag, jwt_alg_256,
    jwt_alg_384, jwt_alg_512, jwt_mldsa_44, jwt_mldsa_65, jwt_mldsa_87, jwt_hs256_min_key, jwt_hs384_min_key,
    jwt_hs512_min_key, c_p256, c_p384, c_p521, c_x25519, enc_der, enc_ieee in *;
  unfold rsa_min_bits_parse in *.

Lemma aead_variant_spec p v : aead_variant p = Some v ->
  v_aead v /\ (v = p \/ (p = 2 /\ v = 4)) /\ (1 <= p /\ p <= 4).
Proof.
  unfold aead_variant. consts.
  destruct (p =? 1) eqn:A; [intros H; inversion H; lia|].
  destruct ((p =? 4) || (p =? 2)) eqn:B; [intros H; inversion H; lia|].
  destruct (p =? 3) eqn:C; [intros H; inversion H; lia|discriminate].
Qed.

Lemma full_variant_spec p v : full_variant p = Some v -> v = p /\ v_full v.
Proof.
  unfold full_variant. match goal with |- (if ?c then _ else _) = _ -> _ => destruct c eqn:A end; [|discriminate].
  intros H; inversion H; subst. consts. lia.
Qed.

Lemma tink_raw_variant_spec p v : tink_raw_variant p = Some v -> v = p /\ v_tink_raw v.
Proof.
  unfold tink_raw_variant. match goal with |- (if ?c then _ else _) = _ -> _ => destruct c eqn:A end; [|discriminate].
  intros H; inversion H; subst. consts. lia.
Qed.

Lemma mldsa_variant_spec p v : mldsa_variant p = Some v -> v = p /\ (v = 1 \/ v = 3 \/ v = 5).
Proof.
  unfold mldsa_variant. match goal with |- (if ?c then _ else _) = _ -> _ => destruct c eqn:A end; [|discriminate].
  intros H; inversion H; subst. consts. lia.
Qed.

Lemma hpke_variant_spec p v : hpke_variant p = Some v -> v = p /\ v_aead v.
Proof.
  unfold hpke_variant. match goal with |- (if ?c then _ else _) = _ -> _ => destruct c eqn:A end; [|discriminate].
  intros H; inversion H; subst. consts. lia.
Qed.

Lemma digest_size_spec h d : digest_size h = Some d -> is_hash h /\ dsize h = d.
Proof.
  unfold digest_size, dsize, is_hash, h_sha1, h_sha224, h_sha256, h_sha384, h_sha512, dg_sha1, dg_sha224, dg_sha256, dg_sha384, dg_sha512.
  destruct (h =? 1) eqn:A; [intros H; inversion H; lia|].
  destruct (h =? 5) eqn:B; [intros H; inversion H; lia|].
  destruct (h =? 3) eqn:C; [intros H; inversion H; lia|].
  destruct (h =? 2) eqn:D; [intros H; inversion H; lia|].
  destruct (h =? 4) eqn:E; [intros H; inversion H; lia|discriminate].
Qed.

Lemma is_some_digest h : is_some (digest_size h) = true -> is_hash h.
Proof. destruct (digest_size h) as [d|] eqn:E; [|discriminate]. intros _. apply (digest_size_spec _ _ E). Qed.

Lemma rsa_exponent_spec eb : rsa_exponent_parse_ok (rsa_exponent eb) = true -> rsa_exp (exponent_value (rsa_exponent eb)).
Proof.
  unfold rsa_exponent_parse_ok, exponent_value, rsa_exp, rsa_f4, rsa_max_exponent.
  destruct (rsa_exponent eb) as [e|]; [|discriminate]. intros H.
  repeat rewrite andb_true_iff in H. destruct H as [[H1 H2] H3].
  apply N.leb_le in H1, H2. apply N.eqb_eq in H3. auto.
Qed.

Lemma composite_supported_spec inst alg : composite_supported inst alg = true ->
  (inst = 1 /\ (alg = 1 \/ alg = 2 \/ alg = 3 \/ alg = 5 \/ alg = 6 \/ alg = 7 \/ alg = 8))
  \/ (inst = 2 /\ (alg = 3 \/ alg = 4 \/ alg = 5 \/ alg = 6)).
Proof.
  unfold composite_supported, mldsa_65, mldsa_87, calg_ed25519, calg_ecdsa_p256, calg_ecdsa_p384, calg_ecdsa_p521,
    calg_rsa3072_pss, calg_rsa4096_pss, calg_rsa3072_pkcs1, calg_rsa4096_pkcs1.
  destruct (inst =? 1) eqn:A; [lia|]. destruct (inst =? 2) eqn:B; [lia|discriminate].
Qed.

Lemma ecdsa_params_ok_spec curve hash enc prefix : ecdsa_params_ok curve hash enc prefix = true ->
  ((curve = 2 /\ hash = 3) \/ (curve = 3 /\ (hash = 2 \/ hash = 4)) \/ (curve = 4 /\ hash = 4))
  /\ (enc = 1 \/ enc = 2) /\ v_full prefix.
Proof.
  unfold ecdsa_params_ok. consts. intros H. repeat rewrite andb_true_iff in H. destruct H as [[[H1 H2] H3] H4].
  split; [|split; lia].
  destruct (curve =? 2) eqn:A; [lia|]. destruct (curve =? 3) eqn:B; [lia|]. destruct (curve =? 4) eqn:C; [lia|discriminate].
Qed.

(* what is known of an accepted object p of template t *)
Definition pfacts (t : template) (p : params) : Prop :=
  params_wf p
  /\ params_has_idreq p = negb (t_prefix t =? 3)
  /\ (params_prefix p = t_prefix t \/ (t_prefix t = 2 /\ params_prefix p = 4))
  /\ (1 <= t_prefix t /\ t_prefix t <= 5).

Ltac peelf :=
  repeat match goal with
  | |- (if ?c then _ else _) = Ok _ -> _ => let E := fresh "C" in destruct c eqn:E; try discriminate
  | |- match ?o with Some _ => _ | None => _ end = Ok _ -> _ => let E := fresh "V" in destruct o eqn:E; try discriminate
  | |- Err = Ok _ -> _ => discriminate
  end;
  let H := fresh "H" in intros H;
  first [ apply okq_ok in H; let Hc := fresh "Hc" in destruct H as [Hc ->] | inversion H; subst; clear H ].

Ltac specs :=
  repeat match goal with
  | H : aead_variant _ = Some _ |- _ => apply aead_variant_spec in H
  | H : full_variant _ = Some _ |- _ => apply full_variant_spec in H
  | H : tink_raw_variant _ = Some _ |- _ => apply tink_raw_variant_spec in H
  | H : jwt_variant _ = Some _ |- _ => apply tink_raw_variant_spec in H
  | H : mldsa_variant _ = Some _ |- _ => apply mldsa_variant_spec in H
  | H : hpke_variant _ = Some _ |- _ => apply hpke_variant_spec in H
  | H : digest_size _ = Some _ |- _ => apply digest_size_spec in H
  end.

Lemma get_u32_lt n fs : get_u32 n fs < 4294967296.
Proof. unfold get_u32, u32. apply N.mod_lt. discriminate. Qed.

(* every get_u32 value in the goal is below 2^32 *)
Ltac u32facts :=
  repeat match goal with
  | |- context [get_u32 ?n ?f] =>
      lazymatch goal with
      | H : get_u32 n f < 4294967296 |- _ => fail
      | _ => pose proof (get_u32_lt n f)
      end
  end.

Ltac finish := unfold pfacts; cbn [params_wf params_has_idreq params_prefix]; unfold u32b; u32facts; consts; lia.

Lemma facts_aes_gcm t p : pp_aes_gcm t = Ok p -> pfacts t p.
Proof. unfold_leaves; cbv zeta. peelf. specs. finish. Qed.
Lemma facts_aes_gcm_siv t p : pp_aes_gcm_siv t = Ok p -> pfacts t p.
Proof. unfold_leaves; cbv zeta. peelf. specs. finish. Qed.
Lemma facts_chacha t p : pp_chacha t = Ok p -> pfacts t p.
Proof. unfold_leaves; cbv zeta. peelf. specs. finish. Qed.
Lemma facts_xchacha t p : pp_xchacha t = Ok p -> pfacts t p.
Proof. unfold_leaves; cbv zeta. peelf. specs. finish. Qed.
Lemma facts_xaes_gcm t p : pp_xaes_gcm t = Ok p -> pfacts t p.
Proof. unfold_leaves; cbv zeta. peelf. specs. finish. Qed.
Lemma facts_aes_ctr_hmac t p : pp_aes_ctr_hmac t = Ok p -> pfacts t p.
Proof. unfold_leaves; cbv zeta. peelf. specs. finish. Qed.
Lemma facts_aes_siv t p : pp_aes_siv t = Ok p -> pfacts t p.
Proof. unfold_leaves; cbv zeta. peelf. specs. finish. Qed.
Lemma facts_hmac t p : pp_hmac t = Ok p -> pfacts t p.
Proof. unfold_leaves; cbv zeta. peelf. specs. finish. Qed.
Lemma facts_aes_cmac t p : pp_aes_cmac t = Ok p -> pfacts t p.
Proof. unfold_leaves; cbv zeta. peelf. specs. finish. Qed.
Lemma facts_aes_cmac_prf t p : pp_aes_cmac_prf t = Ok p -> pfacts t p.
Proof. unfold_leaves; cbv zeta. peelf. specs. finish. Qed.
Lemma facts_hkdf_prf t p : pp_hkdf_prf t = Ok p -> pfacts t p.
Proof.
  unfold_leaves; cbv zeta. peelf. apply andb_true_iff in Hc. destruct Hc as [Hd Hk]. apply is_some_digest in Hd. finish.
Qed.
Lemma facts_hmac_prf t p : pp_hmac_prf t = Ok p -> pfacts t p.
Proof.
  unfold_leaves; cbv zeta. peelf. apply andb_true_iff in Hc. destruct Hc as [Hd Hk]. apply is_some_digest in Hd. finish.
Qed.
Lemma facts_ecdsa t p : pp_ecdsa t = Ok p -> pfacts t p.
Proof. unfold_leaves; cbv zeta. peelf. apply ecdsa_params_ok_spec in Hc. finish. Qed.
Lemma facts_ed25519 t p : pp_ed25519 t = Ok p -> pfacts t p.
Proof. unfold_leaves; cbv zeta. peelf. specs. finish. Qed.
Lemma facts_rsa_pkcs1 t p : pp_rsa_pkcs1 t = Ok p -> pfacts t p.
Proof.
  unfold_leaves; cbv zeta. peelf. specs. repeat rewrite andb_true_iff in Hc. destruct Hc as [[Hh Hb] He].
  apply rsa_exponent_spec in He. unfold pfacts; cbn [params_wf params_has_idreq params_prefix]. unfold u32b. u32facts.
  split; [split; [consts; lia|split; [consts; lia|split; [consts; lia|split; [exact He|consts; lia]]]]|consts; lia].
Qed.
Lemma facts_rsa_pss t p : pp_rsa_pss t = Ok p -> pfacts t p.
Proof.
  unfold_leaves; cbv zeta. peelf. specs. repeat rewrite andb_true_iff in Hc. destruct Hc as [[[[[Hh Hm] Hmh] Hs] Hb] He].
  apply rsa_exponent_spec in He. unfold pfacts; cbn [params_wf params_has_idreq params_prefix]. unfold u32b. u32facts.
  split; [split; [consts; lia|split; [consts; lia|split; [consts; lia|split; [exact He|consts; lia]]]]|consts; lia].
Qed.
Lemma facts_mldsa t p : pp_mldsa t = Ok p -> pfacts t p.
Proof. unfold_leaves; cbv zeta. peelf. specs. finish. Qed.
Lemma facts_slhdsa t p : pp_slhdsa t = Ok p -> pfacts t p.
Proof. unfold_leaves; cbv zeta. peelf. specs. finish. Qed.
Lemma facts_composite t p : pp_composite t = Ok p -> pfacts t p.
Proof. unfold_leaves; cbv zeta. peelf. specs. apply composite_supported_spec in Hc. finish. Qed.
Lemma facts_hpke t p : pp_hpke t = Ok p -> pfacts t p.
Proof. unfold_leaves; cbv zeta. peelf. specs. finish. Qed.
Lemma facts_stream_gcm_hkdf t p : pp_stream_gcm_hkdf t = Ok p -> pfacts t p.
Proof. unfold_leaves; cbv zeta. peelf. finish. Qed.
Lemma facts_stream_ctr_hmac t p : pp_stream_ctr_hmac t = Ok p -> pfacts t p.
Proof.
  unfold_leaves; cbv zeta. peelf.
  repeat rewrite andb_true_iff in Hc. destruct Hc as [[[[[[H1 H2] H3] H4] H5] H6] H7].
  destruct (digest_size _) as [dg|] eqn:D in H6; [|discriminate]. apply digest_size_spec in D. finish.
Qed.
Lemma facts_jwt_hmac t p : pp_jwt_hmac t = Ok p -> pfacts t p.
Proof.
  unfold_leaves; cbv zeta. peelf. specs. unfold pfacts; cbn [params_wf params_has_idreq params_prefix]. unfold u32b. u32facts. consts.
  destruct (get_u32 2 _ =? 1) eqn:A; [lia|]. destruct (get_u32 2 _ =? 2) eqn:B; lia.
Qed.
Lemma facts_jwt_ecdsa t p : pp_jwt_ecdsa t = Ok p -> pfacts t p.
Proof. unfold_leaves; cbv zeta. peelf. specs. finish. Qed.
Lemma facts_jwt_rsa t pss p : pp_jwt_rsa t pss = Ok p -> pfacts t p.
Proof.
  unfold_leaves; cbv zeta. peelf. specs. repeat rewrite andb_true_iff in Hc. destruct Hc as [[Ha Hb] He].
  apply rsa_exponent_spec in He. unfold pfacts; cbn [params_wf params_has_idreq params_prefix]. unfold u32b. u32facts.
  split; [split; [consts; lia|split; [consts; lia|split; [consts; lia|split; [exact He|consts; lia]]]]|consts; lia].
Qed.
Lemma facts_jwt_mldsa t p : pp_jwt_mldsa t = Ok p -> pfacts t p.
Proof. unfold_leaves; cbv zeta. peelf. specs. finish. Qed.

Lemma dem_code_range p dem : dem_code p = Some dem -> 1 <= dem /\ dem <= 6.
Proof.
  unfold dem_code, dem_aes128_gcm, dem_aes256_gcm, dem_aes256_siv, dem_xchacha, dem_aes128_ctr_hmac, dem_aes256_ctr_hmac.
  destruct p; try discriminate;
  repeat match goal with
  | |- (if ?c then _ else _) = Some _ -> _ => destruct c
  | |- None = Some _ -> _ => discriminate
  | |- Some _ = Some _ -> _ => let H := fresh in intros H; inversion H; lia
  end.
Qed.

Lemma facts_ecies_params pp ps prefix p : ecies_params_of pp ps prefix = Ok p ->
  params_wf p /\ params_has_idreq p = negb (prefix =? 3)
  /\ (params_prefix p = prefix \/ (prefix = 2 /\ params_prefix p = 4)) /\ (1 <= prefix /\ prefix <= 5).
Proof.
  unfold ecies_params_of.
  destruct (negb (_ && _)) eqn:C0; [discriminate|]. destruct (negb (has_sub 2 ps)); [discriminate|].
  destruct (aead_dem_ptr ps) as [tm|]; cbn [is_some negb]; [|discriminate].
  rewrite set_prefix_raw_some. cbn [bind]. intros H. apply bind_ok in H. destruct H as [dp [_ H]].
  apply negb_false_iff in C0. repeat rewrite andb_true_iff in C0. destruct C0 as [[[Hc Hh] Hv] Hf].
  apply is_some_digest in Hh.
  destruct (_ && negb _) eqn:CX in H; [discriminate|].
  destruct (dem_code dp) as [dem|] eqn:D; [|discriminate]. apply dem_code_range in D.
  destruct (aead_variant prefix) as [var|] eqn:V; [|discriminate]. apply aead_variant_spec in V.
  inversion H; subst. clear H. cbn [params_wf params_has_idreq params_prefix].
  unfold ecies_curve_ok, ecies_format_ok, pf_uncompressed, pf_compressed, pf_crunchy_uncompressed, pf_unspecified in *.
  consts.
  destruct (get_u32 1 (get_sub 1 ps) =? 5) eqn:X; repeat split; try lia.
Qed.

Lemma facts_ecies pp t p : pp_ecies pp t = Ok p -> pfacts t p.
Proof. unfold pp_ecies. destruct (negb _); [discriminate|]. apply facts_ecies_params. Qed.

Lemma facts_deriver pp t p :
  (forall tm q, pp tm = Ok q -> pfacts tm q) -> pp_deriver pp t = Ok p -> pfacts t p.
Proof.
  intros IH. unfold pp_deriver. cbv zeta. destruct (negb (wire_ok _ _)); [discriminate|].
  destruct (negb (_ =? _)) eqn:P; [discriminate|]. apply negb_false_iff, N.eqb_eq in P.
  intros H. apply bind_ok in H. destruct H as [prf [Hprf H]]. apply bind_ok in H. destruct H as [d [Hd H]].
  destruct (prf_params_kind prf) eqn:K; [|discriminate]. inversion H; subst. clear H.
  apply IH in Hprf, Hd. destruct Hprf as [W1 _]. destruct Hd as [W2 [I2 [P2 R2]]].
  unfold pfacts. cbn [params_wf params_has_idreq params_prefix]. rewrite P.
  split; [|auto]. split; [|auto]. destruct prf; try discriminate; exact I.
Qed.

(* On Ok the parameters object is well formed, asks for an id exactly when the
   template's prefix type is not RAW, and is written back with the template's
   prefix type (LEGACY as CRUNCHY by the packages without a legacy variant). *)
Theorem parse_params_facts : forall fuel t p, parse_params fuel t = Ok p -> pfacts t p.
Proof.
  induction fuel as [|fl IH]; intros t p; [discriminate|]. cbn [parse_params]. cbv zeta.
  repeat match goal with
  | |- (if beq ?a ?b then _ else _) = Ok _ -> _ =>
      destruct (beq a b);
      [first [apply facts_aes_gcm|apply facts_aes_siv|apply facts_xchacha|apply facts_aes_ctr_hmac|apply facts_aes_gcm_siv
             |apply facts_chacha|apply facts_xaes_gcm|apply facts_hmac|apply facts_aes_cmac|apply facts_aes_cmac_prf
             |apply facts_hkdf_prf|apply facts_hmac_prf|apply facts_ecdsa|apply facts_ed25519|apply facts_rsa_pkcs1
             |apply facts_rsa_pss|apply facts_mldsa|apply facts_slhdsa|apply facts_composite|apply facts_hpke
             |apply facts_stream_gcm_hkdf|apply facts_stream_ctr_hmac|apply facts_jwt_hmac|apply facts_jwt_ecdsa
             |apply facts_jwt_rsa|apply facts_jwt_mldsa|apply facts_ecies]|]
  end.
  destruct (beq (t_url t) u_deriver); [|discriminate]. apply facts_deriver. exact IH.
Qed.

(* ------------------------------------------------------------------ *)
(* C  the ECIES shortcut of model/Untrusted.v                           *)
(* ------------------------------------------------------------------ *)
Definition opt_of {A} (o : outcome A) : option A := match o with Ok a => Some a | _ => None end.

(* templates of another type than the four give an object that equals none of the six allowed ones *)
Lemma dem_code_tag p : qtag p <> 1 -> qtag p <> 2 -> qtag p <> 3 -> qtag p <> 4 -> dem_code p = None.
Proof. destruct p; cbn [qtag dem_code]; intros; try reflexivity; congruence. Qed.

Ltac beq_consts u :=
  repeat match goal with
  | |- context [beq u ?w] => let b := eval vm_compute in (beq u w) in change (beq u w) with b
  end.

(* Running the parameters parser the DEM template names (with the prefix type
   forced to RAW) and comparing the result with the six allowed parameter sets
   is what model/Untrusted.v's ecies_dem computes from the four type URLs. *)
Theorem ecies_dem_agrees fs :
  let tm := template_of fs in
  match parse_params_full (mkT (t_url tm) (t_value tm) pt_raw) with
  | Ok p => dem_code p
  | _ => None
  end = ecies_dem fs.
Proof.
  cbv zeta. unfold parse_params_full. cbn [t_url t_value template_of].
  set (u := get_len 1 fs). set (v := get_len 2 fs).
  cbn [parse_params t_url]. cbv zeta. unfold ecies_dem. fold u. fold v. cbv zeta.
  destruct (beq u u_aes_gcm) eqn:U1.
  { unfold pp_aes_gcm. cbn [t_value t_prefix]. cbv zeta.
    destruct (wire_ok sch_scalar v); cbn [negb andb]; [|reflexivity].
    destruct (get_u32 3 (fields_or_nil v) =? 0); cbn [negb]; [|reflexivity].
    change (aead_variant pt_raw) with (Some pt_raw). unfold okq, aes_16_24_32, dem_gcm_key_a, dem_gcm_key_b, aes_k16, aes_k24, aes_k32.
    destruct (get_u32 2 (fields_or_nil v) =? 16) eqn:A.
    { apply N.eqb_eq in A. rewrite A. reflexivity. }
    destruct (get_u32 2 (fields_or_nil v) =? 32) eqn:B.
    { apply N.eqb_eq in B. rewrite B. reflexivity. }
    cbn [orb]. destruct (get_u32 2 (fields_or_nil v) =? 24); cbn [orb]; [|reflexivity].
    cbn [dem_code]. change (pt_raw =? pt_raw) with true. cbn [negb]. unfold dem_gcm_key_a, dem_gcm_key_b. rewrite A, B. reflexivity. }
  destruct (beq u u_aes_siv) eqn:U2.
  { unfold pp_aes_siv. cbn [t_value t_prefix]. cbv zeta.
    destruct (blen v =? 0) eqn:Z.
    { apply N.eqb_eq in Z. unfold blen in Z. destruct v; [|discriminate]. reflexivity. }
    destruct (wire_ok sch_scalar v); cbn [negb andb]; [|reflexivity].
    destruct (get_u32 2 (fields_or_nil v) =? 0); cbn [negb andb]; [|reflexivity].
    change (aead_variant pt_raw) with (Some pt_raw). unfold okq, siv_k32, siv_k48, siv_k64, dem_siv_key.
    destruct (get_u32 1 (fields_or_nil v) =? 64) eqn:A.
    { apply N.eqb_eq in A. rewrite A. reflexivity. }
    destruct ((_ =? 32) || (_ =? 48) || false); [|reflexivity].
    cbn [dem_code]. unfold dem_siv_key. rewrite A. rewrite andb_false_r. reflexivity. }
  destruct (beq u u_xchacha) eqn:U3.
  { unfold pp_xchacha. cbn [t_value t_prefix]. cbv zeta.
    destruct (wire_ok sch_scalar v); cbn [negb andb]; [|reflexivity].
    destruct (get_u32 1 (fields_or_nil v) =? 0); cbn [negb]; reflexivity. }
  destruct (beq u u_aes_ctr_hmac) eqn:U4.
  { unfold pp_aes_ctr_hmac. cbn [t_value t_prefix]. cbv zeta.
    set (f := fields_or_nil v).
    destruct (wire_ok sch_ctr_hmac_format v); cbn [negb andb]; [|reflexivity].
    destruct (get_u32 3 (get_sub 2 f) =? 0); cbn [negb andb]; [|reflexivity].
    change (aead_variant pt_raw) with (Some pt_raw).
    destruct (get_u32 2 (get_sub 2 f) =? dem_ctr_hmac_key) eqn:K; cbn [andb].
    2:{ destruct (digest_size _); [|reflexivity]. unfold okq. destruct (_ && _); [|reflexivity].
        cbn [dem_code]. rewrite K. rewrite andb_false_r. reflexivity. }
    destruct (get_u32 1 (get_sub 1 (get_sub 1 f)) =? dem_ctr_iv) eqn:I; cbn [andb].
    2:{ destruct (digest_size _); [|reflexivity]. unfold okq. destruct (_ && _); [|reflexivity].
        cbn [dem_code]. rewrite I. rewrite andb_false_r. reflexivity. }
    destruct (get_u32 1 (get_sub 1 (get_sub 2 f)) =? h_sha256) eqn:Hs.
    2:{ destruct (digest_size _); [|reflexivity]. unfold okq. destruct (_ && _); [|reflexivity].
        cbn [dem_code]. rewrite Hs. rewrite andb_false_r. reflexivity. }
    apply N.eqb_eq in K, I, Hs. rewrite K, I, Hs.
    change (digest_size h_sha256) with (Some 32). unfold okq.
    change (ctr_min_iv <=? dem_ctr_iv) with true. change (dem_ctr_iv <=? ctr_max_iv) with true.
    change (ctrhmac_min_hmac_key <=? dem_ctr_hmac_key) with true. rewrite !andb_true_r.
    set (a := get_u32 2 (get_sub 1 f)). set (tg := get_u32 2 (get_sub 1 (get_sub 2 f))).
    unfold dem_ctr128_aes, dem_ctr128_tag, dem_ctr256_aes, dem_ctr256_tag.
    destruct ((a =? 16) && (tg =? 16)) eqn:P1.
    { apply andb_true_iff in P1. destruct P1 as [A T]. apply N.eqb_eq in A, T. rewrite A, T. reflexivity. }
    destruct ((a =? 32) && (tg =? 32)) eqn:P2.
    { apply andb_true_iff in P2. destruct P2 as [A T]. apply N.eqb_eq in A, T. rewrite A, T. reflexivity. }
    destruct (aes_16_24_32 a && _ && _); [|reflexivity].
    cbn [dem_code]. change (pt_raw =? pt_raw) with true. rewrite !N.eqb_refl. cbn [andb].
    unfold dem_ctr128_aes, dem_ctr128_tag, dem_ctr256_aes, dem_ctr256_tag. rewrite P1, P2. reflexivity. }
  (* any other URL: the object, if any, is of another type *)
  destruct (parse_params (S (length v)) (mkT u v pt_raw)) as [p| |] eqn:E;
    cbn [parse_params t_url] in E; cbv zeta in E; rewrite U1, U2, U3, U4 in E; rewrite E; try reflexivity.
  assert (E' : parse_params (S (length v)) (mkT u v pt_raw) = Ok p).
  { cbn [parse_params t_url]. cbv zeta. rewrite U1, U2, U3, U4. exact E. }
  apply parse_params_tag in E'. cbn [t_url] in E'. unfold url_qtag in E'. rewrite U1, U2, U3, U4 in E'.
  apply dem_code_tag; rewrite E';
  repeat match goal with |- context [if ?c then _ else _] => destruct c end; discriminate.
Qed.

Lemma is_some_aead_variant p : is_some (aead_variant p) = known_prefix p.
Proof.
  unfold aead_variant, known_prefix.
  destruct (p =? pt_tink); [reflexivity|]. destruct (p =? pt_legacy), (p =? pt_crunchy), (p =? pt_raw); reflexivity.
Qed.

Section EciesAgree.
Variable L : stdlib.

(* parsePublicKey with the DEM template handed to its own parameters parser is
   parsePublicKey of model/Untrusted.v *)
Lemma ecies_pub_of_x_eq fs prefix idreq : ecies_pub_of_x L fs prefix idreq = ecies_pub_of L fs prefix idreq.
Proof.
  unfold ecies_pub_of_x, ecies_pub_of. cbv zeta.
  destruct (negb (get_u32 1 fs =? 0)); [reflexivity|].
  unfold ecies_params_of. set (ps := get_sub 2 fs). rewrite is_some_aead_variant.
  set (c1 := ecies_curve_ok _). set (c2 := is_some (digest_size _)). set (c4 := ecies_format_ok _).
  replace (match digest_size (get_u32 2 (get_sub 1 ps)) with Some _ => true | None => false end) with c2 by reflexivity.
  unfold aead_dem_ptr.
  destruct c1, c2, (known_prefix prefix) eqn:KP, c4, (has_sub 2 ps), (has_sub 2 (get_sub 2 ps)); cbn [andb negb is_some bind]; try reflexivity.
  rewrite set_prefix_raw_some. cbn [bind].
  pose proof (ecies_dem_agrees (get_sub 2 (get_sub 2 ps))) as A. cbv zeta in A.
  pose proof (parse_params_full_np (mkT (t_url (template_of (get_sub 2 (get_sub 2 ps)))) (t_value (template_of (get_sub 2 (get_sub 2 ps)))) pt_raw)) as NP.
  destruct (parse_params_full _) as [dp| |]; [| |congruence]; rewrite <- A; cbn [bind]; [|reflexivity].
  rewrite <- is_some_aead_variant in KP. destruct (aead_variant prefix) as [var|]; [|discriminate].
  destruct (dem_code dp) as [dem|].
  - destruct (_ && negb _); reflexivity.
  - destruct (_ && negb _); reflexivity.
Qed.

Lemma parse_ecies_pub_x_eq kd prefix idreq : parse_ecies_pub_x L kd prefix idreq = parse_ecies_pub L kd prefix idreq.
Proof. unfold parse_ecies_pub_x, parse_ecies_pub. rewrite ecies_pub_of_x_eq. reflexivity. Qed.

Lemma parse_ecies_priv_x_eq kd prefix idreq : parse_ecies_priv_x L kd prefix idreq = parse_ecies_priv L kd prefix idreq.
Proof. unfold parse_ecies_priv_x, parse_ecies_priv. rewrite ecies_pub_of_x_eq. reflexivity. Qed.

End EciesAgree.

(* ------------------------------------------------------------------ *)
(* D  the recursion over nested key data                               *)
(* ------------------------------------------------------------------ *)
Section Flat.
Variable L : stdlib.

(* ---- which parser model/Untrusted.v's ParseKey runs for a given type URL ---- *)
Ltac at_url H U :=
  unfold url_is in H; apply beq_eq in H;
  unfold Untrusted.parse_key, Untrusted.parse_key_base, parse_key_more, url_is; rewrite H; beq_consts U; cbv iota.

Lemma parse_key_at_deriver kd p i : url_is kd u_deriver = true ->
  parse_key L kd p i = okb (known_prefix p) (PFallback (kd_mat kd =? km_private)).
Proof. intros H. at_url H u_deriver. reflexivity. Qed.

Lemma parse_key_at_mldsa_priv kd p i : url_is kd u_mldsa_priv = true -> parse_key L kd p i = parse_mldsa_priv L kd p i.
Proof. intros H. at_url H u_mldsa_priv. reflexivity. Qed.

Lemma parse_key_at_mldsa_pub kd p i : url_is kd u_mldsa_pub = true -> parse_key L kd p i = parse_mldsa_pub kd p i.
Proof. intros H. at_url H u_mldsa_pub. reflexivity. Qed.

Lemma parse_key_at_ecies_pub kd p i : url_is kd u_ecies_pub = true -> parse_key L kd p i = parse_ecies_pub L kd p i.
Proof. intros H. at_url H u_ecies_pub. reflexivity. Qed.

Lemma parse_key_at_ecies_priv kd p i : url_is kd u_ecies_priv = true -> parse_key L kd p i = parse_ecies_priv L kd p i.
Proof. intros H. at_url H u_ecies_priv. reflexivity. Qed.

Lemma parse_key_at_hkdf_prf kd p i : url_is kd u_hkdf_prf = true ->
  parse_key L kd p i =
  (let v := kd_value kd in
   let fs := fields_or_nil v in
   if negb (p =? pt_raw) then Err else
   if negb (wire_ok sch_params2 v) then Err else
   let hash := get_u32 1 (get_sub 2 fs) in let kl := blen (get_len 3 fs) in
   okb ((get_u32 1 fs =? 0)
        && match digest_size hash with None => false | Some _ => true end
        && (hkdf_min_key_parse <=? kl))
       (PHkdfPrf hash kl)).
Proof. intros H. at_url H u_hkdf_prf. reflexivity. Qed.

Lemma parse_key_at_hmac_prf kd p i : url_is kd u_hmac_prf = true ->
  parse_key L kd p i =
  (let v := kd_value kd in
   let fs := fields_or_nil v in
   if negb (p =? pt_raw) then Err else
   if negb (wire_ok sch_params2 v) then Err else
   let hash := get_u32 1 (get_sub 2 fs) in let kl := blen (get_len 3 fs) in
   okb ((get_u32 1 fs =? 0)
        && match digest_size hash with None => false | Some _ => true end
        && (hmacprf_min_key_parse <=? kl))
       (PHmacPrf hash kl)).
Proof. intros H. at_url H u_hmac_prf. reflexivity. Qed.

Lemma parse_key_at_aes_cmac_prf kd p i : url_is kd u_aes_cmac_prf = true ->
  parse_key L kd p i =
  (let v := kd_value kd in
   let fs := fields_or_nil v in
   if negb (p =? pt_raw) then Err else
   if negb (wire_ok sch_scalar v) then Err else
   let kl := blen (get_len 2 fs) in
   okb ((get_u32 1 fs =? 0) && ((kl =? cmacprf_key_a) || (kl =? cmacprf_key_b))) (PAesCmacPrf kl)).
Proof. intros H. at_url H u_aes_cmac_prf. reflexivity. Qed.

Lemma parse_mldsa_priv_kind kd p i d : parse_mldsa_priv L kd p i = Ok d -> d = PMlDsaPriv.
Proof.
  unfold parse_mldsa_priv. cbv zeta.
  repeat match goal with |- (if ?c then _ else _) = Ok _ -> _ => destruct c; try discriminate end.
  intros H. inversion H. reflexivity.
Qed.

Lemma parse_mldsa_pub_kind kd p i d : parse_mldsa_pub kd p i = Ok d -> d = PMlDsaPub.
Proof.
  unfold parse_mldsa_pub. cbv zeta.
  repeat match goal with |- (if ?c then _ else _) = Ok _ -> _ => destruct c; try discriminate end.
  intros H. apply okb_ok in H. destruct H as [_ ->]. reflexivity.
Qed.

Ltac tag_cases :=
  unfold url_tag;
  repeat match goal with
  | |- context [if beq ?u ?w then _ else _] => let E := fresh "E" in destruct (beq u w) eqn:E
  end.

Lemma url_tag_mldsa_priv u : url_tag u = 35 -> beq u u_mldsa_priv = true.
Proof. tag_cases; intros H; try discriminate H; reflexivity. Qed.

Lemma url_tag_mldsa_pub u : url_tag u = 32 -> beq u u_mldsa_pub = true.
Proof. tag_cases; intros H; try discriminate H; reflexivity. Qed.

Lemma url_tag_classical_priv u : (url_tag u = 18 \/ url_tag u = 11 \/ url_tag u = 19) ->
  beq u u_ed25519_priv || beq u u_ecdsa_priv || beq u u_rsa_pss_priv || beq u u_rsa_pkcs1_priv = true.
Proof.
  tag_cases; intros [H|[H|H]]; try discriminate H; cbn [orb]; rewrite ?orb_true_r; reflexivity.
Qed.

Lemma url_tag_classical_pub u : (url_tag u = 17 \/ url_tag u = 10 \/ url_tag u = 13 \/ url_tag u = 12) ->
  beq u u_ed25519_pub || beq u u_ecdsa_pub || beq u u_rsa_pss_pub || beq u u_rsa_pkcs1_pub = true.
Proof.
  tag_cases; intros [H|[H|[H|H]]]; try discriminate H; cbn [orb]; rewrite ?orb_true_r; reflexivity.
Qed.

Lemma url_tag_7 u : url_tag u = 7 -> beq u u_hkdf_prf = true.
Proof. tag_cases; intros H; try discriminate H; reflexivity. Qed.
Lemma url_tag_8 u : url_tag u = 8 -> beq u u_hmac_prf = true.
Proof. tag_cases; intros H; try discriminate H; reflexivity. Qed.
Lemma url_tag_9 u : url_tag u = 9 -> beq u u_aes_cmac_prf = true.
Proof. tag_cases; intros H; try discriminate H; reflexivity. Qed.

(* what the parser of a PRF key establishes of the key object it returns *)
Lemma prf_key_facts nk p i prf : parse_key L nk p i = Ok prf -> prf_key_kind prf = true ->
  match prf with
  | PHkdfPrf hash kl | PHmacPrf hash kl => 16 <= kl /\ is_hash hash
  | PAesCmacPrf kl => kl = 16 \/ kl = 32
  | _ => False
  end.
Proof.
  intros P K. pose proof (parse_key_tag L _ _ _ _ P) as T. destruct prf; try discriminate K; cbn [ptag] in T; symmetry in T.
  - apply url_tag_7 in T. rewrite (parse_key_at_hkdf_prf _ _ _ T) in P. cbv zeta in P.
    destruct (negb (p =? pt_raw)); [discriminate|]. destruct (negb (wire_ok _ _)); [discriminate|].
    apply okb_ok in P. destruct P as [C E]. inversion E; subst. clear E.
    repeat rewrite andb_true_iff in C. destruct C as [[_ D] Kl].
    destruct (digest_size _) as [d|] eqn:DS; [|discriminate]. apply digest_size_spec in DS.
    unfold hkdf_min_key_parse in Kl. split; [lia|tauto].
  - apply url_tag_8 in T. rewrite (parse_key_at_hmac_prf _ _ _ T) in P. cbv zeta in P.
    destruct (negb (p =? pt_raw)); [discriminate|]. destruct (negb (wire_ok _ _)); [discriminate|].
    apply okb_ok in P. destruct P as [C E]. inversion E; subst. clear E.
    repeat rewrite andb_true_iff in C. destruct C as [[_ D] Kl].
    destruct (digest_size _) as [d|] eqn:DS; [|discriminate]. apply digest_size_spec in DS.
    unfold hmacprf_min_key_parse in Kl. split; [lia|tauto].
  - apply url_tag_9 in T. rewrite (parse_key_at_aes_cmac_prf _ _ _ T) in P. cbv zeta in P.
    destruct (negb (p =? pt_raw)); [discriminate|]. destruct (negb (wire_ok _ _)); [discriminate|].
    apply okb_ok in P. destruct P as [C E]. inversion E; subst. clear E.
    repeat rewrite andb_true_iff in C. destruct C as [_ Kl]. unfold cmacprf_key_a, cmacprf_key_b in Kl. lia.
Qed.

Lemma composite_of_classical_tag private alg cd d : composite_of_classical private alg cd = Ok d ->
  if private then (ptag cd = 18 \/ ptag cd = 11 \/ ptag cd = 19)
  else (ptag cd = 17 \/ ptag cd = 10 \/ ptag cd = 13 \/ ptag cd = 12).
Proof.
  unfold composite_of_classical. destruct cd; try discriminate; try (destruct pss);
  intros H; apply okb_ok in H; destruct H as [H _]; destruct private; cbn [negb andb] in H; try discriminate H;
  cbn [ptag]; auto.
Qed.

Lemma lift_bind {A} (o : outcome A) (f : A -> outcome pkd) : lift (bind o f) = bind o (fun a => lift (f a)).
Proof. destruct o; reflexivity. Qed.

Lemma lift_np o : o <> Panic -> lift o <> Panic.
Proof. unfold lift. destruct o; simpl; intros; try discriminate; auto. Qed.

(* ---- the deriver parser looks at the parsed PRF key only through this view ---- *)
Definition prf_view (o : outcome xkd) : outcome pkd :=
  bind o (fun k => match k with XBase d => if prf_key_kind d then Ok d else Err | XDeriver _ _ => Err end).

Lemma parse_deriver_view rec kd p i :
  parse_deriver rec kd p i =
  (let v := kd_value kd in
   let fs := fields_or_nil v in
   if negb (kd_mat kd =? km_symmetric) then Err else
   if negb (wire_ok sch_deriver_key v) then Err else
   if negb (get_u32 1 fs =? 0) then Err else
   let tm := template_of (get_sub 1 (get_sub 3 fs)) in
   if negb (t_prefix tm =? p) then Err else
   bind (parse_params_full tm) (fun dp =>
   bind (prf_view (rec (keydata_of (get_sub 2 fs)) pt_raw 0)) (fun d =>
   if negb (params_has_idreq dp) && negb (i =? 0) then Err else Ok (XDeriver d dp)))).
Proof.
  unfold parse_deriver. cbv zeta.
  destruct (negb (kd_mat kd =? km_symmetric)); [reflexivity|]. destruct (negb (wire_ok _ _)); [reflexivity|].
  destruct (negb (get_u32 1 _ =? 0)); [reflexivity|]. destruct (negb (_ =? p)); [reflexivity|].
  destruct (parse_params_full _) as [dp| |]; cbn [bind]; try reflexivity.
  unfold prf_view. destruct (rec _ pt_raw 0) as [[d|prf dq]| |]; cbn [bind]; try reflexivity.
  destruct (prf_key_kind d); reflexivity.
Qed.

Lemma parse_deriver_empty rec kd p i : kd_value kd = [] -> parse_deriver rec kd p i = Err.
Proof.
  intros E. unfold parse_deriver. rewrite E. cbv zeta.
  change (fields_or_nil []) with (@nil field). change (template_of (get_sub 1 (get_sub 3 []))) with (mkT [] [] 0).
  destruct (negb (kd_mat kd =? km_symmetric)); [reflexivity|]. cbn [negb].
  change (wire_ok sch_deriver_key []) with true. change (get_u32 1 [] =? 0) with true. cbn [negb t_prefix].
  destruct (negb (0 =? p)); reflexivity.
Qed.

(* a deriver parser whose nested parser does not panic returns an error or a deriver key *)
Lemma parse_deriver_shape rec kd p i :
  (forall nk, rec nk pt_raw 0 <> Panic) ->
  parse_deriver rec kd p i = Err \/ exists d dp, parse_deriver rec kd p i = Ok (XDeriver d dp).
Proof.
  intros Hrec. rewrite parse_deriver_view. cbv zeta.
  repeat match goal with |- (if ?c then _ else _) = Err \/ _ => destruct c; [left; reflexivity|] end.
  pose proof (parse_params_full_np (template_of (get_sub 1 (get_sub 3 (fields_or_nil (kd_value kd)))))) as NP.
  destruct (parse_params_full _) as [dp| |]; cbn [bind]; [|left; reflexivity|congruence].
  specialize (Hrec (keydata_of (get_sub 2 (fields_or_nil (kd_value kd))))).
  unfold prf_view. destruct (rec _ pt_raw 0) as [[d|prf dq]| |]; cbn [bind]; try (left; reflexivity); [|congruence].
  destruct (prf_key_kind d); cbn [bind]; [|left; reflexivity].
  destruct (_ && _); [left; reflexivity|right; eauto].
Qed.

Definition flat_rec (k : keydata) (p i : N) : outcome xkd := lift (parse_key L k p i).

Lemma flat_rec_np k p i : flat_rec k p i <> Panic.
Proof. apply lift_np, parse_key_np. Qed.

Lemma parse_key_flat_np kd p i : parse_key_flat L kd p i <> Panic.
Proof.
  unfold parse_key_flat. destruct (url_is kd u_deriver); [|apply flat_rec_np].
  destruct (parse_deriver_shape (fun k p i => lift (parse_key L k p i)) kd p i (fun nk => flat_rec_np nk pt_raw 0)) as [E|[d [dp E]]];
    rewrite E; discriminate.
Qed.

(* a deriver nested as the PRF key of a deriver is refused either way *)
Lemma prf_view_flat nk : prf_view (parse_key_flat L nk pt_raw 0) = prf_view (flat_rec nk pt_raw 0).
Proof.
  unfold parse_key_flat. destruct (url_is nk u_deriver) eqn:U; [|reflexivity].
  unfold flat_rec. rewrite (parse_key_at_deriver _ _ _ U). change (known_prefix pt_raw) with true. cbn [okb lift bind prf_view prf_key_kind].
  destruct (parse_deriver_shape (fun k p i => lift (parse_key L k p i)) nk pt_raw 0 (fun k => flat_rec_np k pt_raw 0)) as [E|[d [dp E]]];
    rewrite E; reflexivity.
Qed.

Lemma nested_shorter (v : bytes) k m : v <> [] ->
  (length (kd_value (keydata_of (get_sub m (fields_or_nil v)))) < length v)%nat /\
  (length (get_len k (get_sub m (fields_or_nil v))) < length v)%nat.
Proof.
  intros Hv. split; [cbn [kd_value keydata_of]|]; apply get_len_shorter; auto; apply small_get_sub, small_fields.
Qed.

Lemma parse_deriver_rec_eq rec kd p i :
  (forall nk, (length (kd_value nk) < length (kd_value kd))%nat -> rec nk pt_raw 0 = parse_key_flat L nk pt_raw 0) ->
  parse_deriver rec kd p i = parse_deriver (fun k p i => lift (parse_key L k p i)) kd p i.
Proof.
  intros H. destruct (kd_value kd) as [|x v] eqn:E; [rewrite !parse_deriver_empty; auto|].
  rewrite !parse_deriver_view. rewrite E. cbv zeta.
  rewrite (H (keydata_of (get_sub 2 (fields_or_nil (x :: v))))).
  2:{ apply (nested_shorter (x :: v) 1 2). discriminate. }
  rewrite prf_view_flat. reflexivity.
Qed.

(* ---- composite keys ---- *)
Lemma is_mldsa_spec private d : is_mldsa private (XBase d) = true -> d = if private then PMlDsaPriv else PMlDsaPub.
Proof. destruct private, d; cbn [is_mldsa negb]; intros H; try discriminate H; reflexivity. Qed.

(* the nested ML-DSA key: ParseKey on whatever the key data name, then the type assertion *)
Lemma mldsa_part private mkd (K : outcome xkd) :
  bind (parse_key_flat L mkd pt_raw 0) (fun mk => if negb (is_mldsa private mk) then Err else K)
  = bind (if private then (if url_is mkd u_mldsa_priv then parse_mldsa_priv L mkd pt_raw 0 else Err)
          else (if url_is mkd u_mldsa_pub then parse_mldsa_pub mkd pt_raw 0 else Err)) (fun _ => K).
Proof.
  unfold parse_key_flat. destruct (url_is mkd u_deriver) eqn:UD.
  { assert (U1 : url_is mkd u_mldsa_priv = false /\ url_is mkd u_mldsa_pub = false).
    { unfold url_is in *. apply beq_eq in UD. rewrite UD. split; reflexivity. }
    destruct U1 as [U1 U2]. rewrite U1, U2.
    destruct (parse_deriver_shape (fun k p i => lift (parse_key L k p i)) mkd pt_raw 0 (fun k => flat_rec_np k pt_raw 0)) as [E|[d [dp E]]];
      rewrite E; destruct private; reflexivity. }
  pose proof (parse_key_np L mkd pt_raw 0) as NP.
  destruct private.
  - destruct (url_is mkd u_mldsa_priv) eqn:U.
    + rewrite (parse_key_at_mldsa_priv _ _ _ U) in *.
      destruct (parse_mldsa_priv L mkd pt_raw 0) as [d| |] eqn:P; cbn [lift bind]; try reflexivity.
      apply parse_mldsa_priv_kind in P. subst d. reflexivity.
    + destruct (parse_key L mkd pt_raw 0) as [d| |] eqn:P; cbn [lift bind]; try reflexivity; [|congruence].
      destruct (is_mldsa true (XBase d)) eqn:I; cbn [negb]; [|reflexivity].
      apply is_mldsa_spec in I. subst d. apply parse_key_tag in P. cbn [ptag] in P. symmetry in P.
      apply url_tag_mldsa_priv in P. unfold url_is in U. congruence.
  - destruct (url_is mkd u_mldsa_pub) eqn:U.
    + rewrite (parse_key_at_mldsa_pub _ _ _ U) in *.
      destruct (parse_mldsa_pub mkd pt_raw 0) as [d| |] eqn:P; cbn [lift bind]; try reflexivity.
      apply parse_mldsa_pub_kind in P. subst d. reflexivity.
    + destruct (parse_key L mkd pt_raw 0) as [d| |] eqn:P; cbn [lift bind]; try reflexivity; [|congruence].
      destruct (is_mldsa false (XBase d)) eqn:I; cbn [negb]; [|reflexivity].
      apply is_mldsa_spec in I. subst d. apply parse_key_tag in P. cbn [ptag] in P. symmetry in P.
      apply url_tag_mldsa_pub in P. unfold url_is in U. congruence.
Qed.

Definition callowed (private : bool) (ckd : keydata) : bool :=
  let cpriv := url_is ckd u_ed25519_priv || url_is ckd u_ecdsa_priv || url_is ckd u_rsa_pss_priv || url_is ckd u_rsa_pkcs1_priv in
  if private then cpriv
  else cpriv || url_is ckd u_ed25519_pub || url_is ckd u_ecdsa_pub || url_is ckd u_rsa_pss_pub || url_is ckd u_rsa_pkcs1_pub.

Lemma callowed_not_nested private ckd : callowed private ckd = true ->
  url_is ckd u_deriver = false /\ url_is ckd u_composite_pub = false /\ url_is ckd u_composite_priv = false.
Proof.
  unfold callowed, url_is. cbv zeta. intros H.
  assert (X : forall w, beq w u_deriver = false -> beq w u_composite_pub = false -> beq w u_composite_priv = false ->
              beq (kd_url ckd) w = true ->
              beq (kd_url ckd) u_deriver = false /\ beq (kd_url ckd) u_composite_pub = false /\ beq (kd_url ckd) u_composite_priv = false).
  { intros w A B C E. apply beq_eq in E. rewrite E. auto. }
  destruct private; repeat rewrite orb_true_iff in H;
  repeat match goal with H : _ \/ _ |- _ => destruct H as [H|H] end;
  (eapply X; [| | |exact H]; reflexivity).
Qed.

(* the classical key: ParseKey on whatever the key data name, then the constructor's comparison *)
Lemma classical_part private alg ckd (mi : bool) :
  bind (parse_key_flat L ckd pt_raw 0) (fun ck =>
    match ck with
    | XBase cd => bind (composite_of_classical private alg cd) (fun d => if negb mi then Err else Ok (XBase d))
    | XDeriver _ _ => Err
    end)
  = lift (if negb (callowed private ckd) then Err
          else bind (parse_key_base L ckd pt_raw 0) (fun cd => if negb mi then Err else composite_of_classical private alg cd)).
Proof.
  destruct (callowed private ckd) eqn:CA; cbn [negb].
  - destruct (callowed_not_nested _ _ CA) as [U1 [U2 U3]].
    unfold parse_key_flat, Untrusted.parse_key. rewrite U1, U2, U3.
    destruct (parse_key_base L ckd pt_raw 0) as [cd| |]; cbn [lift bind]; try reflexivity.
    pose proof (composite_of_classical_np private alg cd) as NP.
    destruct mi; cbn [negb]; destruct (composite_of_classical private alg cd); cbn [bind]; try reflexivity; congruence.
  - unfold parse_key_flat. destruct (url_is ckd u_deriver) eqn:UD.
    { destruct (parse_deriver_shape (fun k p i => lift (parse_key L k p i)) ckd pt_raw 0 (fun k => flat_rec_np k pt_raw 0)) as [E|[d [dp E]]];
        rewrite E; reflexivity. }
    pose proof (parse_key_np L ckd pt_raw 0) as NP.
    destruct (parse_key L ckd pt_raw 0) as [cd| |] eqn:P; cbn [lift bind]; try reflexivity; [|congruence].
    pose proof (composite_of_classical_np private alg cd) as NC.
    destruct (composite_of_classical private alg cd) as [d| |] eqn:C; cbn [bind]; try reflexivity; [|congruence].
    exfalso. apply composite_of_classical_tag in C. apply parse_key_tag in P. rewrite P in C.
    unfold callowed in CA. cbv zeta in CA. unfold url_is in CA. destruct private.
    + apply url_tag_classical_priv in C. congruence.
    + destruct C as [C|[C|[C|C]]];
      (assert (C' : url_tag (kd_url ckd) = 17 \/ url_tag (kd_url ckd) = 10 \/ url_tag (kd_url ckd) = 13 \/ url_tag (kd_url ckd) = 12) by auto);
      apply url_tag_classical_pub in C'; repeat rewrite orb_true_iff in C'; repeat rewrite orb_false_iff in CA;
      destruct CA as [[[[_ A1] A2] A3] A4]; destruct C' as [[[C'|C']|C']|C']; congruence.
Qed.

Lemma has_sub_nonempty k (v : bytes) : has_sub k (fields_or_nil v) = true -> v <> [].
Proof. intros H E. subst v. discriminate H. Qed.

Lemma parse_composite_x_eq rec private kd p i :
  (forall nk, (length (kd_value nk) < length (kd_value kd))%nat -> rec nk pt_raw 0 = parse_key_flat L nk pt_raw 0) ->
  parse_composite_x rec private kd p i = lift (parse_composite L private kd p i).
Proof.
  intros H. unfold parse_composite_x, parse_composite. cbv zeta.
  destruct (negb (kd_mat kd =? _)); [reflexivity|]. destruct (negb (wire_ok _ _)); [reflexivity|].
  set (v := kd_value kd) in *. set (fs := fields_or_nil v).
  set (A := (get_u32 1 fs =? 0) && ((p =? pt_tink) || (p =? pt_raw)) && composite_supported (get_u32 1 (get_sub 4 fs)) (get_u32 2 (get_sub 4 fs))).
  destruct A; cbn [andb negb]; [|reflexivity].
  destruct (has_sub 2 fs) eqn:H2; cbn [andb negb]; [|reflexivity].
  assert (Hv : v <> []) by (eapply has_sub_nonempty; exact H2).
  rewrite (H (keydata_of (get_sub 2 fs))) by (apply (nested_shorter v 1 2 Hv)).
  destruct (has_sub 3 fs) eqn:H3; cbn [andb negb].
  - rewrite (H (keydata_of (get_sub 3 fs))) by (apply (nested_shorter v 1 3 Hv)).
    set (mkd := keydata_of (get_sub 2 fs)). set (ckd := keydata_of (get_sub 3 fs)).
    set (mi := (if private then _ else _) =? _).
    rewrite (mldsa_part private mkd). rewrite (classical_part private (get_u32 2 (get_sub 4 fs)) ckd mi).
    fold (callowed private ckd). symmetry. apply lift_bind.
  - rewrite (mldsa_part private (keydata_of (get_sub 2 fs)) Err).
    set (mkd := keydata_of (get_sub 2 fs)).
    assert (NP : (if private then (if url_is mkd u_mldsa_priv then parse_mldsa_priv L mkd pt_raw 0 else Err)
                  else (if url_is mkd u_mldsa_pub then parse_mldsa_pub mkd pt_raw 0 else Err)) <> Panic).
    { destruct private; [destruct (url_is mkd u_mldsa_priv); [apply parse_mldsa_priv_np|discriminate]
                        |destruct (url_is mkd u_mldsa_pub); [apply parse_mldsa_pub_np|discriminate]]. }
    destruct (if private then _ else _) as [d| |]; cbn [bind lift]; try reflexivity. congruence.
Qed.

(* ---- ParseKey with the detours = the flat answer ---- *)
Theorem parse_key_x_flat : forall fuel kd p i,
  (length (kd_value kd) < fuel)%nat -> parse_key_x L fuel kd p i = parse_key_flat L kd p i.
Proof.
  induction fuel as [|fl IH]; intros kd p i Hf; [lia|]. cbn [parse_key_x]. unfold parse_key_flat.
  assert (R : forall nk, (length (kd_value nk) < length (kd_value kd))%nat ->
              parse_key_x L fl nk pt_raw 0 = parse_key_flat L nk pt_raw 0).
  { intros nk Hn. apply IH. lia. }
  destruct (url_is kd u_deriver) eqn:UD; [apply parse_deriver_rec_eq; exact R|].
  unfold Untrusted.parse_key.
  destruct (url_is kd u_composite_pub) eqn:U1; [apply parse_composite_x_eq; exact R|].
  destruct (url_is kd u_composite_priv) eqn:U2; [apply parse_composite_x_eq; exact R|].
  destruct (url_is kd u_ecies_pub) eqn:U3.
  { rewrite parse_ecies_pub_x_eq. rewrite <- (parse_key_at_ecies_pub _ p i U3). unfold Untrusted.parse_key. rewrite U1, U2. reflexivity. }
  destruct (url_is kd u_ecies_priv) eqn:U4.
  { rewrite parse_ecies_priv_x_eq. rewrite <- (parse_key_at_ecies_priv _ p i U4). unfold Untrusted.parse_key. rewrite U1, U2. reflexivity. }
  reflexivity.
Qed.

Corollary parse_key_full_flat kd p i : parse_key_full L kd p i = parse_key_flat L kd p i.
Proof. unfold parse_key_full. apply parse_key_x_flat. lia. Qed.

(* ParseKey never panics: no key data, however nested, of whatever types *)
Theorem parse_key_full_np kd p i : parse_key_full L kd p i <> Panic.
Proof. rewrite parse_key_full_flat. apply parse_key_flat_np. Qed.

Theorem parse_key_x_np fuel kd p i : parse_key_x L fuel kd p i <> Panic.
Proof.
  (* below the adequate fuel the recursion stops with an error earlier; prove it directly *)
  revert kd p i. induction fuel as [|fl IH]; intros kd p i; cbn [parse_key_x]; [discriminate|].
  assert (S : forall rec, (forall k, rec k pt_raw 0 <> Panic) -> forall kd p i,
             parse_deriver rec kd p i <> Panic).
  { intros rec Hr k q j. destruct (parse_deriver_shape rec k q j Hr) as [E|[d [dp E]]]; rewrite E; discriminate. }
  destruct (url_is kd u_deriver); [apply S; intros k; apply IH|].
  assert (C : forall private, parse_composite_x (parse_key_x L fl) private kd p i <> Panic).
  { intros private. unfold parse_composite_x. cbv zeta.
    destruct (negb (kd_mat kd =? _)); [discriminate|]. destruct (negb (wire_ok _ _)); [discriminate|].
    destruct (negb (_ && _)); [discriminate|]. destruct (negb (has_sub 2 _)); [discriminate|].
    apply bind_np; [apply IH|]. intros mk _. destruct (negb (is_mldsa _ _)); [discriminate|].
    destruct (negb (has_sub 3 _)); [discriminate|]. apply bind_np; [apply IH|]. intros [cd|prf dp] _; [|discriminate].
    apply bind_np; [apply composite_of_classical_np|]. intros d _. destruct (negb _); discriminate. }
  destruct (url_is kd u_composite_pub); [apply C|]. destruct (url_is kd u_composite_priv); [apply C|].
  destruct (url_is kd u_ecies_pub); [apply lift_np; rewrite parse_ecies_pub_x_eq; apply parse_ecies_pub_np|].
  destruct (url_is kd u_ecies_priv); [apply lift_np; rewrite parse_ecies_priv_x_eq; apply parse_ecies_priv_np|].
  apply lift_np, parse_key_base_np.
Qed.

End Flat.

(* ------------------------------------------------------------------ *)
(* E  the readers over the key objects xkd                             *)
(* ------------------------------------------------------------------ *)
Section XHandle.
Variable L : stdlib.

(* what an accepted deriver key is made of *)
Theorem deriver_key_parts kd p i prf dp :
  parse_key_full L kd p i = Ok (XDeriver prf dp) ->
  let fs := fields_or_nil (kd_value kd) in
  let tm := template_of (get_sub 1 (get_sub 3 fs)) in
  url_is kd u_deriver = true /\ kd_mat kd = km_symmetric /\ get_u32 1 fs = 0
  /\ prf_key_kind prf = true /\ parse_key L (keydata_of (get_sub 2 fs)) pt_raw 0 = Ok prf
  /\ t_prefix tm = p /\ parse_params_full tm = Ok dp /\ pfacts tm dp
  /\ (params_has_idreq dp = false -> i = 0).
Proof.
  rewrite parse_key_full_flat. unfold parse_key_flat. cbv zeta.
  destruct (url_is kd u_deriver) eqn:U.
  2:{ unfold lift. destruct (parse_key L kd p i); cbn [bind]; discriminate. }
  rewrite parse_deriver_view. cbv zeta.
  destruct (negb (kd_mat kd =? km_symmetric)) eqn:M; [discriminate|]. apply negb_false_iff, N.eqb_eq in M.
  destruct (negb (wire_ok _ _)); [discriminate|].
  destruct (negb (get_u32 1 _ =? 0)) eqn:V; [discriminate|]. apply negb_false_iff, N.eqb_eq in V.
  destruct (negb (_ =? p)) eqn:P; [discriminate|]. apply negb_false_iff, N.eqb_eq in P.
  intros H. apply bind_ok in H. destruct H as [dp' [Hp H]]. apply bind_ok in H. destruct H as [d [Hd H]].
  destruct (negb (params_has_idreq dp') && negb (i =? 0)) eqn:I; [discriminate|]. inversion H; subst d dp'. clear H.
  unfold prf_view, lift in Hd. destruct (parse_key L _ pt_raw 0) as [d0| |] eqn:PK; cbn [bind] in Hd; try discriminate.
  destruct (prf_key_kind d0) eqn:K; [|discriminate]. inversion Hd; subst d0.
  split; [reflexivity|]. split; [exact M|]. split; [exact V|]. split; [exact K|]. split; [first [exact PK|reflexivity]|].
  split; [exact P|]. split; [exact Hp|]. split; [apply (parse_params_facts _ _ _ Hp)|].
  intros Hi. rewrite Hi in I. cbn [negb andb] in I. apply negb_false_iff, N.eqb_eq in I. exact I.
Qed.

(* ---- never Panic ---- *)
Theorem parse_then_prim_x_np kd p i k : parse_key_full L kd p i = Ok k -> prim_ok_x L k <> Panic.
Proof.
  destruct k as [d|prf dp]; intros H.
  - rewrite parse_key_full_flat in H. unfold parse_key_flat in H. destruct (url_is kd u_deriver).
    + destruct (parse_deriver_shape (fun k p i => lift (parse_key L k p i)) kd p i (fun nk => flat_rec_np L nk pt_raw 0)) as [E|[d' [dp E]]];
        rewrite E in H; discriminate.
    + unfold lift in H. destruct (parse_key L kd p i) as [d'| |] eqn:P; cbn [bind] in H; try discriminate.
      inversion H; subst d'. cbn [prim_ok_x]. eapply parse_then_prim_np; eauto.
  - cbn [prim_ok_x]. destruct prf; discriminate.
Qed.

Lemma xto_entry_np primary k : xto_entry L primary k <> Panic.
Proof.
  unfold xto_entry. destruct (k_data k); [|discriminate].
  apply bind_np; [apply parse_key_full_np|]. intros d _. destruct (negb _); discriminate.
Qed.

Lemma xto_entries_np primary keys : xto_entries L primary keys <> Panic.
Proof.
  induction keys as [|[k|] t IH]; simpl; try discriminate.
  apply bind_np; [apply xto_entry_np|]. intros e _. apply bind_np; [exact IH|]. intros es _. discriminate.
Qed.

Lemma xnew_from_entries_np es : xnew_from_entries es <> Panic.
Proof. unfold xnew_from_entries. destruct (existsb _ es); [discriminate|]. destruct (existsb xprim es); discriminate. Qed.

Theorem xhandle_from_proto_np ks : xhandle_from_proto L ks <> Panic.
Proof.
  unfold xhandle_from_proto. destruct (validate ks); [|discriminate]. destruct ks; [|discriminate].
  apply bind_np; [apply xto_entries_np|]. intros es _. apply xnew_from_entries_np.
Qed.

Theorem xread_np b : xread L b <> Panic.
Proof. unfold xread. destruct (decode_keyset b); [|discriminate]. destruct (ks_keys k); [discriminate|apply xhandle_from_proto_np]. Qed.

Theorem xread_proto_np ks : xread_proto L ks <> Panic.
Proof. unfold xread_proto. destruct ks as [k|]; [|discriminate]. destruct (ks_keys k); [discriminate|apply xhandle_from_proto_np]. Qed.

Theorem xhandle_no_secrets_np ks : xhandle_no_secrets L ks <> Panic.
Proof.
  unfold xhandle_no_secrets. destruct ks as [k|]; [|discriminate]. destruct (has_secrets k); [discriminate|].
  apply bind_np; [apply xhandle_from_proto_np|]. intros h _. destruct (xhandle_has_secrets h); discriminate.
Qed.

Theorem xread_no_secrets_np b : xread_no_secrets L b <> Panic.
Proof. unfold xread_no_secrets. destruct (decode_keyset b); [apply xhandle_no_secrets_np|discriminate]. Qed.

Theorem xread_encrypted_np kek b ad : xread_encrypted L kek b ad <> Panic.
Proof.
  unfold xread_encrypted. destruct (decode_encrypted b); [|discriminate]. destruct (kek b0 ad); [|discriminate].
  destruct (decode_keyset b1); [apply xhandle_from_proto_np|discriminate].
Qed.

(* ---- accepted keysets give well-formed handles ---- *)
(* the entry of model/Untrusted.v with the same metadata (the key object plays no role in wf_handle) *)
Definition to_base (e : xentry) : entry :=
  mkE (xid e) (xstatus e) (xprim e) (xreq e) (xprefix e) (xurl e) (xvalue e) (xmat e) (PFallback false) false.

Lemma xto_entry_shape primary k e : xto_entry L primary k = Ok e ->
  entry_of primary (Some k) (to_base e) /\ deriver_wf e.
Proof.
  unfold xto_entry. destruct (k_data k) as [kd|]; [|discriminate].
  intros H. apply bind_ok in H. destruct H as [d [Hd H]].
  destruct (negb _); [discriminate|]. inversion H; subst. clear H. split.
  - exists k. cbn. unfold pt_raw. repeat split; reflexivity.
  - unfold deriver_wf. cbn [xkey xprefix xmat]. destruct d as [d|prf dp]; [exact I|].
    apply deriver_key_parts in Hd. cbv zeta in Hd.
    destruct Hd as [_ [M [_ [K [PK [P [_ [[W [I1 [P1 _]]] _]]]]]]]].
    rewrite P in I1, P1. split; [exact (prf_key_facts L _ _ _ _ PK K)|].
    split; [exact W|]. split; [exact I1|]. split; [exact P1|exact M].
Qed.

Lemma xto_entries_shape primary keys es : xto_entries L primary keys = Ok es ->
  Forall2 (entry_of primary) keys (map to_base es) /\ Forall deriver_wf es.
Proof.
  revert es. induction keys as [|[k|] t IH]; simpl; intros es H.
  - inversion H. split; constructor.
  - apply bind_ok in H. destruct H as [e [He H]]. apply bind_ok in H. destruct H as [es' [Hes H]].
    inversion H; subst. destruct (xto_entry_shape _ _ _ He) as [A B]. destruct (IH _ Hes) as [C D].
    split; constructor; auto.
  - discriminate.
Qed.

Lemma count_prim_to_base h : count_prim (map to_base h) = xcount_prim h.
Proof.
  unfold count_prim, xcount_prim. induction h as [|e t IH]; [reflexivity|]. cbn [map filter].
  change (eprim (to_base e)) with (xprim e). destruct (xprim e); cbn [length]; rewrite IH; reflexivity.
Qed.

Lemma wf_of_base h : wf_handle (map to_base h) -> Forall deriver_wf h -> wf_xhandle h.
Proof.
  intros [A [B [C [D [E [F G]]]]]] W. unfold wf_xhandle. repeat split.
  - intros ->. apply A. reflexivity.
  - rewrite map_map in B. exact B.
  - rewrite <- count_prim_to_base. exact C.
  - intros e Hin. apply (D (to_base e)). apply in_map. exact Hin.
  - intros e Hin. apply (E (to_base e)). apply in_map. exact Hin.
  - intros e Hin. apply (F (to_base e)). apply in_map. exact Hin.
  - intros e Hin. apply (G (to_base e)). apply in_map. exact Hin.
  - intros e Hin. rewrite Forall_forall in W. apply W. exact Hin.
Qed.

Definition xaccepted_as (ks : keyset) (h : xhandle) : Prop :=
  wf_keyset ks /\ wf_xhandle h /\ Forall2 (entry_of (ks_primary ks)) (ks_keys ks) (map to_base h).

Theorem xhandle_from_proto_wf ks h :
  xhandle_from_proto L ks = Ok h -> exists k, ks = Some k /\ xaccepted_as k h.
Proof.
  unfold xhandle_from_proto. destruct (validate ks) eqn:V; [|discriminate].
  destruct ks as [k|]; [|discriminate]. intros H. apply bind_ok in H. destruct H as [es [Hes H]].
  apply validate_sound in V. apply xto_entries_shape in Hes. destruct Hes as [Hes Hw].
  unfold xnew_from_entries in H. destruct (existsb _ es); [discriminate|].
  destruct (existsb xprim es); [|discriminate]. inversion H; subst h. clear H.
  exists k. split; [reflexivity|]. split; [exact V|]. split; [|exact Hes].
  apply wf_of_base; [|exact Hw].
  destruct V as [Hne [Hk [Hnd [pk [P1 [P2 P3]]]]]]. unfold ids in Hnd.
  unfold wf_handle. repeat split.
  - intros E. rewrite E in Hes. inversion Hes as [E'|]. congruence.
  - rewrite (forall2_ids _ _ _ Hes). exact Hnd.
  - eapply count_prim_one; eauto.
  - intros e Hin Hp. destruct (forall2_in _ _ _ _ Hes Hin) as [k' [Hk' [pk' [-> [A [B [C _]]]]]]].
    rewrite Hp in C. symmetry in C. apply N.eqb_eq in C.
    assert (pk' = pk) by (eapply primary_unique; eauto; congruence). subst. congruence.
  - intros e Hin. destruct (forall2_in _ _ _ _ Hes Hin) as [k' [Hk' [pk' [-> [A [B _]]]]]].
    rewrite Forall_forall in Hk. destruct (Hk _ Hk') as [pk'' [kd [E [_ [_ S]]]]]. inversion E; subst. rewrite B. exact S.
  - intros e Hin. destruct (forall2_in _ _ _ _ Hes Hin) as [k' [Hk' [pk' [-> [A [B [C [D _]]]]]]]].
    rewrite Forall_forall in Hk. destruct (Hk _ Hk') as [pk'' [kd [E [_ [S _]]]]]. inversion E; subst. rewrite D. exact S.
  - intros e Hin. destruct (forall2_in _ _ _ _ Hes Hin) as [k' [Hk' [pk' [-> [A [B [C [D R]]]]]]]].
    rewrite R, D, A. reflexivity.
Qed.

Theorem xread_wf b h : xread L b = Ok h -> exists ks, decode_keyset b = Some ks /\ xaccepted_as ks h.
Proof.
  unfold xread. destruct (decode_keyset b) as [ks|]; [|discriminate].
  destruct (ks_keys ks) eqn:E; [discriminate|]. intros H.
  apply xhandle_from_proto_wf in H. destruct H as [k [Hk H]]. inversion Hk; subst. exists k. auto.
Qed.

Theorem xread_proto_wf ks h : xread_proto L ks = Ok h -> exists k, ks = Some k /\ xaccepted_as k h.
Proof.
  unfold xread_proto. destruct ks as [k|]; [|discriminate]. destruct (ks_keys k); [discriminate|].
  apply xhandle_from_proto_wf.
Qed.

Theorem xhandle_no_secrets_wf ks h : xhandle_no_secrets L ks = Ok h ->
  exists k, ks = Some k /\ has_secrets k = false /\ xaccepted_as k h /\ xhandle_has_secrets h = false.
Proof.
  unfold xhandle_no_secrets. destruct ks as [k|]; [|discriminate]. destruct (has_secrets k) eqn:S; [discriminate|].
  intros H. apply bind_ok in H. destruct H as [h0 [H H2]]. destruct (xhandle_has_secrets h0) eqn:S2; [discriminate|].
  inversion H2; subst h0. apply xhandle_from_proto_wf in H. destruct H as [k' [E H]]. inversion E; subst. exists k'. auto.
Qed.

Theorem xread_no_secrets_wf b h : xread_no_secrets L b = Ok h ->
  exists k, decode_keyset b = Some k /\ has_secrets k = false /\ xaccepted_as k h /\ xhandle_has_secrets h = false.
Proof.
  unfold xread_no_secrets. destruct (decode_keyset b) as [k|]; [|discriminate]. intros H.
  apply xhandle_no_secrets_wf in H. destruct H as [k' [E H]]. inversion E; subst. exists k'. auto.
Qed.

Theorem xread_encrypted_wf kek b ad h : xread_encrypted L kek b ad = Ok h ->
  exists ct pt k, decode_encrypted b = Some ct /\ kek ct ad = Some pt /\ decode_keyset pt = Some k /\ xaccepted_as k h.
Proof.
  unfold xread_encrypted. destruct (decode_encrypted b) as [ct|]; [|discriminate].
  destruct (kek ct ad) as [pt|] eqn:D; [|discriminate]. destruct (decode_keyset pt) as [k|] eqn:K; [|discriminate].
  intros H. apply xhandle_from_proto_wf in H. destruct H as [k' [E H]]. inversion E; subst. exists ct, pt, k'. auto.
Qed.

(* a deriver key is secret material: the no-secrets readers never hand one out *)
Theorem no_secrets_no_deriver h e prf dp : xhandle_has_secrets h = false -> In e h -> xkey e <> XDeriver prf dp.
Proof.
  unfold xhandle_has_secrets. intros H Hin E.
  assert (X : existsb (fun e => secret_material (xout_material e)) h = true).
  { apply existsb_exists. exists e. split; [exact Hin|]. unfold xout_material. rewrite E. reflexivity. }
  congruence.
Qed.

(* ---- malformed keysets are rejected by every x-reader ---- *)
Theorem xmalformed_rejected_everywhere ks : ~ wf_keyset ks ->
  xread_proto L (Some ks) = Err
  /\ xhandle_no_secrets L (Some ks) = Err
  /\ (forall b, decode_keyset b = Some ks -> xread L b = Err /\ xread_no_secrets L b = Err)
  /\ (forall kek b ad ct pt, decode_encrypted b = Some ct -> kek ct ad = Some pt -> decode_keyset pt = Some ks ->
        xread_encrypted L kek b ad = Err).
Proof.
  intros H.
  assert (M : xhandle_from_proto L (Some ks) = Err).
  { unfold xhandle_from_proto. destruct (validate (Some ks)) eqn:V; [|reflexivity].
    exfalso. apply H. apply validate_sound. exact V. }
  assert (A : xread_proto L (Some ks) = Err).
  { unfold xread_proto. destruct (ks_keys ks); [reflexivity|exact M]. }
  assert (B : xhandle_no_secrets L (Some ks) = Err).
  { unfold xhandle_no_secrets. destruct (has_secrets ks); [reflexivity|rewrite M; reflexivity]. }
  split; [exact A|]. split; [exact B|]. split.
  - intros b D. unfold xread, xread_no_secrets. rewrite D. split; [|exact B].
    destruct (ks_keys ks); [reflexivity|exact M].
  - intros kek b ad ct pt D1 D2 D3. unfold xread_encrypted. rewrite D1, D2, D3. exact M.
Qed.

(* ---- exact acceptance ---- *)
Definition xkey_parses (k : option pkey) : Prop :=
  exists pk kd d, k = Some pk /\ k_data pk = Some kd
    /\ parse_key_full L kd (k_prefix pk) (if k_prefix pk =? pt_raw then 0 else k_id pk) = Ok d.

Lemma xto_entries_ok_iff primary keys :
  Forall key_known keys ->
  ((exists es, xto_entries L primary keys = Ok es) <-> Forall xkey_parses keys).
Proof.
  induction keys as [|k t IH]; intros K.
  - split; [constructor|]. intros _. exists []. reflexivity.
  - inversion K as [|? ? Kk Kt]; subst. destruct Kk as [pk [kd [-> [D [_ S]]]]].
    apply known_status_spec in S. specialize (IH Kt). cbn [xto_entries]. split.
    + intros [es H]. apply bind_ok in H. destruct H as [e [He H]]. apply bind_ok in H. destruct H as [es' [Hes _]].
      constructor; [|apply IH; eauto].
      unfold xto_entry in He. rewrite D in He. apply bind_ok in He. destruct He as [d [Hd _]].
      exists pk, kd, d. auto.
    + intros H. inversion H as [|? ? [pk' [kd' [d [E [D' P]]]]] Ht]; subst. inversion E; subst pk'.
      rewrite D in D'. inversion D'; subst kd'.
      apply IH in Ht. destruct Ht as [es Hes].
      unfold xto_entry. rewrite D, P. cbn [bind]. rewrite S. cbn [negb bind]. rewrite Hes. cbn [bind].
      eexists. reflexivity.
Qed.

Lemma existsb_map {A B} (f : B -> bool) (g : A -> B) l : existsb f (map g l) = existsb (fun x => f (g x)) l.
Proof. induction l as [|a t IH]; [reflexivity|]. cbn [map existsb]. rewrite IH. reflexivity. Qed.

Theorem xhandle_from_proto_ok_iff ks :
  (exists h, xhandle_from_proto L (Some ks) = Ok h) <-> (wf_keyset ks /\ Forall xkey_parses (ks_keys ks)).
Proof.
  split.
  - intros [h H]. pose proof (xhandle_from_proto_wf _ _ H) as [k [E [W _]]]. inversion E; subst k.
    split; [exact W|]. unfold xhandle_from_proto in H. destruct (validate (Some ks)); [|discriminate].
    apply bind_ok in H. destruct H as [es [Hes _]]. destruct W as [_ [K _]].
    apply (xto_entries_ok_iff (ks_primary ks) _ K). eauto.
  - intros [W P]. pose proof W as [Hne [K [Hnd [pk [P1 [P2 P3]]]]]].
    unfold xhandle_from_proto. rewrite (validate_complete ks W).
    apply (xto_entries_ok_iff (ks_primary ks) _ K) in P. destruct P as [es Hes]. rewrite Hes. cbn [bind].
    pose proof (xto_entries_shape _ _ _ Hes) as [F _].
    unfold xnew_from_entries.
    assert (S : existsb (fun e => negb (known_status (xstatus e))) es = false).
    { destruct (existsb _ es) eqn:X; [|reflexivity]. exfalso. apply existsb_exists in X. destruct X as [e [Hin He]].
      destruct (forall2_in _ _ _ _ F (in_map to_base _ _ Hin)) as [k' [Hk' [pk' [-> [_ [B _]]]]]].
      rewrite Forall_forall in K. destruct (K _ Hk') as [pk'' [kd [E [_ [_ S]]]]]. inversion E; subst.
      apply known_status_spec in S. cbn [estatus to_base] in B. rewrite B, S in He. discriminate. }
    rewrite S.
    assert (Q : existsb xprim es = true).
    { pose proof (existsb_eprim_of_primary _ _ _ _ F P1 P2) as Q. rewrite existsb_map in Q. exact Q. }
    rewrite Q. eauto.
Qed.

Theorem xread_ok_iff b :
  (exists h, xread L b = Ok h) <->
  (exists ks, decode_keyset b = Some ks /\ wf_keyset ks /\ Forall xkey_parses (ks_keys ks)).
Proof.
  unfold xread. split.
  - intros [h H]. destruct (decode_keyset b) as [ks|]; [|discriminate]. exists ks. split; [reflexivity|].
    destruct (ks_keys ks) eqn:E; [discriminate|]. rewrite <- E. apply xhandle_from_proto_ok_iff. eauto.
  - intros [ks [D [W P]]]. rewrite D. destruct (ks_keys ks) eqn:E.
    + destruct W as [Hne _]. congruence.
    + rewrite <- E in P. apply xhandle_from_proto_ok_iff. auto.
Qed.

(* ---- conservative over model/Untrusted.v: without deriver keys the x-readers
   ARE the readers of that model (so every theorem about them carries over) ---- *)
Definition embed_handle (o : outcome handle) : outcome xhandle := bind o (fun h => Ok (map embed_entry h)).

Lemma xto_entry_embed primary k :
  match k_data k with Some kd => url_is kd u_deriver = false | None => True end ->
  xto_entry L primary k = bind (to_entry L primary k) (fun e => Ok (embed_entry e)).
Proof.
  unfold xto_entry, to_entry. destruct (k_data k) as [kd|]; [|reflexivity]. intros U.
  rewrite parse_key_full_flat. unfold parse_key_flat. rewrite U. unfold lift.
  destruct (parse_key L kd _ _) as [d| |]; cbn [bind]; try reflexivity.
  destruct (negb _); reflexivity.
Qed.

Lemma xto_entries_embed primary keys :
  forallb (fun k => match k with
                    | Some k => match k_data k with Some kd => negb (url_is kd u_deriver) | None => true end
                    | None => true end) keys = true ->
  xto_entries L primary keys = bind (to_entries L primary keys) (fun es => Ok (map embed_entry es)).
Proof.
  induction keys as [|[k|] t IH]; cbn [forallb xto_entries to_entries]; intros H; try reflexivity.
  apply andb_true_iff in H. destruct H as [H1 H2]. rewrite (IH H2). rewrite xto_entry_embed.
  2:{ destruct (k_data k); [apply negb_true_iff; exact H1|exact I]. }
  destruct (to_entry L primary k) as [e| |]; cbn [bind]; try reflexivity.
  destruct (to_entries L primary t) as [es| |]; reflexivity.
Qed.

Lemma any_deriver_forallb ks : any_deriver ks = false ->
  forallb (fun k => match k with
                    | Some k => match k_data k with Some kd => negb (url_is kd u_deriver) | None => true end
                    | None => true end) (ks_keys ks) = true.
Proof.
  unfold any_deriver. induction (ks_keys ks) as [|k t IH]; [reflexivity|]. cbn [existsb forallb]. intros H.
  apply orb_false_iff in H. destruct H as [H1 H2]. rewrite (IH H2), andb_true_r.
  destruct k as [k|]; [|reflexivity]. destruct (k_data k); [rewrite H1|]; reflexivity.
Qed.

Theorem xhandle_conservative ks : any_deriver ks = false ->
  xhandle_from_proto L (Some ks) = embed_handle (handle_from_proto L (Some ks)).
Proof.
  intros H. unfold xhandle_from_proto, handle_from_proto, embed_handle. destruct (validate (Some ks)); [|reflexivity].
  rewrite (xto_entries_embed _ _ (any_deriver_forallb _ H)).
  destruct (to_entries L (ks_primary ks) (ks_keys ks)) as [es| |]; cbn [bind]; try reflexivity.
  unfold xnew_from_entries, new_from_entries. rewrite !existsb_map. cbn [xstatus xprim embed_entry].
  destruct (existsb _ es); [reflexivity|]. destruct (existsb (fun x => eprim x) es) eqn:E.
  - replace (existsb eprim es) with true by (symmetry; exact E). reflexivity.
  - replace (existsb eprim es) with false by (symmetry; exact E). reflexivity.
Qed.

Corollary xread_conservative b ks : decode_keyset b = Some ks -> any_deriver ks = false ->
  xread L b = embed_handle (read L b).
Proof.
  intros D H. unfold xread, read. rewrite D. destruct (ks_keys ks) eqn:E; [reflexivity|].
  apply xhandle_conservative. exact H.
Qed.

(* ---- minimum strengths ---- *)
Lemma usable_x_base kd p i : url_is kd u_deriver = false -> usable_x L kd p i = usable L kd p i.
Proof.
  intros U. unfold usable_x, usable. rewrite parse_key_full_flat. unfold parse_key_flat. rewrite U. unfold lift.
  destruct (parse_key L kd p i); reflexivity.
Qed.

Theorem usable_x_strength kd p i : usable_x L kd p i = true -> url_is kd u_deriver = false -> strength_ok kd.
Proof. intros H U. rewrite (usable_x_base _ _ _ U) in H. eapply usable_strength; eauto. Qed.

Lemma url_tag_hkdf u : url_tag u = 7 -> beq u u_hkdf_prf = true.
Proof.
  unfold url_tag;
  repeat match goal with
  | |- context [if beq ?u ?w then _ else _] => let E := fresh "E" in destruct (beq u w) eqn:E
  end; intros H; try discriminate H; reflexivity.
Qed.

(* a deriver key from which a primitive is created nests a usable - hence strong
   (>= 32 bytes, SHA256 or SHA512) - HKDF PRF key *)
Theorem usable_x_deriver kd p i : usable_x L kd p i = true -> url_is kd u_deriver = true ->
  let nk := keydata_of (get_sub 2 (fields_or_nil (kd_value kd))) in
  is_url nk url_hkdf_prf /\ usable L nk pt_raw 0 = true /\ strength_ok nk
  /\ 32 <= blen (get_len 3 (fields_or_nil (kd_value nk))).
Proof.
  intros H U. cbv zeta. unfold usable_x in H.
  destruct (parse_key_full L kd p i) as [[d|prf dp]| |] eqn:P; try discriminate.
  { rewrite parse_key_full_flat in P. unfold parse_key_flat in P. rewrite U in P.
    destruct (parse_deriver_shape (fun k p i => lift (parse_key L k p i)) kd p i (fun nk => flat_rec_np L nk pt_raw 0)) as [E|[d' [dp E]]];
      rewrite E in P; discriminate. }
  apply deriver_key_parts in P. cbv zeta in P. destruct P as [_ [_ [_ [_ [PK _]]]]].
  cbn [prim_ok_x] in H. destruct prf; try discriminate H.
  set (nk := keydata_of (get_sub 2 (fields_or_nil (kd_value kd)))) in *.
  assert (Un : is_url nk url_hkdf_prf).
  { pose proof (parse_key_tag L _ _ _ _ PK) as T. cbn [ptag] in T. symmetry in T. apply url_tag_hkdf in T.
    apply beq_eq in T. exact T. }
  assert (Us : usable L nk pt_raw 0 = true).
  { unfold usable. rewrite PK. cbn [prim_ok]. unfold deriver_min_prf_key in H. unfold hkdf_min_key_prim. exact H. }
  pose proof (usable_strength L _ _ _ Us) as S.
  split; [exact Un|]. split; [exact Us|]. split; [exact S|].
  unfold strength_ok in S. cbv zeta in S. destruct S as [_ [_ [_ [_ [_ [_ [_ [S _]]]]]]]]. apply S. exact Un.
Qed.

End XHandle.
