(* C20 (stretch) — proofs about model/RandLink.v: the tape windows of
   model/Rand.v are the IVs of the C01 ciphertexts, the ephemeral secrets of
   the hybrid encapsulations, the rnd / addrnd of the randomized signatures;
   the key-id draw is a bijection between unused ids and accepted windows. *)
From Coq Require Import List NArith Bool Arith Lia ZifyBool ZifyNat ZifyN.
From Tink Require Import Bytes Manager ManagerProofs Rand RandProofs AeadFrame Ctr EtM GcmSiv Xaes Mldsa RandLink.
From Tink Require SlhdsaBase Slhdsa.
Import ListNotations.
Open Scope N_scope.

Local Arguments firstn : simpl never.
Local Arguments skipn : simpl never.

(* ---- list helpers -------------------------------------------------------- *)

Lemma skipn_app_exact (a b : bytes) : skipn (length a) (a ++ b) = b.
Proof. rewrite skipn_app, skipn_all, Nat.sub_diag. reflexivity. Qed.

Lemma firstn_app_exact (a b : bytes) : firstn (length a) (a ++ b) = a.
Proof. rewrite firstn_app, firstn_all, Nat.sub_diag. simpl. apply app_nil_r. Qed.

Lemma firstn_app_len (n : nat) (a b : bytes) : length a = n -> firstn n (a ++ b) = a.
Proof. intros <-. apply firstn_app_exact. Qed.

(* ---- (a) the C01 ciphertext carries the drawn IV where the wire format says ---- *)

Ltac split_binds H :=
  repeat match type of H with
         | bind ?x _ = Ok _ => let E := fresh "E" in destruct x eqn:E; simpl in H; try discriminate H
         | (if ?c then _ else _) = Ok _ => let E := fresh "C" in destruct c eqn:E; try discriminate H
         end.

Section AeadLink.
Variable A : aead_prims.

Lemma na_enc_shape seal seal_max tink_max prefix key iv p ad ct :
  na_enc seal seal_max tink_max prefix key iv p ad = Ok ct ->
  ct = prefix ++ iv ++ seal key iv ad p.
Proof.
  unfold na_enc, seal_o. intros H.
  destruct (tink_max <? lenN p); [discriminate|].
  destruct (seal_max <? lenN p); simpl in H; [discriminate|].
  inversion H. reflexivity.
Qed.

Lemma siv_enc_shape aes prefix key iv p ad ct :
  siv_enc aes prefix key iv p ad = Ok ct -> exists body, ct = prefix ++ iv ++ body.
Proof.
  unfold siv_enc. intros H.
  destruct (siv_raw_enc aes key iv p ad) as [r| |] eqn:R; simpl in H; try discriminate.
  inversion H; subst ct. clear H.
  unfold siv_raw_enc in R.
  destruct (MaxInt32 - 12 - 16 <? lenN p); [discriminate|].
  destruct (MaxInt32 <? lenN ad); [discriminate|].
  destruct (derive_keys aes key iv) as [ks| |]; simpl in R; try discriminate.
  destruct (compute_polyval (fst ks) p ad) as [pv| |]; simpl in R; try discriminate.
  destruct (compute_tag aes pv iv (snd ks)) as [tag| |]; simpl in R; try discriminate.
  destruct (siv_ctr aes (snd ks) tag p) as [c| |]; simpl in R; try discriminate.
  inversion R. eexists. reflexivity.
Qed.

Lemma etm_enc_shape aes hmac prefix e iv p ad ct :
  etm_enc aes hmac prefix e iv p ad = Ok ct -> exists body, ct = prefix ++ iv ++ body.
Proof.
  unfold etm_enc, ctr_encrypt. intros H.
  destruct (MaxInt - N.of_nat (ek_iv e) <? lenN p); simpl in H; [discriminate|].
  destruct (compute_mac hmac e ad (iv ++ aes_ctr (aes (ek_aes e)) iv p)) as [tag| |]; simpl in H; try discriminate.
  destruct (negb (Nat.eqb (length tag) (ek_tag e))); [discriminate|].
  inversion H. rewrite <- app_assoc. eexists. reflexivity.
Qed.

Lemma xaes_enc_shape aes gcm_seal salt prefix key saltiv p ad ct :
  xaes_enc aes gcm_seal salt prefix key saltiv p ad = Ok ct ->
  exists pmk, derive_per_message_key aes key (firstn salt saltiv) = Ok pmk /\
    ct = prefix ++ saltiv ++ gcm_seal pmk (skipn salt saltiv) ad p.
Proof.
  unfold xaes_enc. intros H.
  destruct (MaxInt - (12 + 16 + N.of_nat salt + lenN prefix) <? lenN p); [discriminate|].
  unfold slice in H.
  destruct (Nat.leb 0 salt && Nat.leb salt (length saltiv))%bool eqn:C1; simpl in H; [|discriminate].
  destruct (Nat.leb salt (length saltiv) && Nat.leb (length saltiv) (length saltiv))%bool eqn:C2; simpl in H; [|discriminate].
  rewrite Nat.sub_0_r in H. unfold skipn at 1 in H.
  destruct (derive_per_message_key aes key (firstn salt saltiv)) as [pmk| |] eqn:D; simpl in H; try discriminate.
  unfold seal_o in H. destruct (gcm_seal_max <? lenN p); simpl in H; [discriminate|].
  inversion H. exists pmk. split; [reflexivity|].
  rewrite firstn_all2 by (rewrite skipn_length; lia). reflexivity.
Qed.

(* Every C01 ciphertext produced with IV := a window of the scheme's nonce
   length is  prefix ‖ window ‖ body. *)
Theorem c01_encrypt_shape k prefix iv p ad ct :
  c01_encrypt A k prefix iv p ad = Ok ct -> exists body, ct = prefix ++ iv ++ body.
Proof.
  destruct k as [key|key|key|key|e|salt key]; simpl; intros H.
  - apply na_enc_shape in H. eauto.
  - eapply siv_enc_shape; eauto.
  - apply na_enc_shape in H. eauto.
  - apply na_enc_shape in H. eauto.
  - eapply etm_enc_shape; eauto.
  - apply xaes_enc_shape in H. destruct H as (pmk & _ & ->). eauto.
Qed.

Lemma nonce_field_of_shape sch prefix iv body :
  length iv = nonce_len sch -> nonce_field sch prefix (prefix ++ iv ++ body) = iv.
Proof.
  intros L. unfold nonce_field. rewrite skipn_app_exact. apply firstn_app_len. exact L.
Qed.

(* the wire position: bytes [0, |prefix|) are the prefix, bytes
   [|prefix|, |prefix| + nonce_len) are the window, byte for byte *)
Theorem c01_encrypt_nonce_position k prefix iv p ad ct :
  length iv = nonce_len (scheme_of k) ->
  c01_encrypt A k prefix iv p ad = Ok ct ->
  firstn (length prefix) ct = prefix /\
  nonce_field (scheme_of k) prefix ct = iv /\
  firstn (length prefix + nonce_len (scheme_of k)) ct = prefix ++ iv /\
  (forall j, (j < nonce_len (scheme_of k))%nat -> nth (length prefix + j) ct 0 = nth j iv 0).
Proof.
  intros L H. destruct (c01_encrypt_shape _ _ _ _ _ _ H) as (body & ->).
  split; [apply firstn_app_exact|]. split; [apply nonce_field_of_shape; exact L|]. split.
  - rewrite app_assoc. apply firstn_app_len. rewrite app_length. lia.
  - intros j Hj. rewrite app_nth2 by lia. replace (length prefix + j - length prefix)%nat with j by lia.
    rewrite app_nth1 by lia. reflexivity.
Qed.

(* XAES-GCM: the window is salt ‖ iv - the first saltsize bytes key the
   per-message key derivation, the last 12 are the GCM nonce *)
Theorem xaes_window_use salt key prefix w p ad ct :
  c01_encrypt A (AKXaes salt key) prefix w p ad = Ok ct ->
  exists pmk, derive_per_message_key (ap_aes A) key (firstn salt w) = Ok pmk /\
    ct = prefix ++ w ++ ap_gcm_seal A pmk (skipn salt w) ad p.
Proof. simpl. apply xaes_enc_shape. Qed.

(* the standard nonce AEADs: the window is the nonce given to Seal *)
Theorem gcm_window_use key prefix w p ad ct :
  c01_encrypt A (AKGcm key) prefix w p ad = Ok ct -> ct = prefix ++ w ++ ap_gcm_seal A key w ad p.
Proof. simpl. apply na_enc_shape. Qed.
Theorem chacha_window_use key prefix w p ad ct :
  c01_encrypt A (AKChaCha key) prefix w p ad = Ok ct -> ct = prefix ++ w ++ ap_cc_seal A key w ad p.
Proof. simpl. apply na_enc_shape. Qed.
Theorem xchacha_window_use key prefix w p ad ct :
  c01_encrypt A (AKXChaCha key) prefix w p ad = Ok ct -> ct = prefix ++ w ++ ap_xcc_seal A key w ad p.
Proof. simpl. apply na_enc_shape. Qed.

(* ---- Encrypt under the tape = Rand's CEncrypt + the C01 model ---------- *)

Theorem encrypt_tape_spec pub k prefix p ad s o iv s' :
  encrypt_tape A k prefix p ad s = Some (o, iv, s') <->
  (exec pub (CEncrypt (scheme_of k) prefix) s = Some (OBytes (prefix ++ iv), [iv], s') /\
   o = c01_encrypt A k prefix iv p ad).
Proof.
  unfold encrypt_tape. split.
  - destruct (read (nonce_len (scheme_of k)) (r_tape s)) as [[w t1]|] eqn:R; [|discriminate].
    intros H. inversion H; subst. clear H. split; [|reflexivity].
    unfold exec. simpl. rewrite R.
    apply read_spec in R. destruct R as (_ & L & _).
    rewrite overwrite_fill by exact L. rewrite app_nil_r. reflexivity.
  - intros [E ->]. pose proof (encrypt_field pub _ _ _ _ _ _ E) as (X & Y & L & Z).
    cbv zeta in *. inversion Y as [Y1]. rewrite read_ok.
    + subst s'. reflexivity.
    + rewrite <- L. rewrite firstn_length. lia.
Qed.

(* a history of encryptions under one key: the i-th ciphertext is the C01
   ciphertext under IV = tape[i*n, (i+1)*n) *)
Theorem encrypt_run_ith k prefix : forall msgs s res s',
  encrypt_run A k prefix msgs s = Some (res, s') ->
  let n := nonce_len (scheme_of k) in
  (length msgs * n <= length (r_tape s))%nat /\
  r_tape s' = skipn (length msgs * n) (r_tape s) /\
  r_unavail s' = r_unavail s /\
  length res = length msgs /\
  forall i p ad, nth_error msgs i = Some (p, ad) ->
    let w := firstn n (skipn (i * n) (r_tape s)) in
    length w = n /\ nth_error res i = Some (c01_encrypt A k prefix w p ad, w).
Proof.
  induction msgs as [|[p0 ad0] r IH]; simpl; intros s res s' H.
  - inversion H; subst. split; [lia|]. split; [reflexivity|]. split; [reflexivity|]. split; [reflexivity|].
    intros i p ad Hi. destruct i; discriminate.
  - unfold encrypt_tape in H.
    destruct (read (nonce_len (scheme_of k)) (r_tape s)) as [[w t1]|] eqn:R; [|discriminate].
    destruct (encrypt_run A k prefix r (mkR (r_unavail s) t1)) as [[res2 s2]|] eqn:E; [|discriminate].
    inversion H; subst. clear H.
    apply read_spec in R. destruct R as (Ht & L & Hw & Ht1 & Hle).
    destruct (IH _ _ _ E) as (B1 & B2 & B3 & B4 & B5). simpl in *.
    subst t1. rewrite skipn_length in B1. rewrite skipn_add in B2.
    split; [lia|]. split; [rewrite B2; f_equal; lia|]. split; [exact B3|]. split; [lia|].
    intros i p ad Hi. destruct i as [|i]; simpl in *.
    + inversion Hi; subst. change (skipn 0 (r_tape s)) with (r_tape s). auto.
    + destruct (B5 i p ad Hi) as (C1 & C2). rewrite skipn_add in C1, C2.
      auto.
Qed.

(* the Rand model's output for the same history (what the correspondence run
   compares with the real ciphertexts) is the initial segment prefix ‖ window
   of every C01 ciphertext *)
Theorem encrypt_run_is_rand_run pub k prefix : forall msgs s res s',
  encrypt_run A k prefix msgs s = Some (res, s') ->
  run pub (repeat (CEncrypt (scheme_of k) prefix) (length msgs)) s
  = Some (map (fun r => (OBytes (prefix ++ snd r), [snd r])) res, s').
Proof.
  induction msgs as [|[p0 ad0] r IH]; intros s res s' H.
  - simpl in H. inversion H; subst. reflexivity.
  - cbn [encrypt_run] in H.
    destruct (encrypt_tape A k prefix p0 ad0 s) as [[[o iv] s1]|] eqn:T; [|discriminate].
    destruct (encrypt_run A k prefix r s1) as [[res2 s2]|] eqn:E; [|discriminate].
    inversion H; subst. clear H.
    apply (encrypt_tape_spec pub) in T. destruct T as [T _].
    cbn [length repeat run]. rewrite T. rewrite (IH _ _ _ E). reflexivity.
Qed.

(* NONCES NEVER REPEAT unless the tape does: in a history of encryptions
   under one key, two ciphertexts carry the same nonce field if and only if
   their tape windows are equal; in particular ciphertexts (and nonces) of
   calls that drew different windows are different. *)
Theorem encrypt_run_nonces_equal_iff k prefix msgs s res s' i j ci cj wi wj :
  encrypt_run A k prefix msgs s = Some (res, s') ->
  nth_error res i = Some (Ok ci, wi) -> nth_error res j = Some (Ok cj, wj) ->
  let n := nonce_len (scheme_of k) in
  wi = firstn n (skipn (i * n) (r_tape s)) /\ wj = firstn n (skipn (j * n) (r_tape s)) /\
  nonce_field (scheme_of k) prefix ci = wi /\ nonce_field (scheme_of k) prefix cj = wj /\
  (nonce_field (scheme_of k) prefix ci = nonce_field (scheme_of k) prefix cj <-> wi = wj) /\
  (ci = cj -> wi = wj).
Proof.
  intros H Ei Ej n.
  destruct (encrypt_run_ith _ _ _ _ _ _ H) as (_ & _ & _ & Hlen & Hith).
  assert (Hi : (i < length msgs)%nat) by (rewrite <- Hlen; apply nth_error_Some; congruence).
  assert (Hj : (j < length msgs)%nat) by (rewrite <- Hlen; apply nth_error_Some; congruence).
  destruct (nth_error msgs i) as [[pi adi]|] eqn:Mi; [|apply nth_error_None in Mi; lia].
  destruct (nth_error msgs j) as [[pj adj]|] eqn:Mj; [|apply nth_error_None in Mj; lia].
  destruct (Hith _ _ _ Mi) as (Li & Ri). destruct (Hith _ _ _ Mj) as (Lj & Rj).
  rewrite Ei in Ri. rewrite Ej in Rj. injection Ri as Ci Wi. injection Rj as Cj Wj.
  subst n. cbv zeta in *. subst wi wj.
  set (wi := firstn _ (skipn (i * _) _)) in *. set (wj := firstn _ (skipn (j * _) _)) in *.
  symmetry in Ci, Cj.
  destruct (c01_encrypt_nonce_position _ _ _ _ _ _ Li Ci) as (_ & Ni & _).
  destruct (c01_encrypt_nonce_position _ _ _ _ _ _ Lj Cj) as (_ & Nj & _).
  split; [reflexivity|]. split; [reflexivity|]. split; [exact Ni|]. split; [exact Nj|]. split.
  - rewrite Ni, Nj. tauto.
  - intros E. rewrite E in Ni. congruence.
Qed.
End AeadLink.

(* the iff version of encrypt_sequence_distinct (Rand model alone): two
   outputs of a sequence of encryptions under one key are equal iff their
   windows are *)
Theorem encrypt_sequence_iff pub sch p k s res s' i j o1 o2 t1 t2 :
  run pub (repeat (CEncrypt sch p) k) s = Some (res, s') ->
  (i < k)%nat -> (j < k)%nat ->
  nth_error res i = Some (o1, t1) -> nth_error res j = Some (o2, t2) ->
  (o1 = o2 <->
   firstn (nonce_len sch) (skipn (i * nonce_len sch) (r_tape s)) =
   firstn (nonce_len sch) (skipn (j * nonce_len sch) (r_tape s))).
Proof.
  intros H Hi Hj E1 E2.
  destruct (encrypt_sequence pub _ _ _ _ _ _ H i Hi) as (A1 & _).
  destruct (encrypt_sequence pub _ _ _ _ _ _ H j Hj) as (A2 & _).
  rewrite E1 in A1. rewrite E2 in A2. inversion A1; inversion A2; subst. split.
  - intros Heq. inversion Heq as [H1]. apply app_inv_head in H1. exact H1.
  - intros ->. reflexivity.
Qed.

(* ---- (b) hybrid encapsulations ------------------------------------------ *)

Lemma bytes_eq_dec (a b : bytes) : {a = b} + {a <> b}.
Proof. apply list_eq_dec. apply N.eq_dec. Qed.

(* equal images: equal inputs, or a collision of the function *)
Lemma equal_image_reduction {Y} (f : bytes -> Y) a b : f a = f b -> a = b \/ collision f a b.
Proof. intros H. destruct (bytes_eq_dec a b); [left; auto|right; split; auto]. Qed.

Section Hybrid.
Variable pub : bytes -> bytes.

(* k X25519-HPKE (or X-Wing: the X25519 half) encryptions under one key:
   the i-th ephemeral secret is tape[32 i, 32 (i+1)), enc = pub of it *)
Theorem hpke_sequence p k s res s' :
  run pub (repeat (CHpkeEncrypt p) k) s = Some (res, s') ->
  forall i, (i < k)%nat ->
    let sk := firstn 32 (skipn (i * 32) (r_tape s)) in
    nth_error res i = Some (OBytes (p ++ pub sk), [sk]) /\ length sk = 32%nat.
Proof.
  intros H i Hi sk.
  assert (Hf : forallb call_id_free (repeat (CHpkeEncrypt p) k) = true).
  { rewrite forallb_forall. intros c Hc. apply repeat_spec in Hc. subst. reflexivity. }
  assert (Hn : nth_error (repeat (CHpkeEncrypt p) k) i = Some (CHpkeEncrypt p)).
  { rewrite nth_error_repeat; auto. }
  destruct (run_ith pub _ _ _ _ Hf H i _ Hn) as (B1 & B2 & B3).
  rewrite offset_repeat in B1, B2 by lia.
  unfold call_len, call_sizes in *. simpl in *.
  replace (i * 32)%nat with (i * 32)%nat in * by lia.
  fold sk in B1, B2. inversion B2. auto.
Qed.

(* two encapsulations of one history are equal iff the public keys of their
   windows are *)
Theorem hpke_enc_equal_iff p k s res s' i j o1 o2 t1 t2 :
  run pub (repeat (CHpkeEncrypt p) k) s = Some (res, s') ->
  (i < k)%nat -> (j < k)%nat ->
  nth_error res i = Some (o1, t1) -> nth_error res j = Some (o2, t2) ->
  let wi := firstn 32 (skipn (i * 32) (r_tape s)) in
  let wj := firstn 32 (skipn (j * 32) (r_tape s)) in
  o1 = OBytes (p ++ pub wi) /\ o2 = OBytes (p ++ pub wj) /\ t1 = [wi] /\ t2 = [wj] /\
  (o1 = o2 <-> pub wi = pub wj).
Proof.
  intros H Hi Hj E1 E2 wi wj.
  destruct (hpke_sequence _ _ _ _ _ H i Hi) as (A1 & _).
  destruct (hpke_sequence _ _ _ _ _ H j Hj) as (A2 & _).
  rewrite E1 in A1. rewrite E2 in A2. inversion A1; inversion A2; subst.
  repeat split; auto.
  - intros Heq. inversion Heq as [H1]. apply app_inv_head in H1. exact H1.
  - intros E. fold wi wj. rewrite E. reflexivity.
Qed.

(* THE REDUCTION: a repeated encapsulation is a repeated tape window or a
   collision of the base-point multiplication on two different scalars *)
Theorem hpke_enc_repeat_reduction p k s res s' i j o t1 t2 :
  run pub (repeat (CHpkeEncrypt p) k) s = Some (res, s') ->
  (i < k)%nat -> (j < k)%nat ->
  nth_error res i = Some (o, t1) -> nth_error res j = Some (o, t2) ->
  let wi := firstn 32 (skipn (i * 32) (r_tape s)) in
  let wj := firstn 32 (skipn (j * 32) (r_tape s)) in
  wi = wj \/ collision pub wi wj.
Proof.
  intros H Hi Hj E1 E2 wi wj.
  destruct (hpke_enc_equal_iff _ _ _ _ _ _ _ _ _ _ _ H Hi Hj E1 E2) as (_ & _ & _ & _ & X).
  apply equal_image_reduction. apply X. reflexivity.
Qed.

(* under the explicit law "pub is injective on D" (D = the scalars in
   canonical form: for a prime-order NIST curve the scalars in [1, n-1]; for
   X25519 one representative per clamping class and per +-class modulo the
   group order), encapsulations that drew distinct canonical windows differ *)
Theorem hpke_distinct_randomness_distinct_enc (D : bytes -> Prop) p k s res s' i j o1 o2 t1 t2 :
  inj_on D pub ->
  run pub (repeat (CHpkeEncrypt p) k) s = Some (res, s') ->
  (i < k)%nat -> (j < k)%nat ->
  nth_error res i = Some (o1, t1) -> nth_error res j = Some (o2, t2) ->
  let wi := firstn 32 (skipn (i * 32) (r_tape s)) in
  let wj := firstn 32 (skipn (j * 32) (r_tape s)) in
  D wi -> D wj -> wi <> wj -> o1 <> o2.
Proof.
  intros Hinj H Hi Hj E1 E2 wi wj Di Dj Hne Heq.
  destruct (hpke_enc_equal_iff _ _ _ _ _ _ _ _ _ _ _ H Hi Hj E1 E2) as (_ & _ & _ & _ & X).
  apply Hne. apply Hinj; auto. apply X. exact Heq.
Qed.

(* The literal reading "distinct randomness gives distinct encapsulations"
   is FALSE for X25519: RFC 7748 clamps the scalar (crypto/ecdh does), so two
   windows that differ only in the three low bits of byte 0 or the top bit of
   byte 31 have the same public key. *)
Definition clamp_law : Prop := forall w, length w = 32%nat -> pub w = pub (clamp w).

Theorem hpke_unclamped_randomness_refuted p :
  clamp_law ->
  exists s res s' o w0 w1,
    run pub (repeat (CHpkeEncrypt p) 2) s = Some (res, s') /\
    res = [(o, [w0]); (o, [w1])] /\ w0 <> w1 /\ clamp w0 = clamp w1.
Proof.
  intros Law.
  assert (E : pub (1 :: zeros 31) = pub (zeros 32)).
  { rewrite (Law (1 :: zeros 31)) by reflexivity. rewrite (Law (zeros 32)) by reflexivity. reflexivity. }
  assert (R : run pub (repeat (CHpkeEncrypt p) 2) (mkR [] (zeros 32 ++ 1 :: zeros 31))
              = Some ([(OBytes (p ++ pub (zeros 32)), [zeros 32]);
                       (OBytes (p ++ pub (1 :: zeros 31)), [1 :: zeros 31])], mkR [] [])) by reflexivity.
  exists (mkR [] (zeros 32 ++ 1 :: zeros 31)).
  eexists. eexists. exists (OBytes (p ++ pub (zeros 32))). exists (zeros 32). exists (1 :: zeros 31).
  split; [|split; [reflexivity|split; [discriminate|reflexivity]]].
  rewrite R, E. reflexivity.
Qed.
End Hybrid.

(* X-Wing: enc = ctM ‖ ctX.  It repeats only if BOTH halves repeat. *)
Theorem xwing_enc_equal_iff mlkem_ct pub pkM m m' skx skx' :
  length (mlkem_ct pkM m) = length (mlkem_ct pkM m') ->
  (xwing_enc mlkem_ct pub pkM m skx = xwing_enc mlkem_ct pub pkM m' skx' <->
   mlkem_ct pkM m = mlkem_ct pkM m' /\ pub skx = pub skx').
Proof.
  intros L. unfold xwing_enc. split.
  - intros H. apply app_inj_len in H; auto.
  - intros [-> ->]. reflexivity.
Qed.

Theorem xwing_enc_repeat_reduction mlkem_ct pub pkM m m' skx skx' :
  length (mlkem_ct pkM m) = length (mlkem_ct pkM m') ->
  xwing_enc mlkem_ct pub pkM m skx = xwing_enc mlkem_ct pub pkM m' skx' ->
  (m = m' \/ collision (mlkem_ct pkM) m m') /\ (skx = skx' \/ collision pub skx skx').
Proof.
  intros L H. apply xwing_enc_equal_iff in H; auto. destruct H as [H1 H2].
  split; apply equal_image_reduction; auto.
Qed.

(* ML-KEM (and the ML-KEM half of X-Wing): the encapsulation randomness m
   determines ct, and two ciphertexts that decrypt to their own m (FIPS 203
   correctness, which holds except with probability 2^-164.8 / 2^-174.8) are
   different when the m are *)
Theorem mlkem_distinct_m_distinct_ct (mlkem_ct : bytes -> bytes -> bytes) (dec : bytes -> bytes -> option bytes) pkM dk m m' :
  dec dk (mlkem_ct pkM m) = Some m -> dec dk (mlkem_ct pkM m') = Some m' ->
  m <> m' -> mlkem_ct pkM m <> mlkem_ct pkM m'.
Proof. intros D1 D2 Hne E. rewrite E in D1. congruence. Qed.

Theorem xwing_distinct_m_distinct_enc mlkem_ct (dec : bytes -> bytes -> option bytes) pub pkM dk m m' skx skx' :
  length (mlkem_ct pkM m) = length (mlkem_ct pkM m') ->
  dec dk (mlkem_ct pkM m) = Some m -> dec dk (mlkem_ct pkM m') = Some m' ->
  m <> m' -> xwing_enc mlkem_ct pub pkM m skx <> xwing_enc mlkem_ct pub pkM m' skx'.
Proof.
  intros L D1 D2 Hne E. apply xwing_enc_equal_iff in E; auto. destruct E as [E _].
  exact (mlkem_distinct_m_distinct_ct _ _ _ _ _ _ D1 D2 Hne E).
Qed.

(* ---- (c) key ids: the draw is a bijection ------------------------------- *)

Lemma le_val_bound b : wfb b -> le_val b < 256 ^ N.of_nat (length b).
Proof.
  induction b as [|x b IH]; intros W; [reflexivity|].
  inversion W as [|? ? Hx Hb]; subst. specialize (IH Hb).
  cbn [le_val length]. rewrite Nat2N.inj_succ, N.pow_succ_r'. lia.
Qed.

Lemma be_val_bound4 w : wfb w -> length w = 4%nat -> be_val w < 2 ^ 32.
Proof.
  intros W L. unfold be_val.
  assert (W' : wfb (rev w)) by (unfold wfb in *; apply Forall_rev; exact W).
  pose proof (le_val_bound _ W') as B. rewrite rev_length, L in B. exact B.
Qed.

Lemma be_val_be_bytes4 id : id < 2 ^ 32 -> be_val (be_bytes 4 id) = id.
Proof. intros H. rewrite be_val_be_bytes. apply N.mod_small. exact H. Qed.

Lemma be_bytes_be_val4 w : wfb w -> length w = 4%nat -> be_bytes 4 (be_val w) = w.
Proof.
  intros W L. apply be_val_inj4; [apply be_bytes_wf|exact W|apply be_bytes_length|exact L|].
  apply be_val_be_bytes4. apply be_val_bound4; auto.
Qed.

Lemma read_app_exact w t : read (length w) (w ++ t) = Some (w, t).
Proof.
  rewrite read_ok by (rewrite app_length; lia).
  rewrite firstn_app_exact, skipn_app_exact. reflexivity.
Qed.

Lemma mem_false_iff x l : mem x l = false <-> ~ In x l.
Proof.
  rewrite <- mem_In. destruct (mem x l); split; intros; try congruence; auto.
Qed.

(* converse of draw_id_spec: the loop stops at the first window whose value
   is not in use, whatever precedes it *)
Lemma draw_id_fuel_complete u w t' : forall skipped fuel,
  (length skipped < fuel)%nat ->
  Forall (fun x => length x = 4%nat /\ In (be_val x) u) skipped ->
  length w = 4%nat -> ~ In (be_val w) u ->
  draw_id_fuel fuel u (concat skipped ++ w ++ t') = Some (w, skipped ++ [w], be_val w :: u, t').
Proof.
  induction skipped as [|x sk IH]; intros fuel Hf Hs Lw Hw; (destruct fuel as [|f]; [simpl in Hf; lia|]).
  - cbn [concat app draw_id_fuel]. rewrite <- Lw. rewrite read_app_exact.
    apply mem_false_iff in Hw. rewrite Hw. reflexivity.
  - inversion Hs as [|? ? [Lx Hx] Hs']; subst.
    cbn [concat draw_id_fuel]. rewrite <- app_assoc. rewrite <- Lx at 1. rewrite read_app_exact.
    apply mem_In in Hx. rewrite Hx.
    rewrite IH; auto. simpl in Hf. lia.
Qed.

Theorem draw_id_complete u skipped w t' :
  Forall (fun x => length x = 4%nat /\ In (be_val x) u) skipped ->
  length w = 4%nat -> ~ In (be_val w) u ->
  draw_id u (concat skipped ++ w ++ t') = Some (w, skipped ++ [w], be_val w :: u, t').
Proof.
  intros Hs Lw Hw. unfold draw_id. apply draw_id_fuel_complete; auto.
  assert (X : (4 * length skipped <= length (concat skipped))%nat).
  { clear - Hs. induction Hs as [|x l [Lx _] _ IH]; simpl; [lia|]. rewrite app_length. lia. }
  rewrite !app_length. lia.
Qed.

(* exact characterisation of a successful draw *)
Theorem draw_id_iff u t w tr u' t' :
  draw_id u t = Some (w, tr, u', t') <->
  exists skipped,
    tr = skipped ++ [w] /\
    Forall (fun x => length x = 4%nat /\ In (be_val x) u) skipped /\
    length w = 4%nat /\ ~ In (be_val w) u /\ u' = be_val w :: u /\
    t = concat tr ++ t'.
Proof.
  split; [apply draw_id_spec|].
  intros (sk & -> & Hs & Lw & Hw & -> & ->).
  rewrite concat_app. simpl. rewrite app_nil_r, <- app_assoc.
  apply draw_id_complete; auto.
Qed.

(* EVERY UNUSED ID CAN BE DRAWN, by exactly its big-endian window: *)
Theorem draw_id_hits u id t :
  id < 2 ^ 32 -> ~ In id u ->
  draw_id u (be_bytes 4 id ++ t) = Some (be_bytes 4 id, [be_bytes 4 id], id :: u, t).
Proof.
  intros Hid Hu.
  pose proof (draw_id_complete u [] (be_bytes 4 id) t (Forall_nil _) (be_bytes_length 4 id)) as H.
  rewrite be_val_be_bytes4 in H by exact Hid. apply H. exact Hu.
Qed.

(* ... and a first window w is accepted at once iff it is the big-endian
   encoding of an unused id: accepted first windows <-> unused ids is a
   bijection (be_val / be_bytes 4), i.e. the id has the distribution of the
   first window conditioned on "unused" *)
Theorem draw_id_first_window_bijection u w t :
  wfb w -> length w = 4%nat ->
  (draw_id u (w ++ t) = Some (w, [w], be_val w :: u, t) <-> ~ In (be_val w) u) /\
  be_val w < 2 ^ 32 /\ be_bytes 4 (be_val w) = w.
Proof.
  intros W L. split; [|split; [apply be_val_bound4; auto|apply be_bytes_be_val4; auto]].
  split.
  - intros H. apply draw_id_spec in H. destruct H as (_ & _ & _ & _ & H & _). exact H.
  - intros H. exact (draw_id_complete u [] w t (Forall_nil _) L H).
Qed.

(* the set of ids that newRandomKeyID can return (over all well-formed tapes)
   is exactly the 32-bit range minus the ids in use *)
Theorem draw_id_image u id :
  (exists t w tr u' t', wfb t /\ draw_id u t = Some (w, tr, u', t') /\ be_val w = id)
  <-> (id < 2 ^ 32 /\ ~ In id u).
Proof.
  split.
  - intros (t & w & tr & u' & t' & Wt & H & <-).
    apply draw_id_spec in H. destruct H as (sk & -> & _ & Lw & Hw & _ & ->).
    split; [|exact Hw]. apply be_val_bound4; auto.
    rewrite concat_app in Wt. simpl in Wt. rewrite app_nil_r in Wt.
    apply wfb_app in Wt. destruct Wt as [Wt _]. apply wfb_app in Wt. tauto.
  - intros [Hid Hu]. exists (be_bytes 4 id), (be_bytes 4 id), [be_bytes 4 id], (id :: u), [].
    split; [apply be_bytes_wf|]. split; [|apply be_val_be_bytes4; exact Hid].
    pose proof (draw_id_hits u id [] Hid Hu) as H. rewrite app_nil_r in H. exact H.
Qed.

(* termination: the loop fails only by running out of tape, and that happens
   iff every complete 4-byte word of the tape is an id in use *)
Lemma new_random_id_none u l : forall d,
  new_random_id u l d = None <-> Forall (fun x => In x u) l.
Proof.
  induction l as [|x l IH]; intros d; simpl.
  - split; auto.
  - destruct (mem x u) eqn:M.
    + rewrite IH. apply mem_In in M. split; [constructor; auto|inversion 1; auto].
    + split; [discriminate|]. inversion 1; subst. apply mem_false_iff in M. contradiction.
Qed.

Theorem draw_id_none_iff u t :
  draw_id u t = None <-> Forall (fun x => In x u) (id_words t).
Proof.
  split.
  - intros H. apply (new_random_id_none u (id_words t) 0).
    apply (draw_id_fuel_enough (S (length t))); [lia|exact H].
  - intros H. destruct (draw_id u t) as [[[[w tr] u'] t']|] eqn:D; [|reflexivity].
    apply draw_id_new_random_id in D. apply (new_random_id_none u (id_words t) 0) in H. congruence.
Qed.

Theorem draw_id_terminates_at_first_unused u t :
  Exists (fun x => ~ In x u) (id_words t) ->
  exists w tr u' t', draw_id u t = Some (w, tr, u', t') /\ ~ In (be_val w) u /\
    Forall (fun x => In (be_val x) u) (removelast tr).
Proof.
  intros H. destruct (draw_id u t) as [[[[w tr] u'] t']|] eqn:D.
  - exists w, tr, u', t'. split; [reflexivity|].
    apply draw_id_spec in D. destruct D as (sk & -> & Hs & _ & Hw & _). split; [exact Hw|].
    rewrite removelast_last. eapply Forall_impl; [|exact Hs]. simpl. tauto.
  - apply draw_id_none_iff in D. apply Exists_exists in H. destruct H as (x & Hx & Hn).
    rewrite Forall_forall in D. exfalso. apply Hn. apply D. exact Hx.
Qed.

(* ---- (d) randomized signatures ------------------------------------------ *)

(* k signatures: the i-th randomizer is tape[i*n, (i+1)*n), n bytes, nothing
   of it is dropped and nothing else is read *)
Theorem sign_sequence pub n k s res s' :
  run pub (repeat (CSign n) k) s = Some (res, s') ->
  forall i, (i < k)%nat ->
    let w := firstn n (skipn (i * n) (r_tape s)) in
    nth_error res i = Some (ONone, [w]) /\ length w = n.
Proof.
  intros H i Hi w.
  assert (Hf : forallb call_id_free (repeat (CSign n) k) = true).
  { rewrite forallb_forall. intros c Hc. apply repeat_spec in Hc. subst. reflexivity. }
  assert (Hn : nth_error (repeat (CSign n) k) i = Some (CSign n)).
  { rewrite nth_error_repeat; auto. }
  destruct (run_ith pub _ _ _ _ Hf H i _ Hn) as (B1 & B2 & B3).
  rewrite offset_repeat in B1, B2 by lia.
  unfold call_len, call_sizes in *. simpl in *.
  replace (i * (n + 0))%nat with (i * n)%nat in * by lia.
  fold w in B1, B2. inversion B2. auto.
Qed.

Section MldsaSign.
Variables shake128 shake256 : bytes -> nat -> bytes.
Variable P : Mldsa.params.

(* ML-DSA Sign under the tape = Rand's CSign 32 + the C10 model with rnd := the window *)
Theorem mldsa_sign_tape_spec pub fuel prefix skEnc data s sig rnd s' :
  mldsa_sign_tape shake128 shake256 P fuel prefix skEnc data s = Some (sig, rnd, s') <->
  (exec pub (CSign 32) s = Some (ONone, [rnd], s') /\
   sig = tinkSign shake128 shake256 P fuel prefix skEnc data rnd).
Proof.
  unfold mldsa_sign_tape, exec. simpl.
  destruct (read 32 (r_tape s)) as [[w t1]|]; split; try discriminate.
  - intros H. inversion H; subst. auto.
  - intros [H ->]. inversion H; subst. reflexivity.
  - intros [H _]. discriminate.
Qed.

Theorem mldsa_sign_tape_window fuel prefix skEnc data s sig rnd s' :
  mldsa_sign_tape shake128 shake256 P fuel prefix skEnc data s = Some (sig, rnd, s') ->
  rnd = firstn 32 (r_tape s) /\ length rnd = 32%nat /\ r_tape s' = skipn 32 (r_tape s).
Proof.
  unfold mldsa_sign_tape. destruct (read 32 (r_tape s)) as [[w t1]|] eqn:R; [|discriminate].
  intros H. inversion H; subst. apply read_spec in R. tauto.
Qed.

(* all 32 bytes of rnd enter the signing computation, and only through
   rho'' = SHAKE256(K ‖ rnd ‖ mu, 64) (FIPS 204 Algorithm 7 line 7) *)
Theorem mldsa_sign_uses_whole_rnd fuel prefix skEnc data rnd :
  tinkSign shake128 shake256 P fuel prefix skEnc data rnd =
  obind (skDecode P skEnc) (fun sk =>
    let mu := computeMu shake256 (sk_tr sk) (formatMsg data []) in
    obind (mldsa_sign_from_rhopp shake128 shake256 P fuel sk mu (mldsa_rhopp shake256 sk mu rnd))
          (fun sg => Some (prefix ++ sg))).
Proof. reflexivity. Qed.

(* the hash input places rnd, whole, between K and mu: different rnd give
   different inputs to SHAKE256 *)
Theorem mldsa_rhopp_input_injective (K mu rnd rnd' : bytes) :
  K ++ rnd ++ mu = K ++ rnd' ++ mu <-> rnd = rnd'.
Proof.
  split; [|intros ->; reflexivity].
  intros H. apply app_inv_head in H. apply app_inv_tail in H. exact H.
Qed.

(* hence: two signatures of the same data under the same key whose windows
   differ hash different strings into rho''; equal rho'' would be a SHAKE256
   collision *)
Theorem mldsa_equal_rhopp_reduction sk mu rnd rnd' :
  mldsa_rhopp shake256 sk mu rnd = mldsa_rhopp shake256 sk mu rnd' ->
  rnd = rnd' \/ collision (fun x => shake256 x 64) (sk_K sk ++ rnd ++ mu) (sk_K sk ++ rnd' ++ mu).
Proof.
  unfold mldsa_rhopp. intros H. destruct (bytes_eq_dec rnd rnd') as [E|N]; [left; exact E|right].
  split; [|exact H]. intros E. apply mldsa_rhopp_input_injective in E. contradiction.
Qed.
End MldsaSign.

Section SlhdsaSign.
Variable SP : SlhdsaBase.params.
Variable HS : SlhdsaBase.hashes.

Theorem slhdsa_sign_tape_spec pub tv id sk msg s sig addrnd s' :
  slhdsa_sign_tape SP HS tv id sk msg s = Some (sig, addrnd, s') <->
  (exec pub (CSign (SlhdsaBase.p_n SP)) s = Some (ONone, [addrnd], s') /\
   sig = Slhdsa.tink_sign SP HS tv id sk msg addrnd).
Proof.
  unfold slhdsa_sign_tape, exec. simpl.
  destruct (read (SlhdsaBase.p_n SP) (r_tape s)) as [[w t1]|]; split; try discriminate.
  - intros H. inversion H; subst. auto.
  - intros [H ->]. inversion H; subst. reflexivity.
  - intros [H _]. discriminate.
Qed.

(* the signature starts (after the Tink prefix) with R = PRF_msg(SK.prf, addrnd, M') *)
Theorem slhdsa_sig_starts_with_R tv id sk msg addrnd sig :
  Slhdsa.tink_sign SP HS tv id sk msg addrnd = Some sig ->
  exists rest, sig = Slhdsa.tink_prefix tv id ++ slhdsa_R SP HS sk msg addrnd ++ rest.
Proof.
  unfold Slhdsa.tink_sign, Slhdsa.sign.
  destruct (negb (Nat.eqb (length sk) (4 * SlhdsaBase.p_n SP))); [discriminate|].
  cbn [length Nat.ltb Nat.leb].
  intros H. inversion H; subst. clear H.
  unfold Slhdsa.signInternal, slhdsa_R.
  destruct (Slhdsa.split_digest SP _) as [[md it] il].
  destruct (SlhdsaFors.forsSign SP HS md _ _ _) as [sf ad1].
  destruct (SlhdsaFors.forsPkFromSig SP HS sf md _ ad1) as [pf ad2].
  eexists. reflexivity.
Qed.

(* THE REDUCTION: two equal SLH-DSA signatures of one message under one key
   were made with the same addrnd, or PRF_msg collides on two different
   addrnd (law: PRF_msg outputs n bytes) *)
Theorem slhdsa_equal_sigs_reduction tv id sk msg a a' sig :
  (forall k r m, length (SlhdsaBase.hPrfMsg HS k r m) = SlhdsaBase.p_n SP) ->
  Slhdsa.tink_sign SP HS tv id sk msg a = Some sig ->
  Slhdsa.tink_sign SP HS tv id sk msg a' = Some sig ->
  a = a' \/ collision (fun r => slhdsa_R SP HS sk msg r) a a'.
Proof.
  intros Len H1 H2.
  apply slhdsa_sig_starts_with_R in H1. apply slhdsa_sig_starts_with_R in H2.
  destruct H1 as (r1 & E1). destruct H2 as (r2 & E2). rewrite E1 in E2.
  apply app_inv_head in E2. apply app_inj_len in E2; [|unfold slhdsa_R; rewrite !Len; reflexivity].
  apply equal_image_reduction. tauto.
Qed.
End SlhdsaSign.

(* ---- repetition over a history (second audit, item 9) --------------------- *)

(* the k consecutive n-byte windows of a tape *)
Definition tape_windows (n k : nat) (t : bytes) : list bytes :=
  map (fun i => firstn n (skipn (i * n) t)) (seq 0 k).

Lemma tape_windows_nth n k t i : (i < k)%nat ->
  nth_error (tape_windows n k t) i = Some (firstn n (skipn (i * n) t)).
Proof.
  intros H. unfold tape_windows. rewrite nth_error_map.
  rewrite (nth_error_nth' (seq 0 k) 0%nat) by (rewrite seq_length; exact H).
  rewrite seq_nth by exact H. reflexivity.
Qed.

(* In a history of encryptions under one key, the nonce fields at two
   positions are equal iff the TAPE windows at those positions are equal ... *)
Theorem encrypt_run_nonce_repeats_iff_tape_repeats A k prefix msgs s res s' i j ci cj wi wj :
  encrypt_run A k prefix msgs s = Some (res, s') ->
  nth_error res i = Some (Ok ci, wi) -> nth_error res j = Some (Ok cj, wj) ->
  let n := nonce_len (scheme_of k) in
  (nonce_field (scheme_of k) prefix ci = nonce_field (scheme_of k) prefix cj <->
   firstn n (skipn (i * n) (r_tape s)) = firstn n (skipn (j * n) (r_tape s))).
Proof.
  intros H Ei Ej n.
  destruct (encrypt_run_nonces_equal_iff A k prefix msgs s res s' i j ci cj wi wj H Ei Ej)
    as (Wi & Wj & _ & _ & X & _).
  fold n in Wi, Wj. rewrite <- Wi, <- Wj. exact X.
Qed.

(* ... hence on a tape whose first |msgs| windows of the nonce length are
   pairwise different (NoDup), NO NONCE REPEATS: all nonce fields, and all
   ciphertexts, of the history are pairwise different. *)
Theorem encrypt_run_no_nonce_repeats A k prefix msgs s res s' :
  encrypt_run A k prefix msgs s = Some (res, s') ->
  NoDup (tape_windows (nonce_len (scheme_of k)) (length msgs) (r_tape s)) ->
  forall i j ci cj wi wj, i <> j ->
    nth_error res i = Some (Ok ci, wi) -> nth_error res j = Some (Ok cj, wj) ->
    nonce_field (scheme_of k) prefix ci <> nonce_field (scheme_of k) prefix cj /\ ci <> cj.
Proof.
  intros H ND i j ci cj wi wj Hij Ei Ej.
  destruct (encrypt_run_ith A k prefix msgs s res s' H) as (_ & _ & _ & Hlen & _).
  assert (Hi : (i < length msgs)%nat) by (rewrite <- Hlen; apply nth_error_Some; congruence).
  assert (Hj : (j < length msgs)%nat) by (rewrite <- Hlen; apply nth_error_Some; congruence).
  assert (Hne : firstn (nonce_len (scheme_of k)) (skipn (i * nonce_len (scheme_of k)) (r_tape s)) <>
                firstn (nonce_len (scheme_of k)) (skipn (j * nonce_len (scheme_of k)) (r_tape s))).
  { intros E. apply Hij. rewrite NoDup_nth_error in ND. apply ND.
    - unfold tape_windows. rewrite map_length, seq_length. exact Hi.
    - rewrite !tape_windows_nth by assumption. f_equal. exact E. }
  pose proof (encrypt_run_nonce_repeats_iff_tape_repeats A k prefix msgs s res s' i j ci cj wi wj H Ei Ej) as X.
  cbv zeta in X. split.
  - intros E. apply Hne. apply X. exact E.
  - intros E. apply Hne. apply X. rewrite E. reflexivity.
Qed.

(* the converse: a tape that repeats a window makes the two nonces equal *)
Theorem encrypt_run_repeated_window_repeats_nonce A k prefix msgs s res s' i j ci cj wi wj :
  encrypt_run A k prefix msgs s = Some (res, s') ->
  nth_error res i = Some (Ok ci, wi) -> nth_error res j = Some (Ok cj, wj) ->
  firstn (nonce_len (scheme_of k)) (skipn (i * nonce_len (scheme_of k)) (r_tape s)) =
  firstn (nonce_len (scheme_of k)) (skipn (j * nonce_len (scheme_of k)) (r_tape s)) ->
  nonce_field (scheme_of k) prefix ci = nonce_field (scheme_of k) prefix cj.
Proof.
  intros H Ei Ej E.
  apply (encrypt_run_nonce_repeats_iff_tape_repeats A k prefix msgs s res s' i j ci cj wi wj H Ei Ej). exact E.
Qed.
