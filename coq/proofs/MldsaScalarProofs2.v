(* Proofs about the regenerated scalar kernels, part 2: HighBits/LowBits,
   MakeHint, UseHint, centered norm. *)
From Coq Require Import ZArith Lia Bool List.
From Tink Require Import Wrap MldsaScalar MldsaScalarProofs.
Open Scope Z_scope.
Ltac Zify.zify_post_hook ::= Z.div_mod_to_equations.

(* Algorithms 37/38 *)
Theorem highBits_ok a g : valid_gamma2 g -> 0 <= a < q ->
  mldsa_rZq_highBits a g = Some (fst (decompose_spec a g)).
Proof.
  intros Hg Ha. unfold mldsa_rZq_highBits. rewrite decompose_ok by auto.
  destruct (decompose_spec a g). reflexivity.
Qed.

Theorem lowBits_ok a g : valid_gamma2 g -> 0 <= a < q ->
  mldsa_rZq_lowBits a g = Some (snd (decompose_spec a g)).
Proof.
  intros Hg Ha. unfold mldsa_rZq_lowBits. rewrite decompose_ok by auto.
  destruct (decompose_spec a g). reflexivity.
Qed.

Lemma decompose_spec_range a g : valid_gamma2 g -> 0 <= a < q ->
  0 <= fst (decompose_spec a g) < (q - 1) / (2 * g) /\ 0 <= snd (decompose_spec a g) < q.
Proof.
  intros Hg Ha. unfold decompose_spec, cmod, q in *.
  destruct (a mod (2 * g) <=? 2 * g / 2) eqn:E; [apply Z.leb_le in E | apply Z.leb_gt in E];
  match goal with |- context [if ?c then _ else _] => destruct c eqn:E2 end;
  [apply Z.eqb_eq in E2 | apply Z.eqb_neq in E2 | apply Z.eqb_eq in E2 | apply Z.eqb_neq in E2];
  cbn [fst snd]; destruct Hg; subst g; lia.
Qed.

(* Algorithm 39 MakeHint(z, r) = [[HighBits(r) <> HighBits(r + z)]] *)
Theorem makeHint_ok z g r : valid_gamma2 g -> 0 <= z < q -> 0 <= r < q ->
  mldsa_rZq_makeHint z g r =
  Some (if fst (decompose_spec r g) =? fst (decompose_spec ((r + z) mod q) g) then 0 else 1).
Proof.
  intros Hg Hz Hr. unfold mldsa_rZq_makeHint.
  rewrite highBits_ok by auto. rewrite add_spec by auto.
  rewrite highBits_ok by (auto; unfold q in *; lia).
  destruct (fst (decompose_spec r g) =? fst (decompose_spec ((r + z) mod q) g)); reflexivity.
Qed.

(* Algorithm 40 UseHint, with the signed r0 of FIPS 204 recovered from the
   unsigned representative: r0 > 0 (signed)  <->  0 < r0u < q - γ2 *)
Definition useHint_spec (a g h : Z) : Z :=
  let m := (q - 1) / (2 * g) in
  let r0s := cmod a (2 * g) in
  let '(r1, r0s) := if a - r0s =? q - 1 then (0, r0s - 1) else ((a - r0s) / (2 * g), r0s) in
  if h =? 1 then (if 0 <? r0s then (r1 + 1) mod m else (r1 - 1) mod m) else r1.

Ltac bdestr :=
  repeat match goal with
  | |- context [?x <=? ?y] => let E := fresh "E" in destruct (x <=? y) eqn:E; [apply Z.leb_le in E | apply Z.leb_gt in E]
  | |- context [?x <? ?y] => let E := fresh "E" in destruct (x <? y) eqn:E; [apply Z.ltb_lt in E | apply Z.ltb_ge in E]
  | |- context [?x =? ?y] => let E := fresh "E" in destruct (x =? y) eqn:E; [apply Z.eqb_eq in E | apply Z.eqb_neq in E]
  end.

Ltac wsimp := repeat match goal with
  | |- context [wrapu 32 ?x] => rewrite (wrapu32_small x) by lia
  | |- context [wrapu 64 ?x] => rewrite (wrapu64_small x) by lia
  | |- context [wraps 64 ?x] => rewrite (wraps64_small x) by lia
  | |- context [wraps 32 ?x] => rewrite (wraps32_small x) by lia end.

(* g is the concrete gamma2 *)
Ltac useHint_tac a h g :=
  let G := eval vm_compute in (2 * g) in
  let m := eval vm_compute in ((8380417 - 1) / (2 * g)) in
  let ng := eval vm_compute in ((- g) mod 8380417) in
  unfold mldsa_rZq_useHint; rewrite decompose_ok by (unfold valid_gamma2; auto; lia);
  unfold useHint_spec, decompose_spec, cmod, q in *;
  rewrite shiftl_mul by lia; change (2 ^ 1) with 2; wsimp;
  rewrite neg_spec by (unfold q; lia); unfold q;
  change (2 * g) with G; change (g * 2) with G;
  pose proof (Z.div_mod a G ltac:(lia)) as Hdm; pose proof (Z.mod_pos_bound a G ltac:(lia)) as Hmb;
  set (r := a mod G) in *; set (k := a / G) in *;
  assert (Hk1 : (a - r) / G = k) by (symmetry; apply Z.div_unique with 0; lia);
  assert (Hk2 : (a - (r - G)) / G = k + 1) by (symmetry; apply Z.div_unique with 0; lia);
  change ((8380417 - 1) / G) with m; change (8380416 / G) with m;
  change (- g mod 8380417) with ng; change (G / 2) with g;
  destruct (r <=? g) eqn:E; [apply Z.leb_le in E | apply Z.leb_gt in E]; rewrite ?Hk1, ?Hk2; clearbody r k; clear Hk1 Hk2;
  match goal with |- context [if ?x =? ?y then (_, _) else _] => destruct (x =? y) eqn:E2; [apply Z.eqb_eq in E2 | apply Z.eqb_neq in E2] end;
  destruct (h =? 1); try reflexivity;
  repeat (match goal with
          | |- context [if andb ?b1 ?b2 then _ else _] => let E := fresh "EA" in destruct (andb b1 b2) eqn:E;
               [rewrite andb_true_iff, !Z.ltb_lt in E | rewrite andb_false_iff, !Z.ltb_ge in E]
          | |- context [if ?x =? ?y then _ else _] => let E := fresh "E" in destruct (x =? y) eqn:E; [apply Z.eqb_eq in E | apply Z.eqb_neq in E]
          | |- context [if ?x <? ?y then _ else _] => let E := fresh "E" in destruct (x <? y) eqn:E; [apply Z.ltb_lt in E | apply Z.ltb_ge in E]
          end);
  rewrite ?add_spec, ?sub_spec by (unfold q; lia); unfold q; try (f_equal; lia).

Theorem useHint_ok_88 a h : 0 <= a < q -> mldsa_rZq_useHint a 95232 h = Some (useHint_spec a 95232 h).
Proof. intros Ha. useHint_tac a h 95232. Qed.

Theorem useHint_ok_32 a h : 0 <= a < q -> mldsa_rZq_useHint a 261888 h = Some (useHint_spec a 261888 h).
Proof. intros Ha. useHint_tac a h 261888. Qed.

Theorem useHint_ok a g h : valid_gamma2 g -> 0 <= a < q ->
  mldsa_rZq_useHint a g h = Some (useHint_spec a g h).
Proof. intros [-> | ->] Ha; [apply useHint_ok_88 | apply useHint_ok_32]; exact Ha. Qed.

(* centered norm: |a mod± q| *)
Theorem centeredAbs_spec a : 0 <= a < q -> mldsa_rZq_centeredAbs a = Z.abs (cmod a q).
Proof.
  intros Ha. unfold mldsa_rZq_centeredAbs, cmod, q in *.
  rewrite (wraps64_small a) by lia. rewrite ct_leq by lia.
  rewrite (wrapu32_small (8380417 - a)) by lia.
  rewrite (wraps64_small (8380417 - a)) by lia.
  rewrite (Z.mod_small a) by lia. change (8380417 / 2) with 4190208.
  destruct (4190209 <=? a) eqn:E; [apply Z.leb_le in E | apply Z.leb_gt in E].
  - rewrite ct_select_1. rewrite wrapu32_small by lia.
    destruct (a <=? 4190208) eqn:F; [apply Z.leb_le in F | apply Z.leb_gt in F]; lia.
  - rewrite ct_select_0. rewrite wrapu32_small by lia.
    destruct (a <=? 4190208) eqn:F; [apply Z.leb_le in F | apply Z.leb_gt in F]; lia.
Qed.

Theorem centeredMax_spec a b : 0 <= a < q -> 0 <= b < q ->
  mldsa_rZq_centeredMax a b = if Z.abs (cmod b q) <=? Z.abs (cmod a q) then a else b.
Proof.
  intros Ha Hb. unfold mldsa_rZq_centeredMax.
  rewrite !centeredAbs_spec by auto.
  assert (Ra : 0 <= Z.abs (cmod a q) <= 4190208).
  { unfold cmod, q in *. rewrite (Z.mod_small a) by lia. destruct (a <=? _) eqn:F; [apply Z.leb_le in F | apply Z.leb_gt in F]; lia. }
  assert (Rb : 0 <= Z.abs (cmod b q) <= 4190208).
  { unfold cmod, q in *. rewrite (Z.mod_small b) by lia. destruct (b <=? _) eqn:F; [apply Z.leb_le in F | apply Z.leb_gt in F]; lia. }
  rewrite !wraps64_small by (unfold q in *; lia).
  rewrite ct_leq by lia.
  destruct (Z.abs (cmod b q) <=? Z.abs (cmod a q)); [rewrite ct_select_1 | rewrite ct_select_0];
    rewrite wrapu32_small; unfold q in *; lia.
Qed.
