(* "Any modification of a signature is rejected", in the form hash laws allow.

   SLH-DSA verification recomputes PK.root from the signature by a fixed
   pattern of tweakable-hash calls F, H, T_l whose addresses depend only on
   the selectors the message digest yields (FORS indices, idx_tree, idx_leaf).
   Two signature bodies (SIG_FORS || SIG_HT) accepted for the same selectors
   under the same public key are therefore either equal, or the two
   verifications contain
     - a same-tweak collision: one of F, H, T_l called with the same PK.seed
       and the same ADRS on two DIFFERENT inputs of EQUAL (positive) length
       with equal outputs (`th_collision`), or
     - a WOTS+ message switch: two WOTS+ signatures on DIFFERENT messages that
       verify to the same WOTS+ public key at the same address
       (`wots_switch`; a one-time-signature forgery: for at least one chain one
       signature value is a forward chain image of the other, so one of them
       needed a chain preimage).
   The proofs are constructive (closed under the global context): they are
   the reduction that extracts the collision / switch from the two signatures.
   What is NOT claimed: a modification that changes R or the message changes
   the digest, and a different digest selects other FORS leaves / another
   hypertree leaf; rejection then rests on the (interleaved) target-subset
   resilience of H_msg and the secrecy of the PRF outputs, which no collision
   law expresses. *)
From Coq Require Import List NArith Bool Arith Lia ZifyN ZifyNat ZifyBool.
From Tink Require Import Bytes SlhdsaSupport SlhdsaAddr SlhdsaBase SlhdsaWots SlhdsaXmss SlhdsaFors SlhdsaHt Slhdsa
  SlhdsaSpec SlhdsaListProofs SlhdsaSupportProofs SlhdsaWotsProofs SlhdsaXmssProofs SlhdsaForsProofs SlhdsaHtProofs
  SlhdsaProofs.
Import ListNotations.
Open Scope nat_scope.

Definition th_collision (HS : hashes) (pk : bytes) : Prop :=
  exists ad x y, x <> y /\ length x = length y /\ 0 < length x /\
    (hF HS pk ad x = hF HS pk ad y \/ hH HS pk ad x = hH HS pk ad y \/ hTl HS pk ad x = hTl HS pk ad y).

Definition wots_switch (P : params) (HS : hashes) (pk : bytes) : Prop :=
  exists l t kp M M' s s', M <> M' /\ length s = p_len P * p_n P /\ length s' = p_len P * p_n P /\
    wotsPkFromSigS P HS l t kp (wotsChecksum P M) s pk = wotsPkFromSigS P HS l t kp (wotsChecksum P M') s' pk.

Definition bytes_eq_dec : forall x y : bytes, {x = y} + {x <> y} := list_eq_dec N.eq_dec.

Lemma neq_len_pos (x y : bytes) : x <> y -> length x = length y -> 0 < length x.
Proof. destruct x, y; simpl; intros; try lia. contradiction. Qed.

Lemma bounded_dec (A : nat -> Prop) (dec : forall i, {A i} + {~ A i}) : forall cnt,
  (forall i, i < cnt -> A i) \/ (exists i, i < cnt /\ ~ A i).
Proof.
  induction cnt as [|cnt [IH|[i [Hi Hn]]]].
  - left. intros; lia.
  - destruct (dec cnt) as [Y|Nn].
    + left. intros i Hi. destruct (Nat.eq_dec i cnt); [subst; auto|apply IH; lia].
    + right. exists cnt. split; [lia|auto].
  - right. exists i. split; [lia|auto].
Qed.

(* m-byte blocks *)
Definition gchunk (m i : nat) (s : bytes) : bytes := firstn m (skipn (i * m) s).

Lemma gchunk_length m i s : (i + 1) * m <= length s -> length (gchunk m i s) = m.
Proof. intros H. unfold gchunk. rewrite firstn_length, skipn_length. lia. Qed.

Lemma gchunks_eq m : forall cnt a b, length a = cnt * m -> length b = cnt * m ->
  (forall i, i < cnt -> gchunk m i a = gchunk m i b) -> a = b.
Proof.
  induction cnt as [|cnt IH]; intros a b Ha Hb Hc.
  - destruct a, b; simpl in *; try lia. reflexivity.
  - rewrite <- (firstn_skipn m a), <- (firstn_skipn m b). f_equal.
    + exact (Hc 0 ltac:(lia)).
    + apply IH; try (rewrite skipn_length; lia).
      intros i Hi. specialize (Hc (S i) ltac:(lia)). unfold gchunk in *.
      rewrite !skipn_add. replace (i * m + m) with (S i * m) by lia. exact Hc.
Qed.

Lemma gchunks_diff m cnt a b : length a = cnt * m -> length b = cnt * m -> a <> b ->
  exists i, i < cnt /\ gchunk m i a <> gchunk m i b.
Proof.
  intros Ha Hb Hne.
  destruct (bounded_dec (fun i => gchunk m i a = gchunk m i b) (fun i => bytes_eq_dec _ _) cnt) as [All|Ex]; [|exact Ex].
  exfalso. apply Hne. exact (gchunks_eq m cnt a b Ha Hb All).
Qed.

(* block j of the sub-block starting at block o *)
Lemma gchunk_sub m o len j s : j < len ->
  gchunk m j (firstn (len * m) (skipn (o * m) s)) = gchunk m (o + j) s.
Proof.
  intros Hj. unfold gchunk. rewrite skipn_firstn_comm, firstn_firstn, skipn_add.
  replace (Nat.min m (len * m - j * m)) with m by nia. f_equal. f_equal. lia.
Qed.

Lemma app_inv_length {A} : forall (a b c d : list A), a ++ b = c ++ d -> length a = length c -> a = c /\ b = d.
Proof.
  induction a as [|x a IH]; intros b c d E L; destruct c as [|y c]; simpl in *; try lia; [auto|].
  inversion E; subst. destruct (IH b c d H1 ltac:(lia)) as [-> ->]. auto.
Qed.

Lemma flat_map_seq_inj {B} (f g : nat -> list B) (m : nat) : forall cnt s,
  (forall i, s <= i < s + cnt -> length (f i) = m) -> (forall i, s <= i < s + cnt -> length (g i) = m) ->
  flat_map f (seq s cnt) = flat_map g (seq s cnt) -> forall i, s <= i < s + cnt -> f i = g i.
Proof.
  induction cnt as [|cnt IH]; intros s Hf Hg E i Hi; [lia|].
  cbn [seq flat_map] in E.
  apply app_inv_length in E as [E1 E2]; [|rewrite Hf, Hg by lia; reflexivity].
  destruct (Nat.eq_dec i s) as [->|Hne]; [exact E1|].
  apply (IH (S s)); auto; try lia; intros; [apply Hf|apply Hg]; lia.
Qed.

Section FORGERY.
  Variable P : params.
  Variable HS : hashes.
  Hypothesis OK : hashes_ok P HS.
  Notation n := (p_n P).
  Variable pk : bytes.
  Notation COLL := (th_collision HS pk).

  (* ---------- one call ---------- *)
  Lemma hF_inj ad x y : hF HS pk ad x = hF HS pk ad y -> length x = length y -> x = y \/ COLL.
  Proof.
    intros E L. destruct (bytes_eq_dec x y) as [e|ne]; [left; exact e|right].
    exists ad, x, y. split; [exact ne|]. split; [exact L|]. split; [exact (neq_len_pos x y ne L)|]. tauto.
  Qed.
  Lemma hH_inj ad x y : hH HS pk ad x = hH HS pk ad y -> length x = length y -> x = y \/ COLL.
  Proof.
    intros E L. destruct (bytes_eq_dec x y) as [e|ne]; [left; exact e|right].
    exists ad, x, y. split; [exact ne|]. split; [exact L|]. split; [exact (neq_len_pos x y ne L)|]. tauto.
  Qed.
  Lemma hTl_inj ad x y : hTl HS pk ad x = hTl HS pk ad y -> length x = length y -> x = y \/ COLL.
  Proof.
    intros E L. destruct (bytes_eq_dec x y) as [e|ne]; [left; exact e|right].
    exists ad, x, y. split; [exact ne|]. split; [exact L|]. split; [exact (neq_len_pos x y ne L)|]. tauto.
  Qed.

  (* ---------- chains ---------- *)
  Lemma chainS_inj : forall s l t kp c x y i, length x = n -> length y = n ->
    chainS HS l t kp c pk x i s = chainS HS l t kp c pk y i s -> x = y \/ COLL.
  Proof.
    induction s as [|s IH]; intros l t kp c x y i Hx Hy E; [left; exact E|].
    cbn [chainS] in E. apply IH in E; try apply (hF_len _ _ OK).
    destruct E as [E|C]; [|right; exact C]. apply hF_inj in E; [exact E|lia].
  Qed.

  (* ---------- WOTS+ public key from signature, same message digits ---------- *)
  Lemma wots_inj l t kp msgw s s' : length s = p_len P * n -> length s' = p_len P * n ->
    wotsPkFromSigS P HS l t kp msgw s pk = wotsPkFromSigS P HS l t kp msgw s' pk -> s = s' \/ COLL.
  Proof.
    intros Hs Hs' E. destruct (bytes_eq_dec s s') as [e|ne]; [left; exact e|right].
    destruct (gchunks_diff n (p_len P) s s' Hs Hs' ne) as (i & Hi & Hd).
    set (f := fun (z : bytes) (j : nat) => let mi := nth j msgw 0%N in
                chainS HS l t kp (N.of_nat j) pk (chunk P j z) mi (N.to_nat (N.of_nat (p_w P) - 1 - mi))).
    assert (Lc : forall z, length z = p_len P * n -> forall j, 0 <= j < 0 + p_len P -> length (f z j) = n).
    { intros z Hz j Hj. unfold f. cbv zeta. apply chainS_length; [apply (hF_len _ _ OK)|].
      apply gchunk_length. nia. }
    unfold wotsPkFromSigS in E.
    change (hTl HS pk (mkA l t T_WOTSPK kp 0 0) (flat_map (f s) (seq 0 (p_len P)))
            = hTl HS pk (mkA l t T_WOTSPK kp 0 0) (flat_map (f s') (seq 0 (p_len P)))) in E.
    apply hTl_inj in E.
    2:{ rewrite !(flat_map_seq_length _ 0 (p_len P) n); auto. }
    destruct E as [E|C]; [|exact C].
    pose proof (flat_map_seq_inj (f s) (f s') n (p_len P) 0 (Lc s Hs) (Lc s' Hs') E i ltac:(lia)) as Ei.
    unfold f in Ei.
    cbv zeta in Ei. apply chainS_inj in Ei; try (apply gchunk_length; nia).
    destruct Ei as [Ei|C]; [|exact C]. exfalso. apply Hd. exact Ei.
  Qed.


  (* ---------- what a WOTS+ message switch is: chain walking ----------
     two WOTS+ signatures on (possibly different) digit strings leading to the same
     public key: each value of one is the forward chain image of the corresponding
     value of the other, from the smaller digit to the larger one (or a collision).
     With the checksum (some digit goes down when another goes up) a forger
     holding one of them needed a chain PREIMAGE for the other. *)
  Lemma chain_ends l t kp c x y (m m' : N) (W : N) : length x = n -> length y = n -> (m <= m')%N -> (m' <= W)%N ->
    chainS HS l t kp c pk x m (N.to_nat (W - m)) = chainS HS l t kp c pk y m' (N.to_nat (W - m')) ->
    y = chainS HS l t kp c pk x m (N.to_nat (m' - m)) \/ COLL.
  Proof.
    intros Hx Hy Hm HW E.
    replace (N.to_nat (W - m)) with (N.to_nat (m' - m) + N.to_nat (W - m')) in E by lia.
    rewrite <- chainS_compose in E. replace (m + N.of_nat (N.to_nat (m' - m)))%N with m' in E by lia.
    apply chainS_inj in E; auto.
    - destruct E as [E|C]; [left; symmetry; exact E|right; exact C].
    - apply chainS_length; [apply (hF_len _ _ OK)|exact Hx].
  Qed.

  Lemma wots_switch_chains l t kp msgw msgw' s s' :
    length s = p_len P * n -> length s' = p_len P * n ->
    (forall i, (nth i msgw 0 <= N.of_nat (p_w P) - 1)%N) -> (forall i, (nth i msgw' 0 <= N.of_nat (p_w P) - 1)%N) ->
    wotsPkFromSigS P HS l t kp msgw s pk = wotsPkFromSigS P HS l t kp msgw' s' pk ->
    COLL \/ forall i, i < p_len P ->
      let m := nth i msgw 0%N in let m' := nth i msgw' 0%N in
      ((m <= m')%N -> chunk P i s' = chainS HS l t kp (N.of_nat i) pk (chunk P i s) m (N.to_nat (m' - m))) /\
      ((m' <= m)%N -> chunk P i s = chainS HS l t kp (N.of_nat i) pk (chunk P i s') m' (N.to_nat (m - m'))).
  Proof.
    intros Hs Hs' Hd Hd' E.
    set (f := fun (mw : list N) (z : bytes) (j : nat) => let mi := nth j mw 0%N in
                chainS HS l t kp (N.of_nat j) pk (chunk P j z) mi (N.to_nat (N.of_nat (p_w P) - 1 - mi))).
    assert (Lc : forall mw z, length z = p_len P * n -> forall j, 0 <= j < 0 + p_len P -> length (f mw z j) = n).
    { intros mw z Hz j Hj. unfold f. cbv zeta. apply chainS_length; [apply (hF_len _ _ OK)|].
      apply gchunk_length. nia. }
    unfold wotsPkFromSigS in E.
    change (hTl HS pk (mkA l t T_WOTSPK kp 0 0) (flat_map (f msgw s) (seq 0 (p_len P)))
            = hTl HS pk (mkA l t T_WOTSPK kp 0 0) (flat_map (f msgw' s') (seq 0 (p_len P)))) in E.
    apply hTl_inj in E.
    2:{ rewrite !(flat_map_seq_length _ 0 (p_len P) n); auto. }
    destruct E as [E|C]; [|left; exact C].
    pose proof (flat_map_seq_inj (f msgw s) (f msgw' s') n (p_len P) 0 (Lc msgw s Hs) (Lc msgw' s' Hs') E) as Ei.
    assert (G : forall cnt, cnt <= p_len P -> COLL \/ forall i, i < cnt ->
      let m := nth i msgw 0%N in let m' := nth i msgw' 0%N in
      ((m <= m')%N -> chunk P i s' = chainS HS l t kp (N.of_nat i) pk (chunk P i s) m (N.to_nat (m' - m))) /\
      ((m' <= m)%N -> chunk P i s = chainS HS l t kp (N.of_nat i) pk (chunk P i s') m' (N.to_nat (m - m')))).
    { induction cnt as [|cnt IH]; intros Hc; [right; intros; lia|].
      destruct (IH ltac:(lia)) as [C|IHa]; [left; exact C|].
      specialize (Ei cnt ltac:(lia)). unfold f in Ei. cbv zeta in Ei.
      assert (Lx : length (chunk P cnt s) = n) by (apply gchunk_length; nia).
      assert (Lx' : length (chunk P cnt s') = n) by (apply gchunk_length; nia).
      assert (A1 : COLL \/ ((nth cnt msgw 0%N <= nth cnt msgw' 0%N)%N ->
                 chunk P cnt s' = chainS HS l t kp (N.of_nat cnt) pk (chunk P cnt s) (nth cnt msgw 0%N)
                                    (N.to_nat (nth cnt msgw' 0%N - nth cnt msgw 0%N)))).
      { destruct (N.le_gt_cases (nth cnt msgw 0%N) (nth cnt msgw' 0%N)) as [Le|Gt]; [|right; intros; lia].
        destruct (chain_ends l t kp (N.of_nat cnt) _ _ _ _ (N.of_nat (p_w P) - 1)%N Lx Lx' Le (Hd' cnt) Ei) as [R|C];
          [right; intros _; exact R|left; exact C]. }
      assert (A2 : COLL \/ ((nth cnt msgw' 0%N <= nth cnt msgw 0%N)%N ->
                 chunk P cnt s = chainS HS l t kp (N.of_nat cnt) pk (chunk P cnt s') (nth cnt msgw' 0%N)
                                    (N.to_nat (nth cnt msgw 0%N - nth cnt msgw' 0%N)))).
      { destruct (N.le_gt_cases (nth cnt msgw' 0%N) (nth cnt msgw 0%N)) as [Le|Gt]; [|right; intros; lia].
        destruct (chain_ends l t kp (N.of_nat cnt) _ _ _ _ (N.of_nat (p_w P) - 1)%N Lx' Lx Le (Hd cnt) (eq_sym Ei)) as [R|C];
          [right; intros _; exact R|left; exact C]. }
      destruct A1 as [C|A1]; [left; exact C|]. destruct A2 as [C|A2]; [left; exact C|].
      right. intros i Hi. destruct (Nat.eq_dec i cnt) as [->|Hne]; [cbv zeta; split; assumption|apply IHa; lia]. }
    exact (G (p_len P) (le_n _)).
  Qed.

  Corollary wots_switch_walk l t kp M M' s s' :
    length s = p_len P * n -> length s' = p_len P * n ->
    wotsPkFromSigS P HS l t kp (wotsChecksum P M) s pk = wotsPkFromSigS P HS l t kp (wotsChecksum P M') s' pk ->
    COLL \/ forall i, i < p_len P ->
      let m := nth i (wotsChecksum P M) 0%N in let m' := nth i (wotsChecksum P M') 0%N in
      ((m <= m')%N -> chunk P i s' = chainS HS l t kp (N.of_nat i) pk (chunk P i s) m (N.to_nat (m' - m))) /\
      ((m' <= m)%N -> chunk P i s = chainS HS l t kp (N.of_nat i) pk (chunk P i s') m' (N.to_nat (m - m'))).
  Proof.
    intros Hs Hs' E. apply wots_switch_chains; auto; intros; apply wotsChecksum_digit.
  Qed.

  (* ---------- the climb of Algorithms 11 and 17 ---------- *)
  Lemma climbS_length mkad : forall cnt k tidx idx auth node, length node = n ->
    length (climbS P HS mkad cnt k tidx idx auth pk node) = n.
  Proof.
    induction cnt as [|cnt IH]; intros; [assumption|]. cbn [climbS]. apply IH.
    destruct (N.eqb _ 0); apply (hH_len _ _ OK).
  Qed.

  Lemma climb_inj mkad tidx idx auth auth' : forall cnt k node node',
    length node = n -> length node' = n ->
    (forall j, k <= j < k + cnt -> length (chunk P j auth) = n /\ length (chunk P j auth') = n) ->
    climbS P HS mkad cnt k tidx idx auth pk node = climbS P HS mkad cnt k tidx idx auth' pk node' ->
    (node = node' /\ forall j, k <= j < k + cnt -> chunk P j auth = chunk P j auth') \/ COLL.
  Proof.
    induction cnt as [|cnt IH]; intros k node node' Hn Hn' Hc E.
    - left. split; [exact E|intros; lia].
    - cbn [climbS] in E. destruct (Hc k ltac:(lia)) as [Lk Lk'].
      apply IH in E.
      2,3: destruct (N.eqb _ 0); apply (hH_len _ _ OK).
      2: intros j Hj; apply Hc; lia.
      destruct E as [[E Rest]|C]; [|right; exact C].
      assert (X : (node = node' /\ chunk P k auth = chunk P k auth') \/ COLL).
      { destruct (N.eqb (N.land (N.shiftr idx (N.of_nat k)) 1) 0).
        - apply hH_inj in E; [|rewrite !app_length; lia]. destruct E as [E|C]; [left|right; exact C].
          apply app_inv_length in E; [exact E|lia].
        - apply hH_inj in E; [|rewrite !app_length; lia]. destruct E as [E|C]; [left|right; exact C].
          apply app_inv_length in E; [tauto|lia]. }
      destruct X as [[X1 X2]|C]; [left|right; exact C].
      split; [exact X1|]. intros j Hj. destruct (Nat.eq_dec j k) as [->|Hne]; [exact X2|apply Rest; lia].
  Qed.

  (* ---------- one XMSS layer ---------- *)
  Notation sz := (xmssSigSize P).

  Lemma xmss_layer l t idx X X' M M' : length X = sz -> length X' = sz ->
    xmssPkFromSigS P HS l t idx X M pk = xmssPkFromSigS P HS l t idx X' M' pk ->
    (M = M' /\ X = X') \/ wots_switch P HS pk \/ COLL.
  Proof.
    intros HX HX' E. unfold xmssPkFromSigS in E. unfold xmssSigSize in HX, HX'.
    assert (La : forall Z, length Z = (p_hp P + p_len P) * n -> forall j, 0 <= j < 0 + p_hp P ->
              length (chunk P j (skipn (p_len P * n) Z)) = n).
    { intros Z HZ j Hj. apply gchunk_length. rewrite skipn_length. nia. }
    apply climb_inj in E; try apply (hTl_len _ _ OK).
    2:{ intros j Hj. split; [apply (La X)|apply (La X')]; auto. }
    destruct E as [[Ew Ea]|C]; [|right; right; exact C].
    assert (Eauth : skipn (p_len P * n) X = skipn (p_len P * n) X').
    { apply (gchunks_eq n (p_hp P)); try (rewrite skipn_length; lia). intros i Hi. apply Ea. lia. }
    destruct (bytes_eq_dec M M') as [e|ne].
    - subst M'. apply wots_inj in Ew; try (rewrite firstn_length; lia).
      destruct Ew as [Ew|C]; [left|right; right; exact C].
      split; [reflexivity|]. rewrite <- (firstn_skipn (p_len P * n) X), <- (firstn_skipn (p_len P * n) X'). congruence.
    - right. left. exists l, t, idx, M, M', (firstn (p_len P * n) X), (firstn (p_len P * n) X').
      repeat split; auto; rewrite firstn_length; lia.
  Qed.

  (* ---------- the hypertree: layers j .. j+cnt-1 ---------- *)
  Lemma ht_loop_inj sigHT sigHT' D : length sigHT = D * sz -> length sigHT' = D * sz ->
    forall cnt j it node node', j + cnt <= D ->
    htVerifyS_loop P HS cnt j sigHT pk it node = htVerifyS_loop P HS cnt j sigHT' pk it node' ->
    (node = node' /\ forall i, j <= i < j + cnt -> gchunk sz i sigHT = gchunk sz i sigHT') \/ wots_switch P HS pk \/ COLL.
  Proof.
    intros HL HL'. induction cnt as [|cnt IH]; intros j it node node' Hj E.
    - left. split; [exact E|intros; lia].
    - cbn [htVerifyS_loop] in E. apply IH in E; [|lia].
      destruct E as [[E Rest]|R]; [|right; exact R].
      apply xmss_layer in E; try (apply gchunk_length; nia).
      destruct E as [[E1 E2]|R]; [left|right; exact R].
      split; [exact E1|]. intros i Hi. destruct (Nat.eq_dec i j) as [->|Hne]; [exact E2|apply Rest; lia].
  Qed.

  (* ---------- FORS public key from signature, same indices ---------- *)
  Lemma fors_inj l t kp indices s s' :
    length s = p_k P * ((p_a P + 1) * n) -> length s' = p_k P * ((p_a P + 1) * n) ->
    forsPkFromSigS P HS l t kp indices s pk = forsPkFromSigS P HS l t kp indices s' pk -> s = s' \/ COLL.
  Proof.
    intros Hs Hs' E. destruct (bytes_eq_dec s s') as [e|ne]; [left; exact e|right].
    set (a := p_a P) in *.
    destruct (gchunks_diff n (p_k P * (a + 1)) s s' ltac:(lia) ltac:(lia) ne) as (c & Hc & Hd).
    (* the tree and the position inside its block *)
    pose proof (Nat.div_mod c (a + 1) ltac:(lia)) as Dm. pose proof (Nat.mod_upper_bound c (a + 1) ltac:(lia)) as Um.
    set (i := c / (a + 1)) in *. set (r := c mod (a + 1)) in *.
    assert (Hi : i < p_k P) by nia.
    unfold forsPkFromSigS in E. fold a in E.
    set (G := fun z i => let ind := nth i indices 0%N in
         let skv := firstn n (skipn (i * (a + 1) * n) z) in
         let auth := firstn ((i + 1) * (a + 1) * n - (i * (a + 1) + 1) * n) (skipn ((i * (a + 1) + 1) * n) z) in
         climbS P HS (fun h x => mkA l t T_FORSTREE kp h x) a 0 (forsLeafIdx P i ind) ind auth pk
                (hF HS pk (mkA l t T_FORSTREE kp 0 (forsLeafIdx P i ind)) skv)).
    change (hTl HS pk (mkA l t T_FORSROOTS kp 0 0) (flat_map (G s) (seq 0 (p_k P)))
            = hTl HS pk (mkA l t T_FORSROOTS kp 0 0) (flat_map (G s') (seq 0 (p_k P)))) in E.
    assert (LG : forall z j, length (G z j) = n).
    { intros z j. unfold G. cbv zeta. apply climbS_length. apply (hF_len _ _ OK). }
    apply hTl_inj in E; [|rewrite !(flat_map_seq_length _ 0 (p_k P) n); auto].
    destruct E as [E|C]; [|exact C].
    pose proof (flat_map_seq_inj _ _ n (p_k P) 0 ltac:(intros; apply LG) ltac:(intros; apply LG) E i ltac:(lia)) as Ei.
    unfold G in Ei. cbv zeta in Ei.
    replace ((i + 1) * (a + 1) * n - (i * (a + 1) + 1) * n) with (a * n) in Ei by nia.
    assert (Lau : forall z, length z = p_k P * ((a + 1) * n) -> forall j, 0 <= j < 0 + a ->
              length (chunk P j (firstn (a * n) (skipn ((i * (a + 1) + 1) * n) z))) = n).
    { intros z Hz j Hj. unfold chunk. fold (gchunk n j (firstn (a * n) (skipn ((i * (a + 1) + 1) * n) z))).
      rewrite gchunk_sub by lia. apply gchunk_length. nia. }
    apply climb_inj in Ei; try apply (hF_len _ _ OK).
    2:{ intros j Hj. split; [apply (Lau s)|apply (Lau s')]; auto. }
    destruct Ei as [[El Ea]|C]; [|exact C].
    destruct (Nat.eq_dec r 0) as [Hr|Hr].
    - (* the revealed secret value *)
      apply hF_inj in El.
      2:{ rewrite !firstn_length, !skipn_length. nia. }
      destruct El as [El|C]; [|exact C]. exfalso. apply Hd. unfold gchunk.
      replace (c * n) with (i * (a + 1) * n) by nia. exact El.
    - (* an authentication path node *)
      exfalso. apply Hd. specialize (Ea (r - 1) ltac:(lia)). unfold chunk in Ea.
      fold (gchunk n (r - 1) (firstn (a * n) (skipn ((i * (a + 1) + 1) * n) s))) in Ea.
      fold (gchunk n (r - 1) (firstn (a * n) (skipn ((i * (a + 1) + 1) * n) s'))) in Ea.
      rewrite !gchunk_sub in Ea by lia.
      replace (i * (a + 1) + 1 + (r - 1)) with c in Ea by lia. exact Ea.
  Qed.
End FORGERY.

(* ---------- the whole verification ---------- *)
Section TOP.
  Variable P : params.
  Variable HS : hashes.
  Hypothesis OK : hashes_ok P HS.
  Hypothesis WF : params_wf P.
  Notation n := (p_n P).

  (* what the digest contributes to the computation: FORS indices, tree, leaf *)
  Definition selectors (pkSeed pkRoot msg sig : bytes) : list N * N * N :=
    let '(md, it, il) := split_digest P (hHMsg HS (firstn n sig) pkSeed pkRoot msg) in
    (base2b md (p_a P) (p_k P), it, il).

  (* R || body *)
  Definition sig_body (sig : bytes) : bytes := skipn n sig.

  Theorem two_accepted_signatures : forall pkSeed pkRoot msg sig msg' sig',
    verifyInternal P HS pkSeed pkRoot msg sig = true ->
    verifyInternal P HS pkSeed pkRoot msg' sig' = true ->
    selectors pkSeed pkRoot msg sig = selectors pkSeed pkRoot msg' sig' ->
    sig_body sig = sig_body sig' \/ wots_switch P HS pkSeed \/ th_collision HS pkSeed.
  Proof.
    intros pkSeed pkRoot msg sig msg' sig' V V' Sel.
    rewrite verifyInternal_fips in V, V'. unfold verifyInternalS in V, V'. unfold selectors in Sel.
    destruct (Nat.eqb_spec (length sig) (sig_len P)) as [L|L]; [cbn [negb] in V|discriminate].
    destruct (Nat.eqb_spec (length sig') (sig_len P)) as [L'|L']; [cbn [negb] in V'|discriminate].
    destruct (split_digest P (hHMsg HS (firstn n sig) pkSeed pkRoot msg)) as [[md it] il].
    destruct (split_digest P (hHMsg HS (firstn n sig') pkSeed pkRoot msg')) as [[md' it'] il'].
    inversion Sel as [[Ei Et El]]. subst it' il'. rewrite <- Ei in V'. clear Ei Sel.
    set (ind := base2b md (p_a P) (p_k P)) in *.
    destruct WF as [Hh Hd].
    set (fi := 1 + p_k P * (1 + p_a P)) in *.
    set (sF := firstn (fi * n - n) (skipn n sig)) in *. set (sF' := firstn (fi * n - n) (skipn n sig')) in *.
    set (sH := skipn (fi * n) sig) in *. set (sH' := skipn (fi * n) sig') in *.
    assert (LsF : length sF = p_k P * ((p_a P + 1) * n) /\ length sF' = p_k P * ((p_a P + 1) * n)).
    { unfold sF, sF'. rewrite !firstn_length, !skipn_length, L, L'. unfold sig_len, fi. nia. }
    assert (LsH : length sH = p_d P * xmssSigSize P /\ length sH' = p_d P * xmssSigSize P).
    { unfold sH, sH'. rewrite !skipn_length, L, L'. unfold sig_len, fi, xmssSigSize. rewrite Hh. nia. }
    destruct LsF as [LF LF']. destruct LsH as [LH LH'].
    unfold htVerifyS in V, V'. apply beq_eq in V, V'. rewrite <- V' in V. clear V'.
    apply (ht_loop_inj P HS OK pkSeed sH sH' (p_d P) LH LH') in V; [|lia].
    destruct V as [[V Rest]|R]; [|right; exact R].
    fold (gchunk (xmssSigSize P) 0 sH) in V. fold (gchunk (xmssSigSize P) 0 sH') in V.
    apply (xmss_layer P HS OK) in V; try (rewrite firstn_length; nia).
    destruct V as [[V0 B0]|R]; [|right; exact R].
    apply (fors_inj P HS OK) in V0; auto.
    destruct V0 as [V0|C]; [left|right; right; exact C].
    assert (EH : sH = sH').
    { apply (gchunks_eq (xmssSigSize P) (p_d P)); auto. intros i Hi.
      destruct (Nat.eq_dec i 0) as [->|Hne]; [exact B0|apply Rest; lia]. }
    unfold sig_body.
    rewrite <- (firstn_skipn (fi * n - n) (skipn n sig)), <- (firstn_skipn (fi * n - n) (skipn n sig')).
    fold sF sF'. rewrite !skipn_add. replace (fi * n - n + n) with (fi * n) by (unfold fi; nia).
    fold sH sH'. congruence.
  Qed.

  (* the signature-modification clause: same message, same R, same key *)
  Corollary modified_signature_accepted : forall pkSeed pkRoot msg sig sig',
    verifyInternal P HS pkSeed pkRoot msg sig = true ->
    verifyInternal P HS pkSeed pkRoot msg sig' = true ->
    firstn n sig = firstn n sig' -> sig <> sig' ->
    wots_switch P HS pkSeed \/ th_collision HS pkSeed.
  Proof.
    intros pkSeed pkRoot msg sig sig' V V' ER Hne.
    destruct (two_accepted_signatures pkSeed pkRoot msg sig msg sig' V V') as [E|R]; [|exfalso|exact R].
    - unfold selectors. rewrite ER. reflexivity.
    - apply Hne. rewrite <- (firstn_skipn n sig), <- (firstn_skipn n sig'). unfold sig_body in E. congruence.
  Qed.

  (* the key-modification clause (same PK.seed): one signature cannot verify under two roots
     unless the digests select differently *)
  Corollary two_roots : forall pkSeed pkRoot pkRoot' msg sig,
    verifyInternal P HS pkSeed pkRoot msg sig = true ->
    verifyInternal P HS pkSeed pkRoot' msg sig = true ->
    (let '(md, it, il) := split_digest P (hHMsg HS (firstn n sig) pkSeed pkRoot msg) in (base2b md (p_a P) (p_k P), it, il))
    = (let '(md, it, il) := split_digest P (hHMsg HS (firstn n sig) pkSeed pkRoot' msg) in (base2b md (p_a P) (p_k P), it, il)) ->
    pkRoot = pkRoot'.
  Proof.
    intros pkSeed pkRoot pkRoot' msg sig V V' Sel.
    rewrite verifyInternal_fips in V, V'. unfold verifyInternalS in V, V'.
    destruct (negb (Nat.eqb (length sig) (sig_len P))); [discriminate|].
    destruct (split_digest P (hHMsg HS (firstn n sig) pkSeed pkRoot msg)) as [[md it] il].
    destruct (split_digest P (hHMsg HS (firstn n sig) pkSeed pkRoot' msg)) as [[md' it'] il'].
    inversion Sel as [[Ei Et El]]. subst it' il'. rewrite <- Ei in V'.
    unfold htVerifyS in V, V'. apply beq_eq in V, V'. congruence.
  Qed.
End TOP.
